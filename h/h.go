// Package h is the shared recording layer of the verification harness: every
// property package reports the cases it generated, their classes, whether
// they were non-trivial, and failures (with a replay file) through it.  The
// driver (tools/check.py) aggregates the per-process stats files into
// evidence/<ID>.json.
package h

import (
	"bufio"
	"crypto/sha256"
	"encoding/hex"
	"encoding/json"
	"fmt"
	"os"
	"path/filepath"
	"regexp"
	"runtime/debug"
	"sort"
	"strconv"
	"strings"
	"sync"
)

// Failure describes a property violation found on one case.
type Failure struct {
	Sig string // stable signature: oracle clause or panic call site
	Msg string // human readable detail
}

func (f *Failure) Error() string { return f.Sig + ": " + f.Msg }

// Failf builds a Failure.
func Failf(sig, format string, args ...any) *Failure {
	return &Failure{Sig: sig, Msg: fmt.Sprintf(format, args...)}
}

// Outcome is what running one case yields.
type Outcome struct {
	Nontrivial bool
	Classes    []string
	Fail       *Failure
	// Known holds failures whose signature is listed as a known finding; they
	// are counted and the case continues (exclusion by construction).
	Known []*Failure
}

// Class adds a class label.
func (o *Outcome) Class(c string) { o.Classes = append(o.Classes, c) }

// TB is the part of testing.TB / rapid.T the recorder needs.
type TB interface {
	Fatalf(format string, args ...any)
}

// Rec collects statistics for one test process.
type Rec struct {
	mu          sync.Mutex
	Prop        string
	part        string
	out         string
	Tier        string
	Seed        int
	Shard       int
	NShards     int
	evals       int
	classes     map[string]int
	ntHashes    map[[8]byte]struct{}
	samples     []json.RawMessage
	ntSamples   []json.RawMessage
	known       map[string]string // sig -> text (from known-findings.txt)
	knownSeen   map[string]int
	knownEx     map[string]json.RawMessage
	failed      bool
	failLen     int
	rule        string
	assumptions []string
	extra       map[string]any
	exhaustive  *bool
}

var (
	recMu sync.Mutex
	recs  = map[string]*Rec{}
)

func envInt(name string, def int) int {
	if v := os.Getenv(name); v != "" {
		if n, err := strconv.Atoi(v); err == nil {
			return n
		}
	}
	return def
}

// Tier returns "quick" or "thorough".
func Tier() string {
	if os.Getenv("VERIF_TIER") == "thorough" {
		return "thorough"
	}
	return "quick"
}

// Thorough reports whether the thorough tier is running.
func Thorough() bool { return Tier() == "thorough" }

// Pick returns q in the quick tier and th in the thorough tier.
func Pick(q, th int) int {
	if Thorough() {
		return th
	}
	return q
}

// Shard returns (shard, nshards).
func Shard() (int, int) {
	n := envInt("VERIF_NSHARDS", 1)
	if n < 1 {
		n = 1
	}
	return envInt("VERIF_SHARD", 0) % n, n
}

// Begin returns the recorder for (property, part).  part distinguishes several
// tests of one property in one process ("" if only one).
func Begin(prop, part string) *Rec {
	recMu.Lock()
	defer recMu.Unlock()
	key := prop + "/" + part
	if r, ok := recs[key]; ok {
		return r
	}
	out := os.Getenv("VERIF_OUT")
	if out == "" {
		out = filepath.Join(os.TempDir(), "verif-out-"+strconv.Itoa(os.Getpid()))
	}
	_ = os.MkdirAll(out, 0o755)
	sh, n := Shard()
	r := &Rec{
		Prop: prop, out: out, Tier: Tier(), Seed: envInt("VERIF_SEED", 1),
		Shard: sh, NShards: n,
		classes: map[string]int{}, ntHashes: map[[8]byte]struct{}{},
		known: map[string]string{}, knownSeen: map[string]int{}, knownEx: map[string]json.RawMessage{},
		extra: map[string]any{},
	}
	r.loadKnown()
	recs[key] = r
	r.part = part
	return r
}

func (r *Rec) loadKnown() {
	p := os.Getenv("VERIF_KNOWN")
	if p == "" {
		p = "/verif/known-findings.txt"
	}
	f, err := os.Open(p)
	if err != nil {
		return
	}
	defer f.Close()
	sc := bufio.NewScanner(f)
	re := regexp.MustCompile(`^finding:\s+property=(\S+)\s+key=(\S+)\s*(.*)$`)
	for sc.Scan() {
		m := re.FindStringSubmatch(strings.TrimSpace(sc.Text()))
		if m == nil || m[1] != r.Prop {
			continue
		}
		r.known[m[2]] = m[3]
	}
}

// IsKnown reports whether sig is listed as a known finding for this property.
func (r *Rec) IsKnown(sig string) bool {
	_, ok := r.known[sig]
	return ok
}

// SetRule sets the evidence rule text (how cases are generated and what makes
// one non-trivial).
func (r *Rec) SetRule(rule string, assumptions ...string) {
	r.mu.Lock()
	defer r.mu.Unlock()
	r.rule = rule
	r.assumptions = assumptions
}

// SetExhaustive marks the part as a complete enumeration of a finite space.
func (r *Rec) SetExhaustive(b bool) {
	r.mu.Lock()
	defer r.mu.Unlock()
	r.exhaustive = &b
}

// Extra stores an additional coverage key.
func (r *Rec) Extra(k string, v any) {
	r.mu.Lock()
	defer r.mu.Unlock()
	r.extra[k] = v
}

// AddExtra adds n to a numeric extra coverage key.
func (r *Rec) AddExtra(k string, n int) {
	r.mu.Lock()
	defer r.mu.Unlock()
	cur, _ := r.extra[k].(int)
	r.extra[k] = cur + n
}

// Canon returns the canonical JSON of a case.
func Canon(c any) []byte {
	b, err := json.Marshal(c)
	if err != nil {
		panic("h.Canon: " + err.Error())
	}
	return b
}

// Failed reports whether a violation was already recorded (rapid is
// shrinking; statistics are frozen).
func (r *Rec) Failed() bool {
	r.mu.Lock()
	defer r.mu.Unlock()
	return r.failed
}

// Report records one executed case and, when it failed with an unknown
// signature, writes the replay file and fails the test.
func (r *Rec) Report(t TB, c any, o *Outcome) {
	cj := Canon(c)
	r.mu.Lock()
	if !r.failed {
		r.evals++
		for _, cl := range o.Classes {
			r.classes[cl]++
		}
		if o.Nontrivial {
			sum := sha256.Sum256(cj)
			var k [8]byte
			copy(k[:], sum[:8])
			if _, dup := r.ntHashes[k]; !dup {
				r.ntHashes[k] = struct{}{}
				if len(r.ntSamples) < 3 && len(cj) < 6000 {
					r.ntSamples = append(r.ntSamples, cj)
				}
			}
		} else if len(r.samples) < 1 && len(cj) < 6000 {
			r.samples = append(r.samples, cj)
		}
		for _, k := range o.Known {
			r.knownSeen[k.Sig]++
			if _, ok := r.knownEx[k.Sig]; !ok && len(cj) < 20000 {
				ex, _ := json.Marshal(map[string]any{"msg": k.Msg, "case": json.RawMessage(cj)})
				r.knownEx[k.Sig] = ex
			}
		}
	}
	f := o.Fail
	if f != nil && r.IsKnown(f.Sig) {
		// listed finding that the property function did not divert itself
		if !r.failed {
			r.knownSeen[f.Sig]++
			if _, ok := r.knownEx[f.Sig]; !ok && len(cj) < 20000 {
				ex, _ := json.Marshal(map[string]any{"msg": f.Msg, "case": json.RawMessage(cj)})
				r.knownEx[f.Sig] = ex
			}
		}
		f = nil
	}
	if f == nil {
		r.mu.Unlock()
		return
	}
	// violation: keep the smallest failing case seen (rapid keeps shrinking)
	if !r.failed || len(cj) < r.failLen {
		r.failed = true
		r.failLen = len(cj)
		rep := map[string]any{
			"property": r.Prop, "part": r.part, "sig": f.Sig, "msg": f.Msg,
			"tier": r.Tier, "seed": r.Seed, "shard": r.Shard,
			"case": json.RawMessage(cj),
		}
		b, _ := json.MarshalIndent(rep, "", " ")
		_ = os.WriteFile(filepath.Join(r.out, "fail-"+r.fileTag()+".json"), b, 0o644)
	}
	r.mu.Unlock()
	r.Flush()
	t.Fatalf("VIOLATION-CANDIDATE %s sig=%s: %s", r.Prop, f.Sig, f.Msg)
}

func (r *Rec) fileTag() string {
	tag := r.part
	if tag == "" {
		tag = "main"
	}
	return fmt.Sprintf("%s-%d", tag, r.Shard)
}

// Flush writes the stats file of this recorder.
func (r *Rec) Flush() {
	r.mu.Lock()
	defer r.mu.Unlock()
	hashes := make([]string, 0, len(r.ntHashes))
	for k := range r.ntHashes {
		hashes = append(hashes, hex.EncodeToString(k[:]))
	}
	sort.Strings(hashes)
	samples := append([]json.RawMessage{}, r.ntSamples...)
	samples = append(samples, r.samples...)
	st := map[string]any{
		"property": r.Prop, "part": r.part, "tier": r.Tier, "seed": r.Seed,
		"shard": r.Shard, "nshards": r.NShards,
		"evaluations": r.evals, "classes": r.classes, "nontrivial_hashes": hashes,
		"samples": samples, "known_seen": r.knownSeen, "known_examples": r.knownEx,
		"rule": r.rule, "assumptions": r.assumptions, "extra": r.extra,
		"failed": r.failed,
	}
	if r.exhaustive != nil {
		st["exhaustive"] = *r.exhaustive
	}
	b, _ := json.Marshal(st)
	_ = os.WriteFile(filepath.Join(r.out, "stats-"+r.fileTag()+".json"), b, 0o644)
}

// FlushAll flushes every recorder of the process (call from TestMain).
func FlushAll() {
	recMu.Lock()
	rs := make([]*Rec, 0, len(recs))
	for _, r := range recs {
		rs = append(rs, r)
	}
	recMu.Unlock()
	for _, r := range rs {
		r.Flush()
	}
}

// MarkCurrent writes the case that is about to run to current-<tag>.json so
// that the driver can attribute a process death to it.
func (r *Rec) MarkCurrent(c any) {
	_ = os.WriteFile(filepath.Join(r.out, "current-"+r.fileTag()+".json"), Canon(c), 0o644)
}

var perunFrame = regexp.MustCompile(`(?m)^(perun\.network/go-perun/[^\s(]+(?:\([^)]*\))?[^\s(]*)\(`)

// PanicSig derives a finding signature from a recovered panic value and the
// stack: "panic:<innermost go-perun function>".
func PanicSig(stack []byte) string {
	return "panic:" + InnermostPerunFrame(string(stack))
}

// InnermostPerunFrame returns the first go-perun function in a stack dump that
// is not the logging/panic helper.
func InnermostPerunFrame(stack string) string {
	for _, line := range strings.Split(stack, "\n") {
		line = strings.TrimSpace(line)
		if !strings.HasPrefix(line, "perun.network/go-perun/") {
			continue
		}
		if strings.HasPrefix(line, "perun.network/go-perun/log") {
			continue
		}
		// strip argument list
		if i := strings.LastIndex(line, "("); i > 0 {
			line = line[:i]
		}
		line = strings.TrimPrefix(line, "perun.network/go-perun/")
		// closures: keep the enclosing function name
		line = regexp.MustCompile(`\.func\d+(\.\d+)*$`).ReplaceAllString(line, "")
		return line
	}
	return "unknown"
}

// Guard runs f and converts a panic into a Failure whose signature names the
// innermost go-perun frame.
func Guard(f func() *Failure) (fail *Failure) {
	defer func() {
		if rec := recover(); rec != nil {
			st := debug.Stack()
			fail = &Failure{Sig: PanicSig(st), Msg: fmt.Sprintf("panic: %v", rec)}
		}
	}()
	return f()
}

// LoadReplay reads the "case" member of a replay file into c.  It also
// accepts a bare case.
func LoadReplay(path string, c any) error {
	b, err := os.ReadFile(path)
	if err != nil {
		return err
	}
	var wrap struct {
		Case json.RawMessage `json:"case"`
	}
	if err := json.Unmarshal(b, &wrap); err == nil && len(wrap.Case) > 0 {
		return json.Unmarshal(wrap.Case, c)
	}
	return json.Unmarshal(b, c)
}

// ReplayPath returns the replay file requested by the driver ("" if none).
func ReplayPath() string { return os.Getenv("VERIF_REPLAY") }

// ReplayPart returns the "part" member of the replay file ("" if absent).
func ReplayPart(path string) string {
	b, err := os.ReadFile(path)
	if err != nil {
		return ""
	}
	var wrap struct {
		Part string `json:"part"`
	}
	_ = json.Unmarshal(b, &wrap)
	return wrap.Part
}

// ParseFuzzCorpus parses a file in Go's native fuzz corpus format ("go test
// fuzz v1") and returns its values ([]byte, uint8, int, string supported).
// ok is false when the file is not in that format.
func ParseFuzzCorpus(path string) (vals []any, ok bool) {
	b, err := os.ReadFile(path)
	if err != nil {
		return nil, false
	}
	lines := strings.Split(strings.TrimSpace(string(b)), "\n")
	if len(lines) == 0 || !strings.HasPrefix(lines[0], "go test fuzz v1") {
		return nil, false
	}
	for _, l := range lines[1:] {
		l = strings.TrimSpace(l)
		switch {
		case strings.HasPrefix(l, "[]byte(") && strings.HasSuffix(l, ")"):
			s, err := strconv.Unquote(l[len("[]byte(") : len(l)-1])
			if err != nil {
				return nil, false
			}
			vals = append(vals, []byte(s))
		case strings.HasPrefix(l, "string(") && strings.HasSuffix(l, ")"):
			s, err := strconv.Unquote(l[len("string(") : len(l)-1])
			if err != nil {
				return nil, false
			}
			vals = append(vals, s)
		case strings.HasPrefix(l, "uint8(") || strings.HasPrefix(l, "byte("):
			inner := l[strings.Index(l, "(")+1 : len(l)-1]
			if strings.HasPrefix(inner, "'") {
				r, _, _, err := strconv.UnquoteChar(inner[1:len(inner)-1], '\'')
				if err != nil {
					return nil, false
				}
				vals = append(vals, uint8(r))
			} else {
				n, err := strconv.ParseUint(inner, 0, 8)
				if err != nil {
					return nil, false
				}
				vals = append(vals, uint8(n))
			}
		case strings.HasPrefix(l, "int("):
			n, err := strconv.Atoi(l[4 : len(l)-1])
			if err != nil {
				return nil, false
			}
			vals = append(vals, n)
		default:
			return nil, false
		}
	}
	return vals, true
}
