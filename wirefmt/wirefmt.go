// Package wirefmt is an independent writer for go-perun's native wire format.
// It exists so that the harness can produce encodings the library's own
// encoder refuses to produce (counts above the documented limits with all
// declared elements present, over-long integers, unknown backend ids, negative
// lengths, empty participant maps).  It does not import perunio.
package wirefmt

import (
	"encoding/binary"
	"math/big"
)

// W is an append-only byte writer.
type W struct{ B []byte }

func (w *W) U8(v uint8) { w.B = append(w.B, v) }
func (w *W) Bool(v bool) {
	if v {
		w.U8(1)
	} else {
		w.U8(0)
	}
}
func (w *W) U16(v uint16) { w.B = binary.LittleEndian.AppendUint16(w.B, v) }
func (w *W) U32(v uint32) { w.B = binary.LittleEndian.AppendUint32(w.B, v) }
func (w *W) U64(v uint64) { w.B = binary.LittleEndian.AppendUint64(w.B, v) }
func (w *W) I32(v int32)  { w.U32(uint32(v)) }
func (w *W) Raw(b []byte) { w.B = append(w.B, b...) }

// Bin writes a BinaryMarshaler blob: uint16 length + data.
func (w *W) Bin(b []byte) { w.U16(uint16(len(b))); w.Raw(b) }

// Str writes a string: uint16 length + data.
func (w *W) Str(s string) { w.U16(uint16(len(s))); w.Raw([]byte(s)) }

// Big writes a big integer: one length byte + big-endian magnitude.
func (w *W) Big(v *big.Int) { b := v.Bytes(); w.U8(uint8(len(b))); w.Raw(b) }

// BigRaw writes a big integer with an explicit declared length and payload.
func (w *W) BigRaw(declared int, payload []byte) { w.U8(uint8(declared)); w.Raw(payload) }

// Asset writes one asset entry of an allocation: backend id + 8 byte sim asset.
func (w *W) Asset(backend uint32, id uint64) {
	w.U32(backend)
	w.U16(8)
	w.B = binary.BigEndian.AppendUint64(w.B, id)
}

// WalletAddr writes a sim wallet address (64 bytes) as BinaryMarshaler.
func (w *W) WalletAddr(seed byte) {
	b := make([]byte, 64)
	for i := range b {
		b[i] = seed + byte(i)
	}
	w.Bin(b)
}

// WireAddr writes a sim wire address (32 bytes) as BinaryMarshaler.
func (w *W) WireAddr(seed byte) {
	b := make([]byte, 32)
	for i := range b {
		b[i] = seed ^ byte(i)
	}
	w.Bin(b)
}

// WalletMap writes a wallet address map with the given declared length and
// entries (backend keys).
func (w *W) WalletMap(declared int32, keys []int32) {
	w.I32(declared)
	for i, k := range keys {
		w.I32(k)
		w.WalletAddr(byte(i))
	}
}

// WireMap writes a wire address map.
func (w *W) WireMap(declared int32, keys []int32) {
	w.I32(declared)
	for i, k := range keys {
		w.I32(k)
		w.WireAddr(byte(i))
	}
}

// AllocOpts describes a (possibly hostile) allocation.
type AllocOpts struct {
	Assets, Parts, Locked             int // real element counts
	DeclAssets, DeclParts, DeclLocked int // declared in the header (-1 = same as real)
	BalAssets, BalParts               int // dimensions declared by the embedded Balances (-1 = same)
	Backend                           uint32
	SubBals                           int // balances per locked entry (-1 = Assets)
	IndexMapLen                       int
	Bal                               *big.Int
	BigDeclared                       int // if > 0: every balance is written with this declared length and that many bytes
}

func pick(v, def int) int {
	if v < 0 {
		return def
	}
	return v
}

func (w *W) bal(o AllocOpts) {
	if o.BigDeclared > 0 {
		p := make([]byte, o.BigDeclared)
		p[0] = 1
		w.BigRaw(o.BigDeclared, p)
		return
	}
	if o.Bal != nil {
		w.Big(o.Bal)
		return
	}
	w.Big(big.NewInt(1))
}

// Balances writes a balances block.
func (w *W) Balances(declAssets, declParts, assets, parts int, o AllocOpts) {
	w.U16(uint16(declAssets))
	w.U16(uint16(declParts))
	for i := 0; i < assets*parts; i++ {
		w.bal(o)
	}
}

// SubAlloc writes a sub-allocation.
func (w *W) SubAlloc(id byte, declBals, bals, imap int, o AllocOpts) {
	var cid [32]byte
	cid[31] = id
	w.Raw(cid[:])
	w.U16(uint16(declBals))
	for i := 0; i < bals; i++ {
		w.bal(o)
	}
	w.U16(uint16(imap))
	for i := 0; i < imap; i++ {
		w.U16(uint16(i))
	}
}

// Alloc writes an allocation.
func (w *W) Alloc(o AllocOpts) {
	w.U16(uint16(pick(o.DeclAssets, o.Assets)))
	w.U16(uint16(pick(o.DeclParts, o.Parts)))
	w.U16(uint16(pick(o.DeclLocked, o.Locked)))
	for i := 0; i < o.Assets; i++ {
		w.Asset(o.Backend, uint64(i))
	}
	w.Balances(pick(o.BalAssets, o.Assets), pick(o.BalParts, o.Parts), o.Assets, o.Parts, o)
	for i := 0; i < o.Locked; i++ {
		sb := pick(o.SubBals, o.Assets)
		w.SubAlloc(byte(i), sb, sb, o.IndexMapLen, o)
	}
}

// State writes a no-app state around the allocation.
func (w *W) State(version uint64, final bool, o AllocOpts) {
	var id [32]byte
	id[0] = 7
	w.Raw(id[:])
	w.U64(version)
	w.Alloc(o)
	w.Bool(final)
	w.Bool(false) // no app
	w.U16(0)      // no data
}

// ParamsOpts describes (possibly hostile) channel parameters.
type ParamsOpts struct {
	ChallengeDuration uint64
	Parts             int
	DeclParts         int32 // -1 = same
	EmptyMapAt        int   // index of a participant whose map is empty (-1 none)
	BackendKey        int32 // key used in the participant maps
	NonceLen          int
}

// Params writes channel parameters.
func (w *W) Params(o ParamsOpts) {
	w.U64(o.ChallengeDuration)
	decl := o.DeclParts
	if decl < 0 {
		decl = int32(o.Parts)
	}
	w.I32(decl)
	for i := 0; i < o.Parts; i++ {
		if i == o.EmptyMapAt {
			w.I32(0)
			continue
		}
		w.I32(1)
		w.I32(o.BackendKey)
		w.WalletAddr(byte(i))
	}
	w.Bool(false) // no app
	n := make([]byte, o.NonceLen)
	if o.NonceLen > 0 {
		n[0] = 1
	}
	w.BigRaw(o.NonceLen, n)
	w.Bool(true)
	w.Bool(false)
	w.Raw(make([]byte, 256))
}
