// Package mach is the machine-operation alphabet of DESIGN.md §2.3 as plain
// data, together with an executor that applies such operations to a real
// channel.StateMachine, an enumerator of all concrete operations and a rapid
// generator of operation sequences.  It is shared by the checks that drive a
// state machine (C09, C01, ...).
//
// Nothing in this package is an oracle: the executor only turns symbolic
// arguments ("the signature of participant 1 over an earlier state") into
// concrete ones and records how it built them, so that an oracle can decide
// independently what the documented outcome is.
package mach

import (
	"bytes"
	"crypto/sha256"
	"errors"
	"fmt"
	"math/big"
	"sync"

	"perun.network/go-perun/channel"
	"perun.network/go-perun/wallet"

	"verif/gen"
	"verif/h"
)

// Operation kinds.
const (
	Init        = "init"
	Update      = "update"
	ForceUpdate = "force-update"
	CheckUpdate = "check-update"
	Sig         = "sig"
	// SigFault is Sig() while the own account's signer is broken: SignData hands
	// back a cut-off answer together with an error.  Only the random generator
	// offers it; it is not part of the enumerated alphabet.
	SigFault       = "sig-fault"
	AddSig         = "add-sig"
	Discard        = "discard"
	EnableInit     = "enable-init"
	EnableUpdate   = "enable-update"
	EnableFinal    = "enable-final"
	SetFunded      = "set-funded"
	SetRegistering = "set-registering"
	SetRegistered  = "set-registered"
	SetProgressing = "set-progressing"
	SetProgressed  = "set-progressed"
	SetWithdrawing = "set-withdrawing"
	SetWithdrawn   = "set-withdrawn"
)

// Signature kinds (argument S of add-sig and check-update).
const (
	SigValid    = "valid"    // participant I over the state it is offered for
	SigOther    = "other"    // a different participant over that state
	SigReplayed = "replayed" // participant I over a different, earlier staged state
	SigRandom   = "random"   // 64 fixed pseudo-random bytes
	SigWrongLen = "wronglen" // a valid signature cut to 63 bytes
	SigNil      = "nil"      // nil
	// SigTooLong is a valid signature followed by one more byte (a 65 byte
	// r||s||v blob); only the random generator offers it, it is not part of the
	// enumerated alphabet
	SigTooLong = "toolong"
)

// SigKinds lists all signature kinds.
var SigKinds = []string{SigValid, SigOther, SigReplayed, SigRandom, SigWrongLen, SigNil}

// Candidate-state kinds (argument C).  All candidates keep the allocation's
// dimensions and assets and carry the channel's app with NoData.
const (
	CandNext     = "next"     // valid successor of the current state: version+1, equal sums, actor pays
	CandFinal    = "final"    // valid successor with the final flag
	CandWrongVer = "wrongver" // version+2
	CandSumOff   = "sumoff"   // version+1, one balance +1
	CandBadActor = "badactor" // valid successor, actor index = N
	CandForeign  = "foreign"  // valid successor but a different channel id
	CandArb      = "arb"      // arbitrary: version+5, sum +3, not final
	CandArbFinal = "arbfinal" // arbitrary and final
	CandFewCols  = "fewcols"  // successor whose balance rows have one column less than the channel has participants (force-update only, opt-in)

	InitValid    = "valid"
	InitWrongDim = "wrongdim" // N+1 balance columns
	InitBadData  = "baddata"  // data type the app refuses (no-app only; the payment app is documented to panic)
)

// Op is one symbolic machine operation.
type Op struct {
	K string `json:"k"`           // operation kind
	I int    `json:"i,omitempty"` // participant index: signature slot (add-sig, check-update), actor (update, force-update)
	S string `json:"s,omitempty"` // signature kind
	C string `json:"c,omitempty"` // candidate-state kind / init kind
}

func (o Op) String() string {
	s := o.K
	if o.C != "" {
		s += "/" + o.C
	}
	if o.S != "" {
		s += "/" + o.S
	}
	if o.K == AddSig {
		s += fmt.Sprintf("@%d", o.I)
	}
	return s
}

// Label is the class label of an op: kind plus symbolic arguments without the
// index.
func (o Op) Label() string {
	s := o.K
	if o.C != "" {
		s += "/" + o.C
	}
	if o.S != "" {
		s += "/" + o.S
	}
	return s
}

// Config fixes the channel a case runs on.
type Config struct {
	N      int    `json:"n"`      // participants (accounts gen.Acc(0..N-1))
	Idx    int    `json:"idx"`    // own index of the machine
	App    string `json:"app"`    // "none" or "payment"
	Assets int    `json:"assets"` // number of assets (1..2)
	Bal    uint64 `json:"bal"`    // base balance: participant p holds Bal+p of asset a (+10a)
}

// Case is a complete machine case: a channel and an operation sequence.
type Case struct {
	Cfg Config `json:"cfg"`
	Ops []Op   `json:"ops"`
}

// paymentDef is the fixed payment app definition used by machine cases.
var paymentDef = func() gen.Hex {
	d := make([]byte, 64)
	d[0] = gen.PaymentDefByte
	d[63] = 7
	return gen.HexOf(d)
}()

// ---------------------------------------------------------------- executor

// Seen is a state that was staged on the machine under test at some point.
type Seen struct {
	State *channel.State
	Enc   []byte
}

// Exec drives one real channel.StateMachine.
type Exec struct {
	Cfg    Config
	M      *channel.StateMachine
	Params *channel.Params
	Base   *channel.State // the state Init(valid) is documented to stage
	Hist   []Seen         // states staged so far (successful staging calls), oldest first
	acc    *faultyAccount
}

// Call is an Op resolved to concrete arguments, plus the facts about their
// construction that an oracle needs (who signed what, how the candidate
// relates to the current state).
type Call struct {
	Op Op
	// Skip is non-empty when the op is outside the documented domain in the
	// machine's present situation and is therefore not applied.
	Skip string
	// Unspecified is non-empty when the op is applied but the documentation does
	// not say what happens (only read-only-ness may be asserted).
	Unspecified string

	// Init
	Alloc    *channel.Allocation
	Data     channel.Data
	InitSt   *channel.State // state Init is documented to stage for (Alloc, Data); nil if the arguments are invalid
	InitEnc  []byte
	InitGood bool // arguments satisfy the documented requirements (dimensions, app data)

	// candidate state (update, force-update, check-update, set-progressing, set-progressed)
	State    *channel.State
	StateEnc []byte
	Actor    channel.Index
	// CandGood: the candidate was constructed as a valid successor of the
	// machine's current state under the documented generic rules (id, version+1,
	// equal sums, valid allocation, same assets, app rule) and the actor is in
	// range; whether the current state is final is NOT taken into account.
	CandGood bool

	// signature (add-sig, check-update)
	SigIdx    channel.Index
	Sig       wallet.Sig
	SigSigner int    // participant that produced the signature, -1 if it is no signature at all
	SigOver   []byte // encoding of the state that was signed (nil if none)
	SigEff    string // effective kind; SigReplayed becomes "otherstate" when no earlier different state exists
}

// Result is what applying a Call yielded.
type Result struct {
	Err   error
	Panic *h.Failure // a recovered panic
	Sig   wallet.Sig // result of Sig()
}

// Enc returns the native encoding of a state (nil for nil).
func Enc(s *channel.State) []byte {
	if s == nil {
		return nil
	}
	var b bytes.Buffer
	if err := s.Encode(&b); err != nil {
		panic("mach: state not encodable: " + err.Error())
	}
	return b.Bytes()
}

// EncTx returns the native encoding of a transaction.
func EncTx(tx channel.Transaction) []byte {
	var b bytes.Buffer
	if err := tx.Encode(&b); err != nil {
		panic("mach: transaction not encodable: " + err.Error())
	}
	return b.Bytes()
}

// App builds the app of the config.
func (c Config) AppValue() channel.App {
	if c.App == "payment" {
		return gen.AppSpec{Kind: "payment", Def: paymentDef}.Build()
	}
	return channel.NoApp()
}

// Valid reports whether the config is in the supported range.
func (c Config) Valid() bool {
	return c.N >= 2 && c.N <= 4 && c.Idx >= 0 && c.Idx < c.N && (c.App == "none" || c.App == "payment") && c.Assets >= 1 && c.Assets <= 2
}

// faultyAccount is the machine's own account; while broken, signing fails the
// way a remote signer with a cut-off answer does: some bytes and an error.
type faultyAccount struct {
	wallet.Account
	broken bool
}

func (a *faultyAccount) SignData(data []byte) ([]byte, error) {
	if a.broken {
		sig, _ := a.Account.SignData(data)
		if len(sig) > 7 {
			sig = sig[:7]
		}
		return sig, errors.New("mach: signer answer cut off")
	}
	return a.Account.SignData(data)
}

// Addr returns the address of participant i.
func Addr(i int) wallet.Address { return gen.Acc(i).Address() }

// New builds fresh params and a fresh state machine for cfg.
func New(cfg Config) (*Exec, error) {
	if !cfg.Valid() {
		return nil, fmt.Errorf("mach: unsupported config %+v", cfg)
	}
	parts := make([]map[wallet.BackendID]wallet.Address, cfg.N)
	for i := range parts {
		parts[i] = gen.Addr(i)
	}
	nonce := big.NewInt(int64(1000 + cfg.N*10 + cfg.Assets))
	params := channel.NewParamsUnsafe(60, parts, cfg.AppValue(), nonce, true, false, channel.Aux{})
	acc := &faultyAccount{Account: gen.Acc(cfg.Idx)}
	m, err := channel.NewStateMachine(map[wallet.BackendID]wallet.Account{0: acc}, *params)
	if err != nil {
		return nil, err
	}
	e := &Exec{Cfg: cfg, M: m, Params: params, acc: acc}
	e.Base = e.initState(e.initAlloc(cfg.N), channel.NoData())
	return e, nil
}

func (e *Exec) initAlloc(cols int) *channel.Allocation {
	a := gen.AllocSpec{Locked: []gen.SubAllocSpec{}}
	for as := 0; as < e.Cfg.Assets; as++ {
		a.Assets = append(a.Assets, uint64(as+1))
		a.Backends = append(a.Backends, 0)
		row := make([]gen.Big, cols)
		for p := range row {
			row[p] = gen.BigU(e.Cfg.Bal + uint64(p) + 10*uint64(as))
		}
		a.Bals = append(a.Bals, row)
	}
	al := a.Build()
	return &al
}

// initState is the state Init is documented to create ("sets the initial
// staging state to the given balance and data"): version 0, the params' id and
// app, not final.
func (e *Exec) initState(a *channel.Allocation, d channel.Data) *channel.State {
	return &channel.State{ID: e.Params.ID(), Version: 0, App: e.Params.App, Allocation: a.Clone(), Data: d}
}

// cur returns the state candidates are derived from: the machine's current
// state or, while there is none, the canonical initial state.
func (e *Exec) cur() *channel.State {
	if s := e.M.CurrentTX().State; s != nil {
		return s
	}
	return e.Base
}

// candidate builds a candidate state of the given kind relative to base.
func (e *Exec) candidate(kind string, actor int, base *channel.State) *channel.State {
	s := &channel.State{
		ID: e.Params.ID(), Version: base.Version + 1, App: e.Params.App, Data: channel.NoData(),
		Allocation: base.Allocation.Clone(),
	}
	if s.Allocation.Locked == nil {
		s.Allocation.Locked = []channel.SubAlloc{}
	}
	n := e.Cfg.N
	pay := func() {
		// the actor pays one unit of asset 0 to its right neighbour if it can
		// (a forced state may have fewer balance columns than participants)
		n := len(s.Balances[0])
		if n < 2 {
			return
		}
		a := actor % n
		if s.Balances[0][a].Sign() > 0 {
			s.Balances[0][a] = new(big.Int).Sub(s.Balances[0][a], big.NewInt(1))
			b := (a + 1) % n
			s.Balances[0][b] = new(big.Int).Add(s.Balances[0][b], big.NewInt(1))
		}
	}
	switch kind {
	case CandNext, CandBadActor:
		pay()
	case CandFinal:
		pay()
		s.IsFinal = true
	case CandWrongVer:
		pay()
		s.Version = base.Version + 2
	case CandSumOff:
		if len(s.Balances[0]) > 0 {
			s.Balances[0][0] = new(big.Int).Add(s.Balances[0][0], big.NewInt(1))
		}
	case CandForeign:
		pay()
		s.ID[0] ^= 0xff
	case CandFewCols:
		pay()
		for a := range s.Balances {
			if len(s.Balances[a]) == n {
				s.Balances[a] = s.Balances[a][:n-1]
			}
		}
	case CandArb, CandArbFinal:
		s.Version = base.Version + 5
		if l := len(s.Balances[0]); l > 0 {
			s.Balances[0][l-1] = new(big.Int).Add(s.Balances[0][l-1], big.NewInt(3))
		}
		s.IsFinal = kind == CandArbFinal
	default:
		panic("mach: unknown candidate kind " + kind)
	}
	return s
}

// ---------------------------------------------------------------- signatures

type sigKey struct {
	signer int
	sum    [32]byte
}

var (
	sigMu    sync.Mutex
	sigCache = map[sigKey]wallet.Sig{}
)

// SignCached returns participant signer's signature over the state with
// encoding enc; signatures are cached per (signer, encoding) for the process.
func SignCached(signer int, s *channel.State, enc []byte) wallet.Sig {
	k := sigKey{signer, sha256.Sum256(enc)}
	sigMu.Lock()
	defer sigMu.Unlock()
	if sig, ok := sigCache[k]; ok {
		return sig
	}
	if len(sigCache) > 200000 {
		sigCache = map[sigKey]wallet.Sig{}
	}
	sig, err := channel.Sign(gen.Acc(signer), s, 0)
	if err != nil {
		panic("mach: sign: " + err.Error())
	}
	sigCache[k] = sig
	return sig
}

var randomSig = func() wallet.Sig {
	b := make([]byte, 0, 64)
	x := sha256.Sum256([]byte("mach random signature 1"))
	y := sha256.Sum256([]byte("mach random signature 2"))
	b = append(b, x[:]...)
	b = append(b, y[:]...)
	b[0] &= 0x7f // keep r below the group order so that it is a well-formed pair
	b[32] &= 0x7f
	return b
}()

// makeSig fills the signature fields of c: a signature of kind `kind` offered
// for slot idx, where target is the state a valid signature would have to
// cover.
func (e *Exec) makeSig(c *Call, kind string, idx int, target *channel.State, targetEnc []byte) {
	n := e.Cfg.N
	c.SigIdx = channel.Index(idx)
	c.SigEff = kind
	c.SigSigner = -1
	switch kind {
	case SigValid:
		c.Sig, c.SigSigner, c.SigOver = SignCached(idx, target, targetEnc), idx, targetEnc
	case SigOther:
		o := (idx + 1) % n
		c.Sig, c.SigSigner, c.SigOver = SignCached(o, target, targetEnc), o, targetEnc
	case SigReplayed:
		var old *Seen
		for i := len(e.Hist) - 1; i >= 0; i-- {
			if !bytes.Equal(e.Hist[i].Enc, targetEnc) {
				old = &e.Hist[i]
				break
			}
		}
		if old == nil {
			// nothing different was staged before: sign a state that never existed
			st := target.Clone()
			st.Version += 1000
			old = &Seen{State: st, Enc: Enc(st)}
			c.SigEff = "otherstate"
		}
		c.Sig, c.SigSigner, c.SigOver = SignCached(idx, old.State, old.Enc), idx, old.Enc
	case SigRandom:
		c.Sig = append(wallet.Sig(nil), randomSig...)
	case SigWrongLen:
		v := SignCached(idx, target, targetEnc)
		c.Sig = append(wallet.Sig(nil), v[:len(v)-1]...)
	case SigNil:
		c.Sig = nil
	case SigTooLong:
		v := SignCached(idx, target, targetEnc)
		c.Sig = append(append(wallet.Sig(nil), v...), 0x1b)
	default:
		panic("mach: unknown signature kind " + kind)
	}
}

// ---------------------------------------------------------------- resolve / apply

// Resolve turns op into a concrete call for the machine's present situation.
// It reads the machine only through CurrentTX() and StagingState().
func (e *Exec) Resolve(op Op) Call {
	c := Call{Op: op, SigSigner: -1}
	n := e.Cfg.N
	if op.I < 0 || op.I >= n {
		if op.K == AddSig || op.K == CheckUpdate || op.K == Update || op.K == ForceUpdate {
			c.Skip = "index-not-below-participant-count"
			return c
		}
	}
	switch op.K {
	case Init:
		switch op.C {
		case InitValid, "":
			c.Alloc, c.Data, c.InitGood = e.initAlloc(n), channel.NoData(), true
		case InitWrongDim:
			c.Alloc, c.Data = e.initAlloc(n+1), channel.NoData()
		case InitBadData:
			if e.Cfg.App == "payment" {
				c.Skip = "init-baddata-payment-app-documented-panic"
				return c
			}
			c.Alloc, c.Data = e.initAlloc(n), channel.NewMockOp(channel.MockOp(3))
		default:
			panic("mach: unknown init kind " + op.C)
		}
		if c.InitGood {
			c.InitSt = e.initState(c.Alloc, c.Data)
			c.InitEnc = Enc(c.InitSt)
		}
	case Update, ForceUpdate, SetProgressing, SetProgressed, CheckUpdate:
		if op.K == ForceUpdate && e.M.CurrentTX().State == nil {
			c.Skip = "force-update-without-current-state"
			return c
		}
		actor := op.I
		if op.K == SetProgressing || op.K == SetProgressed || op.K == CheckUpdate {
			actor = 0
		}
		c.State = e.candidate(op.C, actor, e.cur())
		c.StateEnc = Enc(c.State)
		c.Actor = channel.Index(actor)
		if op.C == CandBadActor {
			c.Actor = channel.Index(n)
		}
		c.CandGood = op.C == CandNext || op.C == CandFinal
		if op.K == CheckUpdate {
			e.makeSig(&c, op.S, op.I, c.State, c.StateEnc)
			if e.M.CurrentTX().State == nil {
				c.Unspecified = "check-update-without-current-state"
			}
		}
	case AddSig:
		target := e.M.StagingState()
		if target == nil {
			target = e.Base
		}
		e.makeSig(&c, op.S, op.I, target, Enc(target))
	case Sig, SigFault, Discard, EnableInit, EnableUpdate, EnableFinal, SetFunded, SetRegistering, SetRegistered, SetWithdrawing, SetWithdrawn:
	default:
		panic("mach: unknown op kind " + op.K)
	}
	return c
}

// Apply performs the call on the real machine (a skipped call is not
// performed).  Panics are recovered and reported in the result.
func (e *Exec) Apply(c Call) (r Result) {
	if c.Skip != "" {
		return r
	}
	r.Panic = h.Guard(func() *h.Failure {
		m := e.M
		switch c.Op.K {
		case Init:
			r.Err = m.Init(*c.Alloc, c.Data)
		case Update:
			r.Err = m.Update(c.State, c.Actor)
		case ForceUpdate:
			r.Err = m.ForceUpdate(c.State, c.Actor)
		case CheckUpdate:
			r.Err = m.CheckUpdate(c.State, c.Actor, c.Sig, c.SigIdx)
		case Sig:
			r.Sig, r.Err = m.Sig()
		case SigFault:
			e.acc.broken = true
			r.Sig, r.Err = m.Sig()
			e.acc.broken = false
		case AddSig:
			r.Err = m.AddSig(c.SigIdx, c.Sig)
		case Discard:
			r.Err = m.DiscardUpdate()
		case EnableInit:
			r.Err = m.EnableInit()
		case EnableUpdate:
			r.Err = m.EnableUpdate()
		case EnableFinal:
			r.Err = m.EnableFinal()
		case SetFunded:
			r.Err = m.SetFunded()
		case SetRegistering:
			r.Err = m.SetRegistering()
		case SetRegistered:
			r.Err = m.SetRegistered()
		case SetProgressing:
			r.Err = m.SetProgressing(c.State)
		case SetProgressed:
			r.Err = m.SetProgressed(channel.NewProgressedEvent(e.Params.ID(), nil, c.State, 0))
		case SetWithdrawing:
			r.Err = m.SetWithdrawing()
		case SetWithdrawn:
			r.Err = m.SetWithdrawn()
		}
		return nil
	})
	if r.Panic == nil && r.Err == nil {
		// remember what was staged (for replayed signatures)
		switch c.Op.K {
		case Init:
			e.remember(c.InitSt, c.InitEnc)
		case Update, ForceUpdate, SetProgressing, SetProgressed:
			e.remember(c.State, c.StateEnc)
		}
	}
	return r
}

func (e *Exec) remember(s *channel.State, enc []byte) {
	if s == nil {
		return
	}
	if n := len(e.Hist); n > 0 && bytes.Equal(e.Hist[n-1].Enc, enc) {
		return
	}
	e.Hist = append(e.Hist, Seen{State: s.Clone(), Enc: enc})
	if len(e.Hist) > 8 {
		e.Hist = e.Hist[len(e.Hist)-8:]
	}
}

// Step resolves and applies op.
func (e *Exec) Step(op Op) (Call, Result) {
	c := e.Resolve(op)
	return c, e.Apply(c)
}

// ---------------------------------------------------------------- observation

// Obs is what the machine lets an observer see.
type Obs struct {
	Phase      channel.Phase
	PhaseEnc   []byte
	StagingEnc []byte // encoding of StagingTX()
	CurrentEnc []byte // encoding of CurrentTX()
}

// Observe reads Phase(), StagingTX() and CurrentTX().
func (e *Exec) Observe() Obs {
	var o Obs
	o.Phase = e.M.Phase()
	var b bytes.Buffer
	if err := o.Phase.Encode(&b); err != nil {
		panic("mach: phase not encodable: " + err.Error())
	}
	o.PhaseEnc = b.Bytes()
	o.StagingEnc = EncTx(e.M.StagingTX())
	o.CurrentEnc = EncTx(e.M.CurrentTX())
	return o
}

// Same reports whether two observations are byte-identical.
func (o Obs) Same(p Obs) bool {
	return bytes.Equal(o.PhaseEnc, p.PhaseEnc) && bytes.Equal(o.StagingEnc, p.StagingEnc) && bytes.Equal(o.CurrentEnc, p.CurrentEnc)
}

// Diff names the components that differ.
func (o Obs) Diff(p Obs) string {
	s := ""
	if !bytes.Equal(o.PhaseEnc, p.PhaseEnc) {
		s += fmt.Sprintf(" phase %v->%v", o.Phase, p.Phase)
	}
	if !bytes.Equal(o.StagingEnc, p.StagingEnc) {
		s += fmt.Sprintf(" staging %x->%x", trunc(o.StagingEnc), trunc(p.StagingEnc))
	}
	if !bytes.Equal(o.CurrentEnc, p.CurrentEnc) {
		s += fmt.Sprintf(" current %x->%x", trunc(o.CurrentEnc), trunc(p.CurrentEnc))
	}
	return s
}

func trunc(b []byte) []byte {
	if len(b) > 48 {
		return b[len(b)-48:]
	}
	return b
}
