package mach

// Alphabet returns every concrete operation for cfg (41 for N = 2 with no
// app; the payment app loses init/baddata, which it is documented to answer
// with a panic).  Actors of update/force-update are fixed to participant 0 in
// the alphabet; the random generator also draws other actors.
func Alphabet(cfg Config) []Op {
	var ops []Op
	ops = append(ops, Op{K: Init, C: InitValid}, Op{K: Init, C: InitWrongDim})
	if cfg.App != "payment" {
		ops = append(ops, Op{K: Init, C: InitBadData})
	}
	for _, c := range []string{CandNext, CandFinal, CandWrongVer, CandSumOff, CandBadActor, CandForeign} {
		ops = append(ops, Op{K: Update, C: c})
	}
	for _, c := range []string{CandNext, CandFinal, CandArb} {
		ops = append(ops, Op{K: ForceUpdate, C: c})
	}
	peer := (cfg.Idx + 1) % cfg.N
	ops = append(ops,
		Op{K: CheckUpdate, I: peer, C: CandNext, S: SigValid},
		Op{K: CheckUpdate, I: peer, C: CandNext, S: SigOther},
		Op{K: CheckUpdate, I: peer, C: CandWrongVer, S: SigValid},
	)
	ops = append(ops, Op{K: Sig})
	for i := 0; i < cfg.N; i++ {
		for _, s := range SigKinds {
			ops = append(ops, Op{K: AddSig, I: i, S: s})
		}
	}
	ops = append(ops, Op{K: Discard}, Op{K: EnableInit}, Op{K: EnableUpdate}, Op{K: EnableFinal},
		Op{K: SetFunded}, Op{K: SetRegistering}, Op{K: SetRegistered})
	for _, c := range []string{CandNext, CandArb} {
		ops = append(ops, Op{K: SetProgressing, C: c})
	}
	for _, c := range []string{CandNext, CandArbFinal} {
		ops = append(ops, Op{K: SetProgressed, C: c})
	}
	ops = append(ops, Op{K: SetWithdrawing}, Op{K: SetWithdrawn})
	return ops
}

// Prefix is a named canonical operation sequence that brings a fresh machine
// into a given situation along the documented protocol.
type Prefix struct {
	Name string
	Ops  []Op
}

// Prefixes returns the canonical prefixes for cfg: the empty one and one (or
// two) per phase.
func Prefixes(cfg Config) []Prefix {
	cat := func(parts ...[]Op) []Op {
		var out []Op
		for _, p := range parts {
			out = append(out, p...)
		}
		return out
	}
	// own signature plus every peer's valid signature
	var signAll []Op
	signAll = append(signAll, Op{K: Sig})
	for i := 0; i < cfg.N; i++ {
		if i != cfg.Idx {
			signAll = append(signAll, Op{K: AddSig, I: i, S: SigValid})
		}
	}
	initSigning := []Op{{K: Init, C: InitValid}}
	funding := cat(initSigning, signAll, []Op{{K: EnableInit}})
	acting := cat(funding, []Op{{K: SetFunded}})
	signing := cat(acting, []Op{{K: Update, C: CandNext}})
	signingFull := cat(signing, signAll)
	signingFinalFull := cat(acting, []Op{{K: Update, C: CandFinal}}, signAll)
	acting1 := cat(signingFull, []Op{{K: EnableUpdate}})
	final := cat(signingFinalFull, []Op{{K: EnableFinal}})
	registering := cat(acting, []Op{{K: SetRegistering}})
	registered := cat(acting, []Op{{K: SetRegistered}})
	progressing := cat(registered, []Op{{K: SetProgressing, C: CandNext}})
	progressed := cat(progressing, []Op{{K: SetProgressed, C: CandNext}})
	withdrawing := cat(registered, []Op{{K: SetWithdrawing}})
	withdrawn := cat(withdrawing, []Op{{K: SetWithdrawn}})
	return []Prefix{
		{"fresh", nil},
		{"init-signing", initSigning},
		{"funding", funding},
		{"acting", acting},
		{"signing", signing},
		{"signing-all-sigs", signingFull},
		{"signing-final-all-sigs", signingFinalFull},
		{"acting-after-update", acting1},
		{"final", final},
		{"registering", registering},
		{"registered", registered},
		{"progressing", progressing},
		{"progressed", progressed},
		{"withdrawing", withdrawing},
		{"withdrawn", withdrawn},
	}
}

// EnumConfigs are the channels the enumerators run on: two participants,
// either own index, no app and the payment app.
func EnumConfigs() []Config {
	var out []Config
	for _, app := range []string{"none", "payment"} {
		for idx := 0; idx < 2; idx++ {
			out = append(out, Config{N: 2, Idx: idx, App: app, Assets: 1, Bal: 5})
		}
	}
	return out
}

// Bounds are the word-length bounds of Enumerate.
type Bounds struct {
	Fresh        int // |w| after the empty prefix, no-app channels
	FreshPayment int // |w| after the empty prefix, payment-app channels
	Prefixed     int // |w| after every other canonical prefix
}

// Enumerate visits every sequence p·w where p is a canonical prefix of the
// config and w is any word over Alphabet(cfg) with |w| <= b.Fresh
// (b.FreshPayment on payment-app channels) for the empty prefix and
// |w| <= b.Prefixed for the others.  Sequences are numbered in visiting order
// and only those with number % nshards == shard are visited.  The ops slice
// passed to visit is freshly allocated.  It returns the total number of
// sequences of the (unsharded) space.
func Enumerate(b Bounds, shard, nshards int, visit func(cfg Config, prefix string, plen int, ops []Op) bool) int {
	total := 0
	stop := false
	for _, cfg := range EnumConfigs() {
		alpha := Alphabet(cfg)
		for _, p := range Prefixes(cfg) {
			depth := b.Prefixed
			if len(p.Ops) == 0 {
				depth = b.Fresh
				if cfg.App == "payment" {
					depth = b.FreshPayment
				}
			}
			word := make([]int, 0, depth)
			var rec func()
			rec = func() {
				if stop {
					return
				}
				if total%nshards == shard {
					ops := make([]Op, 0, len(p.Ops)+len(word))
					ops = append(ops, p.Ops...)
					for _, i := range word {
						ops = append(ops, alpha[i])
					}
					if !visit(cfg, p.Name, len(p.Ops), ops) {
						stop = true
					}
				}
				total++
				if len(word) == depth {
					return
				}
				for i := range alpha {
					word = append(word, i)
					rec()
					word = word[:len(word)-1]
				}
			}
			rec()
		}
	}
	return total
}
