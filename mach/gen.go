package mach

import (
	"pgregory.net/rapid"

	"perun.network/go-perun/channel"
)

// GenOpts steers GenCase.
type GenOpts struct {
	MinLen, MaxLen int
	Ns             []int // participant counts to draw from (first is drawn most often)
	// Guided is the percentage of steps (0..100) at which an operation is drawn
	// from those the protocol suggests in the machine's present phase; the
	// remaining steps draw uniformly from the whole alphabet.
	Guided int
	// FewCols: a quarter of the force-updates offer a state with one balance
	// column less than the channel has participants (the unchecked forced update
	// takes any state; consumers that persist or restore states leave this off)
	FewCols bool
}

// GenCase draws a channel and an operation sequence.  To reach the deep
// phases a scratch machine is driven along while drawing (its Phase() and
// signature slots bias the next choice).  The scratch machine is only a
// steering aid of the generator: the resulting Case is plain data and is
// executed again from scratch by the property.
func GenCase(o GenOpts) *rapid.Generator[Case] {
	return rapid.Custom(func(t *rapid.T) Case {
		var c Case
		c.Cfg.N = o.Ns[0]
		if len(o.Ns) > 1 && rapid.IntRange(0, 3).Draw(t, "nsel") == 0 {
			c.Cfg.N = rapid.SampledFrom(o.Ns[1:]).Draw(t, "n")
		}
		c.Cfg.Idx = rapid.IntRange(0, 1).Draw(t, "idx")
		c.Cfg.App = rapid.SampledFrom([]string{"none", "payment"}).Draw(t, "app")
		c.Cfg.Assets = rapid.IntRange(1, 2).Draw(t, "assets")
		c.Cfg.Bal = rapid.SampledFrom([]uint64{5, 0, 1, 100}).Draw(t, "bal")
		n := rapid.IntRange(o.MinLen, o.MaxLen).Draw(t, "len")
		e, err := New(c.Cfg)
		if err != nil {
			panic(err)
		}
		alpha := Alphabet(c.Cfg)
		for i := 0; i < n; i++ {
			var op Op
			sug := suggest(e)
			if len(sug) > 0 && rapid.IntRange(0, 99).Draw(t, "guided") < o.Guided {
				op = rapid.SampledFrom(sug).Draw(t, "sug")
			} else {
				op = rapid.SampledFrom(alpha).Draw(t, "op")
				if (op.K == Update || op.K == ForceUpdate) && rapid.Bool().Draw(t, "actorsel") {
					op.I = rapid.IntRange(0, c.Cfg.N-1).Draw(t, "actor")
				}
			}
			if o.FewCols && op.K == ForceUpdate && rapid.IntRange(0, 3).Draw(t, "fewcols") == 0 {
				op.C = CandFewCols
			}
			c.Ops = append(c.Ops, op)
			e.Step(op)
		}
		return c
	})
}

// suggest lists operations the protocol would plausibly continue with in the
// scratch machine's present situation (mostly calls that succeed, plus the
// signature mistakes that only matter in signing phases).
func suggest(e *Exec) []Op {
	n := e.Cfg.N
	ph := e.M.Phase()
	var out []Op
	add := func(ops ...Op) { out = append(out, ops...) }
	signing := func(enable ...Op) {
		st := e.M.StagingTX()
		missing := 0
		for i := 0; i < n && i < len(st.Sigs); i++ {
			if st.Sigs[i] != nil {
				continue
			}
			missing++
			if i == e.Cfg.Idx {
				add(Op{K: Sig}, Op{K: Sig}, Op{K: SigFault})
			} else {
				add(Op{K: AddSig, I: i, S: SigValid}, Op{K: AddSig, I: i, S: SigValid}, Op{K: AddSig, I: i, S: SigValid})
				add(Op{K: AddSig, I: i, S: SigOther}, Op{K: AddSig, I: i, S: SigReplayed}, Op{K: AddSig, I: i, S: SigTooLong})
			}
		}
		if missing == 0 {
			for k := 0; k < 4; k++ {
				add(enable...)
			}
			add(Op{K: AddSig, I: (e.Cfg.Idx + 1) % n, S: SigValid}) // duplicate
		} else if missing == 1 {
			add(enable...) // one signature short
		}
	}
	switch ph {
	case channel.InitActing:
		add(Op{K: Init, C: InitValid})
	case channel.InitSigning:
		signing(Op{K: EnableInit})
	case channel.Funding:
		add(Op{K: SetFunded}, Op{K: SetFunded}, Op{K: SetFunded}, Op{K: SetRegistering})
	case channel.Acting:
		for a := 0; a < n; a++ {
			add(Op{K: Update, I: a, C: CandNext}, Op{K: Update, I: a, C: CandNext})
		}
		add(Op{K: Update, C: CandFinal}, Op{K: Update, C: CandWrongVer}, Op{K: SetRegistering}, Op{K: SetRegistered})
	case channel.Signing:
		if st := e.M.StagingState(); st != nil && st.IsFinal {
			signing(Op{K: EnableFinal})
		} else {
			signing(Op{K: EnableUpdate})
		}
		add(Op{K: Discard}, Op{K: ForceUpdate, C: CandNext}, Op{K: EnableFinal}, Op{K: EnableUpdate})
	case channel.Final:
		add(Op{K: SetRegistering}, Op{K: SetRegistered}, Op{K: SetWithdrawing})
	case channel.Registering:
		add(Op{K: SetRegistered})
	case channel.Registered:
		add(Op{K: SetProgressing, C: CandNext}, Op{K: SetProgressing, C: CandArb}, Op{K: SetProgressed, C: CandNext}, Op{K: SetWithdrawing})
	case channel.Progressing:
		signing(Op{K: SetProgressed, C: CandNext})
		add(Op{K: SetProgressed, C: CandNext}, Op{K: SetProgressed, C: CandArbFinal}, Op{K: SetProgressing, C: CandNext})
	case channel.Progressed:
		add(Op{K: SetWithdrawing}, Op{K: SetProgressing, C: CandNext}, Op{K: ForceUpdate, C: CandNext}, Op{K: ForceUpdate, C: CandFinal})
	case channel.Withdrawing:
		add(Op{K: SetWithdrawn}, Op{K: SetWithdrawn}, Op{K: ForceUpdate, C: CandNext})
	case channel.Withdrawn:
		add(Op{K: ForceUpdate, C: CandNext}, Op{K: ForceUpdate, C: CandArb}, Op{K: SetRegistered})
	}
	return out
}
