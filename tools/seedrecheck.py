#!/usr/bin/env python3
"""tools/seedrecheck.py <seeded-dir> [tier] : re-runs the property's check
against a kept seeded change and updates meta.json (history of results)."""
import json, os, re, subprocess, sys
d = sys.argv[1].rstrip("/")
tier = sys.argv[2] if len(sys.argv) > 2 else "quick"
meta = json.load(open(os.path.join(d, "meta.json")))
pid = meta["property"]
env = dict(os.environ, SKIP_DEMO="1", SKIP_SUITE="1")
r = subprocess.run(["/verif/tools/seedeval.sh", pid, d, tier], stdout=subprocess.PIPE, stderr=subprocess.STDOUT, text=True, env=env)
sigs = sorted(set(re.findall(r"sig=(\S+)", r.stdout)))
c = meta.setdefault("confirmation", {})
hist = c.setdefault("history", [])
hist.append({"check_tier": c.get("check_tier"), "check_caught": c.get("check_caught"), "check_signatures": c.get("check_signatures")})
c.update(check_tier=tier, check_caught=(r.returncode == 0), check_signatures=sigs)
json.dump(meta, open(os.path.join(d, "meta.json"), "w"), indent=1)
print(d, "caught" if r.returncode == 0 else "MISSED", sigs[:4])
