#!/usr/bin/env python3
"""tools/seedkeep.py <PID> <seed-worktree> : confirms every seedN of the
worktree with tools/seedeval.sh and keeps the confirmed ones as
/verif/seeded/<PID>-<tag>/ (patch.diff, demo, meta.json with what was run)."""
import json, os, re, shutil, subprocess, sys
pid, wt = sys.argv[1], sys.argv[2]
tier = sys.argv[3] if len(sys.argv) > 3 else "quick"
only = sys.argv[4] if len(sys.argv) > 4 else None  # e.g. seed2
root = "/verif/seeded"
os.makedirs(root, exist_ok=True)
for n in sorted(os.listdir(wt)):
    d = os.path.join(wt, n)
    if not (n.startswith("seed") and os.path.isfile(os.path.join(d, "patch.diff"))):
        continue
    if only and n != only:
        continue
    r = subprocess.run(["/verif/tools/seedeval.sh", pid, d, tier], stdout=subprocess.PIPE, stderr=subprocess.STDOUT, text=True)
    out = r.stdout
    print(out)
    clean = re.search(r"demo on clean tree: exit (\d+)", out)
    mut = re.search(r"demo with change: exit (\d+)", out)
    suite_ok = "existing suite with change: passes" in out
    confirmed = bool(clean and mut and clean.group(1) == "0" and mut.group(1) != "0" and suite_ok)
    caught = r.returncode == 0
    sigs = sorted(set(re.findall(r"sig=(\S+)", out)))
    meta = json.load(open(os.path.join(d, "meta.json")))
    meta["confirmation"] = {
        "ran": "tools/seedeval.sh %s <seed> %s in a fresh scratch worktree of /repo HEAD: git apply patch.diff; go build ./...; demo on clean tree and with the change; go test -mod=mod -vet=off -count=1 ./... with the change; VERIF_REPO=<worktree> ./check %s %s" % (pid, tier, pid, tier),
        "demo_clean_exit": clean.group(1) if clean else None,
        "demo_changed_exit": mut.group(1) if mut else None,
        "existing_suite_passes_with_change": suite_ok,
        "confirmed": confirmed,
        "check_tier": tier,
        "check_caught": caught,
        "check_signatures": sigs,
    }
    if not confirmed:
        print("NOT CONFIRMED:", d)
    k = 1
    while os.path.exists(os.path.join(root, "%s-%d" % (pid, k))):
        k += 1
    dst = os.path.join(root, "%s-%d" % (pid, k))
    os.makedirs(dst)
    shutil.copy(os.path.join(d, "patch.diff"), dst)
    if os.path.exists(os.path.join(d, "demo_test.go.txt")):
        shutil.copy(os.path.join(d, "demo_test.go.txt"), dst)
    json.dump(meta, open(os.path.join(dst, "meta.json"), "w"), indent=1)
    print("==> %s: confirmed=%s caught=%s sigs=%s" % (dst, confirmed, caught, sigs[:3]))
