"""Per-property configuration of the driver: every props/<pkg>/prop.json
describes one property (id, parts, fuzz targets, manifest texts)."""
import glob
import json
import os

ROOT = os.path.dirname(os.path.dirname(os.path.abspath(__file__)))

# commits in /repo that add build-tag-guarded hooks (none so far)
HOOK_COMMITS = []

# properties deliberately not claimed, with reason (see DESIGN.md)
NOT_APPLICABLE = []

# properties whose checks are reviewed and claimed in MANIFEST.json; packages
# of other properties may exist under props/ while they are being built
CLAIMED = ["C01", "C02", "C03", "C04", "C05", "C06", "C07", "C08", "C09", "C10", "C11", "C12", "C13", "C14", "C15", "C16", "C17", "C18", "C19", "C20"]

PROPS = {}
for f in sorted(glob.glob(os.path.join(ROOT, "props", "*", "prop.json"))):
    d = json.load(open(f))
    d["pkg"] = os.path.relpath(os.path.dirname(f), ROOT)
    PROPS[d["id"]] = d
