"""Per-property configuration of the driver (tools/check.py)."""

HOOK_COMMITS = []

NOT_APPLICABLE = []

PROPS = {
    "C15": dict(
        pkg="props/c15",
        parts=[dict(test="TestEqualEncoding", quick=12000, thorough=640000, shards_thorough=16)],
        technique="property-based testing (rapid): generated single-field-mutation pairs, oracle Equal <=> identical encodings, Verify <=> identical encodings",
        level_text="Random exploration of state pairs that differ in exactly one transmitted field (27 mutation kinds incl. index maps, backend ids, dimensions) with a two-directional oracle: the type's Equal agrees with byte equality of the native encodings, and a signature verifies for another state/key exactly when the encodings agree. Exploration, not proof: it shows that no structural field is ignored by comparison or signing on the generated shapes.",
        level_note="Trusts Go's bytes.Equal and the sim backend's ECDSA; assumes well-formed (encodable) values; cryptographic collisions are out of reach of any generator.",
    ),
}
