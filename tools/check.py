#!/usr/bin/env python3
"""Driver: ./check <ID> quick|thorough  |  ./check <ID> --replay <file>

Builds the property's Go test package against /repo's current working tree,
runs its parts (rapid properties / enumerators, sharded over processes in the
thorough tier; native fuzz campaigns where configured), aggregates the
per-process stats into evidence/<ID>.json and prints VIOLATION /
KNOWN-FINDING lines.  Exit 0 = held on everything explored, 1 = violation,
2 = inconclusive (build failure, worker lost, budget exhausted)."""
import glob
import hashlib
import json
import os
import re
import shutil
import subprocess
import sys
import time
from concurrent.futures import ThreadPoolExecutor

ROOT = os.path.dirname(os.path.dirname(os.path.abspath(__file__)))
sys.path.insert(0, os.path.join(ROOT, "tools"))
from props import PROPS  # noqa: E402

NCPU = 16


def goenv():
    e = dict(os.environ)
    e.update(GOFLAGS="-mod=mod", GOPROXY="off", GOSUMDB="off", GOTOOLCHAIN="local")
    e.setdefault("GOCACHE", os.path.expanduser("~/.cache/go-build"))
    return e


def say(*a):
    print(*a, flush=True)


def known_findings(pid):
    out = []
    p = os.path.join(ROOT, "known-findings.txt")
    if not os.path.exists(p):
        return out
    for line in open(p):
        m = re.match(r"^finding:\s+property=(\S+)\s+key=(\S+)\s*(.*)$", line.strip())
        if m and m.group(1) == pid:
            out.append((m.group(2), m.group(3)))
    return out


def build(pid, cfg, outdir):
    binp = os.path.join(outdir, "bin", pid.lower() + ".test")
    os.makedirs(os.path.dirname(binp), exist_ok=True)
    cmd = ["go", "test", "-c", "-tags", "verif", "-vet=off", "-o", binp, "./" + cfg["pkg"]]
    alt = os.environ.get("VERIF_REPO")
    if alt:
        # sensitivity runs: build against a scratch copy of the repository
        mod = open(os.path.join(ROOT, "go.mod")).read().replace("=> /repo", "=> " + os.path.abspath(alt))
        altmod = os.path.join(outdir, "alt.go.mod")
        open(altmod, "w").write(mod)
        shutil.copy(os.path.join(ROOT, "go.sum"), os.path.join(outdir, "alt.go.sum"))
        cmd.insert(2, "-modfile=" + altmod)
    if cfg.get("race"):
        cmd.insert(3, "-race")
    t0 = time.time()
    r = subprocess.run(cmd, cwd=ROOT, env=goenv(), stdout=subprocess.PIPE, stderr=subprocess.STDOUT, text=True)
    if r.returncode != 0:
        say("BUILD-FAILED for %s:\n%s" % (pid, r.stdout[-4000:]))
        return None, time.time() - t0
    return binp, time.time() - t0


VMEM_GB = [32]  # address-space limit of every test process (GiB); set from prop.json "vmem_gb"


def _limit():
    import resource
    if VMEM_GB[0]:
        lim = int(VMEM_GB[0] * (1 << 30))
        resource.setrlimit(resource.RLIMIT_AS, (lim, lim))


def run_proc(binp, pkgdir, args, env, outdir, timeout):
    os.makedirs(outdir, exist_ok=True)
    e = goenv()
    e.update(env)
    e["VERIF_OUT"] = outdir
    log = os.path.join(outdir, "log.txt")
    t0 = time.time()
    with open(log, "w") as lf:
        try:
            p = subprocess.run([binp] + args, cwd=pkgdir, env=e, stdout=lf, stderr=subprocess.STDOUT, timeout=timeout,
                               preexec_fn=_limit)
            rc = p.returncode
        except subprocess.TimeoutExpired:
            rc = -999
    return rc, log, time.time() - t0


def stack_sig(text):
    """innermost go-perun frame of the first goroutine in a crash dump"""
    kind = "panic"
    m = re.search(r"^(fatal error: .*)$", text, re.M)
    if m:
        kind = "fatal"
    for line in text.split("\n"):
        line = line.strip()
        if line.startswith("perun.network/go-perun/") and not line.startswith("perun.network/go-perun/log"):
            line = re.sub(r"\([^()]*\)$", "", line)
            line = line[len("perun.network/go-perun/"):]
            line = re.sub(r"\.func\d+(\.\d+)*$", "", line)
            return "%s:%s" % (kind, line)
    return kind + ":unknown"


def save_replay(pid, src_path, sig):
    d = os.path.join(ROOT, "replays", pid)
    os.makedirs(d, exist_ok=True)
    data = open(src_path, "rb").read()
    hsh = hashlib.sha256(data).hexdigest()[:10]
    slug = re.sub(r"[^A-Za-z0-9_.-]+", "_", sig)[:60]
    dst = os.path.join(d, "%s-%s.json" % (slug, hsh))
    with open(dst, "wb") as f:
        f.write(data)
    return dst


def main():
    if len(sys.argv) < 3:
        say(__doc__)
        return 2
    pid = sys.argv[1].upper()
    if pid not in PROPS:
        say("unknown property", pid)
        return 2
    cfg = PROPS[pid]
    VMEM_GB[0] = 0 if cfg.get("race") else cfg.get("vmem_gb", 32)
    mode = sys.argv[2]
    seed = int(os.environ.get("VERIF_SEED", "1") or "1")
    pkgdir = os.path.join(ROOT, cfg["pkg"])
    # one invocation per property at a time: the build output, the shard
    # directories and the evidence file are per property
    import fcntl
    os.makedirs(os.path.join(ROOT, "out", pid), exist_ok=True)
    lock = open(os.path.join(ROOT, "out", pid, ".lock"), "w")
    fcntl.flock(lock, fcntl.LOCK_EX)
    t_start = time.time()

    if mode == "--replay":
        path = os.path.abspath(sys.argv[3])
        outdir = os.path.join(ROOT, "out", pid, "replay")
        shutil.rmtree(outdir, ignore_errors=True)
        binp, _ = build(pid, cfg, os.path.join(ROOT, "out", pid))
        if not binp:
            return 2
        rc, log, _ = run_proc(binp, pkgdir, ["-test.run", "^TestReplay$", "-test.count=1", "-rapid.nofailfile", "-test.timeout=600s"],
                              {"VERIF_REPLAY": path, "VERIF_TIER": "quick", "VERIF_SEED": str(seed)}, outdir, 700)
        txt = open(log).read()
        if rc == 0 and "--- FAIL" not in txt:
            say("replay passed: %s" % path)
            return 0
        say(txt[-3000:])
        # a listed finding reproduces as KNOWN-FINDING
        say("VIOLATION property=%s replay=%s" % (pid, path))
        return 1

    tier = "thorough" if mode == "thorough" else "quick"
    outroot = os.path.join(ROOT, "out", pid, tier)
    shutil.rmtree(outroot, ignore_errors=True)
    os.makedirs(outroot, exist_ok=True)
    binp, build_s = build(pid, cfg, os.path.join(ROOT, "out", pid))
    if not binp:
        return 2

    violations = []  # (sig, replay path, msg)
    inconclusive = []
    base_env = {"VERIF_TIER": tier, "VERIF_SEED": str(seed)}

    # 1. regression replays (saved shrunk failures of fixed defects / seeded changes)
    reg_files = sorted(glob.glob(os.path.join(ROOT, "regress", pid, "*.json")))
    reg_run = 0

    def run_reg(i_f):
        i, f = i_f
        od = os.path.join(outroot, "regress-%d" % i)
        env = dict(base_env)
        env["VERIF_REPLAY"] = f
        rc, log, _ = run_proc(binp, pkgdir, ["-test.run", "^TestReplay$", "-test.count=1", "-rapid.nofailfile", "-test.timeout=600s"], env, od, 700)
        return f, rc, log

    reg_pool = ThreadPoolExecutor(max_workers=NCPU)
    reg_futures = [reg_pool.submit(run_reg, x) for x in enumerate(reg_files)]  # run alongside the parts

    def collect_reg():
        nonlocal reg_run
        for fut in reg_futures:
            f, rc, log = fut.result()
            reg_run += 1
            txt = open(log, errors="replace").read()
            if rc != 0 or "--- FAIL" in txt:
                m = re.search(r"VIOLATION-CANDIDATE \S+ sig=(\S+): (.*)", txt)
                sig = m.group(1).rstrip(":") if m else stack_sig(txt)
                if any(sig == k for k, _ in known_findings(pid)):
                    continue
                violations.append((sig, f, (m.group(2) if m else txt[-300:])))
        reg_pool.shutdown()

    # 2. parts
    jobs = []
    for part in cfg["parts"]:
        n = part.get(tier, part.get("quick", 0))
        shards = part.get("shards_" + tier, 1)
        if tier == "quick":
            shards = part.get("shards_quick", 1)
        per = max(1, (n + shards - 1) // shards) if n else 0
        for s in range(shards):
            args = ["-test.run", "^%s$" % part["test"], "-test.count=1", "-rapid.nofailfile",
                    "-rapid.checks=%d" % max(per, 1), "-rapid.seed=%d" % (1 + 1000 * seed + s + 100 * len(jobs)),
                    "-rapid.shrinktime=%s" % part.get("shrinktime", "20s"),
                    "-test.timeout=%ds" % part.get("timeout_" + tier, part.get("timeout", 900))]
            if part.get("steps"):
                args.append("-rapid.steps=%d" % part["steps"])
            env = dict(base_env)
            env.update(VERIF_SHARD=str(s), VERIF_NSHARDS=str(shards), VERIF_CHECKS=str(per))
            od = os.path.join(outroot, "%s-%d" % (part["test"], s))
            jobs.append((part, s, args, env, od))

    def run_job(j):
        part, s, args, env, od = j
        to = part.get("timeout_" + tier, part.get("timeout", 900)) + 60
        rc, log, wall = run_proc(binp, pkgdir, args, env, od, to)
        return j, rc, log, wall

    results = []
    with ThreadPoolExecutor(max_workers=NCPU) as ex:
        for res in ex.map(run_job, jobs):
            results.append(res)
    collect_reg()

    for (part, s, args, env, od), rc, log, wall in results:
        txt = open(log, errors="replace").read()
        fails = glob.glob(os.path.join(od, "fail-*.json"))
        if fails:
            for f in fails:
                d = json.load(open(f))
                dst = save_replay(pid, f, d.get("sig", "x"))
                violations.append((d.get("sig", "?"), dst, d.get("msg", "")))
            continue
        if rc == 0:
            m = re.search(r"OK, passed (\d+) tests", txt)
            continue
        if rc == -999:
            inconclusive.append("%s shard %d: time budget exhausted" % (part["test"], s))
            continue
        # go test's own deadline is a budget, not a verdict
        if "panic: test timed out" in txt:
            inconclusive.append("%s shard %d: go test deadline reached" % (part["test"], s))
            continue
        # process died without a recorded failure
        if re.search(r"^(panic:|fatal error:)", txt, re.M) and not part.get("death_is_inconclusive"):
            sig = stack_sig(txt)
            cur = glob.glob(os.path.join(od, "current-*.json"))
            if any(sig == k for k, _ in known_findings(pid)):
                continue
            src = cur[0] if cur else log
            rep = os.path.join(od, "death.json")
            case = None
            if cur:
                try:
                    case = json.load(open(cur[0]))
                except Exception:
                    case = None
            json.dump({"property": pid, "part": part.get("part", ""), "sig": sig, "msg": "process died: " + txt[-1500:], "case": case},
                      open(rep, "w"), indent=1)
            dst = save_replay(pid, rep, sig)
            violations.append((sig, dst, "process died"))
        elif "--- FAIL" in txt:
            # a test failure that did not go through the recorder: harness problem
            inconclusive.append("%s shard %d: test failed outside the recorder:\n%s" % (part["test"], s, txt[-1500:]))
        else:
            inconclusive.append("%s shard %d: exit %d\n%s" % (part["test"], s, rc, txt[-800:]))

    # 3. native fuzz campaigns (thorough only)
    fuzz_stats = []
    if tier == "thorough":
        for fz in cfg.get("fuzz", []):
            tdir = os.path.join(pkgdir, "testdata", "fuzz", fz["name"])
            before = set(os.listdir(tdir)) if os.path.isdir(tdir) else set()
            cmd = ["go", "test", "-tags", "verif", "-vet=off", "-run", "^$", "-fuzz", "^%s$" % fz["name"],
                   "-fuzztime", "%ds" % fz.get("seconds", 90), "-parallel", str(NCPU), "."]
            e = goenv()
            e.update(base_env)
            od = os.path.join(outroot, "fuzz-" + fz["name"])
            os.makedirs(od, exist_ok=True)
            e["VERIF_OUT"] = od
            t0 = time.time()
            r = subprocess.run(cmd, cwd=pkgdir, env=e, stdout=subprocess.PIPE, stderr=subprocess.STDOUT, text=True)
            open(os.path.join(od, "log.txt"), "w").write(r.stdout)
            after = set(os.listdir(tdir)) if os.path.isdir(tdir) else set()
            execs = 0
            for m in re.finditer(r"execs: (\d+)", r.stdout):
                execs = max(execs, int(m.group(1)))
            fuzz_stats.append({"target": fz["name"], "execs": execs, "seconds": round(time.time() - t0, 1)})
            new = sorted(after - before)
            if r.returncode != 0 and new:
                for nf in new:
                    src = os.path.join(tdir, nf)
                    dstd = os.path.join(ROOT, "replays", pid)
                    os.makedirs(dstd, exist_ok=True)
                    dst = os.path.join(dstd, "fuzz-%s-%s" % (fz["name"], nf))
                    shutil.move(src, dst)
                    sig = stack_sig(r.stdout)
                    violations.append((sig, dst, "native fuzz crasher"))
            elif r.returncode != 0:
                inconclusive.append("fuzz %s: exit %d\n%s" % (fz["name"], r.returncode, r.stdout[-1500:]))

    # 4. aggregate
    evals = 0
    hashes = set()
    classes = {}
    samples = []
    rules = []
    assumptions = []
    known_seen = {}
    known_examples = {}
    extra = {}
    exhaustive = None
    for sf in sorted(glob.glob(os.path.join(outroot, "*", "stats-*.json"))):
        if os.sep + "regress-" in sf:
            continue
        try:
            st = json.load(open(sf))
        except Exception:
            continue
        evals += st.get("evaluations", 0)
        hashes.update(st.get("nontrivial_hashes", []))
        for k, v in st.get("classes", {}).items():
            classes[k] = classes.get(k, 0) + v
        for smp in st.get("samples", []):
            if len(samples) < 6:
                samples.append({"part": st.get("part", ""), "case": smp})
        if st.get("rule"):
            r = ("[%s] " % st["part"] if st.get("part") else "") + st["rule"]
            if r not in rules:
                rules.append(r)
        for a in st.get("assumptions") or []:
            if a not in assumptions:
                assumptions.append(a)
        for k, v in st.get("known_seen", {}).items():
            known_seen[k] = known_seen.get(k, 0) + v
        for k, v in st.get("known_examples", {}).items():
            known_examples.setdefault(k, v)
        for k, v in (st.get("extra") or {}).items():
            if isinstance(v, (int, float)) and not isinstance(v, bool):
                extra[k] = extra.get(k, 0) + v
            else:
                extra[k] = v
        if "exhaustive" in st:
            exhaustive = st["exhaustive"] if exhaustive is None else (exhaustive and st["exhaustive"])

    kf = known_findings(pid)
    wall = time.time() - t_start
    cov = {
        "evaluations": evals,
        "distinct_nontrivial": len(hashes),
        "rule": " || ".join(rules),
        "samples": samples,
        "classes": classes,
        "regression_replays_run": reg_run,
        "excluded_known": known_seen,
        "build_s": round(build_s, 1),
    }
    cov.update(extra)
    if exhaustive is not None and cfg.get("exhaustive_claim"):
        cov["exhaustive"] = bool(exhaustive)
    if fuzz_stats:
        cov["native_fuzz"] = fuzz_stats
    if known_examples:
        cov["known_finding_examples"] = known_examples
    ev = {
        "property_id": pid,
        "tier": tier,
        "seed": seed,
        "level": cfg.get("level", "exploration"),
        "coverage": cov,
        "assumptions": assumptions,
        "wall_s": round(wall, 1),
        "violations": len(violations),
    }
    if inconclusive:
        ev["inconclusive"] = inconclusive
    os.makedirs(os.path.join(ROOT, "evidence"), exist_ok=True)
    with open(os.path.join(ROOT, "evidence", pid + ".json"), "w") as f:
        json.dump(ev, f, indent=1, sort_keys=True)
        f.write("\n")

    for sig, text in kf:
        say("KNOWN-FINDING: property=%s key=%s %s (reproduced %d times in this run)" % (pid, sig, text, known_seen.get(sig, 0)))
    seen = set()
    for sig, path, msg in violations:
        if path in seen:
            continue
        seen.add(path)
        say("VIOLATION property=%s replay=%s" % (pid, path))
        say("  sig=%s %s" % (sig, (msg or "")[:600].replace("\n", " | ")))
    say("%s %s: %d cases, %d distinct non-trivial, %d violations, %.1fs (build %.1fs)" %
        (pid, tier, evals, len(hashes), len(seen), wall, build_s))
    if seen:
        return 1
    if inconclusive:
        for i in inconclusive:
            say("INCONCLUSIVE: " + i)
        return 2
    if evals == 0:
        say("INCONCLUSIVE: no cases were executed")
        return 2
    return 0


if __name__ == "__main__":
    sys.exit(main())
