#!/usr/bin/env python3
"""Prints the prompt for a fresh mutation-seeding sub-agent for property <ID>
(the agent gets the property text and its own worktree, nothing from /verif)."""
import json
import sys

pid = sys.argv[1]
wt = sys.argv[2] if len(sys.argv) > 2 else "/tmp/seed-" + pid
for line in open("/verif/properties.jsonl"):
    p = json.loads(line)
    if p["id"] == pid:
        break
else:
    sys.exit("unknown property")
import glob, os
sites = []
for mf in sorted(glob.glob("/verif/seeded/%s-*/meta.json" % pid)):
    try:
        sites.append(json.load(open(mf)).get("site", ""))
    except Exception:
        pass
excl = ""
if sites:
    excl = "\n\nSITES ALREADY USED by earlier changes (choose OTHER sites and other mechanisms): " + "; ".join(x for x in sites if x) + ".\nDo NOT use `git stash` (stashes are shared between worktrees); undo with `git checkout -- .` only, and never touch any directory other than your worktree."
print(f"""You are helping to evaluate a verification effort for the Go library hyperledger-labs/go-perun (module perun.network/go-perun; Go implementation of the Perun two-party state channel protocols: channel state machine, proposal/update/dispute protocols, watcher, persistence and wire codecs). Your job is to play the role of a developer who makes a plausible but WRONG change to the library: a change that breaks one specific semantic property while the code still compiles and the library's existing test suite still passes.

Your working copy is a private git worktree of the repository at {wt} (work ONLY there; do not touch /repo, do not look at or use anything under /verif; there is no network). Every shell call needs: export GOFLAGS=-mod=mod GOPROXY=off GOSUMDB=off GOTOOLCHAIN=local. Go 1.23 is installed. The existing test suite is run with `cd {wt} && go test -mod=mod -vet=off -count=1 ./...` (about 20 s; the package wire/net/libp2p needs a network and fails already without any change - ignore it; wire/net/simple TestBus is known to be flaky).

THE PROPERTY ({p['id']}: {p['title']})
Statement: {p['statement']}
Quantifier: {p['quantifier']['text']}
Why the existing tests cannot settle it: {p['why_tests_cant']}
Code it is anchored in: {', '.join(p['anchors']['files'])}

WHAT TO DELIVER: TWO different, independent changes (different code sites / different mechanisms), each of which
 (1) breaks the property above (a real violation of the statement, not merely a style change),
 (2) still compiles (`go build ./...`) and passes the unedited existing test suite (run it and confirm; if an existing test fails, the change is too shallow - pick another),
 (3) needs something SPECIFIC to manifest - a particular interleaving, a crash or fault at a particular point, a multi-step sequence of operations, an unusual input, or two cooperating sites that each look fine alone - NOT something that ordinary use or a single happy-path call would expose at once,
 (4) is realistic: the kind of slip a maintainer could make in a refactoring or an "optimisation" (off-by-one in a guard, a check moved after the effect, a wrong variable, a lock dropped, a field forgotten in one of two symmetric places, a condition weakened), small (a few lines).
For each change write, inside the worktree:
 - {wt}/seedN/patch.diff  (N = 1, 2): `git diff` of the library change ONLY (library files, no test files), relative to the worktree's HEAD, applicable with `git apply` on a clean checkout;
 - {wt}/seedN/demo_test.go.txt plus a note where it has to be placed (package directory and file name): a demonstration - a Go test (or small program) that FAILS with the change applied and PASSES on the clean checkout. Run it both ways and confirm. The demonstration may be an internal test of the package (it may use unexported identifiers) and should be deterministic if at all possible (if the violation is schedule dependent, force the schedule with hooks in the test, loops or many iterations, and say how often it fails);
 - {wt}/seedN/meta.json: {{"property": "{p['id']}", "summary": "<one sentence: what was changed>", "site": "<file:function>", "needs": "<what it needs in order to manifest>", "why_tests_pass": "<why the existing suite does not notice>", "demo_placement": "<dir/file>", "demo_cmd": "<go test command>", "ran": "<what you ran and observed, both ways>"}}.
Leave the worktree CLEAN at the end (git checkout -- . ; remove the demo test from the package directories; only the seed1/ seed2/ directories remain, untracked). Do not commit.

Work method: read the anchored code first, understand what makes the property hold (which checks, locks, orderings), then choose the two sites. Prefer violations of the *core* of the statement over violations of side clauses. Verify everything you claim by running it. Your final message: for each seed, the summary, the site, what it needs to manifest, and the observed results of demo and suite (both ways).""" + excl)
