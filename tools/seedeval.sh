#!/bin/bash
# tools/seedeval.sh <PROPERTY-ID> <seed-dir> [tier]
# Confirms a seeded change in a scratch worktree (patch applies, builds, the
# library's own suite still passes, the demonstration fails with and passes
# without the change) and runs the property's check against it.
# Output: one summary line per step; exit 0 if the check caught the change.
set -u
export GOFLAGS=-mod=mod GOPROXY=off GOSUMDB=off GOTOOLCHAIN=local
PID=$1; SEED=$(realpath "$2"); TIER=${3:-quick}
WT=$(mktemp -d /tmp/seedeval-XXXXXX)
rmdir "$WT"
git -C /repo worktree add -q "$WT" HEAD || exit 2
cleanup() { git -C /repo worktree remove --force "$WT" 2>/dev/null; rm -rf "$WT" "$WT".*.log; }
trap cleanup EXIT
cd "$WT" || exit 2
PLACE=$(python3 -c "import json,sys,re;print(re.split(r'[\s(,;]', json.load(open('$SEED/meta.json')).get('demo_placement','').strip())[0])")
DCMD=$(python3 -c "import json,sys,re;print(re.split(r'\s{2,}\(|;\s+optional', json.load(open('$SEED/meta.json')).get('demo_cmd',''))[0])")
echo "seed: $SEED  placement: $PLACE"
if [ "${SKIP_DEMO:-0}" != 1 ] && [ -n "$PLACE" ] && [ -f "$SEED/demo_test.go.txt" ]; then
  mkdir -p "$(dirname "$PLACE")"; cp "$SEED/demo_test.go.txt" "$PLACE"
  DCMD=$(echo "$DCMD" | sed -E "s#/tmp/seed[0-9]*-[A-Za-z0-9]+#$WT#g")
  # the demonstration is copied into place by this script: drop "cp ..." steps of the agent's command
  DCMD=$(python3 -c "import sys;print(' && '.join(x.strip() for x in sys.argv[1].split('&&') if not x.strip().startswith('cp ')))" "$DCMD")
  ( eval "$DCMD" ) > $WT.demo-clean.log 2>&1; echo "demo on clean tree: exit $?"
fi
git apply "$SEED/patch.diff" || { echo "PATCH DOES NOT APPLY"; exit 2; }
go build ./... || { echo "BUILD FAILS"; exit 2; }
if [ "${SKIP_DEMO:-0}" != 1 ] && [ -n "$PLACE" ] && [ -f "$PLACE" ]; then
  ( eval "$DCMD" ) > $WT.demo-mut.log 2>&1; echo "demo with change: exit $?"
  rm -f "$PLACE"
fi
if [ "${SKIP_SUITE:-0}" != 1 ]; then
  go test -mod=mod -vet=off -count=1 $(go list ./... | grep -v wire/net/libp2p) 2>&1 | grep -E "^(FAIL|---)" | grep -v "wire/net/libp2p" | grep -v "TestBus" | grep -v -- "--- FAIL: TestAddress" | grep -v "^FAIL$" | grep -v "wire/net/simple" | head -5 > $WT.suite.log
  if [ -s $WT.suite.log ]; then echo "existing suite with change: FAILS:"; cat $WT.suite.log; else echo "existing suite with change: passes (libp2p excluded)"; fi
fi
cd /verif && VERIF_REPO="$WT" ./check "$PID" "$TIER" > $WT.check.log 2>&1; RC=$?
grep -E "^VIOLATION|sig=|KNOWN|INCONCLUSIVE|cases," $WT.check.log | cut -c1-300 | head -8
echo "check $PID $TIER against the change: exit $RC"
rm -rf /verif/replays/$PID
[ $RC = 1 ] && exit 0 || exit 1
