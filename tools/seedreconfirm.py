#!/usr/bin/env python3
"""tools/seedreconfirm.py <seeded-dir> [note] : full re-evaluation of a kept
seeded change (demo both ways, suite, check) after its patch was rebased onto a
newer /repo HEAD; updates meta.json in place."""
import json, os, re, subprocess, sys
d = sys.argv[1].rstrip("/")
note = sys.argv[2] if len(sys.argv) > 2 else None
meta = json.load(open(os.path.join(d, "meta.json")))
pid = meta["property"]
r = subprocess.run(["/verif/tools/seedeval.sh", pid, d, "quick"], stdout=subprocess.PIPE, stderr=subprocess.STDOUT, text=True)
out = r.stdout
clean = re.search(r"demo on clean tree: exit (\d+)", out)
mut = re.search(r"demo with change: exit (\d+)", out)
suite_ok = "existing suite with change: passes" in out
c = meta.setdefault("confirmation", {})
hist = c.setdefault("history", [])
hist.append({"check_tier": c.get("check_tier"), "check_caught": c.get("check_caught"), "check_signatures": c.get("check_signatures")})
c.update(demo_clean_exit=clean.group(1) if clean else None, demo_changed_exit=mut.group(1) if mut else None,
         existing_suite_passes_with_change=suite_ok,
         confirmed=bool(clean and mut and clean.group(1) == "0" and mut.group(1) != "0" and suite_ok),
         check_tier="quick", check_caught=(r.returncode == 0), check_signatures=sorted(set(re.findall(r"sig=(\S+)", out))))
if note:
    c["rebase_note"] = note
json.dump(meta, open(os.path.join(d, "meta.json"), "w"), indent=1)
print(d, "confirmed" if c["confirmed"] else "NOT-CONFIRMED", "caught" if c["check_caught"] else "MISSED", c["check_signatures"][:3])
if not c["confirmed"]:
    print(out[-1500:])
