#!/bin/bash
# Offline setup: warm the build cache by compiling every property package
# against /repo's current working tree.  Uses files on disk only.
cd "$(dirname "$0")/.." || exit 1
export GOFLAGS=-mod=mod GOPROXY=off GOSUMDB=off GOTOOLCHAIN=local
mkdir -p out/bin evidence
rc=0
for d in props/*/; do
  n=$(basename "$d")
  go test -c -tags verif -vet=off -o "out/bin/$n.test" "./$d" || rc=1
done
exit $rc
