#!/bin/bash
# Offline setup: warm the build cache by compiling every property package
# against /repo's current working tree.  Uses files on disk only.  A package
# that does not build is reported but does not fail the setup: every check
# rebuilds its own package anyway.
cd "$(dirname "$0")/.." || exit 1
export GOFLAGS=-mod=mod GOPROXY=off GOSUMDB=off GOTOOLCHAIN=local
mkdir -p out/bin evidence
for d in props/*/; do
  n=$(basename "$d")
  go test -c -tags verif -vet=off -o "out/bin/$n.test" "./$d" || echo "setup: warning: $d does not build"
done
exit 0
