#!/usr/bin/env python3
"""tools/seedtable.py : prints the markdown table of DESIGN.md section 8 from seeded/*/meta.json."""
import json, os, re
root = "/verif/seeded"
def key(n):
    m = re.match(r"C(\d+)-(\d+)", n)
    return (int(m.group(1)), int(m.group(2)))
print("| seeded change | what it does | first signature reported | caught by |")
print("|---|---|---|---|")
for n in sorted(os.listdir(root), key=key):
    m = json.load(open(os.path.join(root, n, "meta.json")))
    conf = m.get("confirmation", {})
    hist = conf.get("history", []) + m.get("history", [])
    summ = m.get("summary", "").replace("|", "/")
    if len(summ) > 170:
        summ = summ[:167] + "..."
    sigs = conf.get("check_signatures") or []
    caught = conf.get("check_caught")
    missed_before = any(not h.get("check_caught") for h in hist)
    if caught:
        how = conf.get("check_tier", "quick") + (", after strengthening" if missed_before else "")
    else:
        how = "**missed**"
    other = m.get("caught_by_other_check")
    if other and not caught:
        if other.get("check"):
            how = "missed by %s; caught by %s %s" % (n.split("-")[0], other["check"], other.get("tier", "quick"))
        else:
            how = "not attacked: outside the property's domain (see meta.json)"
        sigs = other.get("signatures", [])
    if not conf.get("confirmed", True):
        how += " (change not confirmed)"
    print("| %s | %s | `%s` | %s |" % (n, summ, sigs[0] if sigs else "-", how))
