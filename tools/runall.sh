#!/bin/bash
# tools/runall.sh [tier] : runs every claimed check on /repo and prints one line each.
cd "$(dirname "$0")/.." || exit 2
TIER=${1:-quick}
for p in $(python3 -c "import sys;sys.path.insert(0,'tools');from props import CLAIMED;print(' '.join(CLAIMED))"); do
  s=$(date +%s)
  ./check $p $TIER > out/runall-$p.log 2>&1; rc=$?
  echo "$p exit=$rc $(( $(date +%s)-s ))s $(tail -1 out/runall-$p.log | cut -c1-120)"
done
