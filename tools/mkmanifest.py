#!/usr/bin/env python3
"""Regenerates MANIFEST.json from tools/props.py (run after editing props.py)."""
import json
import os
import sys

ROOT = os.path.dirname(os.path.dirname(os.path.abspath(__file__)))
sys.path.insert(0, os.path.join(ROOT, "tools"))
from props import PROPS as ALL_PROPS, NOT_APPLICABLE, HOOK_COMMITS, CLAIMED  # noqa: E402

PROPS = {k: v for k, v in ALL_PROPS.items() if k in CLAIMED}

checks = []
for pid in sorted(PROPS):
    c = PROPS[pid]
    checks.append({
        "property_id": pid,
        "quick_cmd": "./check %s quick" % pid,
        "thorough_cmd": "./check %s thorough" % pid,
        "evidence_file": "/verif/evidence/%s.json" % pid,
        "replay_cmd_template": "./check %s --replay {path}" % pid,
        "engine": "go-pbt",
        "level_claimed": {
            "category": c.get("level", "exploration"),
            "text": c["level_text"],
            "design_ref": "DESIGN.md §3 " + pid,
        },
        "level_note": c["level_note"],
        "technique": c["technique"],
    })

claimed = set(PROPS)
na = list(NOT_APPLICABLE)
for line in open(os.path.join(ROOT, "properties.jsonl")):
    pid = json.loads(line)["id"]
    if pid not in claimed and not any(x["property_id"] == pid for x in na):
        na.append({"property_id": pid, "reason": "check not built yet at this commit (work in progress, see DESIGN.md §7); nothing is claimed for it"})

m = {
    "version": 1,
    "setup_cmd": "./tools/setup.sh",
    "hooks": {
        "guard": "verif",
        "enable": "every check builds with `go test -c -tags verif` through the replace directive in /verif/go.mod (=> /repo working tree)",
        "baseline_off_cmd": "cd /repo && go test -mod=mod -vet=off -count=1 -timeout 25m ./...",
        "source_commits": HOOK_COMMITS,
        "add_only": True,
    },
    "engines": [{
        "name": "go-pbt",
        "path": "/verif/check",
        "serves_properties": sorted(PROPS),
        "kind_free_text": "property-based testing (pgregory.net/rapid v1.3.0: random and stateful generation, shrinking), bounded exhaustive enumerators, native go fuzzing in thorough tiers; explicit oracles (reference models, round trips, differential / metamorphic relations, history invariants)",
    }],
    "checks": checks,
    "not_applicable": na,
    "notes": "Driver: tools/check.py; per-property packages under props/; known findings in known-findings.txt; saved shrunk failures replayed first from regress/<ID>/. Exit 2 = inconclusive (never a VIOLATION).",
}
with open(os.path.join(ROOT, "MANIFEST.json"), "w") as f:
    json.dump(m, f, indent=1)
    f.write("\n")
try:
    import jsonschema
    jsonschema.validate(m, json.load(open("/root/.vp/MANIFEST.schema.json")))
    print("MANIFEST.json valid,", len(checks), "checks")
except ImportError:
    print("MANIFEST.json written (jsonschema not available for validation)")
