// Package c04: registering an outdated state never costs the honest party
// money (DESIGN.md §3 C04).
package c04

import (
	"context"
	"fmt"
	"math/big"
	"os"
	"strings"
	"sync"
	"testing"
	"time"

	"pgregory.net/rapid"

	"perun.network/go-perun/channel"
	"perun.network/go-perun/client"
	"perun.network/go-perun/wire"
	perunser "perun.network/go-perun/wire/perunio/serializer"
	"perun.network/go-perun/wire/protobuf"

	"verif/gen"
	"verif/h"
	"verif/sim"
)

func TestMain(m *testing.M) {
	gen.Setup()
	code := m.Run()
	h.FlushAll()
	os.Exit(code)
}

// Step is one honest step before the attack.
type Step struct {
	Kind   string      `json:"kind"` // pay | subopen | subpay | subclose
	By     int         `json:"by"`
	Asset  int         `json:"asset"`
	Amount uint64      `json:"amount"`
	ToM    bool        `json:"tom"` // direction of the payment: towards the adversary or towards the honest party
	Bals   [][2]uint64 `json:"bals,omitempty"`
}

// Case: honest history, then the adversary registers an old state.
type Case struct {
	Adversary int         `json:"adversary"` // party index of M (the other one is H)
	Proposer  int         `json:"proposer"`
	Init      [][2]uint64 `json:"init"`
	Challenge uint64      `json:"challenge"`
	Ser       string      `json:"ser"`
	Steps     []Step      `json:"steps"`
	// During: "" = between updates; "acc-held": H proposes an update and M's
	// acceptance is held back while M registers; "handler-held": M proposes an
	// update and H's user handler takes its time to accept it while M registers;
	// "prop-held": M proposes an
	// update which is held back while M registers.
	During       string `json:"during"`
	InFlight     Step   `json:"inflight"`
	RaceStart    bool   `json:"racestart"`    // the honest party proposes its first update at the very moment its Channel.Watch registers the channel with the watcher
	ReleaseEarly bool   `json:"releaseearly"` // the held message is released right after the registration call returned instead of after the system has become quiet
	EventsLate   bool   `json:"eventslate"`   // the events caused by H's own refutation reach H only after the in-flight update has gone through
	InFlightSub  bool   `json:"inflightsub"`  // the in-flight update is a payment in the open sub-channel
	FinalLast    bool   `json:"finallast"`    // the newest agreed state is a final state that also moves funds
	OldPick      int    `json:"oldpick"`      // which of M's enabled ledger transactions is registered
	SubPick      int    `json:"subpick"`      // which earlier sub-channel transaction goes with it
	Order        []int  `json:"order"`
	Concurrent   bool   `json:"concurrent"`
	Rewatch      bool   `json:"rewatch,omitempty"` // H calls Watch a second time on its watched sub-channel (the call fails, as it must)
	CtxEnds      bool   `json:"ctxends,omitempty"` // the context H's update handler passes to Accept ends the moment its acceptance is on the wire
}

func drawCase(t *rapid.T) Case {
	var c Case
	c.Adversary = rapid.IntRange(0, 1).Draw(t, "adversary")
	c.Proposer = rapid.IntRange(0, 1).Draw(t, "proposer")
	na := []int{1, 1, 2}[rapid.IntRange(0, 2).Draw(t, "nassets")]
	for i := 0; i < na; i++ {
		c.Init = append(c.Init, [2]uint64{uint64(rapid.IntRange(20, 100).Draw(t, "initA")), uint64(rapid.IntRange(20, 100).Draw(t, "initB"))})
	}
	c.Challenge = uint64(rapid.IntRange(1, 50).Draw(t, "challenge"))
	c.Ser = rapid.SampledFrom([]string{"", "", "native", "protobuf"}).Draw(t, "ser")
	ns := rapid.IntRange(1, 8).Draw(t, "nsteps")
	subOpen := false
	for i := 0; i < ns; i++ {
		var s Step
		kinds := []string{"pay", "pay", "pay", "subopen"}
		if subOpen {
			kinds = []string{"pay", "subpay", "subpay", "subpay", "subclose"}
		}
		s.Kind = rapid.SampledFrom(kinds).Draw(t, "kind")
		s.By = rapid.IntRange(0, 1).Draw(t, "by")
		s.Asset = rapid.IntRange(0, na-1).Draw(t, "asset")
		s.Amount = uint64(rapid.IntRange(1, 15).Draw(t, "amount"))
		s.ToM = rapid.IntRange(0, 3).Draw(t, "tom") == 0 // mostly towards H: then an old state favours M
		if s.Kind == "subopen" {
			for a := 0; a < na; a++ {
				s.Bals = append(s.Bals, [2]uint64{uint64(rapid.IntRange(0, 10).Draw(t, "subA")), uint64(rapid.IntRange(0, 10).Draw(t, "subB"))})
			}
			subOpen = true
		} else if s.Kind == "subclose" {
			subOpen = false
		}
		c.Steps = append(c.Steps, s)
	}
	c.During = rapid.SampledFrom([]string{"", "", "acc-held", "prop-held", "handler-held"}).Draw(t, "during")
	c.InFlight = Step{Kind: "pay", Asset: rapid.IntRange(0, na-1).Draw(t, "ifasset"), Amount: uint64(rapid.IntRange(1, 15).Draw(t, "ifamount")), ToM: rapid.IntRange(0, 3).Draw(t, "iftom") == 0}
	c.RaceStart = rapid.IntRange(0, 3).Draw(t, "racestart") == 0
	c.ReleaseEarly = rapid.Bool().Draw(t, "releaseearly")
	c.EventsLate = !c.ReleaseEarly && rapid.Bool().Draw(t, "eventslate")
	c.InFlightSub = rapid.IntRange(0, 2).Draw(t, "inflightsub") == 0
	c.FinalLast = c.During == "" && rapid.IntRange(0, 2).Draw(t, "finallast") == 0
	if subOpen && rapid.IntRange(0, 2).Draw(t, "subfocus") == 0 {
		// a sub-channel is open at the time of the attack: often aim the in-flight
		// update at it and let the events of H's own refutation arrive late
		c.During = rapid.SampledFrom([]string{"acc-held", "acc-held", "prop-held"}).Draw(t, "subduring")
		c.InFlightSub, c.FinalLast = true, false
		c.EventsLate = rapid.IntRange(0, 2).Draw(t, "subeventslate") != 0
		if c.EventsLate {
			c.ReleaseEarly = false
		}
	}
	c.CtxEnds = rapid.IntRange(0, 3).Draw(t, "ctxends") == 0
	c.Rewatch = rapid.IntRange(0, 3).Draw(t, "rewatch") == 0
	c.OldPick = rapid.IntRange(0, 40).Draw(t, "oldpick")
	c.SubPick = rapid.IntRange(0, 40).Draw(t, "subpick")
	switch rapid.IntRange(0, 2).Draw(t, "order") {
	case 0:
		c.Order = []int{0, 1}
	case 1:
		c.Order = []int{1, 0}
	default:
		c.Order, c.Concurrent = []int{0, 1}, true
	}
	return c
}

func bigs(v [][2]uint64) [][2]*big.Int {
	out := make([][2]*big.Int, len(v))
	for i := range v {
		out[i] = [2]*big.Int{new(big.Int).SetUint64(v[i][0]), new(big.Int).SetUint64(v[i][1])}
	}
	return out
}

func serializer(name string) wire.EnvelopeSerializer {
	switch name {
	case "native":
		return perunser.Serializer()
	case "protobuf":
		return protobuf.Serializer()
	}
	return nil
}

const startBalance = 1000

// gate is something that catches the in-flight update and lets it continue on
// Release: a paused bus link or a user handler that takes its time.
type gate interface {
	Caught() <-chan struct{}
	Release()
}

type handlerGate struct {
	caught, release chan struct{}
	once, rel       sync.Once
}

func (g *handlerGate) Caught() <-chan struct{} { return g.caught }
func (g *handlerGate) Release()                { g.rel.Do(func() { close(g.release) }) }

func busPred(during string, ledgerID channel.ID, nextV uint64) func(e *wire.Envelope) bool {
	return func(e *wire.Envelope) bool {
		switch m := e.Msg.(type) {
		case *client.ChannelUpdateAccMsg:
			return during == "acc-held" && m.ChannelID == ledgerID && m.Version == nextV
		case *client.ChannelUpdateMsg:
			return during == "prop-held" && m.State.ID == ledgerID && m.State.Version == nextV
		}
		return false
	}
}

type enabledTx struct {
	seq uint64
	tx  channel.Transaction
}

func enabledOf(p *sim.Party, id channel.ID) []enabledTx {
	var out []enabledTx
	for _, e := range p.Rec.Events() {
		if e.Kind == "enabled" && e.Chan == id && e.Cur.State != nil {
			out = append(out, enabledTx{e.Seq, e.Cur})
		}
	}
	return out
}

// pay moves amount between the parties on channel handles chs, proposed by
// party `by`; direction by party index `to`.
func pay(pr *sim.Pair, chs [2]*client.Channel, by, to int, asset int, amount uint64, limit time.Duration) error {
	ch := chs[by]
	from := sim.Idx(chs[to^1])
	return pr.UpdateLimit(by, ch, sim.Transfer(asset, from, new(big.Int).SetUint64(amount), false), true, limit)
}

func runCase(c Case, known func(string) bool) *h.Outcome {
	o := &h.Outcome{}
	fail := func(sig, format string, args ...any) *h.Outcome {
		o.Fail = h.Failf(sig, format, args...)
		return o
	}
	na := len(c.Init)
	assets := make([]uint64, na)
	for i := range assets {
		assets[i] = uint64(100 + i)
	}
	M, H := c.Adversary, c.Adversary^1
	watch := [2]bool{}
	watch[H] = true // the honest party watches; the adversary's own watcher is irrelevant
	pr, err := sim.NewPairOpt(serializer(c.Ser), 0, 1, watch)
	if err != nil {
		return fail("harness", "creating parties: %v", err)
	}
	defer pr.Env.Close()
	if c.CtxEnds {
		pr.CtxEndsAfterAccept[H].Store(true)
		o.Class("honest-accept-context-ends-after-sending")
	}
	L := pr.Env.Ledger
	for i := 0; i < 2; i++ {
		for _, a := range assets {
			L.Credit(pr.P[i].Name, pr.P[i].Acc.Address(), a, big.NewInt(startBalance))
		}
	}
	var raceDone chan error
	if c.RaceStart {
		o.Class("update-races-watch-start")
		raceDone = make(chan error, 1)
		var once sync.Once
		pr.Env.WatchStartHook = func(p *sim.Party, id channel.ID) {
			if p != pr.P[H] {
				return
			}
			ch := p.Channel(id)
			if ch == nil || !ch.IsLedgerChannel() {
				return
			}
			once.Do(func() {
				go func() {
					ctx, cancel := context.WithTimeout(context.Background(), sim.HangLimit)
					defer cancel()
					// the adversary pays 1 to the honest party: an old state then favours the adversary
					raceDone <- ch.Update(ctx, sim.Transfer(0, int(ch.Idx())^1, big.NewInt(1), false))
				}()
				time.Sleep(30 * time.Millisecond) // let the update queue up on the machine mutex
			})
		}
	}
	if err := pr.Open(c.Proposer, assets, bigs(c.Init), nil, c.Challenge, nil, nil); err != nil {
		return fail("harness-open", "honest opening failed: %v", err)
	}
	if raceDone != nil {
		select {
		case err := <-raceDone:
			if err != nil {
				return fail("harness-race-update", "the update proposed while Watch was starting failed: %v", err)
			}
		case <-time.After(sim.HangLimit):
			return fail("harness-race-update", "the update proposed while Watch was starting did not return")
		}
	}
	ledgerID := pr.Ch[0].ID()
	var subID channel.ID
	haveSub := false
	affordable := func(chs [2]*client.Channel, payer int, asset int, amount uint64) bool {
		s := chs[payer].State()
		return s.Balances[asset][sim.Idx(chs[payer])].Cmp(new(big.Int).SetUint64(amount)) >= 0
	}
	for si, s := range c.Steps {
		to := H
		if s.ToM {
			to = M
		}
		switch s.Kind {
		case "pay", "subpay":
			chs := pr.Ch
			if s.Kind == "subpay" {
				if pr.Sub[0] == nil {
					continue
				}
				chs = pr.Sub
			}
			if !affordable(chs, to^1, s.Asset, s.Amount) {
				continue
			}
			if err := pay(pr, chs, s.By, to, s.Asset, s.Amount, sim.HangLimit); err != nil {
				return fail("harness-update", "step %d: honest update failed: %v", si, err)
			}
		case "subopen":
			if pr.Sub[0] != nil {
				continue
			}
			ok := true
			parent := pr.Ch[c.Proposer].State()
			for a := range s.Bals {
				for p := 0; p < 2; p++ {
					if parent.Balances[a][sim.Idx(pr.Ch[p])].Cmp(new(big.Int).SetUint64(s.Bals[a][p])) < 0 {
						ok = false
					}
				}
			}
			if !ok {
				continue
			}
			if err := pr.OpenSub(c.Proposer, bigs(s.Bals), c.Challenge); err != nil {
				return fail("harness-subopen", "step %d: honest sub-channel opening failed: %v", si, err)
			}
			subID, haveSub = pr.Sub[0].ID(), true
			o.Class("with-sub-channel")
			if c.Rewatch {
				err, started := pr.P[H].WatchAgain(pr.Sub[H], sim.HangLimit)
				switch {
				case !started:
					return fail("harness-rewatch", "step %d: the honest party's sub-channel was not registered with its watcher", si)
				case err == nil:
					return fail("hang:second-watch", "step %d: a second Watch call on the honest party's watched sub-channel did not return", si)
				}
				o.Class("second-watch-call-refused")
			}
		case "subclose":
			if pr.Sub[0] == nil {
				continue
			}
			if err := pr.CloseSub(); err != nil {
				return fail("harness-subclose", "step %d: honest sub-channel settlement failed: %v", si, err)
			}
		}
	}
	if !pr.Env.Quiesce(10*time.Millisecond, sim.HangLimit) {
		return fail("harness", "world did not become quiet before the attack")
	}
	subOpen := pr.Sub[0] != nil
	if c.FinalLast && c.During == "" {
		// the newest agreed state is final and moves funds to the honest party
		by := c.Order[0]
		amt := new(big.Int).SetUint64(c.InFlight.Amount)
		mIdx := sim.Idx(pr.Ch[M])
		if pr.Ch[by].State().Balances[c.InFlight.Asset][mIdx].Cmp(amt) < 0 {
			amt = new(big.Int)
		}
		if err := pr.Update(by, pr.Ch[by], sim.Transfer(c.InFlight.Asset, mIdx, amt, true), true); err != nil {
			return fail("harness-final", "honest final update failed: %v", err)
		}
		o.Class("newest-is-final")
		pr.Env.Quiesce(10*time.Millisecond, sim.HangLimit)
	}

	// ---- the in-flight update, held back on the bus
	var hold gate
	inflightOnSub := false
	inflightDone := make(chan error, 1)
	during := c.During
	if during != "" {
		to := H
		if c.InFlight.ToM {
			to = M
		}
		target, targetID := pr.Ch, ledgerID
		if c.InFlightSub && subOpen && during != "handler-held" {
			target, targetID = pr.Sub, pr.Sub[0].ID()
			inflightOnSub = true
		}
		if !affordable(target, to^1, c.InFlight.Asset, c.InFlight.Amount) {
			during = ""
			inflightOnSub = false
		} else {
			nextV := target[H].State().Version + 1
			by := H
			if during == "prop-held" || during == "handler-held" {
				by = M
			}
			if during == "handler-held" {
				hg := &handlerGate{caught: make(chan struct{}), release: make(chan struct{})}
				pr.P[H].SetHandlers(nil, func(_ *channel.State, _ client.ChannelUpdate, r *client.UpdateResponder) {
					hg.once.Do(func() { close(hg.caught) })
					<-hg.release
					ctx, cancel := context.WithTimeout(context.Background(), sim.HangLimit)
					defer cancel()
					_ = r.Accept(ctx)
				})
				hold = hg
			} else {
				hold = pr.Env.Bus.Hold(busPred(during, targetID, nextV))
			}
			if inflightOnSub {
				o.Class("inflight-on-sub-channel")
			}

			go func() {
				inflightDone <- pay(pr, target, by, to, c.InFlight.Asset, c.InFlight.Amount, 1500*time.Millisecond)
			}()
			select {
			case <-hold.Caught():
			case err := <-inflightDone:
				return fail("harness-inflight", "in-flight update ended before its message was caught: %v", err)
			case <-time.After(sim.HangLimit):
				return fail("harness-inflight", "in-flight message was never published")
			}
			o.Class("during:" + during)
		}
	}
	if during == "" {
		o.Class("between-updates")
	}

	// ---- the adversary registers an old fully signed state it really obtained
	mine := enabledOf(pr.P[M], ledgerID)
	if len(mine) == 0 {
		return fail("harness", "adversary has no enabled transaction")
	}
	old := mine[c.OldPick%len(mine)]
	var subs []channel.SignedState
	for _, lk := range old.tx.State.Locked {
		var cands []enabledTx
		for _, e := range enabledOf(pr.P[M], lk.ID) {
			if e.seq < old.seq {
				cands = append(cands, e)
			}
		}
		if len(cands) == 0 {
			return fail("harness", "no sub-channel transaction of that time")
		}
		pick := cands[len(cands)-1-(c.SubPick%len(cands))]
		sub := pr.P[M].Channel(lk.ID)
		if sub == nil {
			return fail("harness", "adversary does not know the locked sub-channel")
		}
		subs = append(subs, channel.SignedState{Params: sub.Params(), State: pick.tx.State, Sigs: pick.tx.Sigs})
	}
	regCtx, cancel := context.WithTimeout(context.Background(), sim.HangLimit)
	defer cancel()
	regTime := L.Clock.Now()
	// what H had agreed to when the registration was made
	atReg, ok := pr.P[H].Rec.LastEnabled(ledgerID)
	if !ok {
		return fail("harness", "honest party has no enabled transaction")
	}
	atRegSub := map[channel.ID]channel.Transaction{}
	for _, lk := range atReg.State.Locked {
		if tx, ok := pr.P[H].Rec.LastEnabled(lk.ID); ok {
			atRegSub[lk.ID] = tx
		}
	}
	if hold != nil && c.ReleaseEarly && during != "handler-held" {
		L.HoldEvents(pr.P[H].Name)
	}
	eventsLate := hold != nil && c.EventsLate
	if eventsLate {
		L.HoldEventsOnRegisterBy(pr.P[H].Name)
	}
	refutedBeforeRelease := false
	if err := pr.P[M].View.Register(regCtx, channel.AdjudicatorReq{Params: pr.Ch[M].Params(), Tx: old.tx, Idx: pr.Ch[M].Idx()}, subs); err != nil {
		return fail("harness-register", "the reference ledger refused the adversary's registration of a genuinely signed state: %v", err)
	}
	if hold != nil {
		if c.ReleaseEarly && during != "handler-held" {
			// the chain node of the honest party reports the registration only
			// after the update has gone through (event latency > message latency)
			o.Class("release-early")
		} else {
			// let the watcher and the client see the registration first, then let the update continue
			pr.Env.Quiesce(20*time.Millisecond, sim.HangLimit)
		}
		if eventsLate {
			// H's watcher has refuted (if it had to); the events of that refutation are
			// still on their way when the in-flight update goes through
			// ... provided the refutation raised the registered version of the very
			// channel the in-flight update belongs to (only then a new registered event
			// for that channel is on its way)
			for _, cl := range L.Calls() {
				if cl.Kind != "register" || cl.Err != "" || !cl.Changed || !strings.HasPrefix(cl.Who, pr.P[H].Name) {
					continue
				}
				if !inflightOnSub && cl.Chan == ledgerID && cl.Version > old.tx.State.Version {
					refutedBeforeRelease = true
				}
				if inflightOnSub {
					sid := pr.Sub[0].ID()
					for _, sg := range subs {
						if sg.State.ID == sid && cl.Subs[sid] > sg.State.Version {
							refutedBeforeRelease = true
						}
					}
				}
			}
			o.Class("events-late")
			if refutedBeforeRelease {
				o.Class("events-late:after-own-refutation")
			}
		}
		hold.Release()
		select {
		case <-inflightDone: // may fail: the channel is in dispute now
		case <-time.After(sim.HangLimit):
			return fail("inflight-hang", "the in-flight update did not return within the hang limit after the registration")
		}
		L.ReleaseEvents()
	}
	if !pr.Env.Quiesce(150*time.Millisecond, sim.HangLimit) {
		return fail("harness", "world did not become quiet after the registration")
	}
	if L.Clock.Now() != regTime {
		return fail("harness", "logical clock moved before the oracle looked")
	}

	// ---- oracle (i): before the challenge period ends, H's newest agreed states are registered
	newestH, ok := pr.P[H].Rec.LastEnabled(ledgerID)
	if !ok {
		return fail("harness", "honest party has no enabled transaction")
	}
	reg := L.Channel(ledgerID)
	if reg == nil || reg.Reg == nil {
		return fail("harness", "nothing registered")
	}
	gain := false
	hIdx := sim.Idx(pr.Ch[H])
	for a := range assets {
		if newestH.State.Balances[a][hIdx].Cmp(old.tx.State.Balances[a][hIdx]) > 0 {
			gain = true
		}
	}
	o.Nontrivial = old.tx.State.Version < newestH.State.Version && gain
	if old.tx.State.Version < newestH.State.Version {
		o.Class("outdated")
	} else {
		o.Class("not-outdated")
	}
	// ref is the state the remaining clauses are judged against: H's newest
	// agreed state - or, for a listed known finding about states agreed after
	// the registration, what H had agreed to when the registration was made.
	ref := newestH
	refSub := func(id channel.ID) (channel.Transaction, bool) { return pr.P[H].Rec.LastEnabled(id) }
	if reg.Reg.State.Version < newestH.State.Version {
		msg := fmt.Sprintf("adversary registered v%d; the honest party's newest agreed state is v%d but v%d is registered when the system is quiet (challenge period still open, registered by %s)", old.tx.State.Version, newestH.State.Version, reg.Reg.State.Version, reg.Reg.By)
		sig := "not-refuted:ledger-channel"
		if refutedBeforeRelease {
			// the registered event of H's own refutation reached the watcher after the
			// newer state had been published: the watcher must refute once more
			sig = "not-refuted:late-events:" + during
		} else if newestH.State.Version > atReg.State.Version && reg.Reg.State.Version >= atReg.State.Version {
			// everything H had agreed to at the time of the registration is registered,
			// but H agreed to a newer state afterwards (update in flight) and that one is not
			sig = "not-refuted:agreed-after-registration:" + during
		}
		if !known(sig) {
			return fail(sig, "%s", msg)
		}
		o.Known = append(o.Known, h.Failf(sig, "%s", msg))
		ref = atReg
		refSub = func(id channel.ID) (channel.Transaction, bool) { tx, ok := atRegSub[id]; return tx, ok }
	}
	var newestSub channel.Transaction
	subLocked := false
	for _, lk := range ref.State.Locked {
		ns, ok := refSub(lk.ID)
		if !ok {
			return fail("harness", "honest party has no transaction for a locked sub-channel")
		}
		newestSub, subLocked = ns, true
		sr := L.Channel(lk.ID)
		if sr == nil || sr.Reg == nil {
			return fail("not-refuted:sub-channel-unregistered", "sub-channel %s locked in the honest party's newest state has no registered state", sim.Describe(lk.ID))
		}
		if sr.Reg.State.Version < ns.State.Version {
			if at, ok := atRegSub[lk.ID]; ok && inflightOnSub && !refutedBeforeRelease && ns.State.Version > at.State.Version && sr.Reg.State.Version >= at.State.Version {
				// the same known finding (F25) on the sub-channel: H agreed to the newer
				// sub-channel state only after the registration
				sig := "not-refuted:agreed-after-registration:" + during
				if known(sig) {
					o.Known = append(o.Known, h.Failf(sig, "sub-channel %s: v%d registered, newest v%d agreed after the registration", sim.Describe(lk.ID), sr.Reg.State.Version, ns.State.Version))
					newestSub = at
					continue
				}
			}
			if old.tx.State.Version > atReg.State.Version && !refutedBeforeRelease {
				// the adversary registered a ledger-channel state the honest party did not have
				// yet (H's own proposal, accepted by M but the acceptance held back) together
				// with an old sub-channel state: the watcher's refutation carries H's older
				// ledger state and the adjudicator refuses it as a whole.  Once the acceptance
				// arrives H has the newer ledger state, but nothing registers again: the same
				// missing mechanism as F25.
				sig := "not-refuted:parent-ahead-of-honest:" + during
				if known(sig) {
					o.Known = append(o.Known, h.Failf(sig, "sub-channel %s: v%d registered, newest v%d; adversary registered ledger v%d while the honest party had v%d", sim.Describe(lk.ID), sr.Reg.State.Version, ns.State.Version, old.tx.State.Version, atReg.State.Version))
					newestSub = *sr.Reg2Tx()
					continue
				}
				return fail(sig, "sub-channel %s: v%d is registered, the honest party's newest agreed state is v%d; the adversary registered ledger channel v%d, which the honest party (at v%d) did not have yet, so its refutation was refused", sim.Describe(lk.ID), sr.Reg.State.Version, ns.State.Version, old.tx.State.Version, atReg.State.Version)
			}
			kind := "not-refuted:sub-channel:"
			if refutedBeforeRelease {
				kind = "not-refuted:late-events:sub:"
			}
			return fail(kind+during, "sub-channel %s: v%d is registered, the honest party's newest agreed state is v%d (adversary registered ledger channel v%d with sub-channel v%d)", sim.Describe(lk.ID), sr.Reg.State.Version, ns.State.Version, old.tx.State.Version, func() uint64 {
				for _, s := range subs {
					if s.State.ID == lk.ID {
						return s.State.Version
					}
				}
				return 0
			}())
		}
	}
	_ = subOpen
	_ = haveSub
	_ = subID

	// ---- settlement: the clock passes the deadline only now
	before := make([]*big.Int, na)
	for a, aid := range assets {
		before[a] = L.Balance(pr.P[H].Acc.Address(), aid)
	}
	res := pr.Settle(c.Order, c.Concurrent, [2]bool{})
	if res[H].Hung {
		return fail("settle-hang", "Settle of the honest party did not return within the hang limit")
	}
	// A failed Settle call costs nothing yet: the honest party tries again.  (On
	// the unchanged tree a Settle that starts after the ledger channel's
	// registered event was handled but before the sub-channel's own event has
	// reached its machine fails with a phase error; the next attempt succeeds.
	// A fresh-copy run of this check met that schedule once.)
	for attempt := 0; attempt < 3 && res[H].Err != nil && !res[H].Hung; attempt++ {
		o.Class("honest-settle-retried")
		pr.Env.Quiesce(20*time.Millisecond, sim.HangLimit)
		r2 := pr.Settle([]int{H}, false, [2]bool{})
		res[H] = r2[H]
	}
	if res[H].Hung {
		return fail("settle-hang", "a repeated Settle of the honest party did not return within the hang limit")
	}
	if res[H].Err != nil {
		o.Class("honest-settle-error")
	}
	for a, aid := range assets {
		want := new(big.Int).Set(ref.State.Balances[a][hIdx])
		if subLocked {
			want.Add(want, newestSub.State.Balances[a][sim.Idx(pr.Sub[H])])
		}
		if len(o.Known) > 0 {
			// known finding F25: some state H agreed to from the registration
			// onwards gets concluded; H must at least get its balance in the
			// least favourable of them
			w2 := new(big.Int).Set(newestH.State.Balances[a][hIdx])
			for _, lk := range newestH.State.Locked {
				if tx, ok := pr.P[H].Rec.LastEnabled(lk.ID); ok && pr.Sub[H] != nil {
					w2.Add(w2, tx.State.Balances[a][sim.Idx(pr.Sub[H])])
				}
			}
			if w2.Cmp(want) < 0 {
				want = w2
			}
		}
		got := new(big.Int).Sub(L.Balance(pr.P[H].Acc.Address(), aid), before[a])
		if got.Cmp(want) < 0 {
			return fail("payout-below-newest", "honest party was paid %v of asset %d; its balance in its newest agreed state (v%d) is %v (Settle error: %v)", got, a, ref.State.Version, want, res[H].Err)
		}
	}
	for _, p := range L.Problems() {
		if p.Who == "ledger" {
			return fail("ledger-invariant:"+p.Kind, "%s", p.Msg)
		}
		if strings.HasPrefix(p.Who, pr.P[H].Name) {
			o.Class("honest-call-refused:" + p.Kind)
		}
	}
	// the refutation (if one was needed) came from the honest party's watcher
	if old.tx.State.Version < newestH.State.Version && !strings.HasPrefix(reg.Reg.By, pr.P[H].Name) && reg.Reg.State.Version > old.tx.State.Version {
		o.Class("refuted-by-other")
	}
	return o
}

const rule = "C03-style honest histories (payments in both directions, sub-channel open/pay/close) between an honest, watching party H and an adversary M that deviates only by registering, directly on the reference ledger, one of the fully signed ledger-channel transactions it really obtained (any version 0..latest, with the sub-channel transaction of that time or an older one if a sub-channel is locked in it): between two updates, or while an update is in flight - the bus holds back M's acceptance of H's proposal, or M's own proposal, until the registration is on the ledger. The harness waits for quiescence (logical clock unchanged), then both settle. Oracle: (i) at quiescence, before the challenge period ends, the registered version of the ledger channel and of every sub-channel locked in H's newest state is >= the newest state H's persister enabled; (ii) after settlement H's account grew by at least its balance in that newest state (incl. its sub-channel balance); (iii) ledger conservation. The honest party repeats a failed Settle up to three times and in a quarter of the cases calls Watch a second time on its watched sub-channel (refused). non-trivial = the registered version is older than H's newest and H's balance in the newest state is higher for some asset"

func TestOutdatedRegistration(t *testing.T) {
	rec := h.Begin("C04", "")
	rec.SetRule(rule,
		"adversary = peer that deviates only by registering old signed states; goroutine schedules are sampled; message order per link, ledger time and the moment of the registration are owned by the harness",
		"quiescence is detected by 150 ms without bus/ledger/persister activity; the watcher's own 1 ms drain timer is real time")
	defer rec.Flush()
	rapid.Check(t, func(rt *rapid.T) {
		c := drawCase(rt)
		rec.MarkCurrent(c)
		rec.Report(rt, c, runCase(c, rec.IsKnown))
	})
}

func TestReplay(t *testing.T) {
	p := h.ReplayPath()
	if p == "" {
		t.Skip("no replay requested")
	}
	var c Case
	if err := h.LoadReplay(p, &c); err != nil {
		t.Fatal(err)
	}
	rec := h.Begin("C04", "replay")
	o := runCase(c, rec.IsKnown)
	fmt.Println("classes:", o.Classes)
	rec.Report(t, c, o)
}
