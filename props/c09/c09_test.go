package c09

import (
	"fmt"
	"os"
	"testing"

	"pgregory.net/rapid"

	"perun.network/go-perun/channel"

	"verif/gen"
	"verif/h"
	"verif/mach"
)

func TestMain(m *testing.M) {
	gen.Setup()
	code := m.Run()
	h.FlushAll()
	os.Exit(code)
}

// runCase executes the operation sequence on a fresh machine and compares
// every step with the reference automaton.
func runCase(c mach.Case) *h.Outcome {
	o := &h.Outcome{}
	e, err := mach.New(c.Cfg)
	if err != nil {
		o.Fail = h.Failf("harness:new-machine", "%v", err)
		return o
	}
	m := NewModel(c.Cfg.N, c.Cfg.Idx)
	own := mach.Addr(c.Cfg.Idx)
	phases := map[channel.Phase]bool{e.M.Phase(): true}
	if e.M.Phase() != channel.InitActing {
		o.Fail = h.Failf("fresh-phase", "fresh machine is in phase %v", e.M.Phase())
		return o
	}
	sawFail, failThenOK := false, false
	o.Class(fmt.Sprintf("cfg:n%d/idx%d/%s", c.Cfg.N, c.Cfg.Idx, c.Cfg.App))

	for i, op := range c.Ops {
		at := fmt.Sprintf("step %d %v in phase %v", i, op, m.Phase)
		var pre, post mach.Obs
		var call mach.Call
		var res mach.Result
		if f := h.Guard(func() *h.Failure {
			pre = e.Observe()
			call = e.Resolve(op)
			return nil
		}); f != nil {
			f.Msg = at + ": observing/resolving: " + f.Msg
			o.Fail = f
			return o
		}
		if call.Skip != "" {
			o.Class("skipped:" + call.Skip)
			continue
		}
		exp := m.Expect(call)
		res = e.Apply(call)
		if f := h.Guard(func() *h.Failure { post = e.Observe(); return nil }); f != nil {
			f.Msg = at + ": observing: " + f.Msg
			o.Fail = f
			return o
		}
		lbl := op.Label()
		if call.SigEff != "" && call.SigEff != op.S {
			eff := op
			eff.S = call.SigEff
			lbl = eff.Label()
		}

		if call.Unspecified != "" {
			// the documentation does not say what happens; only "read-only" holds
			how := "ok"
			if res.Panic != nil {
				how = "panic"
			} else if res.Err != nil {
				how = "error"
			}
			o.Class("unspecified:" + call.Unspecified + ":" + how)
			if !pre.Same(post) {
				o.Fail = h.Failf("atomicity:"+op.K, "%s: read-only call changed the machine:%s", at, pre.Diff(post))
				return o
			}
			continue
		}
		if res.Panic != nil {
			res.Panic.Msg = at + ": " + res.Panic.Msg
			o.Fail = res.Panic
			return o
		}

		if res.Err != nil {
			o.Class("err:" + lbl)
			o.Class("err@" + m.Phase.String() + ":" + op.K)
			sawFail = true
			if exp.OK {
				o.Fail = h.Failf("refused:"+op.K, "%s: documented precondition holds but the call failed: %v", at, res.Err)
				return o
			}
			if !pre.Same(post) {
				o.Fail = h.Failf("atomicity:"+op.K, "%s: call returned an error (%v) but changed:%s", at, res.Err, pre.Diff(post))
				return o
			}
			continue
		}

		// success
		o.Class("ok:" + lbl)
		o.Class("ok@" + m.Phase.String() + ":" + op.K)
		if !exp.OK {
			o.Fail = h.Failf("accepted:"+op.K, "%s: call succeeded although %s;%s", at, exp.Why, pre.Diff(post))
			return o
		}
		if sawFail {
			failThenOK = true
		}
		if post.Phase != exp.Phase {
			o.Fail = h.Failf("phase:"+op.K, "%s: phase after the call is %v, documented %v", at, post.Phase, exp.Phase)
			return o
		}
		if op.K == mach.Sig || op.K == mach.SigFault {
			// own signature over the currently staged state
			st := e.M.StagingState()
			if res.Sig == nil || st == nil {
				o.Fail = h.Failf("sig-missing", "%s: Sig succeeded with sig=%x staged=%v", at, res.Sig, st != nil)
				return o
			}
			var ok bool
			var verr error
			if f := h.Guard(func() *h.Failure { ok, verr = channel.Verify(own, st, res.Sig); return nil }); f != nil {
				o.Fail = f
				return o
			}
			if verr != nil || !ok {
				o.Fail = h.Failf("sig-invalid", "%s: own signature does not verify over the staged state (ok=%v err=%v)", at, ok, verr)
				return o
			}
		}
		m.Commit(call, exp, res.Sig)
		if why := m.CheckEffect(e.M); why != "" {
			o.Fail = h.Failf("effect:"+op.K, "%s: %s", at, why)
			return o
		}
		phases[post.Phase] = true
	}
	for p := range phases {
		o.Class("phase:" + p.String())
	}
	if failThenOK {
		o.Class("fail-then-success")
	}
	if len(phases) >= 4 {
		o.Class("visits>=4-phases")
	}
	o.Nontrivial = failThenOK || len(phases) >= 4
	return o
}

var assumptions = []string{
	"signature indices are below the participant count (larger ones are documented to panic); the unchecked ForceUpdate is applied only when the machine has a current state (skipped and counted otherwise)",
	"states handed to the machine are well-formed (valid allocation with one column per participant, the channel's app, NoData) and are not mutated afterwards; Init with a data type the app refuses is generated for the no-app only (the payment app is documented to panic)",
	"CheckUpdate on a machine without a current state is counted as unspecified (the documentation is silent; the pinned code dereferences the nil state): only its read-only-ness is asserted",
	"what the staged transaction is after a promotion or after SetProgressed is not documented and not asserted; no precondition depends on it",
	"participant keys come from a per-process pool; cases are key-independent; signatures are ECDSA (sim backend), forgeries are out of reach",
}

const oracle = "oracle: reference automaton written from the method documentation (props/c09/model.go): per step error <=> documented precondition (phase, signature slots, final flag, candidate/signature validity by construction) is false; on success Phase() is the documented phase and StagingTX()/CurrentTX() show the documented effect; on error the encodings of Phase(), StagingTX(), CurrentTX() are byte-identical to before; Sig() succeeds only in InitSigning/Signing/Progressing and verifies for the own address over StagingState(); no panic. non-trivial = a failing call followed later by a succeeding call, or >= 4 phases visited; distinct by SHA-256 of the case JSON"

// TestEnum enumerates all operation sequences up to the tier's bounds.
func TestEnum(t *testing.T) {
	rec := h.Begin("C09", "enum")
	b := mach.Bounds{Fresh: h.Pick(3, 4), FreshPayment: 3, Prefixed: h.Pick(2, 3)}
	rec.SetRule(fmt.Sprintf("exhaustive: every sequence p.w over the complete alphabet of mach.Alphabet (41 concrete operations for two participants, 40 with the payment app) with p = empty and |w| <= %d (payment app: <= %d), and p one of 14 canonical protocol prefixes that reach every phase (mach.Prefixes) and |w| <= %d; two participants, own index 0 and 1, no-app and payment app; no state merging, every sequence runs on a fresh machine; ", b.Fresh, b.FreshPayment, b.Prefixed)+oracle, assumptions...)
	rec.SetExhaustive(true)
	defer rec.Flush()
	sh, n := h.Shard()
	run := 0
	total := mach.Enumerate(b, sh, n, func(cfg mach.Config, prefix string, plen int, ops []mach.Op) bool {
		c := mach.Case{Cfg: cfg, Ops: ops}
		o := runCase(c)
		o.Class("prefix:" + prefix)
		rec.Report(t, c, o)
		run++
		return !rec.Failed()
	})
	// numeric extras are summed over the shards by the driver, texts are not
	rec.Extra("enum_sequences_run", run)
	rec.Extra("enum_space", fmt.Sprintf("%d sequences (bounds: fresh <= %d, fresh with payment app <= %d, after a prefix <= %d)", total, b.Fresh, b.FreshPayment, b.Prefixed))
}

// TestRandom runs long random sequences.
func TestRandom(t *testing.T) {
	rec := h.Begin("C09", "random")
	rec.SetRule("rapid: sequences of 1..80 operations; two (75%) or three participants, own index 0/1, no-app or payment app, 1-2 assets; each step is drawn uniformly from the complete alphabet (45%) or from the operations the protocol suggests in the present phase incl. wrong/replayed/duplicate signatures (55%, steered by a scratch machine while drawing); "+oracle, assumptions...)
	defer rec.Flush()
	g := mach.GenCase(mach.GenOpts{MinLen: 1, MaxLen: 80, Ns: []int{2, 3}, Guided: 55})
	rapid.Check(t, func(rt *rapid.T) {
		c := g.Draw(rt, "case")
		rec.Report(rt, c, runCase(c))
	})
}

func TestReplay(t *testing.T) {
	p := h.ReplayPath()
	if p == "" {
		t.Skip("no replay requested")
	}
	var c mach.Case
	if err := h.LoadReplay(p, &c); err != nil {
		t.Fatal(err)
	}
	part := h.ReplayPart(p)
	if part == "" {
		part = "replay"
	}
	rec := h.Begin("C09", "replay-"+part)
	rec.Report(t, c, runCase(c))
}
