// Package c09: the channel state machine follows the documented phase protocol
// atomically (DESIGN.md §3 C09).
//
// model.go is the reference automaton.  It is transcribed from the method
// documentation in channel/machine.go and channel/statemachine.go and from the
// property text; it never calls the machine.  Sources, per operation:
//
//	Init            "sets the initial staging state to the given balance and data";
//	                transition InitActing->InitSigning; newState: participant count of the
//	                balances matches the params, allocation valid; the app's ValidInit.
//	Update          "makes the provided state the staging state. It is checked whether this
//	                is a valid state transition"; transition Acting->Signing; ValidTransition:
//	                matching ids, no transition from a final state, version +1, preservation of
//	                balances, plus the app rule; actor below the participant count.
//	ForceUpdate     "makes the provided state the staging state" - no condition (property:
//	                applied only when a current state exists); phase Signing.
//	CheckUpdate     "checks if the given state is a valid transition from the current state and
//	                if the given signature is valid ... read-only ... does not advance".
//	Sig             "own signature on the currently staged state ... only makes sense in a
//	                signing phase"; signing phases = InitSigning, Signing, Progressing.
//	AddSig          "verifies the provided signature ... on the staging state and if successful
//	                adds it ... checks whether the signature has already been set and in that case
//	                errors ... checked that the current phase is a signing phase".
//	DiscardUpdate   "discards the current staging transaction and sets the machine's phase back
//	                to Acting"; transition Signing->Acting.
//	EnableInit      InitSigning->Funding, EnableUpdate Signing->Acting, EnableFinal
//	                Signing->Final: "A valid phase transition and the existence of all signatures
//	                is checked"; "we transition to phase Final iff state.IsFinal".
//	SetFunded       Funding->Acting.
//	SetRegistering  "can be reached after the initial phases are done".
//	SetRegistered   same sentence.
//	SetProgressing  "sets the machine phase to Progressing and the staging state to the given
//	                state"; guard "can only progress after registration": Registered, Progressing,
//	                Progressed.
//	SetProgressed   "sets the machine phase to Progressed and the current state to the state
//	                specified in the given ProgressedEvent" - no condition is documented (the
//	                client applies it to every on-chain progression event).
//	SetWithdrawing  "can only be reached from phase Final, Registered, Progressed, or
//	                Withdrawing".
//	SetWithdrawn    "can only be reached from the Withdrawing phase".
package c09

import (
	"bytes"
	"fmt"

	"perun.network/go-perun/channel"
	"perun.network/go-perun/wallet"

	"verif/mach"
)

// Model is the reference automaton: phase, staged transaction, current
// transaction.
type Model struct {
	N, Own int
	Phase  channel.Phase

	// staged transaction.  StKnown is false where the documentation does not
	// say what the staged transaction is (after a promotion and after
	// SetProgressed); no precondition depends on it then, because every entry
	// into a signing phase stages a state.
	StKnown bool
	StSet   bool         // a state is staged
	StEnc   []byte       // its encoding
	StFinal bool         // its final flag
	StSigs  []wallet.Sig // its signature slots (nil = empty)

	CurSet    bool   // a current state exists
	CurEnc    []byte // its encoding
	CurFinal  bool
	CurSigs   []wallet.Sig // nil slice: signatures unspecified (after SetProgressed)
	CurSigsOK bool
}

// NewModel returns the automaton of a fresh machine: "phase InitActing", no
// staged and no current state.
func NewModel(n, own int) *Model {
	return &Model{N: n, Own: own, Phase: channel.InitActing, StKnown: true}
}

// Expect is the documented outcome of a call.
type Expect struct {
	OK    bool          // the call succeeds
	Phase channel.Phase // phase after a successful call
	Why   string        // which precondition is false (when !OK)
}

func signingPhase(p channel.Phase) bool {
	return p == channel.InitSigning || p == channel.Signing || p == channel.Progressing
}

func afterInit(p channel.Phase) bool {
	return p != channel.InitActing && p != channel.InitSigning
}

func (m *Model) allSigs() bool {
	for _, s := range m.StSigs {
		if s == nil {
			return false
		}
	}
	return len(m.StSigs) == m.N
}

// sigValidFor: the offered signature is participant idx's signature over the
// state with encoding enc.
func sigValidFor(c mach.Call, enc []byte) bool {
	return c.SigSigner == int(c.SigIdx) && c.SigOver != nil && enc != nil && bytes.Equal(c.SigOver, enc) &&
		(c.SigEff == mach.SigValid || c.SigEff == mach.SigReplayed || c.SigEff == "otherstate" || c.SigEff == mach.SigOther)
}

// candOK: the candidate is a valid transition from the model's current state.
func (m *Model) candOK(c mach.Call) (bool, string) {
	if !m.CurSet {
		return false, "no current state"
	}
	if !c.CandGood {
		return false, "candidate invalid (" + c.Op.C + ")"
	}
	if m.CurFinal {
		return false, "current state is final"
	}
	return true, ""
}

func no(why string) Expect { return Expect{Why: why} }

// Expect returns the documented outcome of c in the model's present state.
func (m *Model) Expect(c mach.Call) Expect {
	if signingPhase(m.Phase) && !(m.StKnown && m.StSet) {
		panic("c09 model: signing phase without a staged state")
	}
	in := func(ps ...channel.Phase) bool {
		for _, p := range ps {
			if p == m.Phase {
				return true
			}
		}
		return false
	}
	switch c.Op.K {
	case mach.Init:
		if !in(channel.InitActing) {
			return no("phase is not InitActing")
		}
		if !c.InitGood {
			return no("initial allocation/data invalid")
		}
		return Expect{OK: true, Phase: channel.InitSigning}
	case mach.Update:
		if !in(channel.Acting) {
			return no("phase is not Acting")
		}
		if ok, why := m.candOK(c); !ok {
			return no(why)
		}
		return Expect{OK: true, Phase: channel.Signing}
	case mach.ForceUpdate:
		return Expect{OK: true, Phase: channel.Signing}
	case mach.CheckUpdate:
		if ok, why := m.candOK(c); !ok {
			return no(why)
		}
		if !sigValidFor(c, c.StateEnc) {
			return no("signature invalid")
		}
		return Expect{OK: true, Phase: m.Phase}
	case mach.Sig:
		if !signingPhase(m.Phase) {
			return no("not a signing phase")
		}
		return Expect{OK: true, Phase: m.Phase}
	case mach.SigFault:
		// Sig() while the signer is broken: fails unless the own signature exists
		// already (then it is returned without asking the signer)
		if !signingPhase(m.Phase) {
			return no("not a signing phase")
		}
		if m.StSigs[m.Own] == nil {
			return no("the signer fails")
		}
		return Expect{OK: true, Phase: m.Phase}
	case mach.AddSig:
		if !signingPhase(m.Phase) {
			return no("not a signing phase")
		}
		if m.StSigs[c.SigIdx] != nil {
			return no("signature already present")
		}
		if !sigValidFor(c, m.StEnc) {
			return no("signature invalid")
		}
		return Expect{OK: true, Phase: m.Phase}
	case mach.Discard:
		if !in(channel.Signing) {
			return no("phase is not Signing")
		}
		return Expect{OK: true, Phase: channel.Acting}
	case mach.EnableInit, mach.EnableUpdate, mach.EnableFinal:
		from, to := channel.Signing, channel.Acting
		switch c.Op.K {
		case mach.EnableInit:
			from, to = channel.InitSigning, channel.Funding
		case mach.EnableFinal:
			to = channel.Final
		}
		if !in(from) {
			return no(fmt.Sprintf("phase is not %v", from))
		}
		if (to == channel.Final) != m.StFinal {
			return no("final flag does not match the target phase")
		}
		if !m.allSigs() {
			return no("a signature is missing")
		}
		return Expect{OK: true, Phase: to}
	case mach.SetFunded:
		if !in(channel.Funding) {
			return no("phase is not Funding")
		}
		return Expect{OK: true, Phase: channel.Acting}
	case mach.SetRegistering, mach.SetRegistered:
		if !afterInit(m.Phase) {
			return no("initial phases not done")
		}
		if c.Op.K == mach.SetRegistering {
			return Expect{OK: true, Phase: channel.Registering}
		}
		return Expect{OK: true, Phase: channel.Registered}
	case mach.SetProgressing:
		if !in(channel.Registered, channel.Progressing, channel.Progressed) {
			return no("not after registration")
		}
		return Expect{OK: true, Phase: channel.Progressing}
	case mach.SetProgressed:
		return Expect{OK: true, Phase: channel.Progressed}
	case mach.SetWithdrawing:
		if !in(channel.Final, channel.Registered, channel.Progressed, channel.Withdrawing) {
			return no("phase is not Final, Registered, Progressed or Withdrawing")
		}
		return Expect{OK: true, Phase: channel.Withdrawing}
	case mach.SetWithdrawn:
		if !in(channel.Withdrawing) {
			return no("phase is not Withdrawing")
		}
		return Expect{OK: true, Phase: channel.Withdrawn}
	}
	panic("c09 model: unknown op " + c.Op.K)
}

func (m *Model) stage(enc []byte, final bool) {
	m.StKnown, m.StSet, m.StEnc, m.StFinal = true, true, enc, final
	m.StSigs = make([]wallet.Sig, m.N) // "staging a new state resets the signature slots"
}

// Commit applies the documented effect of the successful call c.  ownSig is
// the signature Sig() returned (for a Sig call).
func (m *Model) Commit(c mach.Call, e Expect, ownSig wallet.Sig) {
	switch c.Op.K {
	case mach.Init:
		m.stage(c.InitEnc, false)
	case mach.Update, mach.ForceUpdate, mach.SetProgressing:
		m.stage(c.StateEnc, c.State.IsFinal)
	case mach.Sig:
		if m.StSigs[m.Own] == nil {
			m.StSigs[m.Own] = ownSig
		}
	case mach.AddSig:
		m.StSigs[c.SigIdx] = c.Sig
	case mach.Discard:
		m.StKnown, m.StSet, m.StEnc, m.StFinal, m.StSigs = true, false, nil, false, nil
	case mach.EnableInit, mach.EnableUpdate, mach.EnableFinal:
		m.CurSet, m.CurEnc, m.CurFinal = true, m.StEnc, m.StFinal
		m.CurSigs, m.CurSigsOK = m.StSigs, true
		m.StKnown = false
	case mach.SetProgressed:
		m.CurSet, m.CurEnc, m.CurFinal = true, c.StateEnc, c.State.IsFinal
		m.CurSigs, m.CurSigsOK = nil, false
		m.StKnown = false
	}
	m.Phase = e.Phase
}

// CheckEffect compares the machine with the model after a successful call:
// the documented effect on the staged and the current transaction.
func (m *Model) CheckEffect(mm *channel.StateMachine) string {
	st := mm.StagingTX()
	if m.StKnown {
		if !m.StSet {
			if st.State != nil {
				return "a state is staged although none should be"
			}
		} else {
			if st.State == nil {
				return "no state is staged"
			}
			if !bytes.Equal(mach.Enc(st.State), m.StEnc) {
				return "staged state differs from the one handed in"
			}
			if len(st.Sigs) != m.N {
				return fmt.Sprintf("staged transaction has %d signature slots, want %d", len(st.Sigs), m.N)
			}
			for i := range st.Sigs {
				if (st.Sigs[i] == nil) != (m.StSigs[i] == nil) {
					return fmt.Sprintf("staged signature slot %d: present=%v, documented=%v", i, st.Sigs[i] != nil, m.StSigs[i] != nil)
				}
				if st.Sigs[i] != nil && !bytes.Equal(st.Sigs[i], m.StSigs[i]) {
					return fmt.Sprintf("staged signature slot %d holds other bytes than were added", i)
				}
			}
		}
	}
	cur := mm.CurrentTX()
	if !m.CurSet {
		if cur.State != nil {
			return "a current state exists although none was enabled"
		}
		return ""
	}
	if cur.State == nil {
		return "no current state"
	}
	if !bytes.Equal(mach.Enc(cur.State), m.CurEnc) {
		return "current state differs from the promoted one"
	}
	if m.CurSigsOK {
		if len(cur.Sigs) != m.N {
			return fmt.Sprintf("current transaction has %d signatures, want %d", len(cur.Sigs), m.N)
		}
		for i := range cur.Sigs {
			if !bytes.Equal(cur.Sigs[i], m.CurSigs[i]) || cur.Sigs[i] == nil {
				return fmt.Sprintf("current signature %d is not the one that was staged", i)
			}
		}
	}
	return ""
}
