// Package c13: decoding arbitrary bytes never panics and enforces the size
// limits (DESIGN.md §3 C13).
package c13

import (
	"bytes"
	"encoding/binary"
	"io"
	"math/big"
	"os"
	"sort"
	"testing"

	"google.golang.org/protobuf/proto"
	"google.golang.org/protobuf/reflect/protoreflect"
	"pgregory.net/rapid"

	"perun.network/go-perun/channel"
	"perun.network/go-perun/wallet"
	"perun.network/go-perun/wire"
	"perun.network/go-perun/wire/perunio"
	perunser "perun.network/go-perun/wire/perunio/serializer"
	"perun.network/go-perun/wire/protobuf"

	"verif/gen"
	"verif/h"
	"verif/wirefmt"
)

func TestMain(m *testing.M) {
	gen.Setup()
	code := m.Run()
	h.FlushAll()
	os.Exit(code)
}

// Case is one byte string fed to one decoder.
type Case struct {
	Target string  `json:"target"`
	N      int     `json:"n,omitempty"` // number of slots for the sparse signature decoder
	Data   gen.Hex `json:"data"`
	Origin string  `json:"origin"`
	Expect string  `json:"expect,omitempty"` // "reject": declares more than a documented limit; "accept": valid twin
}

// targets maps decoder names to functions returning the decode error.
var targets = map[string]func(r io.Reader, n int) error{
	"natenv":         func(r io.Reader, _ int) error { _, err := perunser.Serializer().Decode(r); return err },
	"pbenv":          func(r io.Reader, _ int) error { _, err := protobuf.Serializer().Decode(r); return err },
	"msg":            func(r io.Reader, _ int) error { _, err := wire.DecodeMsg(r); return err },
	"state":          func(r io.Reader, _ int) error { var v channel.State; return v.Decode(r) },
	"allocation":     func(r io.Reader, _ int) error { var v channel.Allocation; return v.Decode(r) },
	"balances":       func(r io.Reader, _ int) error { var v channel.Balances; return v.Decode(r) },
	"suballoc":       func(r io.Reader, _ int) error { var v channel.SubAlloc; return v.Decode(r) },
	"params":         func(r io.Reader, _ int) error { var v channel.Params; return v.Decode(r) },
	"transaction":    func(r io.Reader, _ int) error { var v channel.Transaction; return v.Decode(r) },
	"walletmap":      func(r io.Reader, _ int) error { var v wallet.AddressDecMap; return v.Decode(r) },
	"walletmaparray": func(r io.Reader, _ int) error { var v wallet.AddressMapArray; return v.Decode(r) },
	"wiremap":        func(r io.Reader, _ int) error { var v wire.AddressDecMap; return v.Decode(r) },
	"wiremaparray":   func(r io.Reader, _ int) error { var v wire.AddressMapArray; return v.Decode(r) },
	"sparsesigs": func(r io.Reader, n int) error {
		s := make([]wallet.Sig, n)
		return wallet.DecodeSparseSigs(r, &s)
	},
	"bigint": func(r io.Reader, _ int) error { var v perunio.BigInt; return v.Decode(r) },
	"string": func(r io.Reader, _ int) error { var s string; return perunio.Decode(r, &s) },
	"optapp": func(r io.Reader, _ int) error { var a channel.App; return channel.OptAppDec{App: &a}.Decode(r) },
}

var targetNames = func() []string {
	var n []string
	for k := range targets {
		n = append(n, k)
	}
	sort.Strings(n)
	return n
}()

func runCase(c Case) *h.Outcome {
	o := &h.Outcome{}
	o.Class("target:" + c.Target)
	o.Class("origin:" + c.Origin)
	data := c.Data.Bytes()
	dec, ok := targets[c.Target]
	if !ok {
		o.Fail = h.Failf("harness", "unknown target %q", c.Target)
		return o
	}
	var err error
	r := bytes.NewReader(data)
	o.Fail = h.Guard(func() *h.Failure {
		err = dec(r, c.N)
		return nil
	})
	if o.Fail != nil {
		o.Fail.Msg = c.Target + " decoder: " + o.Fail.Msg
		return o
	}
	consumed := len(data) - r.Len()
	o.Nontrivial = consumed > 8 || (c.Origin != "random" && c.Origin != "valid")
	if err == nil {
		o.Class("accepted")
	} else {
		o.Class("rejected")
	}
	switch c.Expect {
	case "reject":
		if err == nil {
			o.Fail = h.Failf("limit-not-enforced:"+c.Origin, "%s decoder accepted an encoding that declares more than a documented limit (%s)", c.Target, c.Origin)
		}
	case "accept":
		if err != nil {
			o.Fail = h.Failf("valid-twin-rejected:"+c.Origin, "%s decoder refused the at-limit / valid twin (%s): %v", c.Target, c.Origin, err)
		}
	}
	return o
}

// ---------------------------------------------------------------- generators

func encodeValid(t *rapid.T) (string, int, []byte) {
	kind := rapid.SampledFrom([]string{"natenv", "natenv", "pbenv", "pbenv", "msg", "state", "allocation", "balances", "suballoc",
		"params", "transaction", "walletmap", "walletmaparray", "wiremap", "wiremaparray", "sparsesigs", "bigint", "string", "optapp"}).Draw(t, "target")
	var b bytes.Buffer
	n := 0
	must := func(err error) {
		if err != nil {
			panic("c13: generator produced an unencodable value: " + err.Error())
		}
	}
	st := func() *channel.State { return gen.GenState(gen.AllocOpts{MaxLocked: 3}).Draw(t, "state").Build() }
	switch kind {
	case "natenv":
		must(perunser.Serializer().Encode(&b, gen.GenEnv("").Draw(t, "env").Build()))
	case "pbenv":
		e := gen.GenEnv("").Draw(t, "env")
		if e.Msg.Type == "ChannelSync" && e.Msg.NilTx {
			e.Msg = gen.MsgSpec{Type: "Ping", Created: 1}
		}
		must(protobuf.Serializer().Encode(&b, e.Build()))
	case "msg":
		must(wire.EncodeMsg(gen.GenMsg("").Draw(t, "msg").Build(), &b))
	case "state":
		must(st().Encode(&b))
	case "allocation":
		must(st().Allocation.Encode(&b))
	case "balances":
		must(st().Balances.Encode(&b))
	case "suballoc":
		s := st()
		if len(s.Locked) == 0 {
			s.Locked = []channel.SubAlloc{{Bals: []channel.Bal{big.NewInt(3)}, IndexMap: []channel.Index{1, 0}}}
		}
		must(s.Locked[0].Encode(&b))
	case "params":
		must(gen.GenParams(0).Draw(t, "params").Build().Encode(&b))
	case "transaction":
		s := gen.GenState(gen.AllocOpts{MaxLocked: 2}).Draw(t, "state")
		tx := channel.Transaction{State: s.Build(), Sigs: gen.BuildSigs(gen.GenSigs(len(s.Alloc.Bals[0])).Draw(t, "sigs"))}
		must(tx.Encode(&b))
	case "walletmap":
		must(wallet.AddressDecMap(gen.GenWalletMap().Draw(t, "wm").Build()).Encode(&b))
	case "walletmaparray":
		a := wallet.AddressMapArray{}
		for i := 0; i < rapid.IntRange(0, 3).Draw(t, "n"); i++ {
			a.Addr = append(a.Addr, gen.GenWalletMap().Draw(t, "wm").Build())
		}
		must(a.Encode(&b))
	case "wiremap":
		must(wire.AddressDecMap(gen.GenWireMap().Draw(t, "wm").Build()).Encode(&b))
	case "wiremaparray":
		a := wire.AddressMapArray{}
		for i := 0; i < rapid.IntRange(0, 3).Draw(t, "n"); i++ {
			a = append(a, gen.GenWireMap().Draw(t, "wm").Build())
		}
		must(a.Encode(&b))
	case "sparsesigs":
		n = rapid.IntRange(1, 20).Draw(t, "nsigs")
		must(wallet.EncodeSparseSigs(&b, gen.BuildSigs(gen.GenSigs(n).Draw(t, "sigs"))))
	case "bigint":
		must(perunio.BigInt{Int: gen.GenBal().Draw(t, "big").Int()}.Encode(&b))
	case "string":
		must(perunio.Encode(&b, rapid.StringN(0, 50, 300).Draw(t, "str")))
	case "optapp":
		must(channel.OptAppEnc{App: gen.GenApp().Draw(t, "app").Build()}.Encode(&b))
	}
	return kind, n, b.Bytes()
}

var hostileConsts = []uint64{0, 1, 2, 0x7f, 0x80, 0xff, 0x100, 0x3ff, 0x400, 0x401, 0x7fff, 0x8000, 0xffff, 0x10000,
	0x7fffffff, 0x80000000, 0xffffffff, 0xfffffffe}

func mutateBytes(t *rapid.T, data []byte) []byte {
	d := append([]byte{}, data...)
	nm := rapid.IntRange(1, 3).Draw(t, "nmut")
	for i := 0; i < nm; i++ {
		pos := 0
		if len(d) > 0 {
			if rapid.Bool().Draw(t, "early") {
				pos = rapid.IntRange(0, min(len(d)-1, 80)).Draw(t, "pos")
			} else {
				pos = rapid.IntRange(0, len(d)-1).Draw(t, "pos")
			}
		}
		switch rapid.IntRange(0, 6).Draw(t, "mutkind") {
		case 0: // truncate
			d = d[:pos]
		case 1: // bit flip
			if len(d) > 0 {
				d[pos] ^= 1 << rapid.IntRange(0, 7).Draw(t, "bit")
			}
		case 2, 3: // overwrite a field with a hostile constant
			v := rapid.SampledFrom(hostileConsts).Draw(t, "const")
			w := rapid.SampledFrom([]int{1, 2, 4}).Draw(t, "width")
			var buf [8]byte
			if rapid.IntRange(0, 3).Draw(t, "be") == 0 {
				binary.BigEndian.PutUint64(buf[:], v)
				copy(d[pos:], buf[8-w:])
			} else {
				binary.LittleEndian.PutUint64(buf[:], v)
				copy(d[pos:], buf[:w])
			}
		case 4: // splice: insert random bytes
			ins := rapid.SliceOfN(rapid.Byte(), 1, 8).Draw(t, "ins")
			d = append(d[:pos], append(ins, d[pos:]...)...)
		case 5: // delete a few bytes
			n := rapid.IntRange(1, 8).Draw(t, "del")
			if pos+n > len(d) {
				n = len(d) - pos
			}
			d = append(d[:pos], d[pos+n:]...)
		case 6: // set byte
			if len(d) > 0 {
				d[pos] = rapid.Byte().Draw(t, "byte")
			}
		}
	}
	return d
}

// envelope wraps a native message body into a native envelope with two
// one-entry wire address maps.
func natEnvelope(msgType byte, body []byte) []byte {
	var w wirefmt.W
	w.WireMap(1, []int32{0})
	w.WireMap(1, []int32{0})
	w.U8(msgType)
	w.Raw(body)
	return w.B
}

func updateBody(state []byte) []byte {
	var w wirefmt.W
	w.Raw(state)
	w.U16(0)
	w.Raw(make([]byte, 64))
	return w.B
}

// hostile draws an internally consistent but hostile encoding from the
// reference encoder; over-limit declarations carry Expect "reject", the
// at-limit twins "accept".
func hostile(t *rapid.T) Case {
	over := rapid.SampledFrom([]int{1025, 1026, 1500, 4000}).Draw(t, "over")
	atLimit := rapid.IntRange(0, 3).Draw(t, "twin") == 0
	n := over
	expect := "reject"
	if atLimit {
		n, expect = 1024, "accept"
	}
	base := wirefmt.AllocOpts{Assets: 1, Parts: 2, DeclAssets: -1, DeclParts: -1, DeclLocked: -1, BalAssets: -1, BalParts: -1, SubBals: -1}
	wrap := rapid.SampledFrom([]string{"allocation", "state", "msg", "natenv"}).Draw(t, "wrap")
	emitAlloc := func(name string, o wirefmt.AllocOpts, expect string) Case {
		var w wirefmt.W
		switch wrap {
		case "allocation":
			w.Alloc(o)
			return Case{Target: "allocation", Data: gen.HexOf(w.B), Origin: "hostile:" + name, Expect: expect}
		case "state":
			w.State(3, false, o)
			return Case{Target: "state", Data: gen.HexOf(w.B), Origin: "hostile:" + name, Expect: expect}
		case "msg":
			w.State(3, false, o)
			body := append([]byte{byte(wire.ChannelUpdate)}, updateBody(w.B)...)
			return Case{Target: "msg", Data: gen.HexOf(body), Origin: "hostile:" + name, Expect: expect}
		default:
			w.State(3, false, o)
			return Case{Target: "natenv", Data: gen.HexOf(natEnvelope(byte(wire.ChannelUpdate), updateBody(w.B))), Origin: "hostile:" + name, Expect: expect}
		}
	}
	switch rapid.IntRange(0, 15).Draw(t, "hostilekind") {
	case 0:
		o := base
		o.Assets = n
		return emitAlloc("assets", o, expect)
	case 1:
		o := base
		o.Parts = n
		return emitAlloc("participants", o, expect)
	case 2:
		o := base
		o.Locked = n
		return emitAlloc("suballocations", o, expect)
	case 3:
		o := base
		bl := 128
		if !atLimit {
			bl = rapid.IntRange(129, 255).Draw(t, "biglen")
		}
		o.BigDeclared = bl
		return emitAlloc("bigint", o, expect)
	case 4:
		var w wirefmt.W
		if rapid.Bool().Draw(t, "dim") {
			w.Balances(n, 1, n, 1, base)
			return Case{Target: "balances", Data: gen.HexOf(w.B), Origin: "hostile:balances-assets", Expect: expect}
		}
		w.Balances(1, n, 1, n, base)
		return Case{Target: "balances", Data: gen.HexOf(w.B), Origin: "hostile:balances-participants", Expect: expect}
	case 5:
		var w wirefmt.W
		w.SubAlloc(1, n, n, 2, base)
		return Case{Target: "suballoc", Data: gen.HexOf(w.B), Origin: "hostile:suballoc-balances", Expect: expect}
	case 6:
		var w wirefmt.W
		bl := 128
		if !atLimit {
			bl = rapid.IntRange(129, 255).Draw(t, "biglen")
		}
		p := make([]byte, bl)
		origin := "hostile:bigint"
		if rapid.Bool().Draw(t, "padded") {
			// the declared length counts, not the value: a small number padded with
			// leading zeros to more than the limit is as over-long as a large one
			p[bl-1] = 1
			origin = "hostile:bigint-zero-padded"
		} else {
			p[0] = 1
		}
		w.BigRaw(bl, p)
		return Case{Target: "bigint", Data: gen.HexOf(w.B), Origin: origin, Expect: expect}
	case 7:
		var w wirefmt.W
		w.Params(wirefmt.ParamsOpts{ChallengeDuration: 1, Parts: n, DeclParts: -1, EmptyMapAt: -1, NonceLen: 4})
		return Case{Target: "params", Data: gen.HexOf(w.B), Origin: "hostile:params-participants", Expect: expect}
	case 8: // unknown backend ids
		o := base
		o.Backend = rapid.SampledFrom([]uint32{1, 2, 7, 0x7fffffff, 0xffffffff}).Draw(t, "backend")
		return emitAlloc("unknown-asset-backend", o, "")
	case 9:
		var w wirefmt.W
		key := rapid.SampledFrom([]int32{1, 2, -1, 0x7fffffff, -0x80000000}).Draw(t, "key")
		tgt := rapid.SampledFrom([]string{"walletmap", "walletmaparray", "params"}).Draw(t, "tgt")
		switch tgt {
		case "walletmap":
			w.WalletMap(1, []int32{key})
		case "walletmaparray":
			w.I32(1)
			w.WalletMap(1, []int32{key})
		default:
			w.Params(wirefmt.ParamsOpts{ChallengeDuration: 1, Parts: 2, DeclParts: -1, EmptyMapAt: -1, BackendKey: key, NonceLen: 4})
		}
		return Case{Target: tgt, Data: gen.HexOf(w.B), Origin: "hostile:unknown-wallet-backend"}
	case 10: // negative / huge declared lengths
		l := rapid.SampledFrom([]int32{-1, -2, -0x80000000, 0x7fffffff, 0x40000000, 0x10000000, 0x00ffffff}).Draw(t, "len")
		tgt := rapid.SampledFrom([]string{"walletmap", "walletmaparray", "wiremap", "wiremaparray", "natenv", "params"}).Draw(t, "tgt")
		nreal := rapid.IntRange(0, 2).Draw(t, "nreal")
		keys := []int32{0, 0}[:nreal]
		var w wirefmt.W
		switch tgt {
		case "walletmap":
			w.WalletMap(l, keys)
		case "wiremap", "natenv":
			w.WireMap(l, keys)
		case "walletmaparray":
			w.I32(l)
			for range keys {
				w.WalletMap(1, []int32{0})
			}
		case "wiremaparray":
			w.I32(l)
			for range keys {
				w.WireMap(1, []int32{0})
			}
		case "params":
			w.Params(wirefmt.ParamsOpts{ChallengeDuration: 1, Parts: nreal, DeclParts: l, EmptyMapAt: -1, NonceLen: 4})
		}
		return Case{Target: tgt, Data: gen.HexOf(w.B), Origin: "hostile:declared-length"}
	case 11: // empty participant map, too few participants, zero duration
		var w wirefmt.W
		o := wirefmt.ParamsOpts{ChallengeDuration: 1, Parts: 2, DeclParts: -1, EmptyMapAt: -1, NonceLen: 4}
		switch rapid.IntRange(0, 4).Draw(t, "pk") {
		case 0:
			o.EmptyMapAt = 0
		case 1:
			o.EmptyMapAt = 1
		case 2:
			o.Parts = rapid.IntRange(0, 1).Draw(t, "few")
		case 3:
			o.ChallengeDuration = 0
		case 4:
			o.NonceLen = rapid.IntRange(33, 128).Draw(t, "noncelen")
		}
		w.Params(o)
		return Case{Target: "params", Data: gen.HexOf(w.B), Origin: "hostile:params-constraints"}
	case 12: // inconsistent dimensions
		o := base
		o.Assets = rapid.IntRange(1, 3).Draw(t, "a")
		o.Parts = rapid.IntRange(1, 3).Draw(t, "p")
		o.Locked = rapid.IntRange(0, 2).Draw(t, "l")
		o.DeclAssets = rapid.IntRange(0, 4).Draw(t, "da")
		o.BalAssets = rapid.IntRange(0, 4).Draw(t, "ba")
		o.BalParts = rapid.IntRange(0, 4).Draw(t, "bp")
		o.SubBals = rapid.IntRange(0, 4).Draw(t, "sb")
		return emitAlloc("dimension-mismatch", o, "")
	case 13: // transaction around a hostile state, unknown stateSet
		var w wirefmt.W
		w.U8(uint8(rapid.SampledFrom([]int{1, 1, 2, 255}).Draw(t, "stateset")))
		o := base
		o.Parts = rapid.SampledFrom([]int{1, 2, 9, 1024}).Draw(t, "p")
		w.State(1, true, o)
		mask := make([]byte, (o.Parts+7)/8)
		if rapid.Bool().Draw(t, "allsigs") {
			for i := range mask {
				mask[i] = 0xff
			}
		}
		w.Raw(mask)
		w.Raw(make([]byte, 64*rapid.IntRange(0, 3).Draw(t, "nsig")))
		return Case{Target: "transaction", Data: gen.HexOf(w.B), Origin: "hostile:transaction"}
	case 14: // unknown message type / sync phase
		var w wirefmt.W
		typ := byte(rapid.SampledFrom([]int{17, 18, 100, 255, int(wire.ChannelSync)}).Draw(t, "type"))
		w.U8(typ)
		w.U8(byte(rapid.SampledFrom([]int{0, 11, 12, 200, 255}).Draw(t, "phase")))
		w.U8(byte(rapid.IntRange(0, 2).Draw(t, "stateset")))
		w.State(0, false, base)
		w.Raw([]byte{0})
		if rapid.Bool().Draw(t, "env") {
			return Case{Target: "natenv", Data: gen.HexOf(natEnvelope(w.B[0], w.B[1:])), Origin: "hostile:msgtype-phase"}
		}
		return Case{Target: "msg", Data: gen.HexOf(w.B), Origin: "hostile:msgtype-phase"}
	default: // sparse signatures with odd counts
		n := rapid.SampledFrom([]int{0, 1, 7, 8, 9, 64, 1024}).Draw(t, "n")
		d := rapid.SliceOfN(rapid.Byte(), 0, 200).Draw(t, "d")
		return Case{Target: "sparsesigs", N: n, Data: gen.HexOf(d), Origin: "hostile:sparsesigs"}
	}
}

// ---- protobuf structural mutants

type slot struct {
	m  protoreflect.Message
	fd protoreflect.FieldDescriptor
}

func collect(m protoreflect.Message, out *[]slot) {
	fds := m.Descriptor().Fields()
	for i := 0; i < fds.Len(); i++ {
		fd := fds.Get(i)
		if !m.Has(fd) {
			continue
		}
		*out = append(*out, slot{m, fd})
		if fd.Kind() == protoreflect.MessageKind && !fd.IsMap() {
			if fd.IsList() {
				l := m.Get(fd).List()
				for j := 0; j < l.Len(); j++ {
					collect(l.Get(j).Message(), out)
				}
			} else {
				collect(m.Get(fd).Message(), out)
			}
		}
	}
}

var byteLens = []int{0, 1, 3, 4, 5, 8, 31, 32, 33, 63, 64, 65, 200}

func mutateSlot(t *rapid.T, s slot) {
	m, fd := s.m, s.fd
	op := rapid.IntRange(0, 5).Draw(t, "pbop")
	if op == 0 {
		m.Clear(fd)
		return
	}
	if fd.IsList() {
		l := m.Mutable(fd).List()
		switch op {
		case 1:
			if l.Len() > 0 {
				l.Truncate(l.Len() - 1)
			}
		case 2:
			if l.Len() > 0 {
				last := l.Get(l.Len() - 1)
				if fd.Kind() == protoreflect.MessageKind {
					l.Append(protoreflect.ValueOfMessage(proto.Clone(last.Message().Interface()).ProtoReflect()))
				} else {
					l.Append(last)
				}
			}
		case 3:
			l.Truncate(0)
		default:
			if l.Len() > 0 && fd.Kind() == protoreflect.BytesKind {
				n := rapid.SampledFrom(byteLens).Draw(t, "blen")
				b := make([]byte, n)
				for i := range b {
					b[i] = byte(rapid.IntRange(0, 255).Draw(t, "bb"))
					if i > 3 {
						break
					}
				}
				l.Set(rapid.IntRange(0, l.Len()-1).Draw(t, "li"), protoreflect.ValueOfBytes(b))
			} else if l.Len() > 0 && (fd.Kind() == protoreflect.Uint32Kind) {
				l.Set(rapid.IntRange(0, l.Len()-1).Draw(t, "li"), protoreflect.ValueOfUint32(rapid.SampledFrom([]uint32{0, 1, 2, 7, 65535, 65536, 0xffffffff}).Draw(t, "u32")))
			}
		}
		return
	}
	switch fd.Kind() {
	case protoreflect.BytesKind:
		n := rapid.SampledFrom(byteLens).Draw(t, "blen")
		b := make([]byte, n)
		for i := range b {
			b[i] = byte(rapid.IntRange(0, 255).Draw(t, "bb"))
			if i > 3 {
				break
			}
		}
		m.Set(fd, protoreflect.ValueOfBytes(b))
	case protoreflect.Uint32Kind:
		m.Set(fd, protoreflect.ValueOfUint32(rapid.SampledFrom([]uint32{0, 1, 2, 12, 255, 256, 65535, 65536, 0x7fffffff, 0xffffffff}).Draw(t, "u32")))
	case protoreflect.Uint64Kind:
		m.Set(fd, protoreflect.ValueOfUint64(rapid.SampledFrom([]uint64{0, 1, 1 << 32, 1<<63 - 1, 1<<64 - 1}).Draw(t, "u64")))
	case protoreflect.MessageKind:
		m.Set(fd, protoreflect.ValueOfMessage(m.Get(fd).Message().New()))
	case protoreflect.BoolKind:
		m.Set(fd, protoreflect.ValueOfBool(!m.Get(fd).Bool()))
	default:
		m.Clear(fd)
	}
}

func pbFrame(b []byte) []byte {
	if len(b) > 0xffff {
		b = b[:0xffff]
	}
	out := make([]byte, 2, 2+len(b))
	binary.BigEndian.PutUint16(out, uint16(len(b)))
	return append(out, b...)
}

func pbStructMutant(t *rapid.T) Case {
	e := gen.GenEnv("").Draw(t, "env")
	if e.Msg.Type == "ChannelSync" && e.Msg.NilTx {
		e.Msg.NilTx = false
		s := gen.GenState(gen.AllocOpts{MaxLocked: 1}).Draw(t, "s")
		e.Msg.State = &s
		e.Msg.TxSigs = gen.GenSigs(len(s.Alloc.Bals[0])).Draw(t, "sigs")
	}
	var b bytes.Buffer
	if err := protobuf.Serializer().Encode(&b, e.Build()); err != nil {
		panic("c13: cannot pb-encode generated envelope: " + err.Error())
	}
	var env protobuf.Envelope
	if err := proto.Unmarshal(b.Bytes()[2:], &env); err != nil {
		panic("c13: cannot unmarshal own frame: " + err.Error())
	}
	nm := rapid.IntRange(1, 2).Draw(t, "nmut")
	for i := 0; i < nm; i++ {
		var slots []slot
		collect(env.ProtoReflect(), &slots)
		if len(slots) == 0 {
			break
		}
		mutateSlot(t, slots[rapid.IntRange(0, len(slots)-1).Draw(t, "slot")])
	}
	out, err := proto.MarshalOptions{Deterministic: true}.Marshal(&env)
	if err != nil {
		panic("c13: cannot marshal mutant: " + err.Error())
	}
	return Case{Target: "pbenv", Data: gen.HexOf(pbFrame(out)), Origin: "pbstruct:" + e.Msg.Type}
}

func drawCase(t *rapid.T) Case {
	switch rapid.IntRange(0, 11).Draw(t, "mode") {
	case 0:
		k, n, d := encodeValid(t)
		return Case{Target: k, N: n, Data: gen.HexOf(d), Origin: "valid", Expect: "accept"}
	case 1, 2, 3, 4:
		k, n, d := encodeValid(t)
		return Case{Target: k, N: n, Data: gen.HexOf(mutateBytes(t, d)), Origin: "mutated"}
	case 5, 6, 7:
		return hostile(t)
	case 8, 9, 10:
		return pbStructMutant(t)
	default:
		tgt := rapid.SampledFrom(targetNames).Draw(t, "target")
		return Case{Target: tgt, N: rapid.IntRange(0, 16).Draw(t, "n"), Data: gen.HexOf(rapid.SliceOfN(rapid.Byte(), 0, 64).Draw(t, "rnd")), Origin: "random"}
	}
}

const rule = "one byte string for one decoder (native and protobuf envelope, wire.DecodeMsg, state, allocation, balances, sub-allocation, params, transaction, wallet/wire address map and map array, sparse signatures, big integer, string, optional app). Inputs: (valid) encodings of generated values - must be accepted; (mutated) 1-3 byte-level mutations: truncation, bit flip, overwrite of 1/2/4 bytes with a hostile constant, splice, delete; (hostile) internally consistent encodings from an independent reference encoder: counts above the documented limits with all declared elements present - must be rejected - and their at-limit twins - must be accepted -, over-long integers, unknown backend ids, negative/huge declared lengths, empty participant maps, dimension mismatches, unknown message types; (pbstruct) protobuf frames of generated envelopes with 1-2 structural mutations (field cleared, repeated entry dropped/duplicated, byte field of odd length, sub-message emptied, integer out of range); (random) random bytes. Oracle: the call returns (value,nil) or an error; a panic is a violation classified by call site. non-trivial = the decoder consumed more than 8 bytes or the input is mutated/hostile/structural"

var assumptions = []string{
	"allocation volume is not asserted (the property states no memory bound); a decode that kills the process is a violation found through the driver's process-death handling",
	"the limit clause is asserted for the native decoders, which document the limits and where counts are declared; the protobuf frame is capped at 64 KiB",
}

func TestDecode(t *testing.T) {
	rec := h.Begin("C13", "")
	rec.SetRule(rule, assumptions...)
	defer rec.Flush()
	rapid.Check(t, func(rt *rapid.T) {
		c := drawCase(rt)
		rec.MarkCurrent(c) // a decode that kills the process is attributed to this case by the driver
		rec.Report(rt, c, runCase(c))
	})
}

func TestReplay(t *testing.T) {
	p := h.ReplayPath()
	if p == "" {
		t.Skip("no replay requested")
	}
	var c Case
	if vals, ok := h.ParseFuzzCorpus(p); ok {
		// a crasher saved by the native fuzzer
		c = fuzzCase(vals)
	} else if err := h.LoadReplay(p, &c); err != nil {
		t.Fatal(err)
	}
	rec := h.Begin("C13", "replay")
	rec.MarkCurrent(c)
	rec.Report(t, c, runCase(c))
}

// ---------------------------------------------------------------- native fuzz targets (thorough tier)

func fuzzCase(vals []any) Case {
	c := Case{Origin: "fuzz", Target: "natenv"}
	for _, v := range vals {
		switch x := v.(type) {
		case []byte:
			c.Data = gen.HexOf(x)
		case uint8:
			c.Target = targetNames[int(x)%len(targetNames)]
			c.N = int(x) % 17
		case string:
			c.Target = x
		}
	}
	return c
}

func seedEnvelopes(n int) []gen.EnvSpec {
	var out []gen.EnvSpec
	for i := 0; i < n; i++ {
		out = append(out, gen.GenEnv(gen.MsgTypes[i%len(gen.MsgTypes)]).Example(i+1))
	}
	return out
}

func fuzzOne(t *testing.T, c Case) {
	if o := runCase(c); o.Fail != nil {
		t.Fatalf("VIOLATION-CANDIDATE C13 sig=%s: %s", o.Fail.Sig, o.Fail.Msg)
	}
}

func FuzzNativeEnvelope(f *testing.F) {
	for _, e := range seedEnvelopes(34) {
		var b bytes.Buffer
		if perunser.Serializer().Encode(&b, e.Build()) == nil {
			f.Add(b.Bytes())
		}
	}
	f.Add([]byte{0xff, 0xff, 0xff, 0x7f})
	f.Add([]byte{})
	f.Fuzz(func(t *testing.T, data []byte) {
		fuzzOne(t, Case{Target: "natenv", Data: gen.HexOf(data), Origin: "fuzz"})
	})
}

func FuzzProtobufEnvelope(f *testing.F) {
	for _, e := range seedEnvelopes(34) {
		if e.Msg.Type == "ChannelSync" && e.Msg.NilTx {
			continue
		}
		var b bytes.Buffer
		if protobuf.Serializer().Encode(&b, e.Build()) == nil {
			f.Add(b.Bytes())
		}
	}
	f.Add([]byte{})
	f.Fuzz(func(t *testing.T, data []byte) {
		// let the fuzzer work on the protobuf body: fix up the frame length
		if len(data) >= 2 {
			data = pbFrame(data[2:])
		}
		fuzzOne(t, Case{Target: "pbenv", Data: gen.HexOf(data), Origin: "fuzz"})
	})
}

func FuzzValue(f *testing.F) {
	for i := 0; i < 40; i++ {
		k, _, d := encodeValidExample(i + 1)
		for j, n := range targetNames {
			if n == k {
				f.Add(uint8(j), d)
			}
		}
	}
	f.Fuzz(func(t *testing.T, kind uint8, data []byte) {
		fuzzOne(t, fuzzCase([]any{kind, data}))
	})
}

func encodeValidExample(seed int) (string, int, []byte) {
	type r struct {
		K string
		N int
		D []byte
	}
	v := rapid.Custom(func(t *rapid.T) r {
		k, n, d := encodeValid(t)
		return r{k, n, d}
	}).Example(seed)
	return v.K, v.N, v.D
}
