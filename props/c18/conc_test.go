package c18

import (
	"fmt"
	"math"
	"runtime"
	stdsync "sync"
	"sync/atomic"
	"testing"

	"pgregory.net/rapid"

	"perun.network/go-perun/wire"

	"verif/h"
)

// ---------------------------------------------------------------- case

// Triggers are positions in the global count of completed puts: an actor waits
// until that many puts have returned (or all producers are done) and then
// acts.  0 = before the producers start.

// CacheSpec is one cache predicate handle and when it is enabled / released.
type CacheSpec struct {
	Mask int `json:"mask"`
	On   int `json:"on"`  // trigger of Relay.Cache
	Off  int `json:"off"` // trigger of Relay.ReleaseCache, -1 = never
}

// SubSpec is one consumer: when it subscribes and when it is closed.
type SubSpec struct {
	Mask    int `json:"mask"`
	At      int `json:"at"`       // trigger of Subscribe
	CloseAt int `json:"close_at"` // trigger of Close, -1 = never
}

// ConcCase is one concurrent run layout; the Go scheduler is sampled Reps times.
type ConcCase struct {
	Prods    int         `json:"prods"`     // producers
	Puts     int         `json:"puts"`      // puts per producer
	Tags     [][]int     `json:"tags"`      // per producer: cyclic tag pattern
	Cache    []CacheSpec `json:"cache"`     // cache predicate handles
	Subs     []SubSpec   `json:"subs"`      // consumers
	SwitchAt int         `json:"switch_at"` // trigger of SetDefaultMsgHandler(second recorder), -1 = never
	Reps     int         `json:"reps"`
}

const replayRuns = 100

func drawConc(t *rapid.T) ConcCase {
	var c ConcCase
	c.Prods = rapid.IntRange(2, 8).Draw(t, "prods")
	maxPuts := h.Pick(1500, 3000)
	c.Puts = rapid.IntRange(1, maxPuts).Draw(t, "puts")
	total := c.Prods * c.Puts
	c.Tags = rapid.SliceOfN(rapid.SliceOfN(rapid.IntRange(0, nTags-1), 1, 3), c.Prods, c.Prods).Draw(t, "tags")
	trigger := func(lo, hi int, label string) int {
		if lo > hi {
			lo = hi
		}
		return rapid.IntRange(lo, hi).Draw(t, label)
	}
	c.Cache = rapid.SliceOfN(rapid.Custom(func(t *rapid.T) CacheSpec {
		s := CacheSpec{Mask: genMask(5).Draw(t, "mask"), Off: -1}
		if rapid.IntRange(0, 9).Draw(t, "late") >= 6 {
			s.On = trigger(0, total, "on")
		}
		if rapid.IntRange(0, 9).Draw(t, "rel") >= 6 {
			s.Off = trigger(s.On, total+total/10+1, "off")
		}
		return s
	}), 0, 3).Draw(t, "cache")
	c.Subs = rapid.SliceOfN(rapid.Custom(func(t *rapid.T) SubSpec {
		s := SubSpec{Mask: genMask(2).Draw(t, "mask"), CloseAt: -1}
		switch rapid.IntRange(0, 9).Draw(t, "when") {
		case 0, 1:
			s.At = 0
		case 2, 3:
			s.At = total + 1 // after the producers: a later subscriber
		default:
			s.At = trigger(0, total, "at")
		}
		if rapid.IntRange(0, 9).Draw(t, "cl") >= 5 {
			s.CloseAt = trigger(s.At, total+1, "close_at")
		}
		return s
	}), 0, 8).Draw(t, "subs")
	c.SwitchAt = -1
	if rapid.IntRange(0, 9).Draw(t, "sw") >= 7 {
		c.SwitchAt = trigger(0, total, "switch_at")
	}
	c.Reps = rapid.IntRange(1, 3).Draw(t, "reps")
	return c
}

// ---------------------------------------------------------------- run

const never = math.MaxInt64

type interval struct{ s, e int64 }

type concObs struct {
	// per envelope
	tag, prod []int
	put       []interval
	// per consumer
	sub    []interval
	subErr []error
	closeS []int64 // start of Close, never if not closed
	got    [][]int
	// per cache handle
	on  []interval
	off []interval // s = never if not released
	// sinks
	def   []int // ids at the default handlers
	drain []int
	// errors of the final phase
	closeErr error
}

func runConc(c ConcCase) *h.Outcome {
	o := &h.Outcome{}
	if c.Prods < 1 || c.Puts < 1 || len(c.Tags) < c.Prods {
		o.Class("malformed-case")
		return o
	}
	reps := c.Reps
	if reps < 1 {
		reps = 1
	}
	for r := 0; r < reps*concBoost && o.Fail == nil; r++ {
		var obs *concObs
		o.Fail = guarded("conc/hang", func() *h.Failure {
			var f *h.Failure
			obs, f = execConc(c)
			return f
		})
		if o.Fail == nil {
			o.Fail = judgeConc(c, obs, o)
		}
	}
	o.Classes = uniq(o.Classes) // one count per layout, not per repetition
	if o.Fail != nil {
		// rapid only shrinks failures whose message is identical from run to
		// run; ids, stamps and counts differ with every schedule, so they go
		// to the log and the message names the violated clause only
		concDetail = o.Fail.Msg
		if txt, ok := concClauses[o.Fail.Sig]; ok {
			o.Fail.Msg = txt
		} else if len(o.Fail.Sig) < 5 || o.Fail.Sig[:5] != "conc/" {
			o.Fail.Msg = "see the log of the run"
		}
	}
	return o
}

// concBoost multiplies the repetitions of a layout while rapid is shrinking, so
// that a smaller layout that can fail does fail when it is tried.
var concBoost = 1

// concDetail holds the schedule-specific detail of the last failure.
var concDetail string

// concClauses: the violated clause per signature (stable text).
var concClauses = map[string]string{
	"conc/hang":                            "the run did not finish within the hang limit",
	"conc/subscribe-error":                 "Subscribe of a fresh consumer on an open relay failed",
	"conc/foreign-envelope":                "a sink holds an envelope that was never put",
	"conc/duplicate-at-consumer":           "an envelope was handed to one consumer more than once",
	"conc/duplicate-at-default":            "an envelope reached the default handler more than once",
	"conc/duplicate-at-drain":              "an envelope was in the final cache content more than once",
	"conc/rejected-delivered":              "an envelope reached a consumer whose predicate rejects it",
	"conc/missed-stable-subscriber":        "an envelope did not reach a matching consumer whose subscription interval contains the put",
	"conc/several-destination-kinds":       "an envelope reached more than one of: consumers / cache / default handler",
	"conc/lost":                            "an envelope put into the open relay reached no consumer, is not in the cache at the end and did not reach the default handler",
	"conc/cached-handed-twice":             "an envelope that came out of the cache (its consumer subscribed only after the put had returned) also reached another consumer",
	"conc/cached-without-predicate":        "an envelope was kept in the cache although no matching cache predicate was enabled during the put",
	"conc/cached-skipped-first-subscriber": "an envelope was kept in the cache and not handed to a matching, unclosed consumer that was subscribed at the moment of the put or subscribed after it and before the eventual taker",
	"conc/default-despite-cache-predicate": "an envelope went to the default handler although a matching cache predicate was enabled throughout the put",
	"conc/close-after-drain":               "Relay.Close reported a non-empty cache after a catch-all subscriber had taken the cache",
}

// execConc performs one run and returns what was observed.
func execConc(c ConcCase) (*concObs, *h.Failure) {
	total := c.Prods * c.Puts
	relay := wire.NewRelay()
	defA, defB := &sink{}, &sink{}
	relay.SetDefaultMsgHandler(defA.handle)

	var clock, putCount atomic.Int64
	var prodDone atomic.Bool
	tick := func() int64 { return clock.Add(1) }
	waitFor := func(trigger int) {
		for putCount.Load() < int64(trigger) && !prodDone.Load() {
			runtime.Gosched()
		}
	}

	obs := &concObs{
		tag: make([]int, total), prod: make([]int, total), put: make([]interval, total),
		sub: make([]interval, len(c.Subs)), subErr: make([]error, len(c.Subs)), closeS: make([]int64, len(c.Subs)),
		got: make([][]int, len(c.Subs)),
		on:  make([]interval, len(c.Cache)), off: make([]interval, len(c.Cache)),
	}
	envs := make([]*wire.Envelope, total)
	for p := 0; p < c.Prods; p++ {
		pat := c.Tags[p]
		for i := 0; i < c.Puts; i++ {
			id := p*c.Puts + i
			tag := 0
			if len(pat) > 0 {
				tag = pat[i%len(pat)] % nTags
				if tag < 0 {
					tag = -tag
				}
			}
			obs.tag[id], obs.prod[id] = tag, p
			envs[id] = mkEnv(id, tag, p)
		}
	}
	sinks := make([]*sink, len(c.Subs))
	subPreds := make([]wire.Predicate, len(c.Subs))
	for k, s := range c.Subs {
		sinks[k] = &sink{}
		subPreds[k] = maskPred(s.Mask & allMask)
		obs.closeS[k] = never
	}
	cachePreds := make([]wire.Predicate, len(c.Cache))
	for i, s := range c.Cache {
		cachePreds[i] = maskPred(s.Mask & allMask)
		obs.off[i] = interval{never, never}
	}

	start := make(chan struct{})
	var prods, actors stdsync.WaitGroup
	for p := 0; p < c.Prods; p++ {
		prods.Add(1)
		go func(p int) {
			defer prods.Done()
			<-start
			for i := 0; i < c.Puts; i++ {
				id := p*c.Puts + i
				s := tick()
				relay.Put(envs[id])
				obs.put[id] = interval{s, tick()}
				putCount.Add(1)
			}
		}(p)
	}
	for k, s := range c.Subs {
		actors.Add(1)
		go func(k int, s SubSpec) {
			defer actors.Done()
			<-start
			waitFor(s.At)
			t0 := tick()
			obs.subErr[k] = relay.Subscribe(sinks[k], subPreds[k])
			obs.sub[k] = interval{t0, tick()}
			if s.CloseAt >= 0 && obs.subErr[k] == nil {
				waitFor(s.CloseAt)
				obs.closeS[k] = tick()
				_ = sinks[k].Close()
			}
		}(k, s)
	}
	for i, s := range c.Cache {
		actors.Add(1)
		go func(i int, s CacheSpec) {
			defer actors.Done()
			<-start
			waitFor(s.On)
			t0 := tick()
			relay.Cache(&cachePreds[i])
			obs.on[i] = interval{t0, tick()}
			if s.Off >= 0 {
				waitFor(s.Off)
				t1 := tick()
				relay.ReleaseCache(&cachePreds[i])
				obs.off[i] = interval{t1, tick()}
			}
		}(i, s)
	}
	if c.SwitchAt >= 0 {
		actors.Add(1)
		go func() {
			defer actors.Done()
			<-start
			waitFor(c.SwitchAt)
			relay.SetDefaultMsgHandler(defB.handle)
		}()
	}
	// Actors with trigger 0 act "before the start" only in the sense that they
	// do not wait for a put; they still race with the first puts, on purpose.
	close(start)
	prods.Wait()
	prodDone.Store(true)
	actors.Wait()
	if !quiesce() {
		return nil, h.Failf("conc/hang", "relay goroutines still running %v after all actors returned", hangLimit)
	}
	// whatever is still cached must come out at a final catch-all subscriber
	drain := &sink{}
	if err := relay.Subscribe(drain, maskPred(allMask)); err != nil {
		return nil, h.Failf("conc/subscribe-error", "final catch-all Subscribe failed: %v", err)
	}
	if !quiesce() {
		return nil, h.Failf("conc/hang", "final drain: relay goroutines still running after %v", hangLimit)
	}
	obs.closeErr = relay.Close()
	if !quiesce() {
		return nil, h.Failf("conc/hang", "after Close: relay goroutines still running after %v", hangLimit)
	}
	for k := range sinks {
		obs.got[k] = sinks[k].snapshot()
	}
	obs.def = append(defA.snapshot(), defB.snapshot()...)
	obs.drain = drain.snapshot()
	return obs, nil
}

// judgeConc is the interval oracle.  An operation A "ended before" B started
// iff A.e < B.s on the logical clock; nothing is concluded from overlaps.
func judgeConc(c ConcCase, obs *concObs, o *h.Outcome) *h.Failure {
	total := len(obs.tag)
	nsub := len(c.Subs)
	mask := func(k int) int { return c.Subs[k].Mask & allMask }
	for k := 0; k < nsub; k++ {
		if obs.subErr[k] != nil {
			return h.Failf("conc/subscribe-error", "Subscribe of fresh consumer %d on an open relay failed: %v", k, obs.subErr[k])
		}
	}
	// who holds what
	at := make([][]int, total) // consumers that hold envelope id
	for k := 0; k < nsub; k++ {
		prev := -1
		for _, id := range obs.got[k] { // sorted
			if id < 0 || id >= total {
				return h.Failf("conc/foreign-envelope", "consumer %d holds an envelope (id %d) that was never put", k, id)
			}
			if id == prev {
				return h.Failf("conc/duplicate-at-consumer", "envelope %d (tag %d) was handed to consumer %d (mask %06b) more than once", id, obs.tag[id], k, mask(k))
			}
			prev = id
			if !matches(mask(k), obs.tag[id]) {
				return h.Failf("conc/rejected-delivered", "envelope %d (tag %d) reached consumer %d whose predicate (mask %06b) rejects it", id, obs.tag[id], k, mask(k))
			}
			at[id] = append(at[id], k)
		}
	}
	count := func(ids []int, what string) ([]int, *h.Failure) {
		n := make([]int, total)
		for _, id := range ids {
			if id < 0 || id >= total {
				return nil, h.Failf("conc/foreign-envelope", "%s holds an envelope (id %d) that was never put", what, id)
			}
			n[id]++
			if n[id] > 1 {
				return nil, h.Failf("conc/duplicate-at-"+what, "envelope %d (tag %d) reached the %s more than once", id, obs.tag[id], what)
			}
		}
		return n, nil
	}
	def, f := count(obs.def, "default")
	if f != nil {
		return f
	}
	drain, f := count(obs.drain, "drain")
	if f != nil {
		return f
	}

	cachedProds := map[int]bool{}
	var nLost, nLate, nDrain, nDef, nFan, nDirect, nZeroClosing int
	overlapSub, overlapClose := false, false
	for id := 0; id < total; id++ {
		tag, p := obs.tag[id], obs.put[id]
		// stable subscribers: Subscribe returned before the put started, Close
		// was not called before the put returned
		var late []int
		for k := 0; k < nsub; k++ {
			if !matches(mask(k), tag) {
				continue
			}
			stable := obs.sub[k].e < p.s && p.e < obs.closeS[k]
			if stable && !contains(at[id], k) {
				return h.Failf("conc/missed-stable-subscriber", "envelope %d (tag %d, put [%d,%d]) did not reach consumer %d (mask %06b, subscribed [%d,%d], close at %s) although the subscription interval contains the put",
					id, tag, p.s, p.e, k, mask(k), obs.sub[k].s, obs.sub[k].e, tstr(obs.closeS[k]))
			}
			if obs.sub[k].s < p.e && p.s < obs.sub[k].e {
				overlapSub = true
			}
			if obs.closeS[k] != never && obs.closeS[k] > p.s && obs.closeS[k] < p.e {
				overlapClose = true
			}
		}
		for _, k := range at[id] {
			if obs.sub[k].s > p.e {
				late = append(late, k) // can only have come out of the cache
			}
		}
		kinds := 0
		if len(at[id]) > 0 {
			kinds++
		}
		if def[id] > 0 {
			kinds++
			nDef++
		}
		if drain[id] > 0 {
			kinds++
			nDrain++
		}
		if kinds > 1 {
			return h.Failf("conc/several-destination-kinds", "envelope %d (tag %d) reached consumers %v, default handler %d×, final cache content %d×: more than one of consumer / cache / default",
				id, tag, at[id], def[id], drain[id])
		}
		if kinds == 0 {
			// the text allows a loss only next to a closing matching consumer
			closing := false
			for k := 0; k < nsub; k++ {
				if matches(mask(k), tag) && obs.sub[k].s < p.e && obs.closeS[k] < p.e {
					closing = true
				}
			}
			if !closing {
				nLost++
				if nLost == 1 {
					f = h.Failf("conc/lost", "envelope %d (tag %d, producer %d, put [%d,%d]) reached no consumer, is not in the cache at the end and did not reach the default handler", id, tag, obs.prod[id], p.s, p.e)
				}
				continue
			}
			nZeroClosing++
			continue
		}
		cached := drain[id] > 0 || len(late) > 0
		if len(late) > 0 {
			nLate++
			if len(at[id]) > 1 {
				return h.Failf("conc/cached-handed-twice", "envelope %d (tag %d, put [%d,%d]) reached consumer %d, which subscribed only after the put had returned (so it came out of the cache), and also consumers %v",
					id, tag, p.s, p.e, late[0], at[id])
			}
		}
		if len(at[id]) >= 2 {
			nFan++
		}
		if len(at[id]) > 0 && len(late) == 0 {
			nDirect++
		}
		if cached {
			cachedProds[obs.prod[id]] = true
			// some matching cache predicate must possibly have been enabled
			possible := false
			for i := range c.Cache {
				if matches(c.Cache[i].Mask&allMask, tag) && obs.on[i].s < p.e && p.s < obs.off[i].e {
					possible = true
				}
			}
			if !possible {
				return h.Failf("conc/cached-without-predicate", "envelope %d (tag %d, put [%d,%d]) was kept in the cache although no matching cache predicate was enabled during the put", id, tag, p.s, p.e)
			}
			// "at that moment" / "the first consumer that subscribes later":
			// the put took effect at one moment t within [p.s, p.e], when no
			// matching consumer was subscribed.  A matching consumer k whose
			// Close was not called before the put returned was therefore not
			// yet subscribed at t, i.e. it subscribed later than t, and was
			// entitled to the envelope unless the eventual taker subscribed
			// before it.  So k's Subscribe cannot have returned before the
			// taker's Subscribe started (the final catch-all subscriber starts
			// after everybody).  Holds for overlapping intervals as well.
			taker := int64(never)
			if len(late) > 0 {
				taker = obs.sub[late[0]].s
			}
			for k := 0; k < nsub; k++ {
				if matches(mask(k), tag) && p.e < obs.closeS[k] && obs.sub[k].e < taker && !contains(at[id], k) {
					return h.Failf("conc/cached-skipped-first-subscriber", "envelope %d (tag %d, put [%d,%d]) was kept in the cache (taken by a Subscribe that started at %s) but consumer %d (mask %06b, Subscribe [%d,%d], close at %s), which was subscribed at the moment of the put or subscribed later and before the taker, did not get it",
						id, tag, p.s, p.e, tstr(taker), k, mask(k), obs.sub[k].s, obs.sub[k].e, tstr(obs.closeS[k]))
				}
			}
		}
		if def[id] > 0 {
			for i := range c.Cache {
				if matches(c.Cache[i].Mask&allMask, tag) && obs.on[i].e < p.s && p.e < obs.off[i].s {
					return h.Failf("conc/default-despite-cache-predicate", "envelope %d (tag %d, put [%d,%d]) went to the default handler although cache predicate %d (mask %06b, enabled [%d,%d], release at %s) matched throughout the put",
						id, tag, p.s, p.e, i, c.Cache[i].Mask&allMask, obs.on[i].s, obs.on[i].e, tstr(obs.off[i].s))
				}
			}
		}
	}
	if f != nil {
		f.Msg += fmt.Sprintf(" (%d of %d envelopes lost; %d producers)", nLost, total, c.Prods)
		return f
	}
	if obs.closeErr != nil {
		return h.Failf("conc/close-after-drain", "Relay.Close after a catch-all subscriber took the cache: %v", obs.closeErr)
	}

	// classes and non-triviality
	if len(cachedProds) >= 2 {
		o.Class("nontrivial:>=2-producers-on-cache-path")
	}
	if overlapSub {
		o.Class("nontrivial:subscribe-put-overlap")
	}
	if overlapClose {
		o.Class("close-put-overlap")
	}
	if nLate > 0 {
		o.Class("cached-then-handed-to-later-subscriber")
	}
	if nDrain > 0 {
		o.Class("cache-left-at-end")
	}
	if nDef > 0 {
		o.Class("default-handler-hit")
	}
	if nFan > 0 {
		o.Class("fanout>=2")
	}
	if nDirect > 0 {
		o.Class("direct-delivery")
	}
	if nZeroClosing > 0 {
		o.Class("unspecified:no-destination-next-to-closing-consumer")
	}
	o.Nontrivial = o.Nontrivial || len(cachedProds) >= 2 || overlapSub
	return nil
}

func uniq(xs []string) []string {
	seen := map[string]bool{}
	var out []string
	for _, x := range xs {
		if !seen[x] {
			seen[x] = true
			out = append(out, x)
		}
	}
	return out
}

func contains(xs []int, v int) bool {
	for _, x := range xs {
		if x == v {
			return true
		}
	}
	return false
}

func tstr(t int64) string {
	if t == never {
		return "never"
	}
	return fmt.Sprint(t)
}

const concRule = "layouts of 2-8 producers x 1-1500 (thorough: 3000) puts with per-producer cyclic tag patterns, 0-8 recording consumers (predicate = subset of tags; Subscribe and optional Close at generated positions of the global put count, incl. before the first and after the last put), 0-3 cache predicate handles enabled/released at generated positions, optional switch of the default handler; all actors run simultaneously on their own goroutines (GOMAXPROCS=16), each layout is run 1-3 times; every call is stamped with start/end on a global atomic counter. oracle (per envelope, from intervals only): never at a consumer whose predicate rejects it; at most once per consumer / default handler / final cache content; at every matching consumer whose Subscribe returned before the put started and whose Close was not called before the put returned; exactly one of {consumers, cache, default}; never without destination (unless a matching consumer was being closed); a consumer that subscribed only after the put returned holds it exclusively and a matching cache predicate was possibly enabled; an envelope that went through the cache is at every matching consumer not closed before the put returned whose Subscribe returned before the eventual taker's Subscribe started (final cache content: before the end); not at the default handler if a matching cache predicate was enabled throughout the put; after the final catch-all subscriber Close reports an empty cache. non-trivial = envelopes of >= 2 producers went through the cache, or a Subscribe overlapped a matching put; distinct by SHA-256 of the canonical case JSON"

func TestConcurrent(t *testing.T) {
	rec := h.Begin("C18", "conc")
	rec.SetRule(concRule,
		"goroutine interleavings are sampled, not enumerated: a run is reproducible at the level of the case (layout), not of the schedule; replay repeats the layout up to 100 times",
		"consumers record also after Close (a wire.Receiver would drop), so 'lost' means: handed to nobody at all",
		"each consumer is subscribed once and closed by the goroutine that subscribed it, after Subscribe returned (as the callers in client/ do)",
		"GOMAXPROCS="+fmt.Sprint(runtime.GOMAXPROCS(0)))
	defer rec.Flush()
	rapid.Check(t, func(rt *rapid.T) {
		c := drawConc(rt)
		rec.MarkCurrent(c)
		if rec.Failed() {
			concBoost = 8 // shrinking
		}
		o := runConc(c)
		if o.Fail != nil {
			rt.Logf("detail of the failing run: %s", concDetail)
		} else {
			rec.AddExtra("conc_envelopes_put", c.Prods*c.Puts*max(c.Reps, 1))
		}
		rec.Report(rt, c, o)
	})
}
