package c18

import (
	"fmt"
	"testing"

	"pgregory.net/rapid"

	"perun.network/go-perun/wire"

	"verif/h"
)

// ---------------------------------------------------------------- case

const (
	seqSlots      = 4 // consumer slots; a slot gets a fresh consumer after a close
	seqCacheSlots = 3 // cache predicate handles
)

// SeqOp is one operation of a sequential history.
type SeqOp struct {
	K    string `json:"k"`              // put | sub | cache | release | close | default | subclosed
	Tag  int    `json:"tag,omitempty"`  // put: tag of the envelope
	C    int    `json:"c,omitempty"`    // sub: c-th free consumer slot; close: c-th subscribed consumer (mod their number)
	Mask int    `json:"mask,omitempty"` // sub: predicate (set of accepted tags)
	Slot int    `json:"slot,omitempty"` // cache, release: cache predicate handle
	H    int    `json:"h,omitempty"`    // default: 0 = nil (logging handler), 1, 2 = recording handlers
}

// SeqCase is a history on one relay.  The relay starts with recording default
// handler 1 installed.
type SeqCase struct {
	CacheMasks []int   `json:"cache_masks"` // predicate of every cache handle
	Ops        []SeqOp `json:"ops"`
	// Slots > seqSlots: a crowded relay - the history starts with that many
	// subscriptions, most of which are closed again
	Slots int `json:"slots,omitempty"`
}

var seqKinds = []string{
	"put", "put", "put", "put", "put", "put", "put", "put",
	"sub", "sub", "sub", "sub",
	"cache", "cache", "cache",
	"release",
	"close", "close",
	"default",
	"subclosed",
}

func genSeqOp() *rapid.Generator[SeqOp] {
	return rapid.Custom(func(t *rapid.T) SeqOp {
		op := SeqOp{K: rapid.SampledFrom(seqKinds).Draw(t, "k")}
		switch op.K {
		case "put":
			op.Tag = rapid.IntRange(0, nTags-1).Draw(t, "tag")
		case "sub":
			op.C = rapid.IntRange(0, seqSlots-1).Draw(t, "c")
			op.Mask = genMask(1).Draw(t, "mask")
		case "subclosed":
			op.Mask = genMask(1).Draw(t, "mask")
		case "close":
			op.C = rapid.IntRange(0, seqSlots-1).Draw(t, "c")
		case "cache", "release":
			op.Slot = rapid.IntRange(0, seqCacheSlots-1).Draw(t, "slot")
		case "default":
			op.H = rapid.IntRange(0, 2).Draw(t, "h")
		}
		return op
	})
}

func drawSeq(t *rapid.T) SeqCase {
	var c SeqCase
	c.CacheMasks = rapid.SliceOfN(genMask(3), seqCacheSlots, seqCacheSlots).Draw(t, "cache_masks")
	if rapid.IntRange(0, 5).Draw(t, "crowd") == 0 {
		c.Slots = rapid.IntRange(9, 40).Draw(t, "slots")
		for i := 0; i < c.Slots; i++ {
			c.Ops = append(c.Ops, SeqOp{K: "sub", C: 0, Mask: genMask(1).Draw(t, "cmask")})
		}
		if rapid.Bool().Draw(t, "putfirst") {
			c.Ops = append(c.Ops, SeqOp{K: "put", Tag: rapid.IntRange(0, nTags-1).Draw(t, "ctag")})
		}
		nclose := rapid.IntRange(c.Slots/2, c.Slots-1).Draw(t, "nclose")
		for i := 0; i < nclose; i++ {
			c.Ops = append(c.Ops, SeqOp{K: "close", C: rapid.IntRange(0, c.Slots-1).Draw(t, "cc")})
		}
	}
	// four segments: rapid's slices average ~5 elements, a history should
	// average ~20 and still shrink by deleting single operations
	for seg := 0; seg < 4; seg++ {
		c.Ops = append(c.Ops, rapid.SliceOfN(genSeqOp(), 0, 12).Draw(t, fmt.Sprintf("ops%d", seg))...)
	}
	return c
}

// ---------------------------------------------------------------- reference model

// Destinations of the model: consumer objects 0.., then the two recording
// default handlers and the final catch-all subscriber.
type seqModel struct {
	tags     []int        // tag of envelope id
	subs     []seqSub     // current subscriptions
	preds    map[int]bool // enabled cache handles
	masks    []int        // predicate of every cache handle
	cached   []int        // ids kept in the cache, in arrival order
	handler  int          // 0 = logging, 1, 2 = recording
	expCons  [][]int      // expected ids per consumer object (ascending: ids grow)
	expDef   [3][]int     // expected ids per default handler (index 0: logged, unobservable)
	consMask []int        // predicate of consumer object
	closedAt []int        // first envelope id put after the consumer was closed (-1 = open)
	stats    map[string]int
}

type seqSub struct{ obj, mask int }

func (m *seqModel) put(tag int) int {
	id := len(m.tags)
	m.tags = append(m.tags, tag)
	n := 0
	for _, s := range m.subs {
		if matches(s.mask, tag) {
			m.expCons[s.obj] = append(m.expCons[s.obj], id)
			n++
		}
	}
	switch {
	case n >= 2:
		m.stats["put:fanout>=2"]++
	case n == 1:
		m.stats["put:one-consumer"]++
	}
	if n > 0 {
		return id
	}
	for slot, on := range m.preds {
		if on && matches(m.masks[slot], tag) {
			m.cached = append(m.cached, id)
			m.stats["put:cached"]++
			return id
		}
	}
	m.expDef[m.handler] = append(m.expDef[m.handler], id)
	if m.handler == 0 {
		m.stats["put:default-logged"]++
	} else {
		m.stats["put:default-recorded"]++
	}
	return id
}

// subscribe returns the object index of the new consumer and how many cached
// envelopes it must be handed.
func (m *seqModel) subscribe(mask int) (obj, released int) {
	obj = len(m.expCons)
	m.expCons = append(m.expCons, nil)
	m.consMask = append(m.consMask, mask)
	m.closedAt = append(m.closedAt, -1)
	m.subs = append(m.subs, seqSub{obj, mask})
	var rest []int
	for _, id := range m.cached {
		if matches(mask, m.tags[id]) {
			m.expCons[obj] = append(m.expCons[obj], id)
			released++
		} else {
			rest = append(rest, id)
		}
	}
	m.cached = rest
	return obj, released
}

func (m *seqModel) unsubscribe(obj int) {
	for i, s := range m.subs {
		if s.obj == obj {
			m.subs = append(m.subs[:i:i], m.subs[i+1:]...)
			break
		}
	}
	m.closedAt[obj] = len(m.tags)
}

// ---------------------------------------------------------------- run

func runSeq(c SeqCase) *h.Outcome {
	o := &h.Outcome{}
	o.Fail = guarded("seq/hang", func() *h.Failure { return runSeqBody(c, o) })
	return o
}

func runSeqBody(c SeqCase, o *h.Outcome) *h.Failure {
	relay := wire.NewRelay()
	defs := [3]*sink{nil, {}, {}}
	relay.SetDefaultMsgHandler(defs[1].handle)

	m := &seqModel{preds: map[int]bool{}, handler: 1, stats: map[string]int{}}
	m.masks = make([]int, seqCacheSlots)
	for i := range m.masks {
		if i < len(c.CacheMasks) {
			m.masks[i] = c.CacheMasks[i] & allMask
		}
	}
	cachePreds := make([]wire.Predicate, seqCacheSlots)
	for i := range cachePreds {
		cachePreds[i] = maskPred(m.masks[i])
	}

	var cons []*sink // consumer objects
	nslots := seqSlots
	if c.Slots > nslots {
		nslots = c.Slots
		o.Class("crowded-relay")
	}
	slotObj := make([]int, nslots) // slot -> subscribed object, -1 if none
	for i := range slotObj {
		slotObj[i] = -1
	}
	released := 0

	// check compares every destination with the model, exactly.
	check := func(step int, op string) *h.Failure {
		for obj, s := range cons {
			got := s.snapshot()
			missing, extra := diffSorted(m.expCons[obj], got)
			if len(extra) > 0 {
				id := extra[0]
				kind := "unexpected"
				switch {
				case id < 0 || id >= len(m.tags):
					kind = "foreign"
				case !matches(m.consMask[obj], m.tags[id]):
					kind = "rejected"
				case countOf(got, id) > 1:
					kind = "duplicate"
				case m.closedAt[obj] >= 0 && id >= m.closedAt[obj]:
					kind = "after-close"
				}
				return h.Failf("seq/consumer-extra:"+kind, "step %d (%s): consumer #%d (mask %06b) holds envelopes %s the model does not hand to it (model %s, got %s)",
					step, op, obj, m.consMask[obj], short(extra), short(m.expCons[obj]), short(got))
			}
			if len(missing) > 0 {
				return h.Failf("seq/consumer-missing", "step %d (%s): consumer #%d (mask %06b) lacks envelopes %s (tags %v) (model %s, got %s)",
					step, op, obj, m.consMask[obj], short(missing), tagsOf(m.tags, missing), short(m.expCons[obj]), short(got))
			}
		}
		for hnd := 1; hnd <= 2; hnd++ {
			got := defs[hnd].snapshot()
			missing, extra := diffSorted(m.expDef[hnd], got)
			if len(extra) > 0 {
				kind := "unexpected"
				if countOf(got, extra[0]) > 1 {
					kind = "duplicate"
				}
				return h.Failf("seq/default-extra:"+kind, "step %d (%s): default handler %d holds envelopes %s the model does not send there (model %s, got %s)",
					step, op, hnd, short(extra), short(m.expDef[hnd]), short(got))
			}
			if len(missing) > 0 {
				return h.Failf("seq/default-missing", "step %d (%s): default handler %d lacks envelopes %s (model %s, got %s)",
					step, op, hnd, short(missing), short(m.expDef[hnd]), short(got))
			}
		}
		return nil
	}

	for step, op := range c.Ops {
		desc := op.K
		switch op.K {
		case "put":
			tag := op.Tag
			if tag < 0 || tag >= nTags {
				continue
			}
			id := m.put(tag)
			relay.Put(mkEnv(id, tag, 0))
			desc = fmt.Sprintf("put #%d tag %d", id, tag)
		case "sub":
			slot := pickSlot(slotObj[:], op.C, false)
			if slot < 0 {
				o.Class("op-skipped:sub-without-free-slot")
				continue
			}
			mask := op.Mask & allMask
			obj, n := m.subscribe(mask)
			s := &sink{}
			cons = append(cons, s)
			slotObj[slot] = obj
			if err := relay.Subscribe(s, maskPred(mask)); err != nil {
				return h.Failf("seq/subscribe-error", "step %d: Subscribe of a fresh consumer on an open relay failed: %v", step, err)
			}
			if n > 0 {
				released += n
				m.stats["sub:released-cached"]++
			}
			desc = fmt.Sprintf("sub #%d mask %06b", obj, mask)
		case "subclosed":
			// a consumer that is already closed tries to subscribe: the relay
			// refuses (wire's own tests expect the error) and nothing changes -
			// in particular cached envelopes stay for the first LIVE subscriber
			mask := op.Mask & allMask
			s := &sink{}
			if err := s.Close(); err != nil {
				return h.Failf("harness/close", "closing consumer: %v", err)
			}
			if err := relay.Subscribe(s, maskPred(mask)); err == nil {
				return h.Failf("seq/closed-consumer-subscribed", "step %d: Subscribe of an already closed consumer returned nil", step)
			}
			if got := s.snapshot(); len(got) > 0 {
				return h.Failf("seq/closed-consumer-got-envelopes", "step %d: a closed consumer whose Subscribe failed holds envelopes %s", step, short(got))
			}
			m.stats["sub:closed-consumer"]++
			desc = fmt.Sprintf("subclosed mask %06b", mask)
		case "close":
			slot := pickSlot(slotObj[:], op.C, true)
			if slot < 0 {
				o.Class("op-skipped:close-without-consumer")
				continue
			}
			obj := slotObj[slot]
			slotObj[slot] = -1
			m.unsubscribe(obj)
			if err := cons[obj].Close(); err != nil {
				return h.Failf("harness/close", "closing consumer: %v", err)
			}
			m.stats["close"]++
			desc = fmt.Sprintf("close #%d", obj)
		case "cache":
			if op.Slot < 0 || op.Slot >= seqCacheSlots {
				continue
			}
			if m.preds[op.Slot] {
				m.stats["cache:again"]++
			}
			m.preds[op.Slot] = true
			relay.Cache(&cachePreds[op.Slot])
			desc = fmt.Sprintf("cache slot %d mask %06b", op.Slot, m.masks[op.Slot])
		case "release":
			if op.Slot < 0 || op.Slot >= seqCacheSlots {
				continue
			}
			if m.preds[op.Slot] {
				m.stats["release:enabled"]++
				for _, id := range m.cached {
					if matches(m.masks[op.Slot], m.tags[id]) {
						m.stats["release:with-matching-cached"]++
						break
					}
				}
			} else {
				m.stats["release:not-enabled"]++
			}
			m.preds[op.Slot] = false
			relay.ReleaseCache(&cachePreds[op.Slot])
			desc = fmt.Sprintf("release slot %d", op.Slot)
		case "default":
			if op.H < 0 || op.H > 2 {
				continue
			}
			m.handler = op.H
			if op.H == 0 {
				relay.SetDefaultMsgHandler(nil)
			} else {
				relay.SetDefaultMsgHandler(defs[op.H].handle)
			}
			m.stats["default:set"]++
			desc = fmt.Sprintf("default %d", op.H)
		default:
			continue
		}
		// everything the relay does asynchronously (handing cached envelopes to
		// a new subscriber, removing a closed consumer) must have happened
		// before the next operation and before the comparison
		if op.K == "sub" || op.K == "close" {
			if !quiesce() {
				return h.Failf("seq/hang", "step %d (%s): relay goroutines still running after %v", step, desc, hangLimit)
			}
		}
		if f := check(step, desc); f != nil {
			// do not depend on Put being synchronous: judge only once nothing
			// of the relay is running any more
			if !quiesce() {
				return h.Failf("seq/hang", "step %d (%s): relay goroutines still running after %v", step, desc, hangLimit)
			}
			if f = check(step, desc); f != nil {
				return f
			}
		}
	}

	// what the model keeps in the cache must come out at a final catch-all
	// subscriber, and then the relay must report an empty cache
	left := len(m.cached)
	drain := &sink{}
	wantDrain := append([]int(nil), m.cached...)
	dobj, _ := m.subscribe(allMask)
	cons = append(cons, drain)
	if err := relay.Subscribe(drain, maskPred(allMask)); err != nil {
		return h.Failf("seq/subscribe-error", "final catch-all Subscribe failed: %v", err)
	}
	if !quiesce() {
		return h.Failf("seq/hang", "final drain: relay goroutines still running after %v", hangLimit)
	}
	if missing, extra := diffSorted(wantDrain, drain.snapshot()); len(missing) > 0 || len(extra) > 0 {
		if len(missing) > 0 {
			return h.Failf("seq/cache-lost", "envelopes %s (tags %v) that the model keeps in the cache did not reach a final catch-all subscriber", short(missing), tagsOf(m.tags, missing))
		}
		kind := "unexpected"
		if countOf(wantDrain, extra[0]) > 0 {
			kind = "duplicate"
		}
		return h.Failf("seq/cache-extra:"+kind, "final catch-all subscriber #%d received %s; the model keeps %s in the cache", dobj, short(extra), short(wantDrain))
	}
	if f := check(len(c.Ops), "final drain"); f != nil {
		return f
	}
	if err := relay.Close(); err != nil {
		return h.Failf("seq/close-after-drain", "Relay.Close after a catch-all subscriber took the cache: %v", err)
	}
	if !quiesce() {
		return h.Failf("seq/hang", "after Close: relay goroutines still running after %v", hangLimit)
	}

	// classes
	for k := range m.stats {
		o.Class(k)
	}
	if left > 0 {
		o.Class("cache-left-at-end")
	}
	if released > 0 {
		o.Class("nontrivial:cached-then-released")
	}
	o.Nontrivial = released > 0
	return nil
}

// pickSlot returns the (c mod n)-th slot that is occupied (occupied=true) or
// free (occupied=false), -1 if there is none.
func pickSlot(slotObj []int, c int, occupied bool) int {
	var cand []int
	for i, obj := range slotObj {
		if (obj >= 0) == occupied {
			cand = append(cand, i)
		}
	}
	if len(cand) == 0 || c < 0 {
		return -1
	}
	return cand[c%len(cand)]
}

func countOf(sorted []int, v int) int {
	n := 0
	for _, x := range sorted {
		if x == v {
			n++
		}
	}
	return n
}

func tagsOf(tags []int, ids []int) []int {
	out := make([]int, 0, len(ids))
	for _, id := range ids {
		if id >= 0 && id < len(tags) {
			out = append(out, tags[id])
		} else {
			out = append(out, -1)
		}
		if len(out) >= 8 {
			break
		}
	}
	return out
}

const seqRule = "histories of 0-48 operations (mean ~20) on one wire.Relay: put(envelope with tag 0-5) / subscribe(fresh recording consumer in one of 4 slots, predicate = subset of tags from a family of overlapping sets) / Cache(handle 0-2) / ReleaseCache(handle) / close(consumer) / SetDefaultMsgHandler(nil or one of 2 recorders); after every operation the harness waits until no relay goroutine is left and compares the multiset at every consumer (also closed ones) and default handler with a reference model written from the property text; at the end a catch-all subscriber must receive exactly the model's cache content and Close must report an empty cache. A sixth of the histories start on a crowded relay: 9-40 subscriptions, optionally one put, then half to all-but-one of them closed. non-trivial = at least one envelope was cached and later handed to a subscriber; distinct by SHA-256 of the canonical case JSON"

func TestSequential(t *testing.T) {
	rec := h.Begin("C18", "seq")
	rec.SetRule(seqRule,
		"consumers are fresh, unbounded recorders embedding the same sync.Closer as wire.Receiver; a consumer is subscribed once and never after it was closed (as in client/clientconn.go, client/channelconn.go)",
		"ReleaseCache only stops further caching: envelopes already kept stay until a matching subscriber arrives (property text: 'kept and handed exactly once to the first consumer that subscribes later')",
		"a closed consumer counts as unsubscribed once the relay's removal goroutine has finished (wire/consumer.go: 'The producer calls OnClose() to unregister the Consumer after it is closed'); the harness waits for that by inspecting the goroutine dump",
		"envelopes sent to the logging default handler (nil handler) are only checked not to appear anywhere else",
		"a relay that was closed is outside the property ('open relay'); the relay is closed only at the end of a case")
	defer rec.Flush()
	rapid.Check(t, func(rt *rapid.T) {
		c := drawSeq(rt)
		rec.MarkCurrent(c)
		rec.Report(rt, c, runSeq(c))
	})
}
