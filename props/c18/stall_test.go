package c18

// Fourth part of C18: consumers that do not read for a while.  A wire.Receiver
// queues 16 envelopes; Put (and the relay's cache hand-over after Subscribe)
// blocks when the queue is full and goes on when the reader comes back.  An
// envelope that is given up on while the producer waits is lost - handed to no
// consumer, not cached, not at the default handler.  The other parts never
// fill a queue.  Added after seeded change C18-9; the waiting times are real
// time, so the part is small and every case runs several lanes side by side.

import (
	"context"
	"fmt"
	"sync"
	"testing"
	"time"

	"pgregory.net/rapid"

	"perun.network/go-perun/wire"

	"verif/h"
)

// Lane is one relay with one receiver that stops reading.
type Lane struct {
	Cached  bool `json:"cached,omitempty"`  // envelopes are put before the receiver subscribes (cache hand-over)
	N       int  `json:"n"`                 // envelopes, 17..40
	StallMs int  `json:"stallms"`           // how long the reader stays away after the producer started
	ReadGap int  `json:"readgap,omitempty"` // microseconds between two reads once the reader is back
}

// StallCase is a set of lanes run side by side.
type StallCase struct {
	Lanes []Lane `json:"lanes"`
}

var stallChoices = []int{0, 40, 400, 1100, 1600, 2600}

func drawStall(t *rapid.T) StallCase {
	var c StallCase
	n := rapid.IntRange(4, 12).Draw(t, "lanes")
	for i := 0; i < n; i++ {
		c.Lanes = append(c.Lanes, Lane{
			Cached:  rapid.Bool().Draw(t, "cached"),
			N:       rapid.IntRange(receiverBuffer+1, 40).Draw(t, "n"),
			StallMs: rapid.SampledFrom(stallChoices).Draw(t, "stall"),
			ReadGap: rapid.SampledFrom([]int{0, 0, 200, 5000}).Draw(t, "gap"),
		})
	}
	return c
}

func runLane(l Lane) *h.Failure {
	relay := wire.NewRelay()
	def := &sink{}
	relay.SetDefaultMsgHandler(def.handle)
	recv := wire.NewReceiver()
	all := maskPred(allMask)
	produced := make(chan struct{})
	if l.Cached {
		relay.Cache(&all)
		for id := 0; id < l.N; id++ {
			relay.Put(mkEnv(id, id%nTags, 0))
		}
		// Subscribe returns at once; a go routine of the relay hands the cached
		// envelopes to the receiver and blocks on the full queue
		if err := relay.Subscribe(recv, all); err != nil {
			return h.Failf("harness/subscribe", "%v", err)
		}
		close(produced)
	} else {
		if err := relay.Subscribe(recv, all); err != nil {
			return h.Failf("harness/subscribe", "%v", err)
		}
		go func() {
			defer close(produced)
			for id := 0; id < l.N; id++ {
				relay.Put(mkEnv(id, id%nTags, 0)) // blocks from the 17th on
			}
		}()
	}
	time.Sleep(time.Duration(l.StallMs) * time.Millisecond)
	for want := 0; want < l.N; want++ {
		ctx, cancel := context.WithTimeout(context.Background(), 3*time.Second)
		e, err := recv.Next(ctx)
		cancel()
		if err != nil {
			return h.Failf("stall/lost", "%d envelopes for one subscribed receiver (cached first: %v), which started reading %d ms later: only %d came out of Next (then: %v); default handler got %v", l.N, l.Cached, l.StallMs, want, err, short(def.snapshot()))
		}
		if id := idOf(e); id != want {
			return h.Failf("stall/lost-or-reordered", "%d envelopes for one subscribed receiver (cached first: %v), which started reading %d ms later: envelope #%d came out of Next where #%d was due; default handler got %v", l.N, l.Cached, l.StallMs, id, want, short(def.snapshot()))
		}
		if l.ReadGap > 0 {
			time.Sleep(time.Duration(l.ReadGap) * time.Microsecond)
		}
	}
	select {
	case <-produced:
	case <-time.After(3 * time.Second):
		return h.Failf("stall/producer-stuck", "all %d envelopes were read but the producer's Put has not returned", l.N)
	}
	ctx, cancel := context.WithTimeout(context.Background(), 2*time.Millisecond)
	e, err := recv.Next(ctx)
	cancel()
	if err == nil {
		return h.Failf("stall/extra", "receiver returned envelope #%d after all %d envelopes had been read", idOf(e), l.N)
	}
	if got := def.snapshot(); len(got) > 0 {
		return h.Failf("stall/default", "envelopes %v went to the default handler although a matching receiver was subscribed (or a cache predicate matched)", short(got))
	}
	_ = recv.Close()
	return nil
}

func runStall(c StallCase) *h.Outcome {
	o := &h.Outcome{}
	o.Fail = guarded("hang:stall", func() *h.Failure {
		fails := make([]*h.Failure, len(c.Lanes))
		var wg sync.WaitGroup
		for i := range c.Lanes {
			wg.Add(1)
			go func(i int) {
				defer wg.Done()
				fails[i] = h.Guard(func() *h.Failure { return runLane(c.Lanes[i]) })
			}(i)
		}
		wg.Wait()
		for i, l := range c.Lanes {
			if l.StallMs >= 400 {
				o.Nontrivial = true
			}
			o.Class(fmt.Sprintf("stall-ms:%d", l.StallMs))
			if l.Cached {
				o.Class("cache-hand-over-blocked")
			} else {
				o.Class("put-blocked")
			}
			if fails[i] != nil {
				return fails[i]
			}
		}
		return nil
	})
	return o
}

const stallRule = "cases of 4-12 lanes run side by side; a lane is one relay with one catch-all wire.Receiver and 17-40 envelopes, either put by one producer after the receiver subscribed (Put blocks from the 17th envelope on) or cached first and handed over after Subscribe (the relay's hand-over go routine blocks); the reader stays away for 0, 40, 400, 1100, 1600 or 2600 ms of real time and then reads with 0-5 ms between reads. Oracle: all envelopes come out of Next, in the order put, nothing else does, the producer's Put returns, nothing goes to the default handler. non-trivial = a lane's reader stayed away for at least 400 ms"

func TestStall(t *testing.T) {
	rec := h.Begin("C18", "stall")
	rec.SetRule(stallRule, "waiting times are real time: only delays of the listed lengths are tried")
	defer rec.Flush()
	rapid.Check(t, func(rt *rapid.T) {
		c := drawStall(rt)
		rec.Report(rt, c, runStall(c))
	})
}
