// Package c18: the message relay hands every envelope over exactly once
// (DESIGN.md §3 C18).  Two parts: "seq" compares one wire.Relay with a
// reference model after every operation of a generated history; "conc" runs
// producers, subscribers, closers and cache togglers simultaneously and judges
// the observed history with an interval-based oracle that is sound under any
// interleaving.
package c18

import (
	"bytes"
	"fmt"
	"os"
	"runtime"
	"sort"
	stdsync "sync"
	"testing"
	"time"

	"pgregory.net/rapid"
	polysync "polycry.pt/poly-go/sync"

	simwire "perun.network/go-perun/backend/sim/wire"
	"perun.network/go-perun/wallet"
	"perun.network/go-perun/wire"

	"verif/gen"
	"verif/h"
)

func TestMain(m *testing.M) {
	gen.Setup()
	code := m.Run()
	h.FlushAll()
	os.Exit(code)
}

const (
	// nTags is the size of the tag alphabet; a predicate is a bit mask over it.
	nTags   = 6
	allMask = 1<<nTags - 1
	// hangLimit is a hang detector only (3-4 orders of magnitude above the
	// time any generated case needs); it is never a verdict about delivery.
	hangLimit = 90 * time.Second
)

// ---------------------------------------------------------------- envelopes

func addrMap(b byte) map[wallet.BackendID]wire.Address {
	a := simwire.NewAddress()
	a[0], a[1] = 0xC1, b
	return map[wallet.BackendID]wire.Address{0: a}
}

var recipient = addrMap(0xFF)

// mkEnv builds a ping envelope that carries (tag, id): the tag selects the
// predicates that accept it, the id makes every envelope of a case unique.
func mkEnv(id, tag, producer int) *wire.Envelope {
	return &wire.Envelope{
		Sender:    addrMap(byte(producer)),
		Recipient: recipient,
		Msg:       &wire.PingMsg{PingPongMsg: wire.PingPongMsg{Created: time.Unix(int64(tag), int64(id))}},
	}
}

func tagOf(e *wire.Envelope) int {
	if e == nil {
		return -1
	}
	m, ok := e.Msg.(*wire.PingMsg)
	if !ok {
		return -1
	}
	return int(m.Created.Unix())
}

func idOf(e *wire.Envelope) int {
	if e == nil {
		return -1
	}
	m, ok := e.Msg.(*wire.PingMsg)
	if !ok {
		return -1
	}
	return m.Created.Nanosecond()
}

// maskPred is the predicate family: accept the envelopes whose tag is in mask.
func maskPred(mask int) wire.Predicate {
	return func(e *wire.Envelope) bool {
		t := tagOf(e)
		return t >= 0 && t < nTags && mask>>uint(t)&1 == 1
	}
}

func matches(mask, tag int) bool { return mask>>uint(tag)&1 == 1 }

// genMask draws a predicate: named overlapping sets most of the time, an
// arbitrary subset otherwise.
func genMask(all int) *rapid.Generator[int] {
	named := []int{allMask, 0b010101, 0b101010, 0b000111, 0b111000, 0b001110, 0b000001, 0b000010, 0b000100, 0b100000, 0}
	return rapid.Custom(func(t *rapid.T) int {
		r := rapid.IntRange(0, 9).Draw(t, "maskkind")
		switch {
		case r < all:
			return allMask
		case r < 7:
			return rapid.SampledFrom(named).Draw(t, "named")
		default:
			return rapid.IntRange(0, allMask).Draw(t, "mask")
		}
	})
}

// ---------------------------------------------------------------- recording sinks

// sink records every envelope handed to it; it never blocks and never drops,
// also after it was closed (a wire.Receiver would drop then).
type sink struct {
	polysync.Closer // the same Closer wire.Receiver embeds: OnClose, OnCloseAlways, Close

	mu  stdsync.Mutex
	ids []int
}

var _ wire.Consumer = (*sink)(nil)

// Put implements wire.Consumer.
func (s *sink) Put(e *wire.Envelope) {
	id := idOf(e)
	s.mu.Lock()
	s.ids = append(s.ids, id)
	s.mu.Unlock()
}

// handle is the sink as a default message handler.
func (s *sink) handle(e *wire.Envelope) { s.Put(e) }

// snapshot returns the ids received so far, sorted.
func (s *sink) snapshot() []int {
	s.mu.Lock()
	out := append([]int(nil), s.ids...)
	s.mu.Unlock()
	sort.Ints(out)
	return out
}

// ---------------------------------------------------------------- quiescence

var stackBuf = make([]byte, 1<<16)

// relayGoroutines returns the number of goroutines other than the caller that
// execute, or were created by, go-perun code (the relay delivers cached
// envelopes and removes closed consumers on goroutines of its own).
func relayGoroutines() int {
	n := runtime.Stack(stackBuf, true)
	for n == len(stackBuf) {
		stackBuf = make([]byte, 2*len(stackBuf))
		n = runtime.Stack(stackBuf, true)
	}
	blocks := bytes.Split(stackBuf[:n], []byte("\n\n"))
	cnt := 0
	for i, b := range blocks {
		if i == 0 {
			continue // the calling goroutine
		}
		if bytes.Contains(b, []byte("perun.network/go-perun/")) {
			cnt++
		}
	}
	return cnt
}

// quiesce waits until no goroutine of the code under test is left, i.e. until
// everything the relay does asynchronously has happened.  It returns false
// only when that takes longer than hangLimit.  Must not be called while
// harness goroutines are inside relay calls.
func quiesce() bool {
	deadline := time.Now().Add(hangLimit)
	for spin := 0; ; spin++ {
		if relayGoroutines() == 0 {
			return true
		}
		if time.Now().After(deadline) {
			return false
		}
		if spin < 20 {
			runtime.Gosched()
		} else {
			time.Sleep(200 * time.Microsecond)
		}
	}
}

// guarded runs f on its own goroutine, converts a panic into a failure and a
// hang (hangLimit) into the failure sig.
func guarded(hangSig string, f func() *h.Failure) *h.Failure {
	done := make(chan *h.Failure, 1)
	go func() { done <- h.Guard(f) }()
	select {
	case fail := <-done:
		return fail
	case <-time.After(hangLimit):
		buf := make([]byte, 1<<16)
		n := runtime.Stack(buf, true)
		return h.Failf(hangSig, "case did not finish within %v; goroutines:\n%s", hangLimit, trunc(string(buf[:n]), 3000))
	}
}

func trunc(s string, n int) string {
	if len(s) > n {
		return s[:n] + "…"
	}
	return s
}

// diffSorted returns (only in a, only in b) of two sorted multisets.
func diffSorted(a, b []int) (onlyA, onlyB []int) {
	i, j := 0, 0
	for i < len(a) && j < len(b) {
		switch {
		case a[i] == b[j]:
			i++
			j++
		case a[i] < b[j]:
			onlyA = append(onlyA, a[i])
			i++
		default:
			onlyB = append(onlyB, b[j])
			j++
		}
	}
	onlyA = append(onlyA, a[i:]...)
	onlyB = append(onlyB, b[j:]...)
	return
}

func short(ids []int) string {
	if len(ids) > 8 {
		return fmt.Sprintf("%v… (%d)", ids[:8], len(ids))
	}
	return fmt.Sprint(ids)
}

// ---------------------------------------------------------------- replay

func TestReplay(t *testing.T) {
	p := h.ReplayPath()
	if p == "" {
		t.Skip("no replay requested")
	}
	rec := h.Begin("C18", "replay")
	switch part := h.ReplayPart(p); part {
	case "receiver":
		var c RCase
		if err := h.LoadReplay(p, &c); err != nil {
			t.Fatal(err)
		}
		rec.MarkCurrent(c)
		// the loss depends on a random choice inside select: repeat
		for i := 0; i < 200; i++ {
			o := runRCase(c)
			if o.Fail != nil || i == 199 {
				rec.Report(t, c, o)
				return
			}
		}
	case "stall":
		var c StallCase
		if err := h.LoadReplay(p, &c); err != nil {
			t.Fatal(err)
		}
		rec.MarkCurrent(c)
		rec.Report(t, c, runStall(c))
	case "seq":
		var c SeqCase
		if err := h.LoadReplay(p, &c); err != nil {
			t.Fatal(err)
		}
		rec.MarkCurrent(c)
		rec.Report(t, c, runSeq(c))
	case "conc":
		var c ConcCase
		if err := h.LoadReplay(p, &c); err != nil {
			t.Fatal(err)
		}
		rec.MarkCurrent(c)
		// reproducible at the level of the case, not of the interleaving:
		// sample the scheduler until the case fails or the budget is used
		for i := 0; i < replayRuns; i++ {
			o := runConc(c)
			if o.Fail != nil {
				o.Fail.Msg += " | run " + fmt.Sprint(i+1) + ": " + concDetail
			}
			if o.Fail != nil || i == replayRuns-1 {
				rec.Report(t, c, o)
				return
			}
		}
	default:
		t.Fatalf("replay file %s: unknown part %q", p, part)
	}
}
