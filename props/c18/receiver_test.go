package c18

// Third part of C18: the relay's real consumer type, wire.Receiver.  The other
// parts use unbounded recording sinks, so what a Receiver does with an envelope
// the relay has handed to it - queue it until a reader asks with Next - is not
// exercised there.  "Handed exactly once to each consumer" ends, for a client,
// at Receiver.Next: an envelope that Next takes off the queue and then drops
// (because the caller's context happens to be done) is lost.  Added after
// seeded change C18-6.

import (
	"context"
	"fmt"
	"testing"
	"time"

	"pgregory.net/rapid"

	"perun.network/go-perun/wire"

	"verif/h"
)

// ROp is one operation on a relay with two receivers.
type ROp struct {
	K   string `json:"k"`             // put | next | nextdone | nextexpiring
	Tag int    `json:"tag,omitempty"` // put
	R   int    `json:"r,omitempty"`   // receiver 0 or 1
}

// RCase is a history.
type RCase struct {
	Masks [2]int `json:"masks"` // predicates of the two receivers
	Ops   []ROp  `json:"ops"`
}

func drawRCase(t *rapid.T) RCase {
	var c RCase
	c.Masks = [2]int{genMask(3).Draw(t, "m0"), genMask(3).Draw(t, "m1")}
	c.Ops = rapid.SliceOfN(rapid.Custom(func(t *rapid.T) ROp {
		op := ROp{K: rapid.SampledFrom([]string{"put", "put", "put", "next", "nextdone", "nextdone", "nextexpiring"}).Draw(t, "k")}
		if op.K == "put" {
			op.Tag = rapid.IntRange(0, nTags-1).Draw(t, "tag")
		} else {
			op.R = rapid.IntRange(0, 1).Draw(t, "r")
		}
		return op
	}), 1, 40).Draw(t, "ops")
	return c
}

const receiverBuffer = 16 // wire's receiverBufferSize: Put blocks when the queue is full

func runRCase(c RCase) *h.Outcome {
	o := &h.Outcome{}
	o.Fail = guarded("hang:receiver", func() *h.Failure {
		relay := wire.NewRelay()
		def := &sink{}
		relay.SetDefaultMsgHandler(def.handle)
		var recv [2]*wire.Receiver
		var queue [2][]int // model: ids waiting in receiver r, oldest first
		for r := 0; r < 2; r++ {
			recv[r] = wire.NewReceiver()
			if err := relay.Subscribe(recv[r], maskPred(c.Masks[r]&allMask)); err != nil {
				return h.Failf("harness/subscribe", "%v", err)
			}
		}
		nextID := 0
		take := func(r int, e *wire.Envelope, step int, how string) *h.Failure {
			id := idOf(e)
			if len(queue[r]) == 0 || queue[r][0] != id {
				return h.Failf("receiver/order", "step %d (%s): receiver %d returned envelope #%d, the oldest envelope handed to it and not yet returned is %v", step, how, r, id, queue[r])
			}
			queue[r] = queue[r][1:]
			return nil
		}
		for step, op := range c.Ops {
			switch op.K {
			case "put":
				full := false
				for r := 0; r < 2; r++ {
					if matches(c.Masks[r]&allMask, op.Tag) && len(queue[r]) >= receiverBuffer-1 {
						full = true
					}
				}
				if full {
					o.Class("op-skipped:receiver-queue-full")
					continue
				}
				id := nextID
				nextID++
				relay.Put(mkEnv(id, op.Tag, 0))
				for r := 0; r < 2; r++ {
					if matches(c.Masks[r]&allMask, op.Tag) {
						queue[r] = append(queue[r], id)
					}
				}
			case "next":
				if len(queue[op.R]) == 0 {
					o.Class("op-skipped:next-on-empty-queue")
					continue
				}
				ctx, cancel := context.WithTimeout(context.Background(), hangLimit)
				e, err := recv[op.R].Next(ctx)
				cancel()
				if err != nil {
					return h.Failf("receiver/next-error", "step %d: Next with a live context on receiver %d, which holds %d envelope(s), failed: %v", step, op.R, len(queue[op.R]), err)
				}
				if f := take(op.R, e, step, "next"); f != nil {
					return f
				}
			case "nextdone", "nextexpiring":
				// the reader's context is already done (or ends at about the time of the
				// call): Next may refuse, or hand out the oldest envelope - but an
				// envelope it does not hand out must stay in the queue
				var ctx context.Context
				var cancel context.CancelFunc
				if op.K == "nextdone" {
					ctx, cancel = context.WithCancel(context.Background())
					cancel()
				} else {
					ctx, cancel = context.WithTimeout(context.Background(), time.Microsecond)
				}
				e, err := recv[op.R].Next(ctx)
				cancel()
				if len(queue[op.R]) > 0 {
					o.Nontrivial = true
					o.Class("next-with-done-context-on-non-empty-queue")
				}
				if err == nil {
					if f := take(op.R, e, step, op.K); f != nil {
						return f
					}
				}
			}
		}
		// drain: everything handed to a receiver and not returned yet comes out, in order
		for r := 0; r < 2; r++ {
			for len(queue[r]) > 0 {
				ctx, cancel := context.WithTimeout(context.Background(), 2*time.Second)
				e, err := recv[r].Next(ctx)
				cancel()
				if err != nil {
					return h.Failf("receiver/lost", "receiver %d: %d envelope(s) %v were handed to it by the relay and never came out of Next (a reader with a live context gets: %v)", r, len(queue[r]), queue[r], err)
				}
				if f := take(r, e, len(c.Ops), "drain"); f != nil {
					return f
				}
			}
			ctx, cancel := context.WithTimeout(context.Background(), 2*time.Millisecond)
			e, err := recv[r].Next(ctx)
			cancel()
			if err == nil {
				return h.Failf("receiver/extra", "receiver %d returned envelope #%d although everything handed to it was already returned", r, idOf(e))
			}
			_ = recv[r].Close()
		}
		o.Class(fmt.Sprintf("puts:%d", nextID))
		return nil
	})
	return o
}

const recvRule = "histories of up to 40 operations on one relay with two subscribed wire.Receiver consumers (overlapping predicates): put an envelope (skipped when a matching receiver's 16-slot queue is nearly full), Next with a live context on a non-empty receiver, Next with a context that is already cancelled or expires within a microsecond. Model: a FIFO of the envelopes handed to each receiver. Oracle: Next with a live context returns the oldest envelope; Next with a done context may refuse or return the oldest envelope; at the end every envelope still in the model queue comes out of Next in order and nothing else does. non-trivial = Next was called with a done context on a non-empty queue"

func TestReceiver(t *testing.T) {
	rec := h.Begin("C18", "receiver")
	rec.SetRule(recvRule, "whether Next prefers the context error over a queued envelope is left open; only loss, duplication and order are judged")
	defer rec.Flush()
	rapid.Check(t, func(rt *rapid.T) {
		c := drawRCase(rt)
		rec.Report(rt, c, runRCase(c))
	})
}
