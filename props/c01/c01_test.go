// Package c01: the current off-chain state is always signed by every
// participant (DESIGN.md §3 C01).
//
// The check is an invariant over what the machine lets an observer see after
// every call; it keeps no model of the machine.  The only bookkeeping is how
// the current transaction last changed (an enabling call, SetProgressed, or
// something else), taken from the calls the harness itself made.
package c01

import (
	"bytes"
	"crypto/ecdsa"
	"crypto/sha256"
	"fmt"
	"math/big"
	"os"
	"testing"

	"pgregory.net/rapid"

	simwallet "perun.network/go-perun/backend/sim/wallet"
	"perun.network/go-perun/channel"
	"perun.network/go-perun/wallet"

	"verif/gen"
	"verif/h"
	"verif/mach"
)

func TestMain(m *testing.M) {
	gen.Setup()
	code := m.Run()
	h.FlushAll()
	os.Exit(code)
}

// verifier re-verifies signatures with channel.Verify; results are cached per
// (participant address, state encoding, signature bytes) for the process (the
// peers' signatures come from mach's signature cache and recur in many cases;
// Verify is a function of exactly these three values).
type verifier struct {
	parts []map[wallet.BackendID]wallet.Address
}

var verifyMemo = map[[32]byte]string{}

// strictSimVerify is a reference verifier for the sim wallet backend (id 0):
// a signature is exactly 64 bytes, r||s big-endian, and verifies with ECDSA for
// the address's public key over the SHA-256 digest of the message.  Addresses
// of other backends are not judged.
func strictSimVerify(msg []byte, sig wallet.Sig, a wallet.Address) string {
	addr, ok := a.(*simwallet.Address)
	if !ok {
		return ""
	}
	if len(sig) != 64 {
		return fmt.Sprintf("%d bytes instead of 64", len(sig))
	}
	r, sv := new(big.Int).SetBytes(sig[:32]), new(big.Int).SetBytes(sig[32:])
	d := sha256.Sum256(msg)
	if !ecdsa.Verify((*ecdsa.PublicKey)(addr), d[:], r, sv) {
		return "ECDSA verification fails"
	}
	return ""
}

// check returns "" if sig verifies for every address of participant i over
// state s, else a reason.
func (v *verifier) check(i int, s *channel.State, enc []byte, sig wallet.Sig) string {
	if sig == nil {
		return "signature is nil"
	}
	hsh := sha256.New()
	for _, a := range v.parts[i] {
		ab, err := a.MarshalBinary()
		if err != nil {
			return "address not encodable: " + err.Error()
		}
		hsh.Write(ab)
	}
	hsh.Write([]byte{byte(i)})
	hsh.Write(enc)
	hsh.Write([]byte{0xff})
	hsh.Write(sig)
	var k [32]byte
	copy(k[:], hsh.Sum(nil))
	if r, ok := verifyMemo[k]; ok {
		return r
	}
	if len(verifyMemo) > 100000 {
		verifyMemo = map[[32]byte]string{}
	}
	r := ""
	if len(v.parts[i]) == 0 {
		r = "participant has no address"
	}
	for _, a := range v.parts[i] {
		ok, err := channel.Verify(a, s, sig)
		if err != nil {
			r = "Verify error: " + err.Error()
		} else if !ok {
			r = "signature does not verify"
		} else if wok, werr := wallet.VerifySignature(enc, sig, a); werr != nil || !wok {
			// the sim channel backend signs the state's encoding with the wallet key:
			// checked once more below the channel backend, which could be wrong itself
			r = fmt.Sprintf("channel.Verify accepts the signature, but it is not a wallet signature of the participant over the state's encoding (ok=%v err=%v)", wok, werr)
		} else if why := strictSimVerify(enc, sig, a); why != "" {
			// and once more without the library: the sim backend's signature scheme
			// (64 bytes r||s, ECDSA over the SHA-256 digest) written down here
			r = "the library accepts the signature, a verifier written from the sim backend's signature format does not: " + why
		}
	}
	verifyMemo[k] = r
	return r
}

const (
	originNone       = "none"
	originEnabled    = "enabled"
	originProgressed = "progressed"
)

func isEnable(k string) bool {
	return k == mach.EnableInit || k == mach.EnableUpdate || k == mach.EnableFinal
}

// runCase executes the sequence and checks the invariant after every call.
func runCase(c mach.Case) *h.Outcome {
	o := &h.Outcome{}
	e, err := mach.New(c.Cfg)
	if err != nil {
		o.Fail = h.Failf("harness:new-machine", "%v", err)
		return o
	}
	n := c.Cfg.N
	o.Class(fmt.Sprintf("cfg:n%d/idx%d/%s", c.Cfg.N, c.Cfg.Idx, c.Cfg.App))
	origin := originNone // how the current transaction last changed
	promotions, badSigs, wrongPhase, unsignedAdopt := 0, 0, 0, 0
	var v *verifier
	phases := map[channel.Phase]bool{}

	for i, op := range c.Ops {
		var call mach.Call
		var res mach.Result
		var preStaged, preCur []byte
		var phase channel.Phase
		fail := h.Guard(func() *h.Failure {
			phase = e.M.Phase()
			at := func() string { return fmt.Sprintf("step %d %v in phase %v", i, op, phase) }
			if v == nil {
				v = &verifier{parts: e.M.Params().Parts}
				if len(v.parts) != n {
					return h.Failf("harness:params", "machine reports %d participants, want %d", len(v.parts), n)
				}
			}
			preStaged = mach.Enc(e.M.StagingTX().State)
			preCur = mach.EncTx(e.M.CurrentTX())
			call = e.Resolve(op)
			if call.Skip != "" {
				o.Class("skipped:" + call.Skip)
				return nil
			}
			res = e.Apply(call)
			panicked := false
			if res.Panic != nil {
				panicked = true
				if call.Unspecified != "" {
					o.Class("unspecified:" + call.Unspecified + ":panic")
					res.Panic = nil
				} else {
					res.Panic.Msg = at() + ": " + res.Panic.Msg
					return res.Panic
				}
			}
			lbl := op.Label()
			if call.SigEff != "" && call.SigEff != op.S {
				eff := op
				eff.S = call.SigEff
				lbl = eff.Label()
			}
			switch {
			case panicked:
			case res.Err != nil:
				o.Class("err:" + lbl)
				if channel.IsPhaseTransitionError(res.Err) {
					wrongPhase++
					o.Class("wrong-phase@" + phase.String() + ":" + op.K)
				}
			default:
				o.Class("ok:" + lbl)
			}
			if op.K == mach.AddSig {
				switch {
				case call.SigEff != mach.SigValid:
					badSigs++
				case res.Err != nil && !channel.IsPhaseTransitionError(res.Err):
					// the valid signature was refused in a signing phase: the slot was taken
					badSigs++
					o.Class("duplicate-signature-offered")
				}
			}

			phases[phase] = true
			phases[e.M.Phase()] = true

			// --- how did the current transaction change?
			cur := e.M.CurrentTX()
			curEnc := mach.EncTx(cur)
			switch {
			case op.K == mach.SetProgressed && res.Err == nil:
				origin = originProgressed
				unsignedAdopt++
			case isEnable(op.K) && res.Err == nil:
				origin = originEnabled
				promotions++
				o.Class("promotion:" + op.K)
				// the promoted state is the one that was staged when the enabling call was made
				if cur.State == nil || preStaged == nil || !bytes.Equal(mach.Enc(cur.State), preStaged) {
					return h.Failf("promoted-other-state", "%s: the current state after the enabling call is not byte-identical to the state staged before it", at())
				}
			case !bytes.Equal(curEnc, preCur):
				origin = "changed-by:" + op.K
				o.Class("current-" + origin)
			}

			// --- invariant 1: the current transaction is fully signed
			if cur.State != nil && origin != originProgressed {
				if len(cur.Sigs) != n {
					return h.Failf("current-sig-count", "%s: current transaction (%s) has %d signatures, want %d", at(), origin, len(cur.Sigs), n)
				}
				enc := mach.Enc(cur.State)
				for j := 0; j < n; j++ {
					if why := v.check(j, cur.State, enc, cur.Sigs[j]); why != "" {
						return h.Failf("current-sig", "%s: current transaction (%s, version %d): signature %d: %s", at(), origin, cur.State.Version, j, why)
					}
				}
			}
			// --- invariant 2: no stale, foreign or replayed signature is retained in the staged transaction
			st := e.M.StagingTX()
			if st.State != nil {
				if len(st.Sigs) > n {
					return h.Failf("staging-sig-count", "%s: staged transaction has %d signature slots, want <= %d", at(), len(st.Sigs), n)
				}
				enc := mach.Enc(st.State)
				for j, s := range st.Sigs {
					if s == nil {
						continue
					}
					if why := v.check(j, st.State, enc, s); why != "" {
						return h.Failf("staging-sig", "%s: staged transaction (version %d): retained signature %d: %s", at(), st.State.Version, j, why)
					}
				}
			}
			// --- invariant 3: the adjudicator request carries the current transaction as it is
			req := e.M.AdjudicatorReq()
			if !bytes.Equal(mach.EncTx(req.Tx), curEnc) {
				return h.Failf("adjudicator-req", "%s: AdjudicatorReq().Tx differs from CurrentTX()", at())
			}
			return nil
		})
		if fail != nil {
			o.Fail = fail
			return o
		}
	}
	for p := range phases {
		o.Class("phase:" + p.String())
	}
	if promotions > 0 {
		o.Class("with-promotion")
	}
	if badSigs > 0 {
		o.Class("with-bad-signature-offered")
	}
	if wrongPhase > 0 {
		o.Class("with-wrong-phase-call")
	}
	if unsignedAdopt > 0 {
		o.Class("with-set-progressed")
	}
	o.Nontrivial = promotions > 0 && (badSigs > 0 || wrongPhase > 0)
	return o
}

var assumptions = []string{
	"signature indices are below the participant count; the unchecked ForceUpdate is applied only when the machine has a current state (skipped and counted otherwise)",
	"states handed to the machine are well-formed and not mutated afterwards; CheckUpdate without a current state is unspecified (only counted)",
	"a current state adopted by SetProgressed (on-chain progression event) is exempt until the current transaction changes again",
	"participant keys come from a per-process pool; cases are key-independent; forgeries are out of reach of any generator",
}

const oracle = "oracle (after every call, from CurrentTX()/StagingTX()/AdjudicatorReq() only): if a current state exists and was not adopted by SetProgressed, it has N signatures and each verifies (channel.Verify) for the address of Params().Parts[i] over exactly that state; after a successful Enable* the current state is byte-identical to the state staged before the call; every non-nil slot of StagingTX().Sigs verifies for its participant over StagingTX().State; AdjudicatorReq().Tx equals CurrentTX(); no panic. non-trivial = >= 1 promotion of a staged state and (>= 1 offered signature that is not the valid one - wrong signer, replayed, garbage, duplicate - or >= 1 call refused for its phase); distinct by SHA-256 of the case JSON"

// TestEnum checks the invariant on the exhaustive enumeration shared with C09.
func TestEnum(t *testing.T) {
	rec := h.Begin("C01", "enum")
	b := mach.Bounds{Fresh: h.Pick(3, 4), FreshPayment: 3, Prefixed: h.Pick(2, 3)}
	rec.SetRule(fmt.Sprintf("exhaustive: every sequence p.w over the complete alphabet of mach.Alphabet (41 concrete operations for two participants, 40 with the payment app) with p = empty and |w| <= %d (payment app: <= %d), and p one of 14 canonical protocol prefixes that reach every phase (mach.Prefixes) and |w| <= %d; two participants, own index 0 and 1, no-app and payment app; every sequence runs on a fresh machine; ", b.Fresh, b.FreshPayment, b.Prefixed)+oracle, assumptions...)
	rec.SetExhaustive(true)
	defer rec.Flush()
	sh, n := h.Shard()
	run := 0
	total := mach.Enumerate(b, sh, n, func(cfg mach.Config, prefix string, plen int, ops []mach.Op) bool {
		c := mach.Case{Cfg: cfg, Ops: ops}
		o := runCase(c)
		o.Class("prefix:" + prefix)
		rec.Report(t, c, o)
		run++
		return !rec.Failed()
	})
	// numeric extras are summed over the shards by the driver, texts are not
	rec.Extra("enum_sequences_run", run)
	rec.Extra("enum_space", fmt.Sprintf("%d sequences (bounds: fresh <= %d, fresh with payment app <= %d, after a prefix <= %d)", total, b.Fresh, b.FreshPayment, b.Prefixed))
}

// TestRandom checks the invariant on random sequences.
func TestRandom(t *testing.T) {
	rec := h.Begin("C01", "random")
	rec.SetRule("rapid: sequences of 1..60 operations; two (75%) or three participants, own index 0/1, no-app or payment app; each step uniformly from the complete alphabet (40%) or from the operations the protocol suggests in the present phase incl. wrong-signer/replayed/duplicate signatures, one-signature-short enables and re-staging in signing phases (60%, steered by a scratch machine while drawing); "+oracle, assumptions...)
	defer rec.Flush()
	g := mach.GenCase(mach.GenOpts{MinLen: 1, MaxLen: 60, Ns: []int{2, 3}, Guided: 60, FewCols: true})
	rapid.Check(t, func(rt *rapid.T) {
		c := g.Draw(rt, "case")
		rec.Report(rt, c, runCase(c))
	})
}

func TestReplay(t *testing.T) {
	p := h.ReplayPath()
	if p == "" {
		t.Skip("no replay requested")
	}
	var c mach.Case
	if err := h.LoadReplay(p, &c); err != nil {
		t.Fatal(err)
	}
	part := h.ReplayPart(p)
	if part == "" {
		part = "replay"
	}
	rec := h.Begin("C01", "replay-"+part)
	rec.Report(t, c, runCase(c))
}
