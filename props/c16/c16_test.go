// Package c16: message framing does not depend on how the transport chunks the
// bytes (DESIGN.md §3 C16).
package c16

import (
	"bytes"
	"io"
	"os"
	"strings"
	"testing"

	"pgregory.net/rapid"

	"perun.network/go-perun/wire"
	wirenet "perun.network/go-perun/wire/net"
	perunser "perun.network/go-perun/wire/perunio/serializer"
	"perun.network/go-perun/wire/protobuf"

	"verif/gen"
	"verif/h"
)

func TestMain(m *testing.M) {
	gen.Setup()
	code := m.Run()
	h.FlushAll()
	os.Exit(code)
}

// Case is a stream of envelopes and a partition of the stream into reads.
type Case struct {
	Envs []gen.EnvSpec `json:"envs"`
	// Sizes is cycled through: the i-th Read returns at most Sizes[i%len] bytes
	// (0 = as many as requested).
	Sizes []int `json:"sizes"`
	// Cuts are offsets relative to the start of every envelope at which a read
	// must end (so that cuts fall exactly at / around the length prefixes).
	Cuts []int `json:"cuts"`
}

// chunkReader delivers the stream in the generated pieces.  It returns every
// chunk with a nil error and reports io.EOF only on a later call with zero
// bytes (the stream "stays open" as long as there is data); it never returns
// (0, nil) for a non-empty buffer.
type chunkReader struct {
	data  []byte
	pos   int
	sizes []int
	cuts  map[int]bool
	calls int
	reads int // number of Read calls that returned fewer bytes than requested (short reads)
}

func (r *chunkReader) Read(p []byte) (int, error) {
	if len(p) == 0 {
		return 0, nil
	}
	if r.pos >= len(r.data) {
		return 0, io.EOF
	}
	n := len(p)
	if len(r.sizes) > 0 {
		if s := r.sizes[r.calls%len(r.sizes)]; s > 0 && s < n {
			n = s
		}
	}
	r.calls++
	if rem := len(r.data) - r.pos; rem < n {
		n = rem
	}
	for k := 1; k < n; k++ {
		if r.cuts[r.pos+k] {
			n = k
			break
		}
	}
	copy(p, r.data[r.pos:r.pos+n])
	r.pos += n
	if n < len(p) {
		r.reads++
	}
	return n, nil
}

// rwc makes a connection out of a chunk reader (writes are discarded).
type rwc struct{ r *chunkReader }

func (c rwc) Read(p []byte) (int, error)  { return c.r.Read(p) }
func (c rwc) Write(p []byte) (int, error) { return len(p), nil }
func (c rwc) Close() error                { return nil }

func bigEnvelope(t *rapid.T) gen.EnvSpec {
	e := gen.EnvSpec{Sender: gen.GenWireMap().Draw(t, "s"), Recipient: gen.GenWireMap().Draw(t, "r")}
	n := rapid.SampledFrom([]int{1400, 1461, 2921, 4096, 9000, 16384, 32768, 65000}).Draw(t, "biglen")
	n += rapid.IntRange(-3, 3).Draw(t, "jitter")
	switch rapid.IntRange(0, 2).Draw(t, "bigkind") {
	case 0:
		e.Msg = gen.MsgSpec{Type: "Shutdown", Reason: strings.Repeat("x", n)}
	case 1:
		b := make([]byte, n)
		for i := range b {
			b[i] = byte(i)
		}
		e.Msg = gen.MsgSpec{Type: "AuthResponse", Sig: gen.HexOf(b)}
	default:
		// a state with many assets
		na := n / 40
		if na > 1000 {
			na = 1000
		}
		if na < 1 {
			na = 1
		}
		var a gen.AllocSpec
		for i := 0; i < na; i++ {
			a.Assets = append(a.Assets, uint64(i))
			a.Backends = append(a.Backends, 0)
			a.Bals = append(a.Bals, []gen.Big{gen.BigU(uint64(i)), gen.BigU(7)})
		}
		a.Locked = []gen.SubAllocSpec{}
		s := gen.StateSpec{ID: gen.HexOf(make([]byte, 32)), Version: 3, App: gen.AppSpec{Kind: "none"}, Alloc: a}
		e.Msg = gen.MsgSpec{Type: "ChannelUpdate", State: &s, Actor: 1, Sig: gen.HexOf(make([]byte, 64))}
	}
	return e
}

func drawCase(t *rapid.T) Case {
	var c Case
	n := rapid.IntRange(1, 5).Draw(t, "nenvs")
	for i := 0; i < n; i++ {
		if rapid.IntRange(0, 2).Draw(t, "big") == 0 {
			c.Envs = append(c.Envs, bigEnvelope(t))
		} else {
			e := gen.GenEnv("").Draw(t, "env")
			if e.Msg.Type == "ChannelSync" && e.Msg.NilTx {
				e.Msg = gen.MsgSpec{Type: "Pong", Created: 5} // no protobuf representation, see C14
			}
			c.Envs = append(c.Envs, e)
		}
	}
	switch rapid.IntRange(0, 5).Draw(t, "chunkmode") {
	case 0: // whole
		c.Sizes = []int{0}
	case 1: // single bytes
		c.Sizes = []int{1}
	case 2: // fixed n
		c.Sizes = []int{rapid.SampledFrom([]int{2, 3, 7, 64, 1460, 4096}).Draw(t, "fixed")}
	case 3: // random sizes
		c.Sizes = rapid.SliceOfN(rapid.IntRange(1, 3000), 1, 8).Draw(t, "sizes")
	case 4: // cuts exactly at / around the length prefix boundaries
		c.Sizes = []int{0}
		c.Cuts = rapid.SliceOfNDistinct(rapid.IntRange(0, 12), 1, 5, func(i int) int { return i }).Draw(t, "cuts")
	default: // mixture
		c.Sizes = rapid.SliceOfN(rapid.SampledFrom([]int{0, 1, 2, 5, 100, 1460}), 1, 5).Draw(t, "sizes")
		c.Cuts = rapid.SliceOfNDistinct(rapid.IntRange(0, 300), 0, 4, func(i int) int { return i }).Draw(t, "cuts")
	}
	return c
}

func runCase(c Case) *h.Outcome {
	o := &h.Outcome{}
	for _, ser := range []struct {
		name string
		s    wire.EnvelopeSerializer
	}{{"native", perunser.Serializer()}, {"protobuf", protobuf.Serializer()}} {
		f := h.Guard(func() *h.Failure {
			var stream bytes.Buffer
			cuts := map[int]bool{}
			for i, es := range c.Envs {
				start := stream.Len()
				if err := ser.s.Encode(&stream, es.Build()); err != nil {
					// protobuf frames are limited to 64 KiB by design; recognised by the
					// error text or, independent of it, by the envelope's native size
					var nb bytes.Buffer
					_ = perunser.Serializer().Encode(&nb, es.Build())
					if ser.name == "protobuf" && (strings.Contains(err.Error(), "out of bounds") || nb.Len() > 16<<10) {
						o.Class("pb-frame-too-large")
						return nil
					}
					return h.Failf("encode-error:"+ser.name, "envelope %d (%s): %v", i, es.Msg.Type, err)
				}
				for _, off := range c.Cuts {
					cuts[start+off] = true
				}
				if stream.Len()-start > 1460 {
					o.Class("larger-than-segment:" + ser.name)
				}
			}
			// reference: one-read delivery
			whole := bytes.NewReader(stream.Bytes())
			cr := &chunkReader{data: stream.Bytes(), sizes: c.Sizes, cuts: cuts}
			for i, es := range c.Envs {
				ref, err := ser.s.Decode(whole)
				if err != nil {
					return h.Failf("whole-decode-error:"+ser.name, "envelope %d (%s) does not decode even when delivered at once: %v", i, es.Msg.Type, err)
				}
				before := cr.reads
				got, err := ser.s.Decode(cr)
				if err != nil {
					return h.Failf("chunked-decode-error:"+ser.name, "envelope %d (%s, %d bytes stream) fails when delivered in chunks (sizes %v, cuts %v): %v", i, es.Msg.Type, stream.Len(), c.Sizes, c.Cuts, err)
				}
				if cr.reads-before >= 1 {
					o.Nontrivial = true
					o.Class("multi-read:" + ser.name)
				}
				want, refj, gotj := h.Canon(es.Norm()), h.Canon(gen.UnEnv(ref)), h.Canon(gen.UnEnv(got))
				if !bytes.Equal(refj, gotj) {
					return h.Failf("chunked-differs:"+ser.name, "envelope %d (%s) decodes differently when delivered in chunks (sizes %v, cuts %v)", i, es.Msg.Type, c.Sizes, c.Cuts)
				}
				if !bytes.Equal(want, gotj) {
					return h.Failf("chunked-value:"+ser.name, "envelope %d (%s) is not the envelope that was written", i, es.Msg.Type)
				}
			}
			if cr.pos != len(cr.data) {
				return h.Failf("stream-position:"+ser.name, "after %d envelopes the reader is at %d of %d", len(c.Envs), cr.pos, len(cr.data))
			}
			// the same stream through the connection object the network layer uses
			// (wire/net.ioConn): k Recv calls yield the k envelopes, in order
			conn := wirenet.NewIoConn(rwc{&chunkReader{data: stream.Bytes(), sizes: c.Sizes, cuts: cuts}}, ser.s)
			for i, es := range c.Envs {
				got, err := conn.Recv()
				if err != nil {
					return h.Failf("ioconn-recv-error:"+ser.name, "Recv of envelope %d of %d (%s) fails when the connection delivers the stream in chunks (sizes %v, cuts %v): %v", i, len(c.Envs), es.Msg.Type, c.Sizes, c.Cuts, err)
				}
				if !bytes.Equal(h.Canon(es.Norm()), h.Canon(gen.UnEnv(got))) {
					return h.Failf("ioconn-recv-value:"+ser.name, "Recv %d of %d does not return the envelope that was written (%s)", i, len(c.Envs), es.Msg.Type)
				}
			}
			return nil
		})
		if f != nil {
			o.Fail = f
			return o
		}
	}
	if len(c.Envs) > 1 {
		o.Class("several-envelopes")
	}
	return o
}

const rule = "1-5 well-formed envelopes (generated messages of all types, one third of them 1.4-65 kB large: long strings, long signatures, states with up to 1000 assets) encoded back to back with the native and with the protobuf serializer, and a partition of the byte stream into reads: whole, single bytes, fixed n, random sizes, cuts exactly at / around the length-prefix boundaries of every envelope, mixtures. The reader returns each chunk with a nil error and io.EOF only on a later call (open stream), never (0,nil). Oracle: decoding k times yields, in order, envelopes equal to the originals and to the result of the one-read delivery (differential across chunkings), and the stream is fully consumed; the same stream behind a wire/net connection object (NewIoConn) yields the k envelopes in k Recv calls. non-trivial = the decoder experienced at least one short read (fewer bytes than it asked for) inside an envelope"

func TestChunking(t *testing.T) {
	rec := h.Begin("C16", "")
	rec.SetRule(rule, "a reader that reports end-of-file together with the last bytes is a closed connection and outside the property",
		"envelope equality as in C14 (conversion back to the generating spec, nil==empty)")
	defer rec.Flush()
	rapid.Check(t, func(rt *rapid.T) {
		c := drawCase(rt)
		rec.Report(rt, c, runCase(c))
	})
}

func TestReplay(t *testing.T) {
	p := h.ReplayPath()
	if p == "" {
		t.Skip("no replay requested")
	}
	var c Case
	if err := h.LoadReplay(p, &c); err != nil {
		t.Fatal(err)
	}
	rec := h.Begin("C16", "replay")
	if h.ReplayPart(p) == "values" {
		var vc ValCase
		if err := h.LoadReplay(p, &vc); err != nil {
			t.Fatal(err)
		}
		rec.Report(t, vc, runValCase(vc))
		return
	}
	rec.Report(t, c, runCase(c))
}
