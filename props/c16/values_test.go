package c16

// Second part of C16: the value-level readers the envelope decoders are built
// from (wire/perunio: byte slices, binary-marshalled values behind a uint16
// length, big integers, strings, fixed-size integers) under the same generated
// read partitions.  The sim backend's addresses, app ids and signatures are at
// most 64 bytes long, so the envelope part never delivers a LONG byte field in
// many small reads; real transports do (a wire/net/simple address carries a
// 2048 bit RSA key; app data may be kilobytes).  Added after seeded change
// C16-4.

import (
	"bytes"
	"fmt"
	"math/big"
	"testing"

	"pgregory.net/rapid"

	"perun.network/go-perun/wire/perunio"

	"verif/h"
)

// Val is one value of the stream.
type Val struct {
	K string `json:"k"` // bytes | bin | big | str | u16 | u32 | u64 | bool
	N int    `json:"n"` // length in bytes (bytes, bin, big, str)
	X uint64 `json:"x"` // content seed / integer value
}

// ValCase is a stream of values and a partition of the stream into reads.
type ValCase struct {
	Vals  []Val `json:"vals"`
	Sizes []int `json:"sizes"`
	Cuts  []int `json:"cuts"`
}

// blob is a value that travels as "uint16 length + bytes" (like addresses,
// app ids and app data do).
type blob struct{ b []byte }

func (x blob) MarshalBinary() ([]byte, error) { return x.b, nil }
func (x *blob) UnmarshalBinary(d []byte) error {
	x.b = append([]byte(nil), d...)
	return nil
}

func fill(n int, seed uint64) []byte {
	b := make([]byte, n)
	for i := range b {
		b[i] = byte(uint64(i)*131 + seed*7 + 1)
	}
	return b
}

func drawValCase(t *rapid.T) ValCase {
	var c ValCase
	n := rapid.IntRange(1, 6).Draw(t, "nvals")
	for i := 0; i < n; i++ {
		v := Val{K: rapid.SampledFrom([]string{"bytes", "bytes", "bin", "bin", "big", "str", "u16", "u32", "u64", "bool"}).Draw(t, "k"), X: rapid.Uint64().Draw(t, "x")}
		switch v.K {
		case "bytes":
			v.N = rapid.SampledFrom([]int{0, 1, 64, 100, 101, 102, 103, 200, 270, 1460, 9000, 70000}).Draw(t, "n") + rapid.IntRange(0, 3).Draw(t, "j")
		case "bin":
			v.N = rapid.SampledFrom([]int{0, 1, 64, 100, 101, 102, 103, 200, 270, 1460, 9000, 65530}).Draw(t, "n") + rapid.IntRange(0, 3).Draw(t, "j")
		case "big":
			v.N = rapid.IntRange(0, 128).Draw(t, "n")
		case "str":
			v.N = rapid.SampledFrom([]int{0, 1, 100, 102, 300, 1460, 65535}).Draw(t, "n")
		}
		c.Vals = append(c.Vals, v)
	}
	switch rapid.IntRange(0, 4).Draw(t, "chunkmode") {
	case 0:
		c.Sizes = []int{1}
	case 1:
		c.Sizes = []int{rapid.SampledFrom([]int{2, 3, 7, 64, 536, 1460}).Draw(t, "fixed")}
	case 2:
		c.Sizes = rapid.SliceOfN(rapid.IntRange(1, 3000), 1, 8).Draw(t, "sizes")
	case 3:
		c.Sizes = []int{0}
		c.Cuts = rapid.SliceOfNDistinct(rapid.IntRange(0, 12), 1, 5, func(i int) int { return i }).Draw(t, "cuts")
	default:
		c.Sizes = rapid.SliceOfN(rapid.SampledFrom([]int{0, 1, 2, 5, 100, 1460}), 1, 5).Draw(t, "sizes")
	}
	return c
}

func runValCase(c ValCase) *h.Outcome {
	o := &h.Outcome{}
	o.Fail = h.Guard(func() *h.Failure {
		var stream bytes.Buffer
		cuts := map[int]bool{}
		var want []any
		for i, v := range c.Vals {
			start := stream.Len()
			var x any
			switch v.K {
			case "bytes":
				x = fill(v.N, v.X)
			case "bin":
				x = blob{fill(v.N, v.X)}
			case "big":
				b := fill(v.N, v.X)
				if len(b) > 0 && b[0] == 0 {
					b[0] = 1
				}
				x = new(big.Int).SetBytes(b)
			case "str":
				s := fill(v.N, v.X)
				for j := range s {
					s[j] = 'a' + s[j]%26
				}
				x = string(s)
			case "u16":
				x = uint16(v.X)
			case "u32":
				x = uint32(v.X)
			case "u64":
				x = v.X
			case "bool":
				x = v.X%2 == 1
			default:
				continue
			}
			if err := perunio.Encode(&stream, x); err != nil {
				return h.Failf("value-encode-error:"+v.K, "value %d (%s, %d bytes): %v", i, v.K, v.N, err)
			}
			want = append(want, x)
			for _, off := range c.Cuts {
				cuts[start+off] = true
			}
			if v.N > 101 {
				o.Class("long-field:" + v.K)
			}
		}
		cr := &chunkReader{data: stream.Bytes(), sizes: c.Sizes, cuts: cuts}
		for i, x := range want {
			before := cr.reads
			var got any
			var err error
			switch w := x.(type) {
			case []byte:
				g := make([]byte, len(w))
				err = perunio.Decode(cr, &g)
				got = g
			case blob:
				var g blob
				err = perunio.Decode(cr, &g)
				got = g
			case *big.Int:
				var g *big.Int
				err = perunio.Decode(cr, &g)
				got = g
			case string:
				var g string
				err = perunio.Decode(cr, &g)
				got = g
			case uint16:
				var g uint16
				err = perunio.Decode(cr, &g)
				got = g
			case uint32:
				var g uint32
				err = perunio.Decode(cr, &g)
				got = g
			case uint64:
				var g uint64
				err = perunio.Decode(cr, &g)
				got = g
			case bool:
				var g bool
				err = perunio.Decode(cr, &g)
				got = g
			}
			if err != nil {
				return h.Failf("value-chunked-decode-error:"+c.Vals[i].K, "value %d (%s, %d bytes) fails when the stream is delivered in chunks (sizes %v, cuts %v): %v", i, c.Vals[i].K, c.Vals[i].N, c.Sizes, c.Cuts, err)
			}
			if cr.reads-before >= 1 {
				o.Nontrivial = true
			}
			eq := false
			switch w := x.(type) {
			case []byte:
				eq = bytes.Equal(w, got.([]byte))
			case blob:
				eq = bytes.Equal(w.b, got.(blob).b)
			case *big.Int:
				eq = got.(*big.Int) != nil && w.Cmp(got.(*big.Int)) == 0
			default:
				eq = fmt.Sprint(x) == fmt.Sprint(got)
			}
			if !eq {
				return h.Failf("value-chunked-differs:"+c.Vals[i].K, "value %d (%s, %d bytes) decodes to another value when delivered in chunks (sizes %v, cuts %v)", i, c.Vals[i].K, c.Vals[i].N, c.Sizes, c.Cuts)
			}
		}
		if cr.pos != len(cr.data) {
			return h.Failf("value-stream-position", "after %d values the reader is at %d of %d", len(want), cr.pos, len(cr.data))
		}
		return nil
	})
	return o
}

const valRule = "1-6 values of the kinds the wire format is built from - byte slices (0-70 kB, many just around 101 bytes), binary-marshalled values behind a uint16 length (0-65 kB, like addresses, app ids and app data), big integers (0-128 bytes), strings (0-65535), fixed-size integers, booleans - written back to back with perunio.Encode and read with perunio.Decode from a stream partitioned into reads (single bytes, fixed 2-1460, random sizes, cuts around the length prefixes, mixtures; open stream, never (0,nil)). Oracle: every value decodes to the value written and the stream is consumed exactly. non-trivial = the decoder experienced at least one short read"

func TestValuesChunked(t *testing.T) {
	rec := h.Begin("C16", "values")
	rec.SetRule(valRule, "a reader that reports end-of-file together with the last bytes is a closed connection and outside the property")
	defer rec.Flush()
	rapid.Check(t, func(rt *rapid.T) {
		c := drawValCase(rt)
		rec.Report(rt, c, runValCase(c))
	})
}
