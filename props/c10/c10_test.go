// Package c10: what is restored after a crash is exactly a state the channel
// machine was in (DESIGN.md §3 C10; fault enumeration over every write
// boundary of every generated history).
package c10

import (
	"context"
	"crypto/sha256"
	"encoding/json"
	"fmt"
	"os"
	"testing"

	"pgregory.net/rapid"

	"perun.network/go-perun/channel"
	"perun.network/go-perun/channel/persistence"
	"perun.network/go-perun/channel/persistence/keyvalue"
	"perun.network/go-perun/wallet"
	"perun.network/go-perun/wire"
	"polycry.pt/poly-go/sortedkv"

	"verif/faultkv"
	"verif/faultkv/chanops"
	"verif/gen"
	"verif/h"
)

func TestMain(m *testing.M) {
	gen.Setup()
	code := m.Run()
	h.FlushAll()
	os.Exit(code)
}

// Case is one history.  The history is: [the PreInit prefix], ChannelCreated,
// Ops (cut after the operation that removes the channel).
type Case struct {
	LevelDB bool             `json:"leveldb"`
	Chan    chanops.ChanSpec `json:"chan"`
	// PreInit != nil: the order of client.persistVirtualChannel - Init, AddSig
	// for every participant, EnableInit, SetFunded run through the persisting
	// machine BEFORE ChannelCreated (reference while they run: "absent").
	PreInit *gen.AllocSpec `json:"preinit,omitempty"`
	Ops     []chanops.Op   `json:"ops"`
}

const maxHistory = 30

func drawCase(t *rapid.T) Case {
	var c Case
	c.LevelDB = rapid.IntRange(0, 7).Draw(t, "leveldb") == 5 // rapid favours small values: compare with a mid-range one
	n := []int{2, 2, 2, 2, 2, 3, 3, 3, 3, 11}[rapid.IntRange(0, 9).Draw(t, "n")]
	if n == 11 && rapid.IntRange(0, 1).Draw(t, "really11") == 0 {
		n = 3
	}
	c.Chan = chanops.ChanSpec{
		N: n, Own: rapid.IntRange(0, n-1).Draw(t, "own"),
		Nonce:  uint64(rapid.IntRange(0, 1000).Draw(t, "nonce")),
		App:    rapid.SampledFrom([]string{"none", "mock"}).Draw(t, "app"),
		Flags:  rapid.SampledFrom([]int{1, 1, 0, 2}).Draw(t, "flags"),
		Parent: rapid.SampledFrom([]int{-1, 0}).Draw(t, "parent"),
	}
	for j := 0; j < n; j++ {
		c.Chan.Peers = append(c.Chan.Peers, j)
	}
	tr := chanops.NewTracker(n, c.Chan.Own)
	length := rapid.IntRange(1, maxHistory).Draw(t, "length")
	used := 1 // ChannelCreated
	if length >= n+5 && rapid.IntRange(0, 6).Draw(t, "preinit") == 4 {
		a := gen.GenAlloc(gen.AllocOpts{MinAssets: 1, MaxAssets: 2, Parts: n, Bal: gen.GenSmallBal()}).Draw(t, "prealloc")
		c.PreInit = &a
		for _, op := range preOps(c) {
			tr.Predict(op)
			used++
		}
	}
	c.Ops = []chanops.Op{}
	for ; used < length && !tr.Gone; used++ {
		c.Ops = append(c.Ops, tr.Draw(t, true))
	}
	return c
}

func preOps(c Case) []chanops.Op {
	if c.PreInit == nil {
		return nil
	}
	ops := []chanops.Op{{Kind: "Init", Alloc: c.PreInit}}
	for j := 0; j < c.Chan.N; j++ {
		ops = append(ops, chanops.Op{Kind: "AddSig", Slot: j, Sig: "valid"})
	}
	return append(ops, chanops.Op{Kind: "EnableInit"}, chanops.Op{Kind: "SetFunded"})
}

// span is one operation of the history with the crash points that lie in it.
type span struct {
	idx         int
	name        string
	first, last int // boundaries first..last belong to the operation (first > last: none)
	before      *chanops.Snap
	after       *chanops.Snap // nil: the channel is absent
	completed   bool
}

var bg = context.Background()

func syntheticParent(i int) *channel.ID {
	id := channel.ID(sha256.Sum256([]byte(fmt.Sprintf("verif synthetic parent %d", i))))
	return &id
}

// stats of one run, for the evidence.
type runStats struct {
	crashPoints int
}

func runCase(c Case) (*h.Outcome, runStats) {
	o := &h.Outcome{}
	var st runStats
	o.Fail = h.Guard(func() *h.Failure { return run(c, o, &st) })
	return o, st
}

func run(c Case, o *h.Outcome, st *runStats) *h.Failure {
	var fk *faultkv.DB
	if c.LevelDB {
		var err error
		if fk, err = faultkv.NewLevelDB(os.Getenv("VERIF_OUT")); err != nil {
			panic("harness: cannot create a LevelDB: " + err.Error())
		}
		o.Class("store:leveldb")
	} else {
		fk = faultkv.NewMemory()
		o.Class("store:memorydb")
	}
	defer fk.Close()

	pr := keyvalue.NewPersistRestorer(fk)
	peers := make([]map[wallet.BackendID]wire.Address, c.Chan.N)
	for j := range peers {
		peers[j] = chanops.IdentMap(c.Chan.Peers[j], false)
	}
	var parent *channel.ID
	if c.Chan.Parent >= 0 {
		parent = syntheticParent(c.Chan.Parent)
		o.Class("with-parent")
	} else {
		o.Class("without-parent")
	}
	live, err := chanops.NewLive(c.Chan, pr, peers, parent)
	if err != nil {
		panic("harness: cannot build the machine: " + err.Error())
	}
	id := live.ID()
	o.Class(fmt.Sprintf("parts:%d", c.Chan.N))

	type item struct {
		create bool
		op     chanops.Op
	}
	var items []item
	for _, op := range preOps(c) {
		items = append(items, item{op: op})
	}
	if c.PreInit != nil {
		o.Class("created-after-init(virtual-hub-order)")
	}
	items = append(items, item{create: true})
	for _, op := range c.Ops {
		items = append(items, item{op: op})
	}

	var (
		spans           []span
		exists          bool
		sigSeen         bool
		sigThenNewStage bool
		multiWrite      bool
		lastStaged      []byte
	)
	ref := func() *chanops.Snap {
		if !exists {
			return nil
		}
		return live.Snap()
	}
	for i, it := range items {
		sp := span{idx: i, before: ref(), first: fk.NumBoundaries() + 1}
		var res chanops.Result
		if it.create {
			sp.name = "ChannelCreated"
			if err := live.Create(bg); err != nil {
				res = chanops.Result{Err: err, Persist: true}
			} else {
				exists = true
			}
		} else {
			sp.name = it.op.Kind
			res = live.Apply(bg, it.op)
			if res.Removed {
				exists = false
			}
		}
		sp.after = ref()
		sp.last = fk.NumBoundaries()
		sp.completed = res.OK()
		spans = append(spans, sp)

		switch {
		case res.Skipped != "":
			o.Class("skipped:" + res.Skipped)
		case res.Persist:
			return h.Failf("persister-error:"+sp.name,
				"operation %d (%s) was accepted by the machine but the persister failed without any injected fault: %v", i, sp.name, res.Err)
		case res.Err != nil:
			o.Class("refused:" + sp.name)
			if sp.last >= sp.first {
				return h.Failf("write-by-refused-operation", "operation %d (%s) was refused (%v) but wrote to the store", i, sp.name, res.Err)
			}
		default:
			o.Class("ok:" + sp.name)
		}
		nb := sp.last - sp.first + 1
		if nb >= 2 {
			multiWrite = true
			o.Class(fmt.Sprintf("boundaries-in-op:%s:%d", sp.name, nb))
		}
		if res.OK() && !it.create {
			if it.op.Kind == "Sig" || it.op.Kind == "AddSig" {
				sigSeen = true
				lastStaged = live.Snap().StgState
			} else if s := live.Snap().StgState; sigSeen && s != nil && string(s) != string(lastStaged) {
				if !sigThenNewStage {
					o.Class("sig-then-different-staged-state")
				}
				sigThenNewStage = true
			}
		}
		// the live store, read through its own iterators (LevelDB's in a tenth
		// of the cases), after the completed operation
		if res.OK() {
			if f := checkStore(fk, []*chanops.Snap{sp.after}, id, peers, fmt.Sprintf("live store after completed operation %d (%s)", i, sp.name)); f != nil {
				return f
			}
		}
		if res.Removed {
			if i+1 < len(items) {
				o.Class("ops-after-removal-cut")
			}
			break
		}
	}
	o.Nontrivial = sigThenNewStage || multiWrite

	// every crash point of the history
	nb := fk.NumBoundaries()
	if msg := fk.SelfCheck(); msg != "" {
		return h.Failf("harness:faultkv-selfcheck", "%s", msg)
	}
	si := 0
	for j := 0; j <= nb; j++ {
		st.crashPoints++
		var allowed []*chanops.Snap
		where := "before the first write"
		if j == 0 {
			allowed = []*chanops.Snap{nil}
		} else {
			for spans[si].last < j {
				si++
			}
			sp := spans[si]
			if j < sp.first {
				panic("harness: boundary outside every operation")
			}
			if j == sp.last && sp.completed {
				allowed = []*chanops.Snap{sp.after}
				where = fmt.Sprintf("after write boundary %d = last boundary of completed operation %d (%s)", j, sp.idx, sp.name)
			} else {
				allowed = []*chanops.Snap{sp.before, sp.after}
				where = fmt.Sprintf("after write boundary %d = boundary %d of %d inside operation %d (%s)", j, j-sp.first+1, sp.last-sp.first+1, sp.idx, sp.name)
				o.Class("crash-inside-operation")
			}
		}
		if f := checkStore(fk.Materialize(j), allowed, id, peers, "crash "+where); f != nil {
			return f
		}
	}
	return nil
}

// checkStore restores from db with a fresh PersistRestorer, by RestoreChannel
// and by RestorePeer for every peer, and requires each view to show one of the
// allowed references (nil = the channel is absent).
// ownAccount finds the pool account of the restored channel's own participant
// (nil for apps that are not state apps or when the address is not in the pool).
func ownAccount(ch *persistence.Channel) wallet.Account {
	if _, ok := ch.Params().App.(channel.StateApp); !ok {
		return nil
	}
	idx := int(ch.Idx())
	if idx >= len(ch.Params().Parts) {
		return nil
	}
	addr := ch.Params().Parts[idx][0]
	for i := 0; i < 16; i++ {
		if gen.Acc(i).Address().Equal(addr) {
			return gen.Acc(i)
		}
	}
	return nil
}

func checkStore(db sortedkv.Database, allowed []*chanops.Snap, id channel.ID, peers []map[wallet.BackendID]wire.Address, where string) *h.Failure {
	pr := keyvalue.NewPersistRestorer(db)
	absentOK := false
	for _, a := range allowed {
		if a == nil {
			absentOK = true
		}
	}
	judge := func(view string, ch *persistence.Channel) *h.Failure {
		if ch == nil {
			if absentOK {
				return nil
			}
			return h.Failf("channel-missing", "%s: %s yields no channel, but the machine existed before and after", where, view)
		}
		if clause, detail := chanops.StagedSigsProblem(ch); clause != "" {
			return h.Failf(clause, "%s: %s: %s", where, view, detail)
		}
		sn, err := chanops.SnapRestored(ch)
		if err != nil {
			return h.Failf("restored-unencodable", "%s: %s: restored channel cannot be encoded: %v", where, view, err)
		}
		var field, detail string
		present := false
		for _, a := range allowed {
			if a == nil {
				continue
			}
			present = true
			if field, detail = a.Diff(sn); field == "" {
				// the machine a client rebuilds from what was restored
				// (channel.RestoreStateMachine) is in that same state too
				if own := ownAccount(ch); own != nil {
					m, err := channel.RestoreStateMachine(map[wallet.BackendID]wallet.Account{0: own}, ch)
					if err != nil {
						return h.Failf("restore-machine-error", "%s: %s: channel.RestoreStateMachine on the restored channel fails: %v", where, view, err)
					}
					msn, err := chanops.SnapOf(m, ch.PeersV, ch.Parent)
					if err != nil {
						return h.Failf("restored-unencodable", "%s: %s: restored machine cannot be encoded: %v", where, view, err)
					}
					if f2, d2 := a.Diff(msn); f2 != "" {
						return h.Failf("restored-machine-mismatch:"+f2, "%s: %s: the machine rebuilt with channel.RestoreStateMachine differs from the restored channel data it was built from: %s", where, view, d2)
					}
				}
				return nil
			}
		}
		if !present {
			return h.Failf("restored-although-absent", "%s: %s yields a channel although none is persisted (before creation completed / after removal)", where, view)
		}
		return h.Failf("mismatch:"+field, "%s: %s differs from every state the machine was in around this point: %s", where, view, detail)
	}

	ch, err := pr.RestoreChannel(bg, id)
	if err != nil {
		if !absentOK {
			return h.Failf("restore-channel-error", "%s: RestoreChannel fails (%v), but the machine existed before and after", where, err)
		}
	} else if f := judge("RestoreChannel", ch); f != nil {
		return f
	}
	for pi, p := range peers {
		view := fmt.Sprintf("RestorePeer(peer %d)", pi)
		it, err := pr.RestorePeer(p)
		if err != nil {
			return h.Failf("restore-peer-error", "%s: %s: %v", where, view, err)
		}
		var chans []*persistence.Channel
		for it.Next(bg) {
			chans = append(chans, it.Channel())
		}
		if err := it.Close(); err != nil {
			return h.Failf("restore-peer-iterator-error", "%s: %s: the iterator ends with an error instead of a channel the machine was in or no channel: %v", where, view, err)
		}
		if len(chans) > 1 {
			return h.Failf("restore-peer-duplicates", "%s: %s yields %d channels, only one exists", where, view, len(chans))
		}
		var one *persistence.Channel
		if len(chans) == 1 {
			one = chans[0]
		}
		if f := judge(view, one); f != nil {
			return f
		}
	}
	return nil
}

const rule = "histories of 1-30 operations on a persistence.StateMachine over keyvalue.NewPersistRestorer(faultkv): " +
	"ChannelCreated (2-3 participants, 5% 11 so that signature keys have two digits; with/without parent; no-app or mock app; own index any) then operations drawn phase-aware from " +
	"Init, Sig, AddSig(valid|other signer|other state|random|cut to 63 bytes), EnableInit/Update/Final, Update(next|final|bad version|bad sum), DiscardUpdate, " +
	"ForceUpdate (only with a current state), SetFunded, SetRegistering, SetRegistered, SetProgressing, SetProgressed, SetWithdrawing, SetWithdrawn (removal), " +
	"direct ChannelRemoved; one in ten operations is drawn from the whole alphabet regardless of phase; about 7% of the histories use the " +
	"order of client.persistVirtualChannel (Init..SetFunded before ChannelCreated). memorydb, LevelDB for a tenth. " +
	"Oracle: live machine snapshot (index, params encoding, phase, current tx, staged state, per-slot staged signatures, peers, parent) before/after every " +
	"operation; at EVERY write boundary (direct write or Batch.Apply) a fresh PersistRestorer over the frozen key space must show, by RestoreChannel and by " +
	"RestorePeer of every peer, the before or the after snapshot (each view on its own), the after snapshot at the last boundary of a completed operation; " +
	"'absent' (RestoreChannel fails, RestorePeer yields nothing without error) before creation completed and after removal; independently every restored " +
	"non-empty staging signature must verify for the restored staged state; additionally the live store is restored after every completed operation. " +
	"evaluations = crash points checked (histories reported separately). non-trivial = a successful Sig/AddSig followed later by a different non-empty " +
	"staged state, or an operation with >= 2 write boundaries (creation, removal); distinct by SHA-256 of the case JSON"

// minimize reduces a failing case by plain case-level edits (see
// chanops.MinimizeList); every candidate must fail with the same signature.
func minimize(c Case, sig string) Case {
	fails := func(x Case) bool {
		o, _ := runCase(x)
		return o.Fail != nil && o.Fail.Sig == sig
	}
	clone := func(x Case) Case {
		var y Case
		if err := json.Unmarshal(h.Canon(x), &y); err != nil {
			panic(err)
		}
		return y
	}
	try := func(mut func(*Case)) {
		x := clone(c)
		mut(&x)
		if fails(x) {
			c = x
		}
	}
	minAlloc := func(n int) *gen.AllocSpec {
		row := make([]gen.Big, n)
		for i := range row {
			row[i] = "5"
		}
		return &gen.AllocSpec{Assets: []uint64{0}, Backends: []int{0}, Bals: [][]gen.Big{row}, Locked: []gen.SubAllocSpec{}}
	}
	setAllocs := func(x *Case, n int) {
		if x.PreInit != nil {
			x.PreInit = minAlloc(n)
		}
		for i := range x.Ops {
			if x.Ops[i].Alloc != nil {
				x.Ops[i].Alloc = minAlloc(n)
			}
			if st := x.Ops[i].St; st != nil && st.Alloc != nil {
				st.Alloc = minAlloc(n)
			}
		}
	}
	try(func(x *Case) { x.LevelDB = false })
	try(func(x *Case) { x.PreInit = nil })
	c.Ops = chanops.MinimizeList(c.Ops, func(ops []chanops.Op) bool {
		x := clone(c)
		x.Ops = ops
		return fails(x)
	})
	try(func(x *Case) { setAllocs(x, x.Chan.N) })
	try(func(x *Case) {
		x.Chan.N, x.Chan.Peers = 2, []int{0, 1}
		x.Chan.Own = x.Chan.Own % 2
		setAllocs(x, 2)
	})
	try(func(x *Case) { x.Chan.Own = 0 })
	try(func(x *Case) { x.Chan.Parent = -1 })
	try(func(x *Case) { x.Chan.App = "none" })
	try(func(x *Case) { x.Chan.Flags = 1 })
	try(func(x *Case) { x.Chan.Nonce = 0 })
	for i := range c.Ops {
		i := i
		if c.Ops[i].St != nil {
			try(func(x *Case) {
				x.Ops[i].St = &chanops.StSpec{Kind: "next", Final: x.Ops[i].St.Final}
				x.Ops[i].Actor = 0
			})
			try(func(x *Case) { x.Ops[i].St.Final = false })
		}
		try(func(x *Case) { x.Ops[i].Actor = 0 })
	}
	c.Ops = chanops.MinimizeList(c.Ops, func(ops []chanops.Op) bool {
		x := clone(c)
		x.Ops = ops
		return fails(x)
	})
	return c
}

func TestCrashPoints(t *testing.T) {
	rec := h.Begin("C10", "")
	rec.SetRule(rule,
		"a Batch.Apply is one atomic step (as in LevelDB); torn batches are not crash points",
		"crash points are materialised as memorydb copies of the key space read back from the wrapped store; LevelDB's own iterators are exercised on the live store after every completed operation",
		"states handed to the machine are well-formed for the channel (its id, app, one balance column per participant, encodable allocation)",
		"ForceUpdate only with a current state; SetProgressed only in Registered/Progressing/Progressed; no operation after the channel was removed; AddSig indices below the participant count",
		"an error of RestoreChannel counts as 'absent' where absent is an admissible reference (the API has no distinguished not-found error)",
		"participant keys come from a per-process pool (sim key generation is not reproducible); cases are key-independent")
	defer rec.Flush()
	rapid.Check(t, func(rt *rapid.T) {
		c := drawCase(rt)
		o, st := runCase(c)
		if !rec.Failed() {
			rec.AddExtra("evaluations", st.crashPoints)
			rec.AddExtra("crash_points_checked", st.crashPoints)
			rec.AddExtra("histories", 1)
			if o.Fail != nil && !rec.IsKnown(o.Fail.Sig) {
				// first failure of this process: minimise at the case level
				c = minimize(c, o.Fail.Sig)
				o, _ = runCase(c)
			}
		}
		rec.Report(rt, c, o)
	})
}

func TestReplay(t *testing.T) {
	p := h.ReplayPath()
	if p == "" {
		t.Skip("no replay requested")
	}
	var c Case
	if err := h.LoadReplay(p, &c); err != nil {
		t.Fatal(err)
	}
	rec := h.Begin("C10", "replay")
	o, _ := runCase(c)
	rec.Report(t, c, o)
}
