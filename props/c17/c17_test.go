// Package c17: a channel ID commits to the channel parameters (DESIGN.md §3
// C17).  Two parts: "id" (ID stable across reconstruction / clone / round
// trips, different across every single-field variant, carried by every state a
// machine creates) and "constraints" (NewParams and Params.Decode refuse
// exactly the constraint-violating tuples).
package c17

import (
	"bytes"
	"fmt"
	"math/big"
	"os"
	"sort"
	"testing"

	"google.golang.org/protobuf/proto"
	"pgregory.net/rapid"

	"perun.network/go-perun/channel"
	"perun.network/go-perun/wallet"
	"perun.network/go-perun/wire/protobuf"

	"verif/gen"
	"verif/h"
)

func TestMain(m *testing.M) {
	gen.Setup()
	if multiBackendProcess() {
		registerSecondBackend()
	}
	code := m.Run()
	h.FlushAll()
	os.Exit(code)
}

// ================================================================ part "id"

// PMut is a single-field change of a parameter set.
type PMut struct {
	Kind string       `json:"kind"`
	I    int          `json:"i,omitempty"`
	J    int          `json:"j,omitempty"`
	V    int          `json:"v,omitempty"`
	Part *PartSpec    `json:"part,omitempty"`
	App  *gen.AppSpec `json:"app,omitempty"`
}

// listed reports whether the property names the changed field (aux and the
// participant count are not named: such variants are classified, not asserted).
func (m PMut) listed() bool {
	switch m.Kind {
	case "aux", "addpart", "delpart":
		return false
	}
	return true
}

// apply returns the variant and whether the change is applicable, i.e. stays
// within the documented limits and really changes the field.
func (m PMut) apply(base ParamsSpec) (ParamsSpec, bool) {
	p := base.clone()
	n := len(p.Parts)
	switch m.Kind {
	case "dur+1":
		if p.Dur == ^uint64(0) {
			return p, false
		}
		p.Dur++
	case "dur-1":
		if p.Dur <= 1 {
			return p, false
		}
		p.Dur--
	case "replace":
		if m.Part == nil || m.I >= n || bytes.Equal(m.Part.Bytes(), p.Parts[m.I].Bytes()) {
			return p, false
		}
		p.Parts[m.I] = *m.Part
	case "addr-bit":
		// one bit of one participant address (either coordinate)
		if m.I >= n {
			return p, false
		}
		b := append([]byte(nil), p.Parts[m.I].Bytes()...)
		b[(m.V/8)%64] ^= 1 << (m.V % 8)
		p.Parts[m.I] = PartSpec{Raw: gen.HexOf(b)}
	case "addr-xy":
		// the two coordinates of one participant address exchanged
		if m.I >= n {
			return p, false
		}
		b := p.Parts[m.I].Bytes()
		if bytes.Equal(b[:32], b[32:]) {
			return p, false
		}
		p.Parts[m.I] = PartSpec{Raw: gen.HexOf(append(append([]byte(nil), b[32:]...), b[:32]...))}
	case "swap":
		if m.I >= n || m.J >= n || bytes.Equal(p.Parts[m.I].Bytes(), p.Parts[m.J].Bytes()) {
			return p, false
		}
		p.Parts[m.I], p.Parts[m.J] = p.Parts[m.J], p.Parts[m.I]
	case "app-added":
		if p.appDef() != nil || m.App == nil || m.App.Kind == "none" || m.App.Kind == "" {
			return p, false
		}
		p.App = *m.App
	case "app-removed":
		if p.appDef() == nil {
			return p, false
		}
		p.App = gen.AppSpec{Kind: "none"}
	case "app-def":
		if p.appDef() == nil || m.V&0xff == 0 {
			return p, false
		}
		d := p.App.Def.Bytes()
		d[1+m.I%63] ^= byte(m.V)
		p.App.Def = gen.HexOf(d)
	case "app-kind":
		// payment <-> mock: the resolver keys on the first definition byte
		if p.appDef() == nil {
			return p, false
		}
		d := p.App.Def.Bytes()
		if p.App.Kind == "payment" {
			d[0] = 0x51
			p.App = gen.AppSpec{Kind: "mock", Def: gen.HexOf(d)}
		} else {
			d[0] = gen.PaymentDefByte
			p.App = gen.AppSpec{Kind: "payment", Def: gen.HexOf(d)}
		}
	case "nonce+1":
		v := p.Nonce.Int()
		if v.Cmp(maxNonce) >= 0 {
			return p, false
		}
		p.Nonce = gen.BigOf(v.Add(v, big.NewInt(1)))
	case "nonce-1":
		v := p.Nonce.Int()
		if v.Sign() <= 0 {
			return p, false
		}
		p.Nonce = gen.BigOf(v.Sub(v, big.NewInt(1)))
	case "nonce<<8":
		// the same digits shifted by whole bytes (n and n*256 differ only in length / trailing zero bytes)
		v := p.Nonce.Int()
		if v.Sign() == 0 || len(v.Bytes()) >= 32 {
			return p, false
		}
		p.Nonce = gen.BigOf(v.Lsh(v, 8))
	case "nonce>>8":
		v := p.Nonce.Int()
		if v.BitLen() <= 8 {
			return p, false
		}
		p.Nonce = gen.BigOf(v.Rsh(v, 8))
	case "nonce-bit":
		v := p.Nonce.Int()
		v.SetBit(v, m.I%256, v.Bit(m.I%256)^1)
		p.Nonce = gen.BigOf(v)
	case "nonce-swap-ends":
		// the byte string reversed (same multiset of bytes)
		b := p.Nonce.Int().Bytes()
		if len(b) < 2 {
			return p, false
		}
		r := make([]byte, len(b))
		for i := range b {
			r[i] = b[len(b)-1-i]
		}
		v := new(big.Int).SetBytes(r)
		if v.Cmp(p.Nonce.Int()) == 0 {
			return p, false
		}
		p.Nonce = gen.BigOf(v)
	case "ledger":
		p.Ledger = !p.Ledger
	case "virtual":
		p.Virtual = !p.Virtual
	case "aux":
		if m.V&0xff == 0 {
			return p, false
		}
		a := p.aux()
		a[m.I%len(a)] ^= byte(m.V)
		p.Aux = gen.HexOf(a[:])
	case "addpart":
		if m.Part == nil || n >= 9 {
			return p, false
		}
		p.Parts = append(p.Parts, *m.Part)
	case "delpart":
		if n <= 2 {
			return p, false
		}
		p.Parts = p.Parts[:n-1]
	default:
		panic("c17: unknown mutation " + m.Kind)
	}
	return p, true
}

// IDCase is a parameter set and all its single-field variants.
type IDCase struct {
	Base  ParamsSpec    `json:"base"`
	Muts  []PMut        `json:"muts"`
	Alloc gen.AllocSpec `json:"alloc"` // initial allocation for the machine
}

func drawIDCase(t *rapid.T) IDCase {
	var c IDCase
	c.Base = genParams(2, 8).Draw(t, "base")
	n := len(c.Base.Parts)
	add := func(m PMut) {
		if _, ok := m.apply(c.Base); ok {
			c.Muts = append(c.Muts, m)
		}
	}
	add(PMut{Kind: "dur+1"})
	add(PMut{Kind: "dur-1"})
	for i := 0; i < n; i++ {
		np := genPart().Draw(t, "newpart")
		add(PMut{Kind: "replace", I: i, Part: &np})
	}
	add(PMut{Kind: "addr-bit", I: rapid.IntRange(0, n-1).Draw(t, "bitpart"), V: rapid.IntRange(0, 511).Draw(t, "bit")})
	add(PMut{Kind: "addr-xy", I: rapid.IntRange(0, n-1).Draw(t, "xypart")})
	for i := 0; i < n; i++ {
		for j := i + 1; j < n; j++ {
			add(PMut{Kind: "swap", I: i, J: j})
		}
	}
	if c.Base.appDef() == nil {
		a := gen.GenApp().Filter(func(a gen.AppSpec) bool { return a.Kind != "none" }).Draw(t, "newapp")
		add(PMut{Kind: "app-added", App: &a})
	} else {
		add(PMut{Kind: "app-removed"})
		add(PMut{Kind: "app-def", I: rapid.IntRange(0, 62).Draw(t, "defpos"), V: rapid.IntRange(1, 255).Draw(t, "defxor")})
		add(PMut{Kind: "app-kind"})
	}
	add(PMut{Kind: "nonce+1"})
	add(PMut{Kind: "nonce-1"})
	add(PMut{Kind: "nonce<<8"})
	add(PMut{Kind: "nonce>>8"})
	add(PMut{Kind: "nonce-bit", I: rapid.IntRange(0, 255).Draw(t, "noncebit")})
	add(PMut{Kind: "nonce-swap-ends"})
	add(PMut{Kind: "ledger"})
	add(PMut{Kind: "virtual"})
	add(PMut{Kind: "aux", I: rapid.IntRange(0, 255).Draw(t, "auxpos"), V: rapid.IntRange(1, 255).Draw(t, "auxxor")})
	ap := genPart().Draw(t, "addpart")
	add(PMut{Kind: "addpart", Part: &ap})
	add(PMut{Kind: "delpart"})
	c.Alloc = gen.GenAlloc(gen.AllocOpts{Parts: n, MinAssets: 1, MaxAssets: 3, MaxLocked: 2}).Draw(t, "alloc")
	return c
}

func decodeParams(b []byte) (*channel.Params, error) {
	var p channel.Params
	r := bytes.NewReader(b)
	if err := p.Decode(r); err != nil {
		return nil, err
	}
	if r.Len() != 0 {
		return nil, fmt.Errorf("%d bytes left unread", r.Len())
	}
	return &p, nil
}

func protoRoundTrip(p *channel.Params) (*channel.Params, error) {
	pp, err := protobuf.FromParams(p)
	if err != nil {
		return nil, err
	}
	b, err := proto.Marshal(pp)
	if err != nil {
		return nil, err
	}
	var back protobuf.Params
	if err := proto.Unmarshal(b, &back); err != nil {
		return nil, err
	}
	return protobuf.ToParams(&back)
}

// stableID checks every "equal parameters have equal IDs" clause for one
// parameter set and returns its ID.
func stableID(kind string, spec ParamsSpec, reused *channel.Params) (channel.ID, *h.Failure) {
	p, err := spec.New()
	if err != nil {
		return channel.ID{}, h.Failf("valid-refused:"+kind, "NewParams refused parameters within the documented limits: %v", err)
	}
	id := p.ID()
	if id == channel.Zero {
		return id, h.Failf("id-zero", "NewParams produced the zero ID")
	}
	p2, err := spec.New()
	if err != nil {
		return id, h.Failf("valid-refused:"+kind, "second construction refused: %v", err)
	}
	if p2.ID() != id {
		return id, h.Failf("id-unstable:same-args", "same arguments constructed twice: %x vs %x", id, p2.ID())
	}
	if c := p.Clone(); c.ID() != id {
		return id, h.Failf("id-unstable:clone", "Clone().ID() = %x, original %x", c.ID(), id)
	}
	if cid, err := channel.CalcID(p); err != nil || cid != id {
		return id, h.Failf("id-unstable:calcid", "CalcID(p) = %x (err %v), p.ID() = %x", cid, err, id)
	}
	var eb bytes.Buffer
	if err := p.Encode(&eb); err != nil {
		return id, h.Failf("encode-valid-failed", "Params.Encode failed on valid parameters: %v", err)
	}
	d, err := decodeParams(eb.Bytes())
	if err != nil {
		return id, h.Failf("decode-valid-failed:native", "decode(encode(p)) failed: %v", err)
	}
	if d.ID() != id {
		return id, h.Failf("id-unstable:native-roundtrip", "decode(encode(p)).ID() = %x, original %x", d.ID(), id)
	}
	if c := d.Clone(); c.ID() != id {
		return id, h.Failf("id-unstable:clone-of-decoded", "decode(encode(p)).Clone().ID() = %x, original %x", c.ID(), id)
	}
	// decoding into a receiver that already holds other parameters
	if err := reused.Decode(bytes.NewReader(eb.Bytes())); err != nil {
		return id, h.Failf("decode-valid-failed:reused-receiver", "decoding into a used Params value failed: %v", err)
	}
	if reused.ID() != id {
		return id, h.Failf("id-unstable:decode-into-used-receiver", "decoding into a Params value that held other parameters yields ID %x, expected %x", reused.ID(), id)
	}
	// encoding produced independently of Params.Encode (also the accepting twin
	// of the refusal checks in the constraints part)
	d2, err := decodeParams(spec.RefEncoding())
	if err != nil {
		return id, h.Failf("decode-valid-failed:reference", "Params.Decode refused the reference encoding of valid parameters: %v", err)
	}
	if d2.ID() != id {
		return id, h.Failf("id-unstable:ref-roundtrip", "decode(reference encoding).ID() = %x, original %x", d2.ID(), id)
	}
	pb, err := protoRoundTrip(p)
	if err != nil {
		return id, h.Failf("proto-valid-failed", "protobuf round trip of valid parameters failed: %v", err)
	}
	if pb.ID() != id {
		return id, h.Failf("id-unstable:proto-roundtrip", "protobuf round trip ID = %x, original %x", pb.ID(), id)
	}
	return id, nil
}

func runIDCase(c IDCase) *h.Outcome {
	o := &h.Outcome{}
	type entry struct {
		kind   string
		listed bool
		spec   ParamsSpec
		tuple  []byte
		id     channel.ID
	}
	es := []entry{{kind: "base", listed: true, spec: c.Base}}
	for _, m := range c.Muts {
		v, ok := m.apply(c.Base)
		if !ok {
			o.Class("variant-inapplicable")
			continue
		}
		es = append(es, entry{kind: m.Kind, listed: m.listed(), spec: v})
		o.Class("variant:" + m.Kind)
	}
	o.Class(fmt.Sprintf("parts:%d", len(c.Base.Parts)))
	o.Class("app:" + c.Base.App.Kind)
	o.Fail = h.Guard(func() *h.Failure {
		reused := new(channel.Params)
		for i := range es {
			id, f := stableID(es[i].kind, es[i].spec, reused)
			if f != nil {
				return f
			}
			es[i].id = id
			es[i].tuple = es[i].spec.Tuple()
		}
		pairs := 0
		for i := range es {
			for j := i + 1; j < len(es); j++ {
				a, b := es[i], es[j]
				sameT := bytes.Equal(a.tuple, b.tuple)
				sameID := a.id == b.id
				if !a.listed || !b.listed {
					if i == 0 {
						if sameID {
							o.Class("unlisted:" + b.kind + ":id-same")
						} else {
							o.Class("unlisted:" + b.kind + ":id-differs")
						}
					}
					continue
				}
				pairs++
				if sameT != sameID {
					if sameT {
						return h.Failf("id-not-deterministic", "%s and %s agree in every listed field but have IDs %x / %x", a.kind, b.kind, a.id, b.id)
					}
					if i == 0 {
						return h.Failf("id-unchanged:"+b.kind, "variant %q of the base has the same ID %x", b.kind, a.id)
					}
					ks := []string{a.kind, b.kind}
					sort.Strings(ks)
					return h.Failf("id-collision:"+ks[0]+"|"+ks[1], "variants %q and %q differ in a listed field but share ID %x", a.kind, b.kind, a.id)
				}
				if sameT {
					o.Class("coinciding-variants")
				}
			}
		}
		o.Nontrivial = pairs > 0
		switch {
		case pairs < 50:
			o.Class("pairs:<50")
		case pairs < 200:
			o.Class("pairs:50-199")
		case pairs < 500:
			o.Class("pairs:200-499")
		default:
			o.Class("pairs:>=500")
		}
		return machineIDs(c, es[0].id, o)
	})
	return o
}

// machineIDs: every state created by a state machine over the parameters
// carries the parameters' ID.
func machineIDs(c IDCase, id channel.ID, o *h.Outcome) *h.Failure {
	own := -1
	allPool := true
	for i, ps := range c.Base.Parts {
		if ps.Raw == "" {
			if own < 0 {
				own = i
			}
		} else {
			allPool = false
		}
	}
	if own < 0 {
		o.Class("machine:skipped-no-pool-key")
		return nil
	}
	p, err := c.Base.New()
	if err != nil {
		return h.Failf("valid-refused:base", "NewParams refused: %v", err)
	}
	acc := map[wallet.BackendID]wallet.Account{0: gen.Acc(c.Base.Parts[own].Key)}
	m, err := channel.NewStateMachine(acc, *p)
	if err != nil {
		return h.Failf("machine-new", "NewStateMachine failed for a participant of the channel: %v", err)
	}
	if m.ID() != id || m.Params().ID() != id {
		return h.Failf("machine-id", "machine.ID() = %x, machine.Params().ID() = %x, parameters' ID %x", m.ID(), m.Params().ID(), id)
	}
	if err := m.Init(c.Alloc.Build(), c.Base.App.DataFor(0)); err != nil {
		return h.Failf("machine-init", "Init with a valid allocation failed: %v", err)
	}
	o.Class("machine:init")
	if s := m.StagingState(); s == nil || s.ID != id {
		return h.Failf("machine-state-id:init-staged", "state created by Init carries ID %x, parameters' ID %x", s.ID, id)
	}
	if tx := m.StagingTX(); tx.State == nil || tx.ID != id {
		return h.Failf("machine-state-id:init-staged-tx", "staged transaction carries another ID, parameters' ID %x", id)
	}
	if cl := m.Clone(); cl.ID() != id || cl.StagingState().ID != id {
		return h.Failf("machine-state-id:clone", "cloned machine: ID %x, staged state ID %x, parameters' ID %x", cl.ID(), cl.StagingState().ID, id)
	}
	if f := actionMachineID(c, acc, o); f != nil {
		return f
	}
	if !allPool {
		return nil
	}
	for i, ps := range c.Base.Parts {
		if m.StagingTX().Sigs[i] != nil {
			continue // duplicate participant already signed
		}
		sig, err := channel.Sign(gen.Acc(ps.Key), m.StagingState(), 0)
		if err != nil {
			return h.Failf("machine-sign", "Sign failed: %v", err)
		}
		if err := m.AddSig(channel.Index(i), sig); err != nil {
			return h.Failf("machine-addsig", "AddSig(%d) refused a valid signature: %v", i, err)
		}
	}
	if err := m.EnableInit(); err != nil {
		return h.Failf("machine-enable", "EnableInit failed with all signatures: %v", err)
	}
	o.Class("machine:enabled")
	if s := m.State(); s == nil || s.ID != id {
		return h.Failf("machine-state-id:current", "current state carries another ID than the parameters (%x)", id)
	}
	// a successor that carries ANOTHER channel's ID is refused, and afterwards the
	// machine still holds nothing with a foreign ID and signs nothing
	if m.SetFunded() == nil {
		foreign := m.State().Clone()
		foreign.Version++
		foreign.ID[7] ^= 0x40
		if err := m.Update(foreign, m.Idx()); err == nil {
			return h.Failf("machine-state-id:foreign-accepted", "Update accepted a state that carries ID %x on a machine with ID %x", foreign.ID, id)
		}
		o.Class("machine:foreign-id-refused")
		if st := m.StagingState(); st != nil && st.ID != id {
			sig, serr := m.Sig()
			return h.Failf("machine-state-id:foreign-staged", "after the refused Update the machine holds a staged state with the foreign ID %x (parameters' ID %x; Sig() then returns a signature: %v)", st.ID, id, serr == nil && sig != nil)
		}
		if s := m.State(); s == nil || s.ID != id {
			return h.Failf("machine-state-id:current", "current state carries another ID than the parameters (%x)", id)
		}
		// the unchecked forced update (the escape hatch for virtual channels) can
		// bring a foreign state in; the regular path must go on judging successors
		// by the PARAMETERS' id, not by whatever the current state carries
		if err := m.ForceUpdate(foreign, m.Idx()); err == nil {
			all := true
			for i, ps := range c.Base.Parts {
				if m.StagingTX().Sigs[i] != nil {
					continue
				}
				sig, err := channel.Sign(gen.Acc(ps.Key), m.StagingState(), 0)
				if err != nil || m.AddSig(channel.Index(i), sig) != nil {
					all = false
				}
			}
			if all && m.EnableUpdate() == nil {
				o.Class("machine:foreign-state-forced-in")
				next := m.State().Clone()
				next.Version++
				if err := m.Update(next, m.Idx()); err == nil {
					return h.Failf("machine-state-id:foreign-successor-accepted", "after a forced state with the foreign ID %x, Update accepts (stages for signing) a successor that carries that ID; the parameters' ID is %x", next.ID, id)
				}
			}
		}
	}
	return nil
}

// actApp is an ActionApp whose InitState yields a valid allocation (the
// repository's MockApp returns an empty one, which no machine accepts).
type actApp struct {
	*channel.MockApp
	init gen.AllocSpec
}

func (a *actApp) InitState(*channel.Params, []channel.Action) (channel.Allocation, channel.Data, error) {
	return a.init.Build(), channel.NewMockOp(channel.OpValid), nil
}

// actionMachineID: the state an ActionMachine creates in Init carries the ID
// of the machine's parameters (mock-app bases only).
func actionMachineID(c IDCase, acc map[wallet.BackendID]wallet.Account, o *h.Outcome) *h.Failure {
	if c.Base.App.Kind != "mock" {
		return nil
	}
	app := &actApp{MockApp: channel.NewMockApp(c.Base.App.Build().Def()), init: c.Alloc}
	p, err := channel.NewParams(c.Base.Dur, c.Base.parts(), app, c.Base.Nonce.Int(), c.Base.Ledger, c.Base.Virtual, c.Base.aux())
	if err != nil {
		return h.Failf("valid-refused:action-app", "NewParams refused an action app: %v", err)
	}
	am, err := channel.NewActionMachine(acc, *p)
	if err != nil {
		return h.Failf("machine-new", "NewActionMachine failed for a participant of the channel: %v", err)
	}
	if err := am.Init(); err != nil {
		return h.Failf("machine-init", "ActionMachine.Init with a valid initial allocation failed: %v", err)
	}
	o.Class("machine:action-init")
	if s := am.StagingState(); s == nil || s.ID != p.ID() || am.ID() != p.ID() {
		return h.Failf("machine-state-id:action-init", "state created by ActionMachine.Init carries another ID than the parameters (%x)", p.ID())
	}
	return nil
}

const ruleID = "a parameter set within the documented limits (2-8 participants: pool keys or arbitrary 64-byte sim addresses incl. short coordinates and duplicates; app none/payment/mock; nonce 0..2^256-1 biased to the bounds; duration 1..2^64-1; flags; aux) and ALL its applicable single-field variants: duration +-1, every participant replaced, one address bit flipped, the coordinates of one address exchanged, every pair of different participants swapped, app added / removed / definition byte changed / kind changed, nonce +-1, nonce shifted by one byte either way, one nonce bit flipped, nonce bytes reversed, ledger flag, virtual flag (aux and participant count variants are only classified). Oracle: for the base and every variant the ID is non-zero and equal for the same arguments constructed twice, Clone(), CalcID, decode(encode()), decode(independent reference encoding), decoding into a Params value that held other parameters, clone of the decoded value and the protobuf round trip (FromParams, Marshal, Unmarshal, ToParams); over all pairs of {base, variants}: IDs differ iff the canonical tuples of the listed fields differ; a StateMachine over the base (own account = first pool-key participant) reports the ID, the state created by Init (generated valid allocation, also with locked funds) and its clone carry it, and after all signatures and EnableInit the current state carries it; for mock-app bases also the state created by ActionMachine.Init (harness action app with a valid initial allocation). non-trivial = at least one pair of different parameter sets compared; distinct by SHA-256 of the canonical case JSON"

func TestID(t *testing.T) {
	rec := h.Begin("C17", "id")
	rec.SetRule(ruleID,
		"only backend id 0 (sim) is registered in this tree: every participant map has exactly the key 0; empty participant maps are not generated in this part (F5, property C13; classified in part constraints)",
		"the nonce is non-negative; an app is identified by its definition (payment definitions start with byte 0x50, as the harness resolver requires)",
		"aux is not named by the property and not hashed by the sim backend: aux variants are classified (unlisted:aux:id-same), not asserted",
		"participant keys come from a per-process pool; cases are key-independent",
		"hash collisions are outside any generator")
	defer rec.Flush()
	rapid.Check(t, func(rt *rapid.T) {
		c := drawIDCase(rt)
		rec.Report(rt, c, runIDCase(c))
	})
}

// ================================================================ part "constraints"

// ConsCase is a valid base and a list of violated rules (empty: a valid twin,
// possibly on a boundary).
type ConsCase struct {
	Base      ParamsSpec `json:"base"`
	Rules     []string   `json:"rules"`
	NParts    int        `json:"nparts,omitempty"`     // participant count for parts-few / parts-many / twin
	LongNonce gen.Big    `json:"long_nonce,omitempty"` // > 32 bytes
	KeyAt     int        `json:"key_at,omitempty"`     // participant stored under the wrong key
	WrongKey  int        `json:"wrong_key,omitempty"`
	KeepRight bool       `json:"keep_right,omitempty"` // wrong-key: keep a correct entry under key 0 too
	Twin      string     `json:"twin,omitempty"`       // boundary of the valid twin
}

var allRules = []string{"dur-zero", "parts-few", "parts-many", "app-nil", "app-untyped", "nonce-nil", "nonce-long", "wrong-key"}

// untypedApp implements channel.App but neither StateApp nor ActionApp.
type untypedApp struct{ channel.App }

func drawConsCase(t *rapid.T) ConsCase {
	var c ConsCase
	c.Base = genParams(2, 5).Draw(t, "base")
	switch k := rapid.IntRange(0, 9).Draw(t, "mode"); {
	case k <= 1: // valid twin
		c.Twin = rapid.SampledFrom([]string{"", "parts-min", "parts-max", "nonce-max", "dur-one", "parts-near-max"}).Draw(t, "twin")
	case k == 2: // two rules at once
		c.Rules = rapid.SliceOfNDistinct(rapid.SampledFrom(allRules), 2, 2, rapid.ID[string]).Draw(t, "rules")
	case k == 3 && rapid.Bool().Draw(t, "unspecified"):
		// not a documented rule: classified only
		c.Rules = []string{"part-empty"}
		c.KeyAt = rapid.IntRange(0, 7).Draw(t, "keyat")
	default:
		c.Rules = []string{rapid.SampledFrom(allRules).Draw(t, "rule")}
	}
	has := func(r string) bool {
		for _, x := range c.Rules {
			if x == r {
				return true
			}
		}
		return false
	}
	if has("parts-few") && has("parts-many") {
		c.Rules = []string{"parts-few"}
	}
	switch {
	case has("parts-few"):
		c.NParts = rapid.IntRange(0, 1).Draw(t, "nparts")
	case has("parts-many"):
		if rapid.Bool().Draw(t, "justabove") {
			c.NParts = channel.MaxNumParts + 1
		} else {
			c.NParts = rapid.IntRange(channel.MaxNumParts+1, channel.MaxNumParts+40).Draw(t, "nparts")
		}
	}
	switch c.Twin {
	case "parts-min":
		c.NParts = 2
	case "parts-max":
		c.NParts = channel.MaxNumParts
	case "parts-near-max":
		c.NParts = rapid.IntRange(channel.MaxNumParts-3, channel.MaxNumParts).Draw(t, "nparts")
	case "nonce-max":
		c.Base.Nonce = gen.BigOf(maxNonce)
	case "dur-one":
		c.Base.Dur = 1
	}
	if has("nonce-long") {
		if rapid.Bool().Draw(t, "justabove") {
			c.LongNonce = gen.BigOf(new(big.Int).Add(maxNonce, big.NewInt(1)))
		} else {
			n := rapid.IntRange(33, 64).Draw(t, "len")
			b := rapid.SliceOfN(rapid.Byte(), n, n).Draw(t, "nb")
			if b[0] == 0 {
				b[0] = 1
			}
			c.LongNonce = gen.BigOf(new(big.Int).SetBytes(b))
		}
	}
	if has("wrong-key") {
		c.KeyAt = rapid.IntRange(0, 7).Draw(t, "keyat")
		c.WrongKey = rapid.SampledFrom([]int{1, 2, 7, -1, 1 << 20}).Draw(t, "wrongkey")
		c.KeepRight = rapid.Bool().Draw(t, "keepright")
	}
	return c
}

// fillPart derives a deterministic raw participant for padding long lists.
func fillPart(i int) PartSpec {
	b := make([]byte, 64)
	b[0], b[32] = 1, 2
	b[28], b[29], b[30], b[31] = byte(i>>24), byte(i>>16), byte(i>>8), byte(i)
	b[63] = byte(i)
	return PartSpec{Raw: gen.HexOf(b)}
}

type tuple struct {
	dur     uint64
	specs   []PartSpec
	ref     [][]refEntry // participant maps as the reference encoder writes them
	parts   []map[wallet.BackendID]wallet.Address
	app     channel.App
	appDef  []byte
	nonce   *big.Int
	ledger  bool
	virtual bool
	aux     channel.Aux
}

func (c ConsCase) has(r string) bool {
	for _, x := range c.Rules {
		if x == r {
			return true
		}
	}
	return false
}

func (c ConsCase) build() tuple {
	b := c.Base
	tu := tuple{dur: b.Dur, app: b.App.Build(), appDef: b.appDef(), nonce: b.Nonce.Int(), ledger: b.Ledger, virtual: b.Virtual, aux: b.aux()}
	tu.specs = append([]PartSpec(nil), b.Parts...)
	if c.has("parts-few") || c.has("parts-many") || c.Twin == "parts-min" || c.Twin == "parts-max" || c.Twin == "parts-near-max" {
		for len(tu.specs) < c.NParts {
			tu.specs = append(tu.specs, fillPart(len(tu.specs)))
		}
		tu.specs = tu.specs[:c.NParts]
	}
	tu.parts = make([]map[wallet.BackendID]wallet.Address, len(tu.specs))
	tu.ref = make([][]refEntry, len(tu.specs))
	for i, ps := range tu.specs {
		tu.parts[i] = map[wallet.BackendID]wallet.Address{0: ps.Addr()}
		tu.ref[i] = []refEntry{{0, ps.Bytes()}}
	}
	if c.has("dur-zero") {
		tu.dur = 0
	}
	if c.has("app-nil") {
		tu.app = nil
	}
	if c.has("app-untyped") {
		tu.app = untypedApp{gen.AppSpec{Kind: "mock", Def: gen.HexOf(append([]byte{0x51}, make([]byte, 63)...))}.Build()}
	}
	if c.has("nonce-nil") {
		tu.nonce = nil
	}
	if c.has("nonce-long") {
		tu.nonce = c.LongNonce.Int()
	}
	if c.has("wrong-key") && len(tu.parts) > 0 {
		i := c.KeyAt % len(tu.parts)
		a := tu.parts[i][0]
		m := map[wallet.BackendID]wallet.Address{wallet.BackendID(c.WrongKey): a}
		tu.ref[i] = []refEntry{{int32(c.WrongKey), tu.specs[i].Bytes()}}
		if c.KeepRight {
			m[0] = tu.specs[i].Addr()
			tu.ref[i] = append([]refEntry{{0, tu.specs[i].Bytes()}}, tu.ref[i]...)
			if c.WrongKey < 0 {
				tu.ref[i][0], tu.ref[i][1] = tu.ref[i][1], tu.ref[i][0] // ascending keys
			}
		}
		tu.parts[i] = m
	}
	if c.has("part-empty") && len(tu.parts) > 0 {
		i := c.KeyAt % len(tu.parts)
		tu.parts[i] = map[wallet.BackendID]wallet.Address{}
		tu.ref[i] = nil
	}
	return tu
}

// encodable: the violated rules can be expressed in the native encoding (an
// absent app decodes to the no-app and a zero length nonce to 0, so nil app,
// nil nonce and untyped app have no encoding; a participant under a wrong
// backend key is an entry whose key names a backend that is not the
// address' own - with one registered backend, an unknown one).
func (c ConsCase) encodable() bool {
	for _, r := range c.Rules {
		switch r {
		case "dur-zero", "parts-few", "parts-many", "nonce-long", "wrong-key":
		default:
			return false
		}
	}
	return true
}

// classifyEmptyMap: a participant map without any address.  The documented
// rules do not mention it (NewParams used to accept it and decoding such
// parameters panicked: F5, property C13), so the behaviour is only recorded.
func classifyEmptyMap(c ConsCase, o *h.Outcome) {
	tu := c.build()
	func() {
		defer func() {
			if recover() != nil {
				o.Class("unspecified:part-empty:NewParams-panics")
			}
		}()
		if _, err := channel.NewParams(tu.dur, tu.parts, tu.app, tu.nonce, tu.ledger, tu.virtual, tu.aux); err != nil {
			o.Class("unspecified:part-empty:NewParams-refuses")
		} else {
			o.Class("unspecified:part-empty:NewParams-accepts")
		}
	}()
	func() {
		defer func() {
			if recover() != nil {
				o.Class("unspecified:part-empty:Decode-panics")
			}
		}()
		if _, err := decodeParams(refEncodeMaps(tu.dur, tu.ref, tu.appDef, tu.nonce, tu.ledger, tu.virtual, &tu.aux)); err != nil {
			o.Class("unspecified:part-empty:Decode-refuses")
		} else {
			o.Class("unspecified:part-empty:Decode-accepts")
		}
	}()
}

func runConsCase(c ConsCase) *h.Outcome {
	o := &h.Outcome{}
	if c.has("part-empty") {
		classifyEmptyMap(c, o)
		return o
	}
	valid := len(c.Rules) == 0
	if valid {
		o.Class("valid-twin:" + c.Twin)
	} else {
		for _, r := range c.Rules {
			o.Class("violates:" + r)
		}
		o.Class(fmt.Sprintf("rules-violated:%d", len(c.Rules)))
	}
	o.Nontrivial = len(c.Rules) == 1
	sigOf := func() string {
		if valid {
			return "twin:" + c.Twin
		}
		rs := append([]string(nil), c.Rules...)
		sort.Strings(rs)
		s := rs[0]
		for _, r := range rs[1:] {
			s += "+" + r
		}
		return s
	}
	o.Fail = h.Guard(func() *h.Failure {
		tu := c.build()
		p, err := channel.NewParams(tu.dur, tu.parts, tu.app, tu.nonce, tu.ledger, tu.virtual, tu.aux)
		if valid && err != nil {
			return h.Failf("valid-refused:"+sigOf(), "NewParams refused a tuple within the limits (%d participants): %v", len(tu.parts), err)
		}
		if !valid && err == nil {
			return h.Failf("violating-accepted:"+sigOf(), "NewParams accepted a tuple violating %v (%d participants, id %x)", c.Rules, len(tu.parts), p.ID())
		}
		if !valid && p != nil {
			return h.Failf("violating-returned-params:"+sigOf(), "NewParams returned an error and non-nil parameters")
		}
		if !c.encodable() {
			o.Class("decode:not-expressible")
			return nil
		}
		enc := refEncodeMaps(tu.dur, tu.ref, tu.appDef, tu.nonce, tu.ledger, tu.virtual, &tu.aux)
		d, derr := decodeParams(enc)
		if valid {
			if derr != nil {
				return h.Failf("decode-valid-failed:"+sigOf(), "Params.Decode refused the reference encoding of a valid tuple: %v", derr)
			}
			if d.ID() != p.ID() {
				return h.Failf("id-unstable:ref-roundtrip", "decoded ID %x, constructed ID %x", d.ID(), p.ID())
			}
			var eb bytes.Buffer
			if err := p.Encode(&eb); err != nil || !bytes.Equal(eb.Bytes(), enc) {
				o.Class("reference-encoding-differs-from-Encode")
			} else {
				o.Class("reference-encoding-equals-Encode")
			}
			o.Class("decode:accepted-valid")
		} else {
			if derr == nil {
				return h.Failf("decode-violating-accepted:"+sigOf(), "Params.Decode accepted an encoding violating %v (%d participants, id %x)", c.Rules, len(tu.parts), d.ID())
			}
			o.Class("decode:refused-violating")
		}
		// protobuf conversion of the same tuple: F17 (ToParams does not
		// validate) belongs to C13; classified only
		protoClassify(tu, valid, o)
		return nil
	})
	return o
}

func protoClassify(tu tuple, valid bool, o *h.Outcome) {
	defer func() {
		if r := recover(); r != nil {
			o.Class("unspecified:proto-ToParams-panics")
		}
	}()
	pp := &protobuf.Params{ChallengeDuration: tu.dur, Nonce: tu.nonce.Bytes(), LedgerChannel: tu.ledger, VirtualChannel: tu.virtual, Aux: tu.aux[:], App: tu.appDef}
	for _, m := range tu.ref {
		a := &protobuf.Address{}
		for _, e := range m {
			k := uint32(e.key)
			a.AddressMapping = append(a.AddressMapping, &protobuf.AddressMapping{Key: []byte{byte(k >> 24), byte(k >> 16), byte(k >> 8), byte(k)}, Address: e.addr})
		}
		pp.Parts = append(pp.Parts, a)
	}
	_, err := protobuf.ToParams(pp)
	switch {
	case valid && err == nil:
		o.Class("proto:accepted-valid")
	case valid:
		o.Class("unspecified:proto-refused-valid")
	case err == nil:
		o.Class("unspecified:proto-ToParams-accepts-violating")
	default:
		o.Class("proto:refused-violating")
	}
}

const ruleCons = "argument tuples derived from a valid base (2-5 participants): 70% violate exactly one documented rule, 10% two rules, 20% are valid twins on or near a boundary (2 / 1021-1024 participants, 32-byte nonce 2^256-1, duration 1). Rules: duration 0; 0-1 participants; 1025-1064 participants; nil app; app that is neither StateApp nor ActionApp; nil nonce; nonce of 33-64 bytes (incl. exactly 2^256); a participant stored under a backend key other than its address' backend (alone, or next to a correct entry). Oracle: NewParams returns (nil, error) iff at least one rule is violated (a panic counts as a failure); for the rules the native format can express (duration, participant count, nonce length, an entry under a key that is not the address' backend) Params.Decode of the encoding produced by an independent byte-level reference encoder returns an error iff a rule is violated, and for valid tuples yields the constructed ID. non-trivial = exactly one rule violated; distinct by SHA-256 of the canonical case JSON"

func TestConstraints(t *testing.T) {
	rec := h.Begin("C17", "constraints")
	rec.SetRule(ruleCons,
		"nil app, untyped app and nil nonce have no native encoding (absent app decodes to the no-app, length 0 nonce to zero) - Decode is checked for the other rules only; with one registered backend a wrong backend key in an encoding is an unknown backend id",
		"a participant map without any address is not a documented rule: NewParams / Decode behaviour on it is classified (unspecified:part-empty:...), not asserted",
		"the protobuf conversion ToParams uses the non-validating constructor (F17, property C13): its behaviour on violating tuples is classified, not asserted",
		"negative nonces and nil addresses are outside the generated domain")
	defer rec.Flush()
	rapid.Check(t, func(rt *rapid.T) {
		c := drawConsCase(rt)
		rec.Report(rt, c, runConsCase(c))
	})
}

// ================================================================ replay

func TestReplay(t *testing.T) {
	p := h.ReplayPath()
	if p == "" {
		t.Skip("no replay requested")
	}
	switch part := h.ReplayPart(p); part {
	case "multi":
		var c MultiCase
		if err := h.LoadReplay(p, &c); err != nil {
			t.Fatal(err)
		}
		h.Begin("C17", "replay").Report(t, c, runMultiCase(c))
	case "constraints":
		var c ConsCase
		if err := h.LoadReplay(p, &c); err != nil {
			t.Fatal(err)
		}
		h.Begin("C17", "replay").Report(t, c, runConsCase(c))
	default:
		var c IDCase
		if err := h.LoadReplay(p, &c); err != nil {
			t.Fatal(err)
		}
		h.Begin("C17", "replay").Report(t, c, runIDCase(c))
	}
}
