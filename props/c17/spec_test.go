package c17

import (
	"bytes"
	"encoding/binary"
	"math/big"

	"pgregory.net/rapid"

	simwallet "perun.network/go-perun/backend/sim/wallet"
	"perun.network/go-perun/channel"
	"perun.network/go-perun/wallet"

	"verif/gen"
)

// PartSpec is one participant: a key of the per-process pool (Raw == "") or an
// arbitrary 64 byte sim address (the sim backend accepts any 64 bytes).
type PartSpec struct {
	Key int     `json:"key"`
	Raw gen.Hex `json:"raw,omitempty"`
}

// Bytes returns the 64 byte binary form of the address.
func (p PartSpec) Bytes() []byte {
	if p.Raw != "" {
		b := p.Raw.Bytes()
		if len(b) != 64 {
			panic("c17: raw address must have 64 bytes")
		}
		return b
	}
	b, err := gen.Acc(p.Key).Address().MarshalBinary()
	if err != nil {
		panic(err)
	}
	return b
}

// Addr builds a fresh address object.
func (p PartSpec) Addr() wallet.Address {
	a := &simwallet.Address{}
	if err := a.UnmarshalBinary(p.Bytes()); err != nil {
		panic(err)
	}
	return a
}

// ParamsSpec describes channel parameters as plain data.
type ParamsSpec struct {
	Dur     uint64      `json:"dur"`
	Parts   []PartSpec  `json:"parts"`
	App     gen.AppSpec `json:"app"`
	Nonce   gen.Big     `json:"nonce"`
	Ledger  bool        `json:"ledger"`
	Virtual bool        `json:"virtual"`
	Aux     gen.Hex     `json:"aux,omitempty"` // right-padded with zeros to 256 bytes
}

func (p ParamsSpec) clone() ParamsSpec {
	c := p
	c.Parts = append([]PartSpec(nil), p.Parts...)
	return c
}

func (p ParamsSpec) aux() (a channel.Aux) {
	copy(a[:], p.Aux.Bytes())
	return
}

func (p ParamsSpec) parts() []map[wallet.BackendID]wallet.Address {
	out := make([]map[wallet.BackendID]wallet.Address, len(p.Parts))
	for i, ps := range p.Parts {
		out[i] = map[wallet.BackendID]wallet.Address{0: ps.Addr()}
	}
	return out
}

// New calls channel.NewParams on freshly built arguments.
func (p ParamsSpec) New() (*channel.Params, error) {
	return channel.NewParams(p.Dur, p.parts(), p.App.Build(), p.Nonce.Int(), p.Ledger, p.Virtual, p.aux())
}

// ---------------------------------------------------------------- reference encoder

// refEncode is an independent byte-level encoder of the native Params wire
// format (little endian): duration u64 | i32 n | n x (i32 maplen | maplen x
// (i32 backend | u16 len | address)) | app (u8 0 | u8 1, u16 len, def) | nonce
// (u8 len | big endian bytes) | u8 ledger | u8 virtual | [aux 256].  It can
// also emit tuples NewParams refuses.  withAux=false yields the canonical
// tuple of the fields the property lists (everything but aux).
func refEncode(dur uint64, parts [][]byte, appDef []byte, nonce *big.Int, ledger, virtual bool, aux *channel.Aux) []byte {
	ps := make([][]refEntry, len(parts))
	for i, a := range parts {
		ps[i] = []refEntry{{0, a}}
	}
	return refEncodeMaps(dur, ps, appDef, nonce, ledger, virtual, aux)
}

// refEntry is one (backend key, address bytes) entry of a participant map.
type refEntry struct {
	key  int32
	addr []byte
}

// refEncodeMaps is refEncode for arbitrary participant maps (entries are
// written in the given order; the library writes ascending keys).
func refEncodeMaps(dur uint64, parts [][]refEntry, appDef []byte, nonce *big.Int, ledger, virtual bool, aux *channel.Aux) []byte {
	var b bytes.Buffer
	le := binary.LittleEndian
	_ = binary.Write(&b, le, dur)
	_ = binary.Write(&b, le, int32(len(parts)))
	for _, m := range parts {
		_ = binary.Write(&b, le, int32(len(m)))
		for _, e := range m {
			_ = binary.Write(&b, le, e.key)
			_ = binary.Write(&b, le, uint16(len(e.addr)))
			b.Write(e.addr)
		}
	}
	if appDef == nil {
		b.WriteByte(0)
	} else {
		b.WriteByte(1)
		_ = binary.Write(&b, le, uint16(len(appDef)))
		b.Write(appDef)
	}
	nb := nonce.Bytes()
	b.WriteByte(byte(len(nb)))
	b.Write(nb)
	for _, f := range []bool{ledger, virtual} {
		if f {
			b.WriteByte(1)
		} else {
			b.WriteByte(0)
		}
	}
	if aux != nil {
		b.Write(aux[:])
	}
	return b.Bytes()
}

func (p ParamsSpec) partBytes() [][]byte {
	out := make([][]byte, len(p.Parts))
	for i, ps := range p.Parts {
		out[i] = ps.Bytes()
	}
	return out
}

func (p ParamsSpec) appDef() []byte {
	if p.App.Kind == "" || p.App.Kind == "none" {
		return nil
	}
	return p.App.Def.Bytes()
}

// RefEncoding is the reference wire encoding of the parameters.
func (p ParamsSpec) RefEncoding() []byte {
	a := p.aux()
	return refEncode(p.Dur, p.partBytes(), p.appDef(), p.Nonce.Int(), p.Ledger, p.Virtual, &a)
}

// Tuple is the canonical byte form of the listed fields (no aux): two
// parameter sets are "the same in every listed field" iff their tuples agree.
func (p ParamsSpec) Tuple() []byte {
	return refEncode(p.Dur, p.partBytes(), p.appDef(), p.Nonce.Int(), p.Ledger, p.Virtual, nil)
}

// ---------------------------------------------------------------- generators

var maxNonce = new(big.Int).Sub(new(big.Int).Lsh(big.NewInt(1), 256), big.NewInt(1))

const poolSize = 10

func genPart() *rapid.Generator[PartSpec] {
	return rapid.Custom(func(t *rapid.T) PartSpec {
		switch rapid.IntRange(0, 9).Draw(t, "partkind") {
		case 0:
			return PartSpec{Raw: gen.HexOf(rapid.SliceOfN(rapid.Byte(), 64, 64).Draw(t, "raw"))}
		case 1:
			// small coordinates: exercises the left padding of the binary form
			b := make([]byte, 64)
			b[31] = byte(rapid.IntRange(0, 3).Draw(t, "x"))
			b[63] = byte(rapid.IntRange(0, 3).Draw(t, "y"))
			return PartSpec{Raw: gen.HexOf(b)}
		case 2:
			b := rapid.SliceOfN(rapid.Byte(), 64, 64).Draw(t, "raw")
			for i := 0; i < rapid.IntRange(1, 31).Draw(t, "zx"); i++ {
				b[i] = 0
			}
			return PartSpec{Raw: gen.HexOf(b)}
		default:
			return PartSpec{Key: rapid.IntRange(0, poolSize-1).Draw(t, "key")}
		}
	})
}

func genDur() *rapid.Generator[uint64] {
	return rapid.Custom(func(t *rapid.T) uint64 {
		switch rapid.IntRange(0, 7).Draw(t, "durkind") {
		case 0:
			return 1
		case 1:
			return 2
		case 2:
			return ^uint64(0)
		case 3:
			return ^uint64(0) - 1
		case 4:
			return uint64(1)<<32 + uint64(rapid.IntRange(-1, 1).Draw(t, "d"))
		case 5:
			return rapid.Uint64Range(1, ^uint64(0)).Draw(t, "dur")
		default:
			return uint64(rapid.IntRange(1, 1000).Draw(t, "dur"))
		}
	})
}

func genNonce() *rapid.Generator[gen.Big] {
	return rapid.Custom(func(t *rapid.T) gen.Big {
		switch rapid.IntRange(0, 9).Draw(t, "noncekind") {
		case 0:
			return "0"
		case 1:
			return "1"
		case 2:
			return gen.BigOf(maxNonce)
		case 3:
			return gen.BigOf(new(big.Int).Sub(maxNonce, big.NewInt(1)))
		case 4:
			return gen.BigOf(new(big.Int).Lsh(big.NewInt(1), uint(rapid.IntRange(1, 255).Draw(t, "bit"))))
		case 5:
			return gen.BigU(uint64(rapid.IntRange(0, 1000).Draw(t, "small")))
		case 6:
			n := rapid.IntRange(1, 31).Draw(t, "len")
			return gen.BigOf(new(big.Int).SetBytes(rapid.SliceOfN(rapid.Byte(), n, n).Draw(t, "nb")))
		default:
			return gen.BigOf(new(big.Int).SetBytes(rapid.SliceOfN(rapid.Byte(), 32, 32).Draw(t, "nb")))
		}
	})
}

func genAux() *rapid.Generator[gen.Hex] {
	return rapid.Custom(func(t *rapid.T) gen.Hex {
		switch rapid.IntRange(0, 3).Draw(t, "auxkind") {
		case 0, 1:
			return ""
		case 2:
			return gen.HexOf(rapid.SliceOfN(rapid.Byte(), 1, 8).Draw(t, "aux"))
		default:
			return gen.HexOf(rapid.SliceOfN(rapid.Byte(), 256, 256).Draw(t, "aux"))
		}
	})
}

// genParams draws a parameter set within the documented limits.
func genParams(minParts, maxParts int) *rapid.Generator[ParamsSpec] {
	return rapid.Custom(func(t *rapid.T) ParamsSpec {
		var p ParamsSpec
		p.Dur = genDur().Draw(t, "dur")
		n := minParts
		if maxParts > minParts && rapid.IntRange(0, 2).Draw(t, "more") > 0 {
			n = rapid.IntRange(minParts, maxParts).Draw(t, "nparts")
		}
		p.Parts = make([]PartSpec, n)
		for i := range p.Parts {
			p.Parts[i] = genPart().Draw(t, "part")
		}
		p.App = gen.GenApp().Draw(t, "app")
		p.Nonce = genNonce().Draw(t, "nonce")
		p.Ledger = rapid.Bool().Draw(t, "ledger")
		p.Virtual = rapid.Bool().Draw(t, "virtual")
		p.Aux = genAux().Draw(t, "aux")
		return p
	})
}
