package c17

// Third part of C17: participants with one address per backend.  The pinned
// tree registers only the sim backend (id 0), so every participant map of the
// other parts has exactly one entry and the order in which a map is written -
// Go's map iteration order is random - cannot matter.  Cross-ledger channels
// give every participant one address per ledger backend.  This part registers,
// in its own test process, a second wallet and channel backend under id 1 (sim
// addresses under another backend id; the same hash over the id-relevant
// fields) and checks the ID clauses for parameter sets with 2-entry maps.
// Added after seeded change C17-3 (and as a regression check for F19, which
// was this very defect in the address map encoders).

import (
	"bytes"
	"crypto/sha256"
	"fmt"
	"io"
	"math/big"
	"os"
	"strings"
	"testing"

	"pgregory.net/rapid"

	simwallet "perun.network/go-perun/backend/sim/wallet"
	"perun.network/go-perun/channel"
	"perun.network/go-perun/wallet"
	"perun.network/go-perun/wire/perunio"

	"verif/h"
)

const backend2 wallet.BackendID = 1

type addr2 struct{ *simwallet.Address }

func (a *addr2) BackendID() wallet.BackendID { return backend2 }
func (a *addr2) Equal(b wallet.Address) bool {
	o, ok := b.(*addr2)
	return ok && a.Address.Equal(o.Address)
}

type walletBackend2 struct{ *simwallet.Backend }

func (walletBackend2) NewAddress() wallet.Address { return &addr2{&simwallet.Address{}} }

// channelBackend2 computes the channel id exactly as the sim backend does.
type channelBackend2 struct{}

func (channelBackend2) CalcID(p *channel.Params) (id channel.ID, err error) {
	w := sha256.New()
	err = perunio.Encode(w, wallet.AddressMapArray{Addr: p.Parts}, p.Nonce, p.ChallengeDuration,
		channel.OptAppEnc{App: p.App}, p.LedgerChannel, p.VirtualChannel)
	copy(id[:], w.Sum(nil))
	return id, err
}
func (channelBackend2) Sign(wallet.Account, *channel.State) (wallet.Sig, error) { return nil, io.EOF }
func (channelBackend2) Verify(wallet.Address, *channel.State, wallet.Sig) (bool, error) {
	return false, io.EOF
}
func (channelBackend2) NewAsset() channel.Asset          { return nil }
func (channelBackend2) NewAppID() (channel.AppID, error) { return nil, io.EOF }

// multiBackendProcess reports whether this test process runs the multi-backend
// part (or replays one of its cases); only then is the second backend registered.
func multiBackendProcess() bool {
	for _, a := range os.Args {
		if strings.Contains(a, "TestMultiBackend") {
			return true
		}
	}
	if p := h.ReplayPath(); p != "" && h.ReplayPart(p) == "multi" {
		return true
	}
	return false
}

func registerSecondBackend() {
	wallet.SetBackend(walletBackend2{new(simwallet.Backend)}, int(backend2))
	channel.SetBackend(channelBackend2{}, int(backend2))
}

// MPart is one participant: address seeds per backend (0 = no entry).
type MPart struct {
	A0 uint64 `json:"a0"`
	A1 uint64 `json:"a1"`
}

// MultiCase is a parameter set with multi-entry participant maps.
type MultiCase struct {
	Dur     uint64  `json:"dur"`
	Nonce   uint64  `json:"nonce"`
	Ledger  bool    `json:"ledger"`
	Virtual bool    `json:"virtual"`
	Parts   []MPart `json:"parts"`
	ChangeI int     `json:"change_i"` // participant whose backend-1 (or only) address is changed
}

func drawMultiCase(t *rapid.T) MultiCase {
	var c MultiCase
	c.Dur = uint64(rapid.IntRange(1, 1000).Draw(t, "dur"))
	c.Nonce = rapid.Uint64().Draw(t, "nonce")
	c.Ledger, c.Virtual = rapid.Bool().Draw(t, "ledger"), rapid.Bool().Draw(t, "virtual")
	n := rapid.IntRange(2, 4).Draw(t, "n")
	for i := 0; i < n; i++ {
		var p MPart
		switch rapid.IntRange(0, 3).Draw(t, "entries") {
		case 0:
			p.A0 = rapid.Uint64Range(1, 1<<40).Draw(t, "a0")
		case 1:
			p.A1 = rapid.Uint64Range(1, 1<<40).Draw(t, "a1")
		default:
			p.A0, p.A1 = rapid.Uint64Range(1, 1<<40).Draw(t, "a0"), rapid.Uint64Range(1, 1<<40).Draw(t, "a1")
		}
		c.Parts = append(c.Parts, p)
	}
	c.ChangeI = rapid.IntRange(0, n-1).Draw(t, "change_i")
	return c
}

func simAddr(seed uint64) *simwallet.Address {
	sum := sha256.Sum256([]byte(fmt.Sprintf("verif multi-backend address %d", seed)))
	sum2 := sha256.Sum256(sum[:])
	a := &simwallet.Address{}
	if err := a.UnmarshalBinary(append(sum[:], sum2[:]...)); err != nil {
		panic("harness: sim address: " + err.Error())
	}
	return a
}

func (c MultiCase) parts() []map[wallet.BackendID]wallet.Address {
	out := make([]map[wallet.BackendID]wallet.Address, len(c.Parts))
	for i, p := range c.Parts {
		m := map[wallet.BackendID]wallet.Address{}
		if p.A0 != 0 {
			m[0] = simAddr(p.A0)
		}
		if p.A1 != 0 {
			m[backend2] = &addr2{simAddr(p.A1)}
		}
		out[i] = m
	}
	return out
}

const multiReps = 24

func runMultiCase(c MultiCase) *h.Outcome {
	o := &h.Outcome{}
	two := 0
	for _, p := range c.Parts {
		if p.A0 != 0 && p.A1 != 0 {
			two++
		}
	}
	o.Nontrivial = two > 0
	o.Class(fmt.Sprintf("participants-with-two-backends:%d", two))
	o.Fail = h.Guard(func() *h.Failure {
		nonce := new(big.Int).SetUint64(c.Nonce)
		mk := func(parts []map[wallet.BackendID]wallet.Address) (*channel.Params, error) {
			return channel.NewParams(c.Dur, parts, channel.NoApp(), new(big.Int).Set(nonce), c.Ledger, c.Virtual, channel.ZeroAux)
		}
		p0, err := mk(c.parts())
		if err != nil {
			return h.Failf("multi:valid-refused", "NewParams refused a parameter set whose participants have addresses of registered backends under their own ids: %v", err)
		}
		var enc0 bytes.Buffer
		if err := p0.Encode(&enc0); err != nil {
			return h.Failf("multi:encode-error", "Params.Encode: %v", err)
		}
		for k := 0; k < multiReps; k++ {
			// equal parameters, built afresh (fresh maps: another iteration order)
			p, err := mk(c.parts())
			if err != nil {
				return h.Failf("multi:valid-refused", "NewParams (repetition %d): %v", k, err)
			}
			if p.ID() != p0.ID() {
				return h.Failf("multi:id-not-deterministic", "equal parameters have different ids: %x and %x (repetition %d, %d participants with two backends)", p0.ID(), p.ID(), k, two)
			}
			if id, err := channel.CalcID(p); err != nil || id != p0.ID() {
				return h.Failf("multi:calcid-not-deterministic", "CalcID of equal parameters: %x, NewParams gave %x (err=%v)", id, p0.ID(), err)
			}
			if cl := p.Clone(); cl.ID() != p0.ID() {
				return h.Failf("multi:clone-id", "the clone has id %x, the original %x", cl.ID(), p0.ID())
			} else if id, err := channel.CalcID(cl); err != nil || id != p0.ID() {
				return h.Failf("multi:clone-calcid", "CalcID of the clone: %x, original %x (err=%v)", id, p0.ID(), err)
			}
			var e bytes.Buffer
			if err := p.Encode(&e); err != nil {
				return h.Failf("multi:encode-error", "Params.Encode: %v", err)
			}
			if !bytes.Equal(e.Bytes(), enc0.Bytes()) {
				return h.Failf("multi:encoding-not-deterministic", "two encodings of equal parameters differ (repetition %d)", k)
			}
			var d channel.Params
			if err := d.Decode(bytes.NewReader(e.Bytes())); err != nil {
				return h.Failf("multi:decode-error", "parameters do not decode from their own encoding: %v", err)
			}
			if d.ID() != p0.ID() {
				return h.Failf("multi:restored-id", "parameters restored from their encoding have id %x, the original %x", d.ID(), p0.ID())
			}
		}
		// a changed address (under backend 1 if the participant has one) changes the id
		ch := c
		ch.Parts = append([]MPart(nil), c.Parts...)
		if ch.Parts[c.ChangeI].A1 != 0 {
			ch.Parts[c.ChangeI].A1++
		} else {
			ch.Parts[c.ChangeI].A0++
		}
		if q, err := mk(ch.parts()); err == nil && q.ID() == p0.ID() {
			return h.Failf("multi:id-unchanged:address", "changing an address of participant %d does not change the id", c.ChangeI)
		}
		// the two addresses of a participant swapped between the backends is another parameter set
		if pi := c.Parts[c.ChangeI]; pi.A0 != 0 && pi.A1 != 0 && pi.A0 != pi.A1 {
			sw := c
			sw.Parts = append([]MPart(nil), c.Parts...)
			sw.Parts[c.ChangeI].A0, sw.Parts[c.ChangeI].A1 = pi.A1, pi.A0
			if q, err := mk(sw.parts()); err == nil && q.ID() == p0.ID() {
				return h.Failf("multi:id-unchanged:backend-swap", "swapping participant %d's addresses between the two backends does not change the id", c.ChangeI)
			}
		}
		return nil
	})
	return o
}

const multiRule = "parameter sets with 2-4 participants whose address maps have an entry under backend 0, under backend 1 or under both (a second wallet/channel backend is registered under id 1 in this test process: sim addresses with that backend id, the same hash over the id-relevant fields). 24 times over, the same parameters are built afresh (fresh maps), and NewParams(...).ID(), CalcID, the clone's id, the native encoding and the id of the parameters restored from it must be the same each time; changing one address, or swapping a participant's two addresses between the backends, must change the id. non-trivial = at least one participant has addresses under both backends"

func TestMultiBackend(t *testing.T) {
	rec := h.Begin("C17", "multi")
	rec.SetRule(multiRule, "the second backend is the harness' own (the pinned tree ships one backend); it computes ids like the sim backend, so that the dispatcher's choice of backend cannot matter")
	defer rec.Flush()
	rapid.Check(t, func(rt *rapid.T) {
		c := drawMultiCase(rt)
		rec.Report(rt, c, runMultiCase(c))
	})
}
