package c02

// Reference predicate for C02, written from the property text only.  It works
// on the plain specs of the harness (gen.StateSpec / gen.AllocSpec), never on
// go-perun values, and calls no go-perun function: not ValidTransition, not
// Allocation.Valid, not Sum, not EqualSum.
//
//   "a state is accepted for signing only if it carries the channel's ID and
//    app, has exactly the next version, keeps the asset list, has well-formed
//    non-negative balances, keeps for every asset the total of participant
//    balances plus locked funds unchanged, does not follow a final state, names
//    an existing participant as actor and satisfies the app's transition rule;
//    an initial state always has version 0, the channel's ID and a well-formed
//    allocation with one balance per participant."

import (
	"math/big"
	"sort"
	"strings"

	"verif/gen"
)

// The conditions of the statement (k counts distinct violated conditions).
const (
	condID      = "id"
	condApp     = "app"
	condVersion = "version"
	condAssets  = "assets"
	condWell    = "wellformed"
	condSum     = "sum"
	condFinal   = "after-final"
	condActor   = "actor"
	condRule    = "app-rule"
)

// verdict is what the reference says about one candidate.
type verdict struct {
	conds  map[string]bool // violated conditions
	detail map[string]bool // finer labels, "<cond>:<what>"
	// backendChanged: the candidate's backend ids differ from the current
	// state's.  The statement says "keeps the asset list" and is silent on
	// backend ids: if this is the only difference to an acceptable candidate the
	// verdict is unspecified (DESIGN §3 C02 note 1).
	backendChanged bool
}

func newVerdict() *verdict {
	return &verdict{conds: map[string]bool{}, detail: map[string]bool{}}
}

func (v *verdict) add(cond, what string) {
	v.conds[cond] = true
	if what != "" {
		v.detail[cond+":"+what] = true
	} else {
		v.detail[cond] = true
	}
}

// acceptable: no condition of the statement is violated.
func (v *verdict) acceptable() bool { return len(v.conds) == 0 }

// unspecified: acceptable by every listed condition, but a backend id moved.
func (v *verdict) unspecified() bool { return v.acceptable() && v.backendChanged }

func (v *verdict) k() int { return len(v.conds) }

func sortedKeys(m map[string]bool) []string {
	out := make([]string, 0, len(m))
	for k := range m {
		out = append(out, k)
	}
	sort.Strings(out)
	return out
}

func (v *verdict) condList() []string   { return sortedKeys(v.conds) }
func (v *verdict) detailList() []string { return sortedKeys(v.detail) }
func (v *verdict) sig() string          { return strings.Join(v.detailList(), "+") }

// nearMiss labels a candidate that violates exactly one condition.
func (v *verdict) nearMiss() string {
	if d := v.detailList(); len(d) == 1 {
		return d[0]
	}
	return v.condList()[0] + ":several"
}

// wellFormed lists what keeps an allocation from being well-formed for a
// channel with n participants: one row per asset, one balance per participant
// in every row, locked entries with one amount per asset, nothing negative, not
// empty.
func wellFormed(a gen.AllocSpec, n int) []string {
	var bad []string
	if len(a.Assets) == 0 {
		bad = append(bad, "no-assets")
	}
	if len(a.Bals) == 0 {
		bad = append(bad, "no-balances")
	}
	if len(a.Bals) != len(a.Assets) {
		bad = append(bad, "rows")
	}
	ragged, wrongN, neg := false, false, false
	for i, row := range a.Bals {
		if len(row) != len(a.Bals[0]) {
			ragged = true
		}
		if len(row) != n {
			wrongN = true
		}
		for _, b := range row {
			if b.Int().Sign() < 0 {
				neg = true
			}
		}
		_ = i
	}
	switch {
	case ragged:
		bad = append(bad, "ragged")
	case wrongN:
		bad = append(bad, "numparts")
	}
	if neg {
		bad = append(bad, "negative")
	}
	ldim, lneg := false, false
	for _, l := range a.Locked {
		if len(l.Bals) != len(a.Assets) {
			ldim = true
		}
		for _, b := range l.Bals {
			if b.Int().Sign() < 0 {
				lneg = true
			}
		}
	}
	if ldim {
		bad = append(bad, "locked-dim")
	}
	if lneg {
		bad = append(bad, "locked-negative")
	}
	return bad
}

// totals returns, per row, participants' balances plus locked amounts; ok is
// false when the shape does not allow a per-asset total (a locked entry
// without exactly one amount per row).
func totals(a gen.AllocSpec) (tot []*big.Int, ok bool) {
	tot = make([]*big.Int, len(a.Bals))
	for i, row := range a.Bals {
		tot[i] = new(big.Int)
		for _, b := range row {
			tot[i].Add(tot[i], b.Int())
		}
	}
	for _, l := range a.Locked {
		if len(l.Bals) != len(a.Bals) {
			return nil, false
		}
		for i, b := range l.Bals {
			tot[i].Add(tot[i], b.Int())
		}
	}
	return tot, true
}

func sameApp(a, b gen.AppSpec) bool {
	ka, kb := a.Kind, b.Kind
	if ka == "" {
		ka = "none"
	}
	if kb == "" {
		kb = "none"
	}
	if ka == "none" || kb == "none" {
		return ka == kb
	}
	// an app is identified by its definition
	return a.Def == b.Def
}

func sameAssets(a, b []uint64) bool {
	if len(a) != len(b) {
		return false
	}
	for i := range a {
		if a[i] != b[i] {
			return false
		}
	}
	return true
}

func sameBackends(a, b []int) bool {
	if len(a) != len(b) {
		return false
	}
	for i := range a {
		if a[i] != b[i] {
			return false
		}
	}
	return true
}

// refTransition judges candidate `cand` (named actor `actor`) as successor of
// the current state `cur` of a channel with id chanID, app chanApp and n
// participants.  cur is a state the machine accepted before, so it is
// well-formed for n participants.
func refTransition(chanID gen.Hex, chanApp gen.AppSpec, n int, cur, cand gen.StateSpec, actor int) *verdict {
	v := newVerdict()
	if cand.ID != chanID {
		v.add(condID, "")
	}
	if !sameApp(chanApp, cand.App) {
		v.add(condApp, "")
	}
	if cur.Version == ^uint64(0) || cand.Version != cur.Version+1 {
		v.add(condVersion, "")
	}
	assetsKept := sameAssets(cur.Alloc.Assets, cand.Alloc.Assets)
	if !assetsKept {
		v.add(condAssets, "")
	}
	wf := wellFormed(cand.Alloc, n)
	for _, w := range wf {
		v.add(condWell, w)
	}
	// per-asset totals: defined when the asset list is kept and the shape
	// allows a total per asset
	if assetsKept && len(cand.Alloc.Bals) == len(cur.Alloc.Bals) {
		tc, ok1 := totals(cur.Alloc)
		tn, ok2 := totals(cand.Alloc)
		if ok1 && ok2 {
			for i := range tc {
				if tc[i].Cmp(tn[i]) != 0 {
					v.add(condSum, "")
					break
				}
			}
		}
	}
	if cur.Final {
		v.add(condFinal, "")
	}
	if actor < 0 || actor >= n {
		v.add(condActor, "")
	}
	// the app's transition rule (the channel's app)
	switch chanApp.Kind {
	case "", "none":
		// allows everything
	case "payment":
		// money flows only from the actor to the others: for every asset the
		// actor's balance does not increase and no other balance decreases.
		// Comparable only position by position.
		comparable := actor >= 0 && actor < n && len(cand.Alloc.Bals) == len(cur.Alloc.Bals)
		if comparable {
			for _, row := range cand.Alloc.Bals {
				if len(row) != n {
					comparable = false
				}
			}
		}
		if comparable {
		rows:
			for i, row := range cur.Alloc.Bals {
				for j := range row {
					c := cand.Alloc.Bals[i][j].Int().Cmp(row[j].Int())
					if j == actor && c > 0 {
						v.add(condRule, "actor-gains")
						break rows
					}
					if j != actor && c < 0 {
						v.add(condRule, "other-loses")
						break rows
					}
				}
			}
		}
	case "mock":
		// MockApp: decided by the *current* state's data: 0 valid, 1..3 error
		// (4 and above panic by design and are never made current here)
		if cur.Op != 0 {
			v.add(condRule, "mock-op")
		}
	}
	v.backendChanged = !sameBackends(cur.Alloc.Backends, cand.Alloc.Backends)
	return v
}

// refInit judges Init(alloc, data) on a fresh machine with n participants:
// the machine sets version 0 and the channel's id itself, so what remains is
// "a well-formed allocation with one balance per participant" and the app's
// init rule (no-app: data must be NoData; payment app: every valid allocation;
// MockApp: MockOp data, op 0 valid, 1..3 error).
func refInit(chanApp gen.AppSpec, n int, alloc gen.AllocSpec, dataKind string, op uint64) *verdict {
	v := newVerdict()
	for _, w := range wellFormed(alloc, n) {
		v.add(condWell, w)
	}
	switch chanApp.Kind {
	case "", "none":
		if dataKind != "nodata" {
			v.add(condRule, "init-data")
		}
	case "payment":
	case "mock":
		if dataKind != "mockop" {
			v.add(condRule, "init-data")
		} else if op != 0 {
			v.add(condRule, "mock-op")
		}
	}
	return v
}
