// Package c02: only valid successor states can be staged (DESIGN.md §3 C02).
//
// A real channel.StateMachine is brought to the Acting phase with a fully
// signed initial state, advanced by 0-8 accepted updates, and then offered a
// candidate successor; Update / CheckUpdate / Init must accept exactly the
// candidates the reference predicate of ref_test.go accepts.
package c02

import (
	"bytes"
	"crypto/sha256"
	"fmt"
	"math/big"
	"os"
	"strings"
	"sync"
	"testing"

	"pgregory.net/rapid"

	"perun.network/go-perun/channel"
	"perun.network/go-perun/wallet"

	"verif/gen"
	"verif/h"
)

func TestMain(m *testing.M) {
	gen.Setup()
	code := m.Run()
	h.FlushAll()
	os.Exit(code)
}

// ---------------------------------------------------------------- helpers

// guard runs one call into the code under test; a panic becomes a failure
// whose signature is the innermost go-perun frame.
func guard(what string, f func()) *h.Failure {
	fl := h.Guard(func() *h.Failure { f(); return nil })
	if fl != nil {
		fl.Msg = what + ": " + fl.Msg
	}
	return fl
}

func enc(s *channel.State) (b []byte, err error) {
	defer func() {
		if r := recover(); r != nil {
			b, err = nil, fmt.Errorf("encode panicked: %v", r)
		}
	}()
	var buf bytes.Buffer
	err = s.Encode(&buf)
	return buf.Bytes(), err
}

// signature cache: (signer, state encoding) -> signature.  Keys live as long
// as the process, so signatures can be reused across cases (shrinking replays
// the same prefixes many times).
var (
	sigMu    sync.Mutex
	sigCache = map[[33]byte]wallet.Sig{}
)

func signAs(i int, s *channel.State) (wallet.Sig, error) {
	e, err := enc(s)
	if err != nil {
		return nil, err
	}
	var k [33]byte
	sum := sha256.Sum256(e)
	copy(k[:], sum[:])
	k[32] = byte(i)
	sigMu.Lock()
	sig, ok := sigCache[k]
	sigMu.Unlock()
	if ok {
		return sig, nil
	}
	sig, err = channel.Sign(gen.Acc(i), s, 0)
	if err != nil {
		return nil, err
	}
	sigMu.Lock()
	if len(sigCache) > 200000 {
		sigCache = map[[33]byte]wallet.Sig{}
	}
	sigCache[k] = sig
	sigMu.Unlock()
	return sig, nil
}

// snapshot of everything a refusal must leave unchanged.
type snap struct {
	phase    channel.Phase
	staged   []byte
	stagedOK bool
	current  []byte
	sSigs    string
	cSigs    string
}

func sigsKey(s []wallet.Sig) string {
	var b strings.Builder
	for _, x := range s {
		fmt.Fprintf(&b, "%d:%x|", len(x), []byte(x))
	}
	return b.String()
}

func takeSnap(m *channel.StateMachine) snap {
	var sn snap
	sn.phase = m.Phase()
	if st := m.StagingTX(); st.State != nil {
		sn.staged, _ = enc(st.State)
		sn.stagedOK = true
		sn.sSigs = sigsKey(st.Sigs)
	}
	if ct := m.CurrentTX(); ct.State != nil {
		sn.current, _ = enc(ct.State)
		sn.cSigs = sigsKey(ct.Sigs)
	}
	return sn
}

func (a snap) diff(b snap) string {
	switch {
	case a.phase != b.phase:
		return fmt.Sprintf("phase %v -> %v", a.phase, b.phase)
	case a.stagedOK != b.stagedOK || !bytes.Equal(a.staged, b.staged):
		return "staged state changed"
	case a.sSigs != b.sSigs:
		return "staged signatures changed"
	case !bytes.Equal(a.current, b.current):
		return "current state changed"
	case a.cSigs != b.cSigs:
		return "current signatures changed"
	}
	return ""
}

type chanCtx struct {
	c      Case
	n      int
	params *channel.Params
	id     gen.Hex
	m      *channel.StateMachine
}

func newChan(c Case) (*chanCtx, *h.Failure) {
	x := &chanCtx{c: c, n: c.N}
	parts := make([]map[wallet.BackendID]wallet.Address, c.N)
	for i := range parts {
		parts[i] = gen.Addr(i)
	}
	var err error
	nonce := new(big.Int).SetUint64(c.Nonce)
	x.params, err = channel.NewParams(60, parts, c.App.Build(), nonce, true, false, channel.ZeroAux)
	if err != nil {
		return nil, h.Failf("harness:params", "NewParams: %v", err)
	}
	id := x.params.ID()
	x.id = gen.HexOf(id[:])
	x.m, err = channel.NewStateMachine(map[wallet.BackendID]wallet.Account{0: gen.Acc(c.Own)}, *x.params)
	if err != nil {
		return nil, h.Failf("harness:machine", "NewStateMachine: %v", err)
	}
	return x, nil
}

// completeSigs lets the machine sign the staged state and adds the valid
// signatures of all other participants.
func (x *chanCtx) completeSigs(want gen.StateSpec) *h.Failure {
	var fail *h.Failure
	if f := guard("Sig", func() {
		sig, err := x.m.Sig()
		if err != nil {
			fail = h.Failf("sig-refused-after-accept", "Sig() failed on an accepted state: %v", err)
			return
		}
		ok, err := channel.Verify(gen.Acc(x.c.Own).Address(), want.Build(), sig)
		if err != nil || !ok {
			fail = h.Failf("sig-not-over-candidate", "Sig() does not verify over the accepted candidate (ok=%v err=%v)", ok, err)
		}
	}); f != nil {
		return f
	}
	if fail != nil {
		return fail
	}
	for i := 0; i < x.n; i++ {
		if i == x.c.Own {
			continue
		}
		sig, err := signAs(i, want.Build())
		if err != nil {
			return h.Failf("harness:sign", "cannot sign accepted state: %v", err)
		}
		if f := guard("AddSig", func() {
			if err := x.m.AddSig(channel.Index(i), sig); err != nil {
				fail = h.Failf("addsig-refused", "AddSig(%d) refused the valid signature over the staged state: %v", i, err)
			}
		}); f != nil {
			return f
		}
		if fail != nil {
			return fail
		}
	}
	return nil
}

// checkStaged: after an accepted Update/Init the staged state is exactly the
// offered one.
func (x *chanCtx) checkStaged(want gen.StateSpec, phase channel.Phase) *h.Failure {
	if x.m.Phase() != phase {
		return h.Failf("accept-wrong-phase", "phase %v after acceptance, want %v", x.m.Phase(), phase)
	}
	st := x.m.StagingState()
	if st == nil {
		return h.Failf("staged-differs", "no staged state after acceptance")
	}
	got, err1 := enc(st)
	exp, err2 := enc(want.Build())
	if err1 != nil || err2 != nil {
		return h.Failf("staged-unencodable", "accepted state cannot be encoded: %v / %v", err1, err2)
	}
	if !bytes.Equal(got, exp) {
		return h.Failf("staged-differs", "StagingState() does not encode like the accepted candidate")
	}
	return nil
}

// checkRefused: nothing changed and no signature over the candidate can be
// obtained.
func (x *chanCtx) checkRefused(before snap, cand gen.StateSpec, candOK bool) *h.Failure {
	if d := before.diff(takeSnap(x.m)); d != "" {
		return h.Failf("refusal-changed-machine", "after a refused candidate: %s", d)
	}
	var fail *h.Failure
	if f := guard("Sig", func() {
		sig, err := x.m.Sig()
		if err != nil || sig == nil || !candOK {
			return
		}
		// Sig() succeeded: another state is staged (accepted earlier); it may
		// sign that one, which only concerns the candidate if both are the
		// same state
		if before.stagedOK {
			if ec, _ := enc(cand.Build()); bytes.Equal(ec, before.staged) {
				return
			}
		}
		ok, _ := channel.Verify(gen.Acc(x.c.Own).Address(), cand.Build(), sig)
		if ok {
			fail = h.Failf("signed-after-refusal", "Sig() returned a signature over the refused candidate")
		}
	}); f != nil {
		return f
	}
	return fail
}

func dataFor(app gen.AppSpec, kind string, op uint64) channel.Data {
	if kind == "mockop" {
		return channel.NewMockOp(channel.MockOp(op))
	}
	return channel.NoData()
}

// open: Init, Sig, AddSig of the others, EnableInit, SetFunded.
func (x *chanCtx) open(o *h.Outcome) (gen.StateSpec, *h.Failure) {
	c := x.c
	initSpec := gen.StateSpec{ID: x.id, Version: 0, App: c.App, Op: 0, Alloc: c.Init.Clone()}
	dk := "nodata"
	if c.App.Kind == "mock" {
		dk = "mockop"
	}
	if v := refInit(c.App, c.N, c.Init, dk, 0); !v.acceptable() {
		return initSpec, h.Failf("harness:init-invalid", "generated initial allocation is not valid: %s", v.sig())
	}
	var err error
	if f := guard("Init", func() { err = x.m.Init(c.Init.Build(), dataFor(c.App, dk, 0)) }); f != nil {
		return initSpec, f
	}
	if err != nil {
		return initSpec, h.Failf("init-refuses-valid", "Init refused a well-formed allocation with %d balances per asset: %v", c.N, err)
	}
	if f := x.checkStaged(initSpec, channel.InitSigning); f != nil {
		return initSpec, f
	}
	if f := x.completeSigs(initSpec); f != nil {
		return initSpec, f
	}
	if f := guard("EnableInit", func() { err = x.m.EnableInit() }); f != nil {
		return initSpec, f
	}
	if err != nil {
		return initSpec, h.Failf("enable-init", "EnableInit: %v", err)
	}
	if f := guard("SetFunded", func() { err = x.m.SetFunded() }); f != nil {
		return initSpec, f
	}
	if err != nil {
		return initSpec, h.Failf("set-funded", "SetFunded: %v", err)
	}
	return initSpec, nil
}

// offer runs one candidate through Update (and, when full, CheckUpdate with a
// valid and an invalid signature first) and compares with the reference.
// It returns whether the candidate was accepted and staged.
func (x *chanCtx) offer(o *h.Outcome, cur, cand gen.StateSpec, actor int, v *verdict, full bool, peer int, badSig string) (bool, *h.Failure) {
	return x.offerObj(o, cur, cand, actor, v, full, peer, badSig, nil)
}

// offerObj is offer with the state object that is handed to Update (nil: a
// fresh one built from cand).  The object must have the content of cand.
func (x *chanCtx) offerObj(o *h.Outcome, cur, cand gen.StateSpec, actor int, v *verdict, full bool, peer int, badSig string, useObj *channel.State) (bool, *h.Failure) {
	before := takeSnap(x.m)
	inActing := x.m.Phase() == channel.Acting
	// a disagreement of CheckUpdate is reported after Update had its turn, so
	// that the replay of a wrongly accepted candidate shows the whole path
	// (checked, staged, signed)
	var cuFail *h.Failure
	cuNote := ""
	_, encErr := enc(cand.Build())
	candOK := encErr == nil
	act := channel.Index(uint16(actor))

	if full {
		// CheckUpdate with the peer's valid signature
		var vsig wallet.Sig
		if candOK {
			s, err := signAs(peer, cand.Build())
			if err != nil {
				return false, h.Failf("harness:sign", "cannot sign encodable candidate: %v", err)
			}
			vsig = s
		} else {
			if v.acceptable() {
				return false, h.Failf("acceptable-unencodable", "reference accepts a candidate that cannot be encoded: %v", encErr)
			}
			vsig = bytes.Repeat([]byte{7}, 64)
			o.Class("cand:unencodable")
		}
		var err error
		if f := guard("CheckUpdate", func() { err = x.m.CheckUpdate(cand.Build(), act, vsig, channel.Index(peer)) }); f != nil {
			return false, f
		}
		switch {
		case v.unspecified():
			o.Class(fmt.Sprintf("unspecified:backend-id-changed:checkupdate-accepts=%v", err == nil))
		case err == nil && !v.acceptable():
			cuFail = h.Failf("checkupdate-accepts-invalid:"+v.sig(), "CheckUpdate accepted (valid signature) a candidate that violates: %s", v.sig())
		case err != nil && v.acceptable():
			cuFail = h.Failf("checkupdate-refuses-valid", "CheckUpdate refused an acceptable candidate with a valid signature: %v", err)
		}
		cuNote = fmt.Sprintf("; CheckUpdate with a valid signature of participant %d returned: %v", peer, err)
		// CheckUpdate with an invalid signature refuses everything
		bsig, kind := x.badSig(badSig, peer, cur, cand, candOK)
		o.Class("badsig:" + kind)
		if f := guard("CheckUpdate(bad signature)", func() { err = x.m.CheckUpdate(cand.Build(), act, bsig, channel.Index(peer)) }); f != nil {
			return false, f
		}
		if err == nil {
			return false, h.Failf("checkupdate-accepts-bad-sig:"+kind, "CheckUpdate returned nil for an invalid signature (%s); candidate violates: [%s]", kind, v.sig())
		}
		if d := before.diff(takeSnap(x.m)); d != "" {
			return false, h.Failf("checkupdate-not-readonly", "CheckUpdate changed the machine: %s", d)
		}
	}

	var err error
	updObj := useObj
	if updObj == nil {
		updObj = cand.Build()
	}
	if f := guard("Update", func() { err = x.m.Update(updObj, act) }); f != nil {
		return false, f
	}
	accepted := err == nil
	if !inActing {
		// the regular update path is closed (final state reached): everything
		// is refused, whatever the candidate
		if accepted {
			return false, h.Failf("update-accepted-outside-acting", "Update accepted a candidate in phase %v", before.phase)
		}
	} else {
		switch {
		case v.unspecified():
			o.Class(fmt.Sprintf("unspecified:backend-id-changed:update-accepts=%v", accepted))
		case accepted && !v.acceptable():
			signed := ""
			_ = guard("Sig", func() {
				sig, err := x.m.Sig()
				if err != nil {
					signed = fmt.Sprintf("; Sig() then failed: %v", err)
					return
				}
				ok, _ := channel.Verify(gen.Acc(x.c.Own).Address(), cand.Build(), sig)
				signed = fmt.Sprintf("; Sig() then returned a signature that verifies over the candidate: %v", ok)
			})
			return false, h.Failf("update-accepts-invalid:"+v.sig(), "Update accepted (staged for signing) a candidate that violates: %s%s%s", v.sig(), signed, cuNote)
		case !accepted && v.acceptable():
			return false, h.Failf("update-refuses-valid", "Update refused an acceptable candidate: %v%s", err, cuNote)
		}
	}
	if cuFail != nil {
		return false, cuFail
	}
	if !accepted {
		return false, x.checkRefused(before, cand, candOK)
	}
	if f := x.checkStaged(cand, channel.Signing); f != nil {
		return false, f
	}
	return true, nil
}

// badSig builds an invalid signature for the candidate.
func (x *chanCtx) badSig(kind string, peer int, cur, cand gen.StateSpec, candOK bool) (wallet.Sig, string) {
	random := func() wallet.Sig {
		a := sha256.Sum256([]byte(fmt.Sprintf("c02-bad-%d-%d", x.c.Nonce, peer)))
		b := sha256.Sum256(a[:])
		a[0], b[0] = a[0]&0x7f, b[0]&0x7f
		return append(a[:], b[:]...)
	}
	if !candOK && (kind == "otherkey" || kind == "bitflip") {
		kind = "random"
	}
	switch kind {
	case "otherkey":
		// valid signature over the candidate by somebody who is not `peer`
		s, err := signAs(x.n+1+peer, cand.Build())
		if err == nil {
			return s, kind
		}
	case "otherstate":
		// the peer's valid signature over the current state (replay)
		ec, _ := enc(cur.Build())
		en, _ := enc(cand.Build())
		if !candOK || !bytes.Equal(ec, en) {
			if s, err := signAs(peer, cur.Build()); err == nil {
				return s, kind
			}
		}
	case "bitflip":
		if s, err := signAs(peer, cand.Build()); err == nil {
			b := append(wallet.Sig{}, s...)
			b[len(b)-1] ^= 1
			return b, kind
		}
	case "short":
		return random()[:17], kind
	case "nil":
		return nil, kind
	}
	return random(), "random"
}

// buildCand turns the candidate description into a concrete spec.
func (x *chanCtx) buildCand(o *h.Outcome, cur gen.StateSpec) (gen.StateSpec, int) {
	cd := x.c.Cand
	if cd.Arb != nil {
		s := cd.Arb.Clone()
		o.Class(fmt.Sprintf("cand:arbitrary:fit%d", cd.ArbFit))
		if cd.ArbFit >= 1 {
			s.ID, s.App, s.Version = x.id, x.c.App, cur.Version+1
		}
		if cd.ArbFit >= 2 {
			// the current shape filled with arbitrary amounts
			var pool []gen.Big
			for _, r := range s.Alloc.Bals {
				pool = append(pool, r...)
			}
			for _, l := range s.Alloc.Locked {
				pool = append(pool, l.Bals...)
			}
			s.Alloc = cur.Alloc.Clone()
			k := 0
			for i := range s.Alloc.Bals {
				for j := range s.Alloc.Bals[i] {
					if len(pool) > 0 {
						s.Alloc.Bals[i][j] = pool[k%len(pool)]
						k++
					}
				}
			}
		}
		return s, cd.Actor
	}
	s, actor := cd.Base.apply(cur, x.n)
	o.Class("base:" + cd.Base.Kind)
	for _, m := range cd.Viols {
		if m.apply(&s, cur, x.n, &actor) {
			o.Class("mut:" + m.Kind)
		} else {
			o.Class("mut-inapplicable")
		}
	}
	return s, actor
}

func differsBeyondVersion(cur, cand gen.StateSpec) bool {
	a, b := cur.Clone(), cand.Clone()
	a.Version, b.Version = 0, 0
	return string(h.Canon(a)) != string(h.Canon(b))
}

func runCase(c Case) *h.Outcome {
	o := &h.Outcome{}
	o.Class("app:" + c.App.Kind)
	o.Class(fmt.Sprintf("n:%d", c.N))
	fl := h.Guard(func() *h.Failure {
		if c.Mode == "init" {
			return runInit(c, o)
		}
		return runUpdate(c, o)
	})
	o.Fail = fl
	return o
}

func runUpdate(c Case, o *h.Outcome) *h.Failure {
	x, f := newChan(c)
	if f != nil {
		return f
	}
	cur, f := x.open(o)
	if f != nil {
		return f
	}
	// a successor of the initial state that passes CheckUpdate now and is
	// submitted to Update only after the history (object reuse, variant 2)
	var early *channel.State
	var earlySpec gen.StateSpec
	earlyActor := 0
	checkedObj := func(spec gen.StateSpec, actor int) (*channel.State, *h.Failure) {
		obj := spec.Build()
		peer := mod(c.Cand.Peer, x.n)
		sig, err := signAs(peer, obj)
		if err != nil {
			return nil, nil
		}
		if f := guard("CheckUpdate", func() { err = x.m.CheckUpdate(obj, channel.Index(uint16(actor)), sig, channel.Index(peer)) }); f != nil {
			return nil, f
		}
		if err != nil {
			return nil, h.Failf("checkupdate-refuses-valid", "CheckUpdate refused an acceptable candidate with a valid signature: %v", err)
		}
		return obj, nil
	}
	if c.Cand.Reuse == 2 && x.m.Phase() == channel.Acting {
		earlySpec = cur
		earlySpec.Version++
		if refTransition(x.id, c.App, x.n, cur, earlySpec, earlyActor).acceptable() {
			obj, f := checkedObj(earlySpec, earlyActor)
			if f != nil {
				return f
			}
			early = obj
		}
	}
	acceptedSteps := 0
	for _, st := range c.Steps {
		if x.m.Phase() != channel.Acting {
			o.Class("step:after-final-skipped")
			break
		}
		next, actor := st.apply(cur, x.n)
		v := refTransition(x.id, c.App, x.n, cur, next, actor)
		ok, f := x.offer(o, cur, next, actor, v, false, 0, "")
		if f != nil {
			return f
		}
		if !ok {
			o.Class("step:" + st.Kind + ":refused")
			continue
		}
		o.Class("step:" + st.Kind + ":accepted")
		if f := x.completeSigs(next); f != nil {
			return f
		}
		var err error
		if next.Final {
			if f := guard("EnableFinal", func() { err = x.m.EnableFinal() }); f != nil {
				return f
			}
		} else {
			if f := guard("EnableUpdate", func() { err = x.m.EnableUpdate() }); f != nil {
				return f
			}
		}
		if err != nil {
			return h.Failf("enable-update", "enabling a fully signed accepted state failed: %v", err)
		}
		cur = next
		acceptedSteps++
	}
	// the machine's current state is the one the model tracks
	if got, err := enc(x.m.State()); err != nil || func() bool { e, _ := enc(cur.Build()); return !bytes.Equal(e, got) }() {
		return h.Failf("harness:current-mismatch", "machine's current state differs from the tracked one (err=%v)", err)
	}
	o.Class(fmt.Sprintf("hist:%d", acceptedSteps))
	if len(cur.Alloc.Locked) > 0 {
		o.Class("cur:locked")
	}
	if len(cur.Alloc.Assets) > 1 {
		o.Class("cur:multi-asset")
	}
	if cur.Final {
		o.Class("cur:final")
	}
	if c.App.Kind == "mock" && cur.Op != 0 {
		o.Class("cur:mock-op-error")
	}

	// optionally a valid successor is staged (and left unsigned by the others)
	// while the candidate arrives: Update must then refuse whatever comes,
	// CheckUpdate still judges against the current state, and Sig() signs the
	// staged state, never the candidate
	if sg := c.Cand.Staged; sg != nil && x.m.Phase() == channel.Acting {
		next, actor := sg.apply(cur, x.n)
		v := refTransition(x.id, c.App, x.n, cur, next, actor)
		ok, f := x.offer(o, cur, next, actor, v, false, 0, "")
		if f != nil {
			return f
		}
		if ok {
			o.Class("while-staged")
		}
	}

	cand, actor := x.buildCand(o, cur)
	var useObj *channel.State
	switch {
	case c.Cand.Reuse == 2 && early != nil:
		// the object checked before the history is the candidate now
		cand, actor, useObj = earlySpec, earlyActor, early
		o.Class("reuse:checked-before-history")
	case c.Cand.Reuse == 1 && x.m.Phase() == channel.Acting:
		// an acceptable successor passes CheckUpdate, then the same object is
		// rewritten in place into the candidate
		twin := cur
		twin.Version++
		if _, encErr := enc(cand.Build()); encErr == nil && refTransition(x.id, c.App, x.n, cur, twin, 0).acceptable() {
			obj, f := checkedObj(twin, 0)
			if f != nil {
				return f
			}
			if obj != nil {
				*obj = *cand.Build()
				useObj = obj
				o.Class("reuse:rewritten-after-check")
			}
		}
	}
	v := refTransition(x.id, c.App, x.n, cur, cand, actor)
	k := v.k()
	switch {
	case k >= 3:
		o.Class("k:3+")
	default:
		o.Class(fmt.Sprintf("k:%d", k))
	}
	for _, d := range v.detailList() {
		o.Class("viol:" + d)
	}
	if k == 1 {
		o.Class("near-miss:" + v.nearMiss() + ":" + c.App.Kind)
	}
	switch {
	case v.unspecified():
		o.Class("verdict:unspecified")
	case v.acceptable():
		o.Class("verdict:accept")
	default:
		o.Class("verdict:refuse")
	}
	nonIdentity := differsBeyondVersion(cur, cand)
	accepted, f := x.offerObj(o, cur, cand, actor, v, true, mod(c.Cand.Peer, x.n), c.Cand.BadSig, useObj)
	if f != nil {
		return f
	}
	if accepted {
		o.Class("accepted")
		if nonIdentity {
			o.Class("accepted:non-identity")
		}
		// Sig() signs exactly the candidate
		if f := x.completeSigs(cand); f != nil {
			return f
		}
	} else {
		o.Class("refused")
	}
	o.Nontrivial = (k == 1 && !v.unspecified()) || (accepted && nonIdentity)
	return nil
}

func runInit(c Case, o *h.Outcome) *h.Failure {
	x, f := newChan(c)
	if f != nil {
		return f
	}
	al := gen.StateSpec{Alloc: c.Init.Clone()}
	dummy := 0
	for _, m := range c.InitViols {
		if m.apply(&al, al, c.N, &dummy) {
			o.Class("mut:" + m.Kind)
		} else {
			o.Class("mut-inapplicable")
		}
	}
	alloc := al.Alloc
	v := refInit(c.App, c.N, alloc, c.InitData, c.InitOp)
	k := v.k()
	if k >= 3 {
		o.Class("k:3+")
	} else {
		o.Class(fmt.Sprintf("k:%d", k))
	}
	for _, d := range v.detailList() {
		o.Class("viol:" + d)
	}
	if k == 1 {
		o.Class("near-miss:" + v.nearMiss() + ":" + c.App.Kind)
	}
	o.Class("data:" + c.InitData)
	before := takeSnap(x.m)
	var err error
	if f := guard("Init", func() { err = x.m.Init(alloc.Build(), dataFor(c.App, c.InitData, c.InitOp)) }); f != nil {
		return f
	}
	accepted := err == nil
	switch {
	case accepted && !v.acceptable():
		return h.Failf("init-accepts-invalid:"+v.sig(), "Init accepted an allocation/data that violates: %s", v.sig())
	case !accepted && v.acceptable():
		return h.Failf("init-refuses-valid", "Init refused an acceptable initial allocation: %v", err)
	}
	o.Nontrivial = k == 1 || accepted
	if !accepted {
		o.Class("refused")
		if d := before.diff(takeSnap(x.m)); d != "" {
			return h.Failf("refusal-changed-machine", "after a refused Init: %s", d)
		}
		var fail *h.Failure
		if f := guard("Sig", func() {
			if sig, err := x.m.Sig(); err == nil && sig != nil {
				fail = h.Failf("signed-after-refusal", "Sig() returned a signature after a refused Init")
			}
		}); f != nil {
			return f
		}
		return fail
	}
	o.Class("accepted")
	// version 0, the channel's id and app, exactly the offered allocation and data
	want := gen.StateSpec{ID: x.id, Version: 0, App: c.App, Op: c.InitOp, Alloc: alloc}
	st := x.m.StagingState()
	if st == nil {
		return h.Failf("staged-differs", "no staged state after an accepted Init")
	}
	if st.Version != 0 {
		return h.Failf("init-version", "initial state has version %d", st.Version)
	}
	if st.ID != x.params.ID() {
		return h.Failf("init-id", "initial state does not carry the channel's id")
	}
	if st.IsFinal {
		return h.Failf("init-final", "initial state is final")
	}
	if f := x.checkStaged(want, channel.InitSigning); f != nil {
		return f
	}
	return x.completeSigs(want)
}

// ---------------------------------------------------------------- tests

const ruleUpdate = "a real channel.StateMachine (N=2, 20%: N=3; own index any) is opened with a fully signed valid initial state (1-3 assets, optional locked entry, balances from {0,1,small,2^64+-2,<=128 bytes}), advanced by 0-8 by-construction valid updates (pay one/all assets, lock with index map, unlock, move into/out of a locked entry, reorder locked entries, no-op, 8%: a final last step; mock: 5% of the steps set data op 1..3), each judged by the reference and, when accepted, fully signed and enabled; the candidate is a valid successor (same step alphabet, free final flag and data) with k in {0,1,2} mutations from 33 targeted kinds (id; other app kind / definition; version same,+2,-1 (wraps),2^64-1,0; asset changed/added/removed/reordered with and without the rows; backend id; negative balance or locked amount with the total kept; ragged row; column added/removed with the total kept; no rows / empty rows / no assets; row without asset; total +-v in a balance or a locked amount; locked entry with one amount too many/few; actor N, N+1, 65535; actor gains / another participant loses with the total kept) plus the 26 single-field mutations of gen/mutate.go, or (10%) a fully arbitrary state, optionally fitted with the channel's id/app/next version or the current shape. Oracle: reference predicate written from the statement over the plain specs (ref_test.go): Update and CheckUpdate(valid signature of a participant) return nil <=> no condition violated; CheckUpdate with an invalid signature (other key, replayed over the current state, random, bit flip, short, nil) refuses; after acceptance StagingState() encodes like the candidate, phase Signing, Sig() verifies over it; after refusal phase/staged/current transactions unchanged and Sig() yields no signature over the candidate; once a final state is enabled, or (12%) while another accepted successor is staged, Update refuses everything, CheckUpdate still judges against the current state, and Sig() signs only the staged state. non-trivial = exactly one violated condition (near-miss) or an accepted successor that differs from the current state in more than the version; distinct by SHA-256 of the canonical case JSON"

var assumptions = []string{
	"state data is of the app's own type (NoData for no-app/payment, MockOp for MockApp) - states decoded from the wire always are; the payment app documents a panic otherwise",
	"the current state of a MockApp channel never carries op >= 4 (MockApp panics by design there)",
	"Backends has one entry per asset (every decoder guarantees it); allocation limits (1024 assets/participants/locked entries) are not probed",
	"a candidate that differs from an acceptable one only in a backend id is classified 'unspecified', not asserted (the statement says 'keeps the asset list'; the code compares assets and ignores backend ids)",
	"participant keys come from a per-process pool; cases are key-independent; the channel id is recomputed per run",
	"signature arguments index an existing participant (AddSig/CheckUpdate document a panic otherwise)",
}

// runPasses runs the property; when a pass ends with a (shrunk) failure, the
// part is run again with that signature set aside, so that a second, different
// manifestation is still found and shrunk in the same run (at most 3 passes;
// each failing pass writes its own replay file).  A clean first pass is the
// only pass.
func runPasses(t *testing.T, part, rule string, draw func(*rapid.T) Case) {
	seen := map[string]bool{}
	for pass := 1; pass <= 3; pass++ {
		name := part
		if pass > 1 {
			name = fmt.Sprintf("%s-pass%d", part, pass)
		}
		rec := h.Begin("C02", name)
		if pass == 1 {
			rec.SetRule(rule, assumptions...)
		}
		pin := &sigPin{skip: seen}
		ok := t.Run(fmt.Sprintf("pass%d", pass), func(t *testing.T) {
			defer rec.Flush()
			rapid.Check(t, func(rt *rapid.T) {
				c := draw(rt)
				rec.Report(rt, c, pin.filter(runCase(c)))
			})
		})
		if ok || pin.sig == "" {
			return
		}
		seen[family(pin.sig)] = true
	}
}

// family: Update and CheckUpdate accepting the same kind of invalid candidate
// are two observations of one finding.
func family(sig string) string {
	return strings.TrimPrefix(strings.TrimPrefix(sig, "check"), "update-")
}

// sigPin keeps rapid's shrinking on the failure it found first: while
// minimising, a case that fails with a *different* signature does not count as
// a reproduction (otherwise the shrinker drifts from one defect manifestation
// to whichever has the smaller description).  Signatures in skip were reported
// by an earlier pass.
type sigPin struct {
	sig  string
	skip map[string]bool
}

func (p *sigPin) filter(o *h.Outcome) *h.Outcome {
	if o.Fail == nil {
		return o
	}
	switch {
	case p.skip[family(o.Fail.Sig)]:
		o.Class("already-reported:" + o.Fail.Sig)
		o.Fail = nil
	case p.sig == "":
		p.sig = o.Fail.Sig
	case o.Fail.Sig != p.sig:
		o.Class("other-failure-while-shrinking:" + o.Fail.Sig)
		o.Fail = nil
	}
	return o
}

func runPart(t *testing.T, part, app string) {
	runPasses(t, part, ruleUpdate, func(rt *rapid.T) Case { return drawUpdateCase(rt, app) })
}

func TestNoApp(t *testing.T)   { runPart(t, "noapp", "none") }
func TestPayment(t *testing.T) { runPart(t, "payment", "payment") }
func TestMockApp(t *testing.T) { runPart(t, "mock", "mock") }

const ruleInit = "Init on a fresh StateMachine (N=2/3, apps no-app/payment/MockApp): arbitrary allocation (1-4 assets, N or 1-5 columns, 0-3 locked entries with index maps) with k in {0,1,2} shape mutations (negative, ragged, column added/removed, empty, row/locked dimension, ...), data NoData/MockOp(0..3) incl. foreign data for no-app and MockApp. Oracle: accepted <=> well-formed for N participants (one row per asset, one balance per participant, locked entries with one amount per asset, nothing negative, not empty) and the app's init rule (no-app: NoData; payment: any; MockApp: MockOp with op 0); accepted => staged state has version 0, the channel's id, not final, encodes like (id, 0, app, allocation, data), Sig() verifies over it; refused => phase InitActing, nothing staged, Sig() fails. non-trivial = exactly one violated condition, or accepted"

func TestInit(t *testing.T) { runPasses(t, "init", ruleInit, drawInitCase) }

func TestReplay(t *testing.T) {
	p := h.ReplayPath()
	if p == "" {
		t.Skip("no replay requested")
	}
	var c Case
	if err := h.LoadReplay(p, &c); err != nil {
		t.Fatal(err)
	}
	rec := h.Begin("C02", "replay")
	rec.Report(t, c, runCase(c))
}
