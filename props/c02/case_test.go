package c02

// Case description (plain data), the symbolic steps that build a history of
// accepted updates, and the violation alphabet that turns a valid successor
// into a near-miss candidate.

import (
	"math/big"
	"strings"

	"pgregory.net/rapid"

	"verif/gen"
)

// Case is one generated scenario.  Keys, signatures and the channel id are not
// part of it (they depend on the per-process key pool); a state spec whose ID
// is empty means "the channel's id".
type Case struct {
	Mode  string        `json:"mode"` // "update" | "init"
	N     int           `json:"n"`    // participants gen.Acc(0..N-1)
	Own   int           `json:"own"`  // the machine's own index
	App   gen.AppSpec   `json:"app"`
	Nonce uint64        `json:"nonce"`
	Init  gen.AllocSpec `json:"init"` // update mode: valid initial allocation; init mode: the offered one (before InitViols)
	// init mode only
	InitData  string `json:"init_data,omitempty"` // "nodata" | "mockop"
	InitOp    uint64 `json:"init_op,omitempty"`
	InitViols []Viol `json:"init_viols,omitempty"`
	// update mode only
	Steps []Step `json:"steps,omitempty"`
	Cand  *Cand  `json:"cand,omitempty"`
}

// Step is a successor built from the current state so that it is valid by
// construction (amounts are clamped to what is available).
type Step struct {
	Kind  string            `json:"kind"` // pay payall lock unlock relock release noop swaplock
	From  int               `json:"from"`
	To    int               `json:"to"`
	Asset int               `json:"asset"`
	K     int               `json:"k"`
	Amt   gen.Big           `json:"amt"`
	Frac  int               `json:"frac"`           // 0: Amt (clamped), 1: everything, 2: half
	Lock  *gen.SubAllocSpec `json:"lock,omitempty"` // "lock": id, index map, requested amounts (cycled over the assets)
	Op    uint64            `json:"op,omitempty"`   // MockOp data of the successor
	Final bool              `json:"final,omitempty"`
}

// Viol is one targeted mutation of a candidate.  Kinds starting with "g:" are
// the single-field mutations of gen/mutate.go.
type Viol struct {
	Kind string `json:"kind"`
	I    int    `json:"i"`
	J    int    `json:"j"`
	V    uint64 `json:"v"`
}

// Cand is the candidate successor.
type Cand struct {
	Arb    *gen.StateSpec `json:"arb,omitempty"` // fully arbitrary state
	ArbFit int            `json:"arb_fit,omitempty"`
	Base   Step           `json:"base"`
	Staged *Step          `json:"staged,omitempty"` // a valid successor that is staged (not enabled) before the candidate is offered
	Viols  []Viol         `json:"viols,omitempty"`
	Actor  int            `json:"actor"` // used with Arb only
	Peer   int            `json:"peer"`  // whose signature CheckUpdate is given
	BadSig string         `json:"badsig"`
	// Reuse: the candidate reaches Update in a state OBJECT that passed
	// CheckUpdate earlier with other content or against an older current state
	// (1 = an acceptable successor was checked, then the same object was
	// rewritten in place into the candidate; 2 = an acceptable successor of the
	// initial state was checked before the history and is submitted after it)
	Reuse int `json:"reuse,omitempty"`
}

func bigAdd(b gen.Big, d *big.Int) gen.Big { return gen.BigOf(new(big.Int).Add(b.Int(), d)) }
func bigAddI(b gen.Big, d int64) gen.Big   { return bigAdd(b, big.NewInt(d)) }

func (st Step) amount(avail *big.Int) *big.Int {
	switch st.Frac {
	case 1:
		return new(big.Int).Set(avail)
	case 2:
		return new(big.Int).Rsh(avail, 1)
	}
	a := st.Amt.Int()
	if a.Sign() < 0 {
		a.SetInt64(0)
	}
	if a.Cmp(avail) > 0 {
		a.Set(avail)
	}
	return a
}

func mod(i, n int) int {
	if n <= 0 {
		return 0
	}
	i %= n
	if i < 0 {
		i += n
	}
	return i
}

// apply builds the successor of cur (well-formed for n participants) and the
// actor under whom it respects the payment rule.
func (st Step) apply(cur gen.StateSpec, n int) (gen.StateSpec, int) {
	s := cur.Clone()
	s.Version = cur.Version + 1
	s.Final = st.Final
	s.Op = 0
	if s.App.Kind == "mock" {
		s.Op = st.Op
	}
	a := &s.Alloc
	na := len(a.Bals)
	from, to := mod(st.From, n), mod(st.To, n)
	actor := from
	move := func(i, src, dst int) {
		amt := st.amount(a.Bals[i][src].Int())
		a.Bals[i][src] = bigAdd(a.Bals[i][src], new(big.Int).Neg(amt))
		a.Bals[i][dst] = bigAdd(a.Bals[i][dst], amt)
	}
	switch st.Kind {
	case "pay":
		move(mod(st.Asset, na), from, to)
	case "payall":
		for i := 0; i < na; i++ {
			move(i, from, to)
		}
	case "lock":
		l := gen.SubAllocSpec{Bals: make([]gen.Big, na)}
		if st.Lock != nil {
			l.ID, l.NilMap = st.Lock.ID, st.Lock.NilMap
			if st.Lock.IndexMap != nil {
				l.IndexMap = append([]uint16{}, st.Lock.IndexMap...)
			}
		}
		if l.ID == "" {
			l.ID = gen.HexOf(make([]byte, 32))
		}
		for i := 0; i < na; i++ {
			sub := st
			if st.Lock != nil && len(st.Lock.Bals) > 0 {
				sub.Frac, sub.Amt = 0, st.Lock.Bals[i%len(st.Lock.Bals)]
			}
			amt := sub.amount(a.Bals[i][from].Int())
			a.Bals[i][from] = bigAdd(a.Bals[i][from], new(big.Int).Neg(amt))
			l.Bals[i] = gen.BigOf(amt)
		}
		a.Locked = append(a.Locked, l)
	case "unlock":
		if nl := len(a.Locked); nl > 0 {
			k := mod(st.K, nl)
			for i := 0; i < na; i++ {
				a.Bals[i][to] = bigAdd(a.Bals[i][to], a.Locked[k].Bals[i].Int())
			}
			a.Locked = append(a.Locked[:k], a.Locked[k+1:]...)
			actor = (to + 1) % n
		}
	case "relock":
		if nl := len(a.Locked); nl > 0 {
			k, i := mod(st.K, nl), mod(st.Asset, na)
			amt := st.amount(a.Bals[i][from].Int())
			a.Bals[i][from] = bigAdd(a.Bals[i][from], new(big.Int).Neg(amt))
			a.Locked[k].Bals[i] = bigAdd(a.Locked[k].Bals[i], amt)
		}
	case "release":
		if nl := len(a.Locked); nl > 0 {
			k, i := mod(st.K, nl), mod(st.Asset, na)
			amt := st.amount(a.Locked[k].Bals[i].Int())
			a.Locked[k].Bals[i] = bigAdd(a.Locked[k].Bals[i], new(big.Int).Neg(amt))
			a.Bals[i][to] = bigAdd(a.Bals[i][to], amt)
			actor = (to + 1) % n
		}
	case "swaplock":
		if nl := len(a.Locked); nl > 1 {
			x, y := mod(st.K, nl), mod(st.K+1, nl)
			a.Locked[x], a.Locked[y] = a.Locked[y], a.Locked[x]
		}
	case "noop":
	default:
		panic("c02: unknown step kind " + st.Kind)
	}
	return s, actor
}

var stepKinds = []string{"pay", "pay", "pay", "pay", "payall", "payall", "lock", "lock", "unlock", "unlock", "relock", "release", "noop", "swaplock"}

func drawStep(t *rapid.T, n int, app string, label string) Step {
	st := Step{Kind: rapid.SampledFrom(stepKinds).Draw(t, label+"kind")}
	st.From = rapid.IntRange(0, n-1).Draw(t, "from")
	st.To = rapid.IntRange(0, n-1).Draw(t, "to")
	st.Asset = rapid.IntRange(0, 3).Draw(t, "asset")
	st.K = rapid.IntRange(0, 3).Draw(t, "k")
	st.Frac = []int{0, 0, 0, 0, 1, 2}[rapid.IntRange(0, 5).Draw(t, "frac")]
	st.Amt = "0"
	if st.Frac == 0 {
		if rapid.Bool().Draw(t, "smallamt") {
			st.Amt = gen.BigU(rapid.Uint64Range(0, 50).Draw(t, "amt"))
		} else {
			st.Amt = gen.GenBal().Draw(t, "amt")
		}
	}
	if st.Kind == "lock" {
		l := gen.GenIndexMap(n).Draw(t, "imap")
		l.ID = gen.GenID().Draw(t, "lockid")
		if rapid.Bool().Draw(t, "lockamts") {
			nb := rapid.IntRange(1, 3).Draw(t, "nlockamts")
			for i := 0; i < nb; i++ {
				l.Bals = append(l.Bals, gen.BigU(rapid.Uint64Range(0, 300).Draw(t, "lockamt")))
			}
		}
		st.Lock = &l
	}
	return st
}

// ---------------------------------------------------------------- violations

// violKinds: each kind aims at exactly one condition of the statement (the
// reference, not the kind, decides what a candidate violates).
var violKinds = []string{
	"id",
	"app-kind", "app-def",
	"ver-same", "ver+2", "ver-1", "ver-max", "ver-zero",
	"asset-change", "asset-add", "asset-del", "asset-swap", "asset-swap-rows",
	"backend",
	"neg-bal", "neg-lock",
	"ragged", "addpart", "delpart",
	"empty-bals", "empty-rows", "no-assets", "row-add", "row-del",
	"sum+", "sum-", "locksum+", "locksum-",
	"lockdim+", "lockdim-",
	"actor",
	"actor-gains", "other-loses",
}

// allocViolKinds are the kinds that make sense for an initial allocation.
var allocViolKinds = []string{
	"neg-bal", "neg-lock", "ragged", "addpart", "delpart",
	"empty-bals", "empty-rows", "no-assets", "row-add", "row-del",
	"lockdim+", "lockdim-", "backend", "asset-add", "sum+", "locksum+",
	"g:addpart", "g:delpart", "g:addasset", "g:delasset", "g:addlock", "g:dellock", "g:swaprow", "g:imapgrow",
}

func mkDef(first, second byte) gen.Hex {
	d := make([]byte, 64)
	d[0], d[1] = first, second
	return gen.HexOf(d)
}

// apply mutates s (the candidate; cur is the current state, n the participant
// count, *actor the named actor) and reports whether it was applicable.
func (m Viol) apply(s *gen.StateSpec, cur gen.StateSpec, n int, actor *int) bool {
	if strings.HasPrefix(m.Kind, "g:") {
		gm := gen.Mut{Kind: m.Kind[2:], I: m.I, J: m.J, V: m.V}
		if gm.V == 0 {
			gm.V = 1
		}
		ns, ok := safeMut(gm, *s)
		*s = ns
		return ok
	}
	a := &s.Alloc
	na, rows, nl := len(a.Assets), len(a.Bals), len(a.Locked)
	v := int64(m.V)
	if v <= 0 {
		v = 1
	}
	ensureLock := func() {
		if len(a.Locked) == 0 {
			l := gen.SubAllocSpec{ID: mkDef(byte(m.I), 0x4c)[:64], Bals: make([]gen.Big, rows), IndexMap: []uint16{}}
			for i := range l.Bals {
				l.Bals[i] = "0"
			}
			a.Locked = append(a.Locked, l)
			nl = 1
		}
	}
	switch m.Kind {
	case "id":
		b := s.ID.Bytes()
		if len(b) == 0 {
			return false
		}
		b[mod(m.I, len(b))] ^= 1 << uint(mod(m.J, 8))
		s.ID = gen.HexOf(b)
	case "app-kind":
		s.Op = 0
		switch s.App.Kind {
		case "", "none":
			if m.J%2 == 0 {
				s.App = gen.AppSpec{Kind: "mock", Def: mkDef(0x51, byte(m.I))}
			} else {
				s.App = gen.AppSpec{Kind: "payment", Def: mkDef(gen.PaymentDefByte, byte(m.I))}
			}
		case "payment":
			if m.J%2 == 0 {
				s.App = gen.AppSpec{Kind: "none"}
			} else {
				s.App = gen.AppSpec{Kind: "mock", Def: mkDef(0x51, byte(m.I))}
			}
		default:
			if m.J%2 == 0 {
				s.App = gen.AppSpec{Kind: "none"}
			} else {
				s.App = gen.AppSpec{Kind: "payment", Def: mkDef(gen.PaymentDefByte, byte(m.I))}
			}
		}
	case "app-def":
		if s.App.Kind == "" || s.App.Kind == "none" {
			return false
		}
		b := s.App.Def.Bytes()
		b[1+mod(m.I, len(b)-1)] ^= 1 << uint(mod(m.J, 8))
		s.App.Def = gen.HexOf(b)
	case "ver-same":
		s.Version = cur.Version
	case "ver+2":
		s.Version = cur.Version + 2
	case "ver-1":
		s.Version = cur.Version - 1 // wraps to 2^64-1 at version 0
	case "ver-max":
		s.Version = ^uint64(0)
	case "ver-zero":
		s.Version = 0
	case "asset-change":
		if na == 0 {
			return false
		}
		a.Assets[mod(m.I, na)] += uint64(v)
	case "asset-add":
		a.Assets = append(a.Assets, uint64(v))
		a.Backends = append(a.Backends, 0)
		row := make([]gen.Big, n)
		for j := range row {
			row[j] = "0"
		}
		a.Bals = append(a.Bals, row)
		for i := range a.Locked {
			a.Locked[i].Bals = append(a.Locked[i].Bals, "0")
		}
	case "asset-del":
		if na < 2 || rows != na {
			return false
		}
		a.Assets, a.Backends, a.Bals = a.Assets[:na-1], a.Backends[:na-1], a.Bals[:na-1]
		for i := range a.Locked {
			if len(a.Locked[i].Bals) == na {
				a.Locked[i].Bals = a.Locked[i].Bals[:na-1]
			}
		}
	case "asset-swap", "asset-swap-rows":
		if na < 2 {
			return false
		}
		x, y := mod(m.I, na), mod(m.I+1, na)
		if a.Assets[x] == a.Assets[y] {
			return false
		}
		a.Assets[x], a.Assets[y] = a.Assets[y], a.Assets[x]
		if m.Kind == "asset-swap-rows" {
			if rows != na || len(a.Backends) != na {
				return false
			}
			a.Backends[x], a.Backends[y] = a.Backends[y], a.Backends[x]
			a.Bals[x], a.Bals[y] = a.Bals[y], a.Bals[x]
			for i := range a.Locked {
				if len(a.Locked[i].Bals) == na {
					lb := a.Locked[i].Bals
					lb[x], lb[y] = lb[y], lb[x]
				}
			}
		}
	case "backend":
		if len(a.Backends) == 0 {
			return false
		}
		a.Backends[mod(m.I, len(a.Backends))] += int(v)
	case "neg-bal":
		if rows == 0 {
			return false
		}
		row := a.Bals[mod(m.I, rows)]
		if len(row) == 0 {
			return false
		}
		j := mod(m.J, len(row))
		j2 := mod(j+1, len(row))
		old := row[j].Int()
		row[j] = gen.BigOf(big.NewInt(-v))
		if j2 != j {
			row[j2] = bigAdd(row[j2], old.Add(old, big.NewInt(v)))
		}
	case "neg-lock":
		if rows == 0 {
			return false
		}
		ensureLock()
		l := &a.Locked[mod(m.J, nl)]
		if len(l.Bals) == 0 {
			return false
		}
		i := mod(m.I, len(l.Bals))
		old := l.Bals[i].Int()
		l.Bals[i] = gen.BigOf(big.NewInt(-v))
		if i < rows && len(a.Bals[i]) > 0 {
			a.Bals[i][0] = bigAdd(a.Bals[i][0], old.Add(old, big.NewInt(v)))
		}
	case "ragged":
		if rows < 2 {
			return false
		}
		i := mod(m.I, rows)
		row := a.Bals[i]
		if m.V%2 == 0 {
			a.Bals[i] = append(row, "0")
		} else {
			if len(row) == 0 {
				return false
			}
			last := len(row) - 1
			if last > 0 {
				row[0] = bigAdd(row[0], row[last].Int())
			}
			a.Bals[i] = row[:last]
		}
	case "addpart":
		if rows == 0 {
			return false
		}
		for i := range a.Bals {
			a.Bals[i] = append(a.Bals[i], "0")
		}
	case "delpart":
		if rows == 0 {
			return false
		}
		for i := range a.Bals {
			if len(a.Bals[i]) < 2 {
				return false
			}
		}
		for i := range a.Bals {
			row := a.Bals[i]
			last := len(row) - 1
			row[0] = bigAdd(row[0], row[last].Int())
			a.Bals[i] = row[:last]
		}
	case "empty-bals":
		a.Bals = [][]gen.Big{}
	case "empty-rows":
		for i := range a.Bals {
			a.Bals[i] = []gen.Big{}
		}
	case "no-assets":
		a.Assets, a.Backends, a.Bals = []uint64{}, []int{}, [][]gen.Big{}
		for i := range a.Locked {
			a.Locked[i].Bals = []gen.Big{}
		}
	case "row-add":
		row := make([]gen.Big, n)
		for j := range row {
			row[j] = "0"
		}
		a.Bals = append(a.Bals, row)
	case "row-del":
		if rows < 2 {
			return false
		}
		a.Bals = a.Bals[:rows-1]
	case "sum+", "sum-":
		if rows == 0 {
			return false
		}
		row := a.Bals[mod(m.I, rows)]
		if len(row) == 0 {
			return false
		}
		j := mod(m.J, len(row))
		d := v
		if m.Kind == "sum-" {
			// take from a participant that has it, so that only the total changes
			for x := 0; x < len(row); x++ {
				jj := mod(j+x, len(row))
				if row[jj].Int().Cmp(big.NewInt(v)) >= 0 {
					j, d = jj, -v
					break
				}
			}
		}
		row[j] = bigAddI(row[j], d)
	case "locksum+", "locksum-":
		if rows == 0 {
			return false
		}
		ensureLock()
		l := &a.Locked[mod(m.J, nl)]
		if len(l.Bals) == 0 {
			return false
		}
		i := mod(m.I, len(l.Bals))
		d := v
		if m.Kind == "locksum-" && l.Bals[i].Int().Cmp(big.NewInt(v)) >= 0 {
			d = -v
		}
		l.Bals[i] = bigAddI(l.Bals[i], d)
	case "lockdim+":
		ensureLock()
		l := &a.Locked[mod(m.J, nl)]
		l.Bals = append(l.Bals, "0")
	case "lockdim-":
		ensureLock()
		l := &a.Locked[mod(m.J, nl)]
		if len(l.Bals) == 0 {
			return false
		}
		last := len(l.Bals) - 1
		if last < rows && len(a.Bals[last]) > 0 {
			a.Bals[last][0] = bigAdd(a.Bals[last][0], l.Bals[last].Int())
		}
		l.Bals = l.Bals[:last]
	case "actor":
		if m.I%3 == 0 {
			*actor = 0xffff
		} else {
			*actor = n + int(v) - 1
		}
	case "actor-gains":
		// the named actor gains: from a locked entry when there is one with
		// funds (only the actor is affected), else from another participant
		if *actor < 0 || *actor >= n || rows == 0 {
			return false
		}
		i := mod(m.I, rows)
		if len(a.Bals[i]) != n {
			return false
		}
		for k := range a.Locked {
			if i < len(a.Locked[k].Bals) && a.Locked[k].Bals[i].Int().Sign() > 0 {
				amt := minBig(big.NewInt(v), a.Locked[k].Bals[i].Int())
				a.Locked[k].Bals[i] = bigAdd(a.Locked[k].Bals[i], new(big.Int).Neg(amt))
				a.Bals[i][*actor] = bigAdd(a.Bals[i][*actor], amt)
				return true
			}
		}
		for x := 1; x < n; x++ {
			d := mod(*actor+x+m.J, n)
			if d == *actor {
				continue
			}
			if a.Bals[i][d].Int().Sign() > 0 {
				amt := minBig(big.NewInt(v), a.Bals[i][d].Int())
				a.Bals[i][d] = bigAdd(a.Bals[i][d], new(big.Int).Neg(amt))
				a.Bals[i][*actor] = bigAdd(a.Bals[i][*actor], amt)
				return true
			}
		}
		return false
	case "other-loses":
		// a participant other than the actor loses into a locked entry
		if *actor < 0 || *actor >= n || rows == 0 || n < 2 {
			return false
		}
		i := mod(m.I, rows)
		if len(a.Bals[i]) != n {
			return false
		}
		for x := 0; x < n; x++ {
			d := mod(m.J+x, n)
			if d == *actor || a.Bals[i][d].Int().Sign() <= 0 {
				continue
			}
			ensureLock()
			l := &a.Locked[0]
			if i >= len(l.Bals) {
				return false
			}
			amt := minBig(big.NewInt(v), a.Bals[i][d].Int())
			a.Bals[i][d] = bigAdd(a.Bals[i][d], new(big.Int).Neg(amt))
			l.Bals[i] = bigAdd(l.Bals[i], amt)
			return true
		}
		return false
	default:
		panic("c02: unknown violation kind " + m.Kind)
	}
	return true
}

// safeMut applies a generic single-field mutation; on a shape that an earlier
// violation already desynchronised the mutation is inapplicable.
func safeMut(gm gen.Mut, s gen.StateSpec) (ns gen.StateSpec, ok bool) {
	defer func() {
		if recover() != nil {
			ns, ok = s, false
		}
	}()
	return gm.Apply(s)
}

func minBig(a, b *big.Int) *big.Int {
	if a.Cmp(b) < 0 {
		return a
	}
	return b
}

// ---------------------------------------------------------------- drawing

func drawApp(t *rapid.T, kind string) gen.AppSpec {
	switch kind {
	case "payment":
		d := rapid.SliceOfN(rapid.Byte(), 2, 2).Draw(t, "def")
		return gen.AppSpec{Kind: "payment", Def: mkDef(gen.PaymentDefByte, d[1])}
	case "mock":
		d := rapid.SliceOfN(rapid.Byte(), 2, 2).Draw(t, "def")
		return gen.AppSpec{Kind: "mock", Def: mkDef(0x51, d[1])}
	}
	return gen.AppSpec{Kind: "none"}
}

func drawN(t *rapid.T) int {
	return []int{2, 2, 2, 2, 3}[rapid.IntRange(0, 4).Draw(t, "n")]
}

func drawBalGen() *rapid.Generator[gen.Big] {
	return rapid.Custom(func(t *rapid.T) gen.Big {
		if rapid.IntRange(0, 2).Draw(t, "balsrc") == 0 {
			return gen.GenBal().Draw(t, "bal")
		}
		return gen.GenSmallBal().Draw(t, "bal")
	})
}

func drawViol(t *rapid.T, kinds []string) Viol {
	return Viol{
		Kind: rapid.SampledFrom(kinds).Draw(t, "violkind"),
		I:    rapid.IntRange(0, 7).Draw(t, "i"),
		J:    rapid.IntRange(0, 7).Draw(t, "j"),
		V:    uint64(rapid.IntRange(1, 3).Draw(t, "v")),
	}
}

// violKindsFor: the targeted kinds twice, the generic alphabet once; kinds
// whose condition would otherwise be rare as a near-miss get extra weight
// (payment rule kinds only matter for the payment app).
func violKindsFor(app string) []string {
	out := append([]string{}, violKinds...)
	out = append(out, violKinds...)
	for _, k := range gen.MutKinds {
		if k != "none" {
			out = append(out, "g:"+k)
		}
	}
	out = append(out, "actor", "actor", "actor", "sum+", "sum-", "locksum+", "locksum-", "ragged", "ragged", "neg-bal", "neg-bal", "neg-lock", "neg-lock", "delpart", "addpart")
	if app == "payment" {
		out = append(out, "actor-gains", "actor-gains", "actor-gains", "actor-gains", "other-loses", "other-loses", "other-loses", "other-loses", "g:swapbal")
	}
	return out
}

var violKindsByApp = map[string][]string{"none": violKindsFor("none"), "payment": violKindsFor("payment"), "mock": violKindsFor("mock")}

var badSigKinds = []string{"otherkey", "otherstate", "random", "bitflip", "short", "nil"}

func drawUpdateCase(t *rapid.T, app string) Case {
	c := Case{Mode: "update"}
	c.N = drawN(t)
	c.Own = rapid.IntRange(0, c.N-1).Draw(t, "own")
	c.App = drawApp(t, app)
	c.Nonce = rapid.Uint64().Draw(t, "nonce")
	c.Init = gen.GenAlloc(gen.AllocOpts{MinAssets: 1, MaxAssets: 3, Parts: c.N, MaxLocked: 1, Bal: drawBalGen()}).Draw(t, "init")
	// a final last step: the candidate then follows a final state
	finalLast := rapid.IntRange(0, 11).Draw(t, "finalstep") == 11
	// slices are drawn with SliceOfN so that the shrinker can delete elements
	stepGen := rapid.Custom(func(t *rapid.T) Step {
		st := drawStep(t, c.N, app, "step")
		if app == "mock" && rapid.IntRange(0, 19).Draw(t, "badop") == 19 {
			st.Op = uint64(rapid.IntRange(1, 3).Draw(t, "op")) // makes every later transition invalid
		}
		return st
	})
	span := [][2]int{{0, 0}, {0, 2}, {1, 3}, {0, 8}, {2, 5}, {3, 8}}[rapid.IntRange(0, 5).Draw(t, "nsteps")]
	c.Steps = rapid.SliceOfN(stepGen, span[0], span[1]).Draw(t, "steps")
	if len(c.Steps) == 0 {
		c.Steps = nil
	}
	if finalLast {
		if len(c.Steps) == 0 {
			c.Steps = []Step{{Kind: "noop", Amt: "0"}}
		}
		c.Steps[len(c.Steps)-1].Final = true
	}
	cd := &Cand{}
	cd.Peer = rapid.IntRange(0, c.N-1).Draw(t, "peer")
	cd.BadSig = rapid.SampledFrom(badSigKinds).Draw(t, "badsig")
	if rapid.IntRange(0, 7).Draw(t, "whilestaged") == 7 {
		st := drawStep(t, c.N, app, "staged")
		cd.Staged = &st
	}
	if rapid.IntRange(0, 9).Draw(t, "arbitrary") == 9 {
		s := gen.GenState(gen.AllocOpts{MaxLocked: 2}).Draw(t, "arb")
		if s.App.Kind == "mock" && s.App.Def.Bytes()[0] == gen.PaymentDefByte {
			s.App.Def = mkDef(0x51, 1)
		}
		cd.Arb = &s
		cd.ArbFit = rapid.IntRange(0, 2).Draw(t, "arbfit")
		cd.Actor = rapid.IntRange(0, c.N).Draw(t, "actor")
	} else {
		cd.Base = drawStep(t, c.N, app, "base")
		cd.Base.Final = rapid.IntRange(0, 3).Draw(t, "final") == 3
		if app == "mock" {
			if rapid.Bool().Draw(t, "opsmall") {
				cd.Base.Op = uint64(rapid.IntRange(0, 5).Draw(t, "op"))
			} else {
				cd.Base.Op = rapid.Uint64().Draw(t, "op")
			}
		}
		kinds := violKindsByApp[app]
		violGen := rapid.Custom(func(t *rapid.T) Viol { return drawViol(t, kinds) })
		// k = 0 (27%), 1 (46%), 2 (27%)
		lo, hi := 0, 2
		switch rapid.IntRange(0, 10).Draw(t, "kclass") {
		case 0, 1, 2:
			lo, hi = 0, 0
		case 3, 4, 5, 6, 7:
			lo, hi = 1, 1
		case 8, 9, 10:
			lo, hi = 1, 2 // shrinkable to one
		}
		cd.Viols = rapid.SliceOfN(violGen, lo, hi).Draw(t, "viols")
		if len(cd.Viols) == 0 {
			cd.Viols = nil
		}
	}
	cd.Reuse = []int{0, 0, 0, 1, 2}[rapid.IntRange(0, 4).Draw(t, "reuse")]
	c.Cand = cd
	return c
}

func drawInitCase(t *rapid.T) Case {
	c := Case{Mode: "init"}
	c.N = drawN(t)
	c.Own = rapid.IntRange(0, c.N-1).Draw(t, "own")
	c.App = drawApp(t, rapid.SampledFrom([]string{"none", "none", "payment", "mock"}).Draw(t, "app"))
	c.Nonce = rapid.Uint64().Draw(t, "nonce")
	parts := c.N
	if rapid.IntRange(0, 3).Draw(t, "otherparts") == 0 {
		parts = rapid.IntRange(1, 5).Draw(t, "parts")
	}
	c.Init = gen.GenAlloc(gen.AllocOpts{MinAssets: 1, MaxAssets: 4, Parts: parts, MaxLocked: 3, Bal: drawBalGen()}).Draw(t, "alloc")
	k := []int{0, 0, 1, 1, 1, 2}[rapid.IntRange(0, 5).Draw(t, "k")]
	for i := 0; i < k; i++ {
		c.InitViols = append(c.InitViols, drawViol(t, allocViolKinds))
	}
	// data: of the app's own type; the no-app and the MockApp document an error
	// for foreign data, the payment app documents a panic (never generated)
	switch c.App.Kind {
	case "none":
		c.InitData = "nodata"
		if rapid.IntRange(0, 4).Draw(t, "foreign") == 0 {
			c.InitData = "mockop"
		}
	case "payment":
		c.InitData = "nodata"
	case "mock":
		c.InitData = "mockop"
		if rapid.IntRange(0, 5).Draw(t, "foreign") == 0 {
			c.InitData = "nodata"
		}
		c.InitOp = uint64([]int{0, 0, 0, 1, 2, 3}[rapid.IntRange(0, 5).Draw(t, "op")])
	}
	return c
}
