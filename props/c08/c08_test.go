// Package c08: channel opening - both sides derive the same channel; bad
// proposals are dropped (DESIGN.md §3 C08).
package c08

import (
	"bytes"
	"context"
	"fmt"
	"math/big"
	"os"
	"sync/atomic"
	"testing"
	"time"

	"pgregory.net/rapid"

	simchannel "perun.network/go-perun/backend/sim/channel"
	"perun.network/go-perun/channel"
	"perun.network/go-perun/client"
	"perun.network/go-perun/wallet"
	"perun.network/go-perun/wire"
	perunser "perun.network/go-perun/wire/perunio/serializer"
	"perun.network/go-perun/wire/protobuf"

	"verif/gen"
	"verif/h"
	"verif/sim"
)

func TestMain(m *testing.M) {
	gen.Setup()
	code := m.Run()
	h.FlushAll()
	os.Exit(code)
}

func serializer(name string) wire.EnvelopeSerializer {
	switch name {
	case "native":
		return perunser.Serializer()
	case "protobuf":
		return protobuf.Serializer()
	}
	return nil
}

func bal(v uint64) *big.Int { return new(big.Int).SetUint64(v) }

func encParams(p *channel.Params) []byte {
	var b bytes.Buffer
	_ = p.Encode(&b)
	return b.Bytes()
}

func encState(s *channel.State) []byte {
	var b bytes.Buffer
	_ = s.Encode(&b)
	return b.Bytes()
}

const startBalance = 100000

func addrMap(p *sim.Party) map[wallet.BackendID]wallet.Address {
	return map[wallet.BackendID]wallet.Address{0: p.Acc.Address()}
}

// ================================================================ positive part

// OpenCase is a well-formed proposal of one kind with generated parameters.
type OpenCase struct {
	Kind      string      `json:"kind"` // ledger | sub | virtual
	Ser       string      `json:"ser"`
	Assets    int         `json:"assets"`
	Bals      [][2]uint64 `json:"bals"`
	Fund      [][2]uint64 `json:"fund"`
	UseFund   bool        `json:"usefund"`
	App       string      `json:"app"` // none | payment | mock
	Challenge uint64      `json:"challenge"`
	ShareP    gen.Hex     `json:"sharep"`
	ShareR    gen.Hex     `json:"sharer"`
	Aux       gen.Hex     `json:"aux"`
	HoldAcc   bool        `json:"holdacc"` // the acceptance message is held back on the bus for a while (schedule)
	// Rival (ledger only): while the acceptance is held back, the proposer makes
	// a second proposal to a third party, which rejects it at once; the first
	// proposal must not be affected
	Rival bool `json:"rival,omitempty"`
}

func drawOpenCase(t *rapid.T) OpenCase {
	var c OpenCase
	c.Kind = rapid.SampledFrom([]string{"ledger", "ledger", "sub", "virtual"}).Draw(t, "kind")
	c.Ser = rapid.SampledFrom([]string{"", "native", "protobuf"}).Draw(t, "ser")
	c.Assets = []int{1, 1, 2, 3}[rapid.IntRange(0, 3).Draw(t, "assets")]
	if c.Kind == "virtual" {
		c.Assets = 1
	}
	for i := 0; i < c.Assets; i++ {
		a, b := uint64(rapid.IntRange(0, 40).Draw(t, "a")), uint64(rapid.IntRange(0, 40).Draw(t, "b"))
		c.Bals = append(c.Bals, [2]uint64{a, b})
		fa := uint64(rapid.IntRange(0, int(a+b)).Draw(t, "fa"))
		c.Fund = append(c.Fund, [2]uint64{fa, a + b - fa})
	}
	c.UseFund = c.Kind == "ledger" && rapid.Bool().Draw(t, "usefund")
	c.App = rapid.SampledFrom([]string{"none", "none", "payment", "mock"}).Draw(t, "app")
	if c.Kind == "virtual" {
		c.App = "none"
	}
	c.Challenge = rapid.Uint64Range(1, 1000).Draw(t, "challenge")
	c.ShareP = gen.HexOf(rapid.SliceOfN(rapid.Byte(), 32, 32).Draw(t, "sharep"))
	c.ShareR = gen.HexOf(rapid.SliceOfN(rapid.Byte(), 32, 32).Draw(t, "sharer"))
	if rapid.Bool().Draw(t, "hasaux") {
		c.Aux = gen.HexOf(rapid.SliceOfN(rapid.Byte(), 1, 64).Draw(t, "aux"))
	}
	c.HoldAcc = rapid.IntRange(0, 2).Draw(t, "holdacc") == 0
	c.Rival = c.Kind == "ledger" && rapid.IntRange(0, 2).Draw(t, "rival") == 0
	return c
}

func share(hx gen.Hex) (s client.NonceShare) { copy(s[:], hx.Bytes()); return }

func appOf(kind string) (channel.App, channel.Data) {
	switch kind {
	case "payment":
		d := make([]byte, 64)
		d[0] = gen.PaymentDefByte
		sp := gen.AppSpec{Kind: "payment", Def: gen.HexOf(d)}
		return sp.Build(), channel.NoData()
	case "mock":
		d := make([]byte, 64)
		d[0], d[5] = 0x51, 9
		sp := gen.AppSpec{Kind: "mock", Def: gen.HexOf(d)}
		return sp.Build(), channel.NewMockOp(channel.OpValid)
	}
	return channel.NoApp(), channel.NoData()
}

type opened struct {
	ch  *client.Channel
	err error
}

// world3 is Alice, Bob and (for virtual channels) Ingrid.
type world3 struct {
	env     *sim.Env
	a, b, i *sim.Party
}

func newWorld(ser string, withIngrid bool) (*world3, error) {
	env := sim.NewEnv(serializer(ser))
	w := &world3{env: env}
	var err error
	if w.a, err = env.NewParty("A", 0, false); err != nil {
		return nil, err
	}
	if w.b, err = env.NewParty("B", 1, false); err != nil {
		return nil, err
	}
	if withIngrid {
		if w.i, err = env.NewParty("I", 2, false); err != nil {
			return nil, err
		}
	}
	for _, p := range []*sim.Party{w.a, w.b, w.i} {
		if p == nil {
			continue
		}
		for a := 0; a < 3; a++ {
			env.Ledger.Credit(p.Name, p.Acc.Address(), uint64(100+a), big.NewInt(startBalance))
		}
	}
	return w, nil
}

// acceptAll installs a proposal handler that accepts every proposal with the
// given nonce share (sub-channel proposals from a goroutine after the handler
// returned) and reports the channel.
func acceptAll(p *sim.Party, sh client.NonceShare, calls *atomic.Int32) <-chan opened {
	out := make(chan opened, 4)
	p.SetHandlers(func(cp client.ChannelProposal, r *client.ProposalResponder) {
		calls.Add(1)
		ctx, cancel := context.WithTimeout(context.Background(), sim.HangLimit)
		switch m := cp.(type) {
		case *client.LedgerChannelProposalMsg:
			defer cancel()
			ch, err := r.Accept(ctx, m.Accept(addrMap(p), client.WithNonce(sh)))
			out <- opened{ch, err}
		case *client.VirtualChannelProposalMsg:
			defer cancel()
			ch, err := r.Accept(ctx, m.Accept(addrMap(p), client.WithNonce(sh)))
			out <- opened{ch, err}
		case *client.SubChannelProposalMsg:
			go func() {
				defer cancel()
				ch, err := r.Accept(ctx, m.Accept(client.WithNonce(sh)))
				out <- opened{ch, err}
			}()
		}
	}, nil)
	return out
}

func openLedger(proposer, responder *sim.Party, assets []uint64, bals [][2]*big.Int) ([2]*client.Channel, error) {
	var calls atomic.Int32
	var rs client.NonceShare
	rs[0] = 1
	got := acceptAll(responder, rs, &calls)
	prop, err := client.NewLedgerChannelProposal(10, addrMap(proposer), sim.MakeAlloc(assets, bals),
		[]map[wallet.BackendID]wire.Address{proposer.WireAddr, responder.WireAddr}, client.WithRandomNonce())
	if err != nil {
		return [2]*client.Channel{}, err
	}
	ctx, cancel := context.WithTimeout(context.Background(), sim.HangLimit)
	defer cancel()
	ch, err := proposer.Client.ProposeChannel(ctx, prop)
	if err != nil {
		return [2]*client.Channel{}, err
	}
	select {
	case r := <-got:
		return [2]*client.Channel{ch, r.ch}, r.err
	case <-ctx.Done():
		return [2]*client.Channel{}, fmt.Errorf("responder did not finish")
	}
}

func countEvents(p *sim.Party, id channel.ID, kind string, version uint64) int {
	n := 0
	for _, e := range p.Rec.Events() {
		if e.Chan == id && e.Kind == kind && (kind != "enabled" || (e.Cur.State != nil && e.Cur.State.Version == version)) {
			n++
		}
	}
	return n
}

// open performs the opening described by c with the given shares and returns
// both channels.
func open(c OpenCase, shareP, shareR client.NonceShare) (chs [2]*client.Channel, props struct {
	bals  channel.Balances
	data  channel.Data
	parts [2]wallet.Address
}, w *world3, calls int32, fail *h.Failure) {
	w, err := newWorld(c.Ser, c.Kind == "virtual" || c.Rival)
	if err != nil {
		return chs, props, nil, 0, h.Failf("harness", "world: %v", err)
	}
	assets := make([]uint64, c.Assets)
	for i := range assets {
		assets[i] = uint64(100 + i)
	}
	big2 := func(v [][2]uint64) [][2]*big.Int {
		o := make([][2]*big.Int, len(v))
		for i := range v {
			o[i] = [2]*big.Int{bal(v[i][0]), bal(v[i][1])}
		}
		return o
	}
	app, data := appOf(c.App)
	opts := []client.ProposalOpts{client.WithNonce(shareP), client.WithApp(app, data)}
	if c.Aux != "" {
		var aux channel.Aux
		copy(aux[:], c.Aux.Bytes())
		opts = append(opts, client.WithAux(aux))
	}
	var prop client.ChannelProposal
	alloc := sim.MakeAlloc(assets, big2(c.Bals))
	// "the ID depends on a nonce contribution from each side": a proposal made
	// without an explicit share gets a fresh random one - also when a program
	// keeps its options in one value and makes several proposals from it
	{
		single := client.WithApp(app, data)
		peers := []map[wallet.BackendID]wire.Address{w.a.WireAddr, w.b.WireAddr}
		q1, e1 := client.NewLedgerChannelProposal(c.Challenge, addrMap(w.a), alloc, peers, single)
		q2, e2 := client.NewLedgerChannelProposal(c.Challenge, addrMap(w.a), alloc, peers, single)
		if e1 == nil && e2 == nil && q1.NonceShare == q2.NonceShare {
			return chs, props, w, 0, h.Failf("nonce-share-repeated", "two proposals made from the same options value (no explicit nonce) carry the same nonce share %x: the proposer contributes nothing new to the second channel's id", q1.NonceShare[:8])
		}
	}
	switch c.Kind {
	case "ledger":
		if c.UseFund {
			f := make(channel.Balances, len(c.Fund))
			for i := range c.Fund {
				f[i] = []channel.Bal{bal(c.Fund[i][0]), bal(c.Fund[i][1])}
			}
			opts = append(opts, client.WithFundingAgreement(f))
		}
		prop, err = client.NewLedgerChannelProposal(c.Challenge, addrMap(w.a), alloc,
			[]map[wallet.BackendID]wire.Address{w.a.WireAddr, w.b.WireAddr}, opts...)
	case "sub":
		parent, perr := openLedger(w.a, w.b, assets, big2(make40(c.Assets)))
		if perr != nil {
			return chs, props, w, 0, h.Failf("harness-parent", "opening the parent channel: %v", perr)
		}
		prop, err = client.NewSubChannelProposal(parent[0].ID(), c.Challenge, alloc, opts...)
	case "virtual":
		pa, perr := openLedger(w.a, w.i, assets, big2(make40(c.Assets)))
		if perr != nil {
			return chs, props, w, 0, h.Failf("harness-parent", "opening Alice-Ingrid: %v", perr)
		}
		pb, perr := openLedger(w.b, w.i, assets, big2(make40(c.Assets)))
		if perr != nil {
			return chs, props, w, 0, h.Failf("harness-parent", "opening Bob-Ingrid: %v", perr)
		}
		// Ingrid's user handler is never asked: funding proposals are matched automatically
		prop, err = client.NewVirtualChannelProposal(c.Challenge, addrMap(w.a), alloc,
			[]map[wallet.BackendID]wire.Address{w.a.WireAddr, w.b.WireAddr},
			[]channel.ID{pa[0].ID(), pb[0].ID()},
			[][]channel.Index{{0, 1}, {1, 0}}, opts...)
	}
	if err != nil {
		return chs, props, w, 0, h.Failf("harness-proposal", "creating the proposal: %v", err)
	}
	var ncalls atomic.Int32
	got := acceptAll(w.b, shareR, &ncalls)
	var hold *sim.Hold
	if c.HoldAcc {
		hold = w.env.Bus.Hold(func(e *wire.Envelope) bool {
			_, ok := e.Msg.(client.ChannelProposalAccept)
			return ok
		})
		go func() {
			select {
			case <-hold.Caught():
				time.Sleep(3 * time.Millisecond)
			case <-time.After(sim.HangLimit):
			}
			hold.Release()
		}()
	}
	ctx, cancel := context.WithTimeout(context.Background(), sim.HangLimit)
	defer cancel()
	var ch *client.Channel
	if c.Rival && c.Kind == "ledger" {
		rivalHold := w.env.Bus.Hold(func(e *wire.Envelope) bool {
			_, ok := e.Msg.(client.ChannelProposalAccept)
			return ok && hold == nil
		})
		type res struct {
			ch  *client.Channel
			err error
		}
		mainRes := make(chan res, 1)
		go func() {
			ch, err := w.a.Client.ProposeChannel(ctx, prop)
			mainRes <- res{ch, err}
		}()
		select {
		case <-rivalHold.Caught():
		case <-time.After(2 * time.Second):
		}
		// the second proposal of the same proposer, rejected at once by a third party
		w.i.SetHandlers(func(_ client.ChannelProposal, r *client.ProposalResponder) {
			c2, cc := context.WithTimeout(context.Background(), 2*time.Second)
			defer cc()
			_ = r.Reject(c2, "rival proposal rejected")
		}, nil)
		p2, e2 := client.NewLedgerChannelProposal(c.Challenge, addrMap(w.a), sim.MakeAlloc([]uint64{100}, [][2]*big.Int{{bal(1), bal(1)}}),
			[]map[wallet.BackendID]wire.Address{w.a.WireAddr, w.i.WireAddr}, client.WithRandomNonce())
		if e2 == nil {
			c2, cc := context.WithTimeout(context.Background(), 5*time.Second)
			_, _ = w.a.Client.ProposeChannel(c2, p2)
			cc()
		}
		rivalHold.Release()
		r := <-mainRes
		ch, err = r.ch, r.err
	} else {
		ch, err = w.a.Client.ProposeChannel(ctx, prop)
	}
	if err != nil {
		return chs, props, w, ncalls.Load(), h.Failf("open-failed:"+c.Kind, "proposer: opening a well-formed %s channel failed: %v", c.Kind, err)
	}
	select {
	case r := <-got:
		if r.err != nil {
			return chs, props, w, ncalls.Load(), h.Failf("open-failed:"+c.Kind, "responder: opening a well-formed %s channel failed: %v", c.Kind, r.err)
		}
		chs = [2]*client.Channel{ch, r.ch}
	case <-ctx.Done():
		return chs, props, w, ncalls.Load(), h.Failf("open-hang", "responder did not finish opening")
	}
	props.bals = alloc.Balances
	props.data = data
	props.parts = [2]wallet.Address{w.a.Acc.Address(), w.b.Acc.Address()}
	return chs, props, w, ncalls.Load(), nil
}

func make40(n int) [][2]uint64 {
	o := make([][2]uint64, n)
	for i := range o {
		o[i] = [2]uint64{45, 45}
	}
	return o
}

func runOpenCase(c OpenCase) *h.Outcome {
	o := &h.Outcome{}
	o.Class("kind:" + c.Kind)
	o.Class("app:" + c.App)
	if c.Ser != "" {
		o.Class("ser:" + c.Ser)
	}
	chs, props, w, calls, f := open(c, share(c.ShareP), share(c.ShareR))
	if w != nil {
		defer w.env.Close()
	}
	if f != nil {
		o.Fail = f
		return o
	}
	fail := func(sig, format string, args ...any) *h.Outcome {
		o.Fail = h.Failf(sig, format, args...)
		return o
	}
	if calls != 1 {
		return fail("handler-calls", "the responder's proposal handler ran %d times for one proposal", calls)
	}
	pa, pb := chs[0].Params(), chs[1].Params()
	if !bytes.Equal(encParams(pa), encParams(pb)) {
		return fail("params-differ", "proposer and responder derived different channel parameters")
	}
	if pa.ID() != pb.ID() || chs[0].ID() != chs[1].ID() {
		return fail("ids-differ", "proposer and responder derived different channel ids")
	}
	if len(pa.Parts) != 2 || !pa.Parts[0][0].Equal(props.parts[0]) || !pa.Parts[1][0].Equal(props.parts[1]) {
		return fail("participant-order", "participants are not (proposer, responder)")
	}
	if chs[0].Idx() != 0 || chs[1].Idx() != 1 {
		return fail("participant-index", "proposer has index %d, responder %d", chs[0].Idx(), chs[1].Idx())
	}
	if c.Kind != "sub" {
		// sub-channels take the parent's participants; ledger and virtual channels those named in the messages
	}
	if want := sim.CalcNonce(share(c.ShareP), share(c.ShareR)); pa.Nonce.Cmp(want) != 0 {
		return fail("nonce", "channel nonce is not SHA3-256(proposer share || responder share)")
	}
	if pa.ChallengeDuration != c.Challenge {
		return fail("challenge-duration", "challenge duration %d, proposed %d", pa.ChallengeDuration, c.Challenge)
	}
	if pa.LedgerChannel != (c.Kind == "ledger") || pa.VirtualChannel != (c.Kind == "virtual") {
		return fail("channel-kind-flags", "ledger=%v virtual=%v for a %s channel", pa.LedgerChannel, pa.VirtualChannel, c.Kind)
	}
	// version 0 on both sides: equal, equal to the proposal, signed by both
	tx := [2]channel.Transaction{}
	for i, p := range []*sim.Party{w.a, w.b} {
		found := false
		for _, e := range p.Rec.Events() {
			if e.Chan == pa.ID() && e.Kind == "enabled" && e.Cur.State != nil && e.Cur.State.Version == 0 {
				tx[i], found = e.Cur, true
			}
		}
		if !found {
			return fail("no-initial-state", "party %d never enabled version 0", i)
		}
		if n := countEvents(p, pa.ID(), "created", 0); n != 1 {
			return fail("created-events", "party %d persisted ChannelCreated %d times", i, n)
		}
		if n := countEvents(p, pa.ID(), "enabled", 0); n != 1 {
			return fail("enabled-events", "party %d enabled version 0 %d times", i, n)
		}
	}
	if !bytes.Equal(encState(tx[0].State), encState(tx[1].State)) {
		return fail("initial-states-differ", "the two sides hold different version-0 states")
	}
	s0 := tx[0].State
	if s0.ID != pa.ID() || s0.Version != 0 || s0.IsFinal {
		return fail("initial-state-header", "version-0 state has id/version/final %x/%d/%v", s0.ID[:4], s0.Version, s0.IsFinal)
	}
	if !s0.Balances.Equal(props.bals) || len(s0.Locked) != 0 {
		return fail("initial-balances", "version-0 balances are not the proposed initial balances")
	}
	if !bytes.Equal(mustBin(s0.Data), mustBin(props.data)) {
		return fail("initial-data", "version-0 data is not the proposed data")
	}
	for i := 0; i < 2; i++ {
		for j := 0; j < 2; j++ {
			if len(tx[i].Sigs) != 2 {
				return fail("initial-sigs", "party %d holds %d signatures", i, len(tx[i].Sigs))
			}
			ok, err := channel.Verify(pa.Parts[j][0], s0, tx[i].Sigs[j])
			if err != nil || !ok {
				return fail("initial-sigs", "party %d: signature %d on version 0 does not verify", i, j)
			}
		}
	}
	// metamorphic: flipping one bit of either share gives another channel id
	for which := 0; which < 2; which++ {
		sp, sr := share(c.ShareP), share(c.ShareR)
		if which == 0 {
			sp[7] ^= 0x10
		} else {
			sr[7] ^= 0x10
		}
		c2 := c
		c2.HoldAcc = false
		chs2, _, w2, _, f2 := open(c2, sp, sr)
		if w2 != nil {
			w2.env.Close()
		}
		if f2 != nil {
			o.Fail = f2
			return o
		}
		if chs2[0].ID() == pa.ID() {
			return fail("id-ignores-share", "the channel id does not depend on the nonce share of the %s", []string{"proposer", "responder"}[which])
		}
	}
	o.Nontrivial = c.App != "none" || c.Assets >= 2 || c.UseFund || c.HoldAcc || c.Kind != "ledger"
	return o
}

func mustBin(d channel.Data) []byte {
	b, _ := d.MarshalBinary()
	return b
}

// ================================================================ negative part

// BadCase is a well-formed proposal with one validity condition broken (or
// none: the twin that must reach the handler).
type BadCase struct {
	Kind string `json:"kind"` // ledger | sub | virtual
	Mut  string `json:"mut"`
	Ser  string `json:"ser"`
	Busy bool   `json:"busy"` // the parent channel is locked by an update in flight when the proposal arrives
	I    int    `json:"i"`
	// NAssets: number of assets of the parent channels and of the proposal
	// (0 = 1); fund violations hit asset I % NAssets
	NAssets int `json:"nassets,omitempty"`
}

var ledgerMuts = []string{"none", "one-participant", "three-participants", "duration-zero", "ragged", "negative", "empty-balances", "no-assets", "pre-locked",
	"peer0-not-sender", "peer1-not-receiver", "three-peers", "one-peer", "columns-vs-peers", "nil-app"}
var subMuts = []string{"none", "funds-gone-in-flight", "unknown-parent", "other-asset", "other-backend", "more-funds", "more-funds-other-party", "pre-locked", "duration-zero", "three-columns",
	"stranger-sender", "extra-asset", "negative", "ragged"}
var virtualMuts = []string{"none", "funds-gone-in-flight", "unequal-funding", "parents-0", "parents-1", "parents-3", "indexmaps-1", "indexmaps-3", "indexmap-out-of-range", "indexmap-empty",
	"more-funds", "unknown-parent", "other-asset", "duration-zero", "pre-locked", "peer0-not-sender", "peer1-not-receiver", "three-columns", "funding-dims"}

func drawBadCase(t *rapid.T) BadCase {
	var c BadCase
	c.Kind = rapid.SampledFrom([]string{"ledger", "sub", "virtual"}).Draw(t, "kind")
	switch c.Kind {
	case "ledger":
		c.Mut = rapid.SampledFrom(ledgerMuts).Draw(t, "mut")
	case "sub":
		c.Mut = rapid.SampledFrom(subMuts).Draw(t, "mut")
	default:
		c.Mut = rapid.SampledFrom(virtualMuts).Draw(t, "mut")
	}
	c.Ser = rapid.SampledFrom([]string{"", "", "native", "protobuf"}).Draw(t, "ser")
	c.Busy = c.Kind != "ledger" && rapid.IntRange(0, 3).Draw(t, "busy") == 0
	if c.Mut == "funds-gone-in-flight" {
		// a well-formed proposal that the parent covers before, but not after, the
		// update that is in flight when it arrives
		c.Busy = true
	}
	c.I = rapid.IntRange(0, 3).Draw(t, "i")
	c.NAssets = []int{1, 1, 2, 3}[rapid.IntRange(0, 3).Draw(t, "nassets")]
	return c
}

func runBadCase(c BadCase) *h.Outcome {
	o := &h.Outcome{}
	o.Class(c.Kind + ":" + c.Mut)
	fail := func(sig, format string, args ...any) *h.Outcome {
		o.Fail = h.Failf(sig, format, args...)
		return o
	}
	// H is the receiver; M a peer with a ledger channel to H (participant 0 of it);
	// I is Ingrid with a channel to H (H is participant 0 there); S a stranger.
	env := sim.NewEnv(nil) // the serializer is applied per message below so that undecodable mutants are skipped, not errors
	defer env.Close()
	H, err := env.NewParty("H", 1, false)
	if err != nil {
		return fail("harness", "%v", err)
	}
	M, _ := env.NewParty("M", 0, false)
	I, _ := env.NewParty("I", 2, false)
	S, _ := env.NewParty("S", 3, false) // only its address and key are used
	for _, p := range []*sim.Party{H, M, I} {
		env.Ledger.Credit(p.Name, p.Acc.Address(), 100, big.NewInt(startBalance))
	}
	na := c.NAssets
	if na < 1 {
		na = 1
	}
	ai := c.I % na // the asset a funds violation is made in (not always the last one)
	assets := make([]uint64, na)
	b40 := make([][2]*big.Int, na)
	for i := range assets {
		assets[i] = uint64(100 + i)
		b40[i] = [2]*big.Int{bal(40), bal(40)}
		if i > 0 {
			for _, p := range []*sim.Party{H, M, I} {
				env.Ledger.Credit(p.Name, p.Acc.Address(), assets[i], big.NewInt(startBalance))
			}
		}
	}
	if na > 1 {
		o.Class(fmt.Sprintf("bad:assets:%d", na))
	}
	var parentMH, parentHI [2]*client.Channel
	if c.Kind == "sub" {
		if parentMH, err = openLedger(M, H, assets, b40); err != nil {
			return fail("harness-parent", "M-H: %v", err)
		}
	}
	if c.Kind == "virtual" {
		if parentHI, err = openLedger(H, I, assets, b40); err != nil {
			return fail("harness-parent", "H-I: %v", err)
		}
	}
	var calls atomic.Int32
	H.SetHandlers(func(cp client.ChannelProposal, r *client.ProposalResponder) {
		calls.Add(1)
		ctx, cancel := context.WithTimeout(context.Background(), 2*time.Second)
		defer cancel()
		_ = r.Reject(ctx, "recorded")
	}, nil)
	createdBefore := 0
	for _, e := range H.Rec.Events() {
		if e.Kind == "created" {
			createdBefore++
		}
	}

	// ---- the well-formed proposal
	b57 := make([][2]*big.Int, na)
	for i := range b57 {
		b57[i] = [2]*big.Int{bal(5), bal(7)}
	}
	alloc := sim.MakeAlloc(assets, b57)
	sender := M
	var msg wire.Msg
	base := func() client.BaseChannelProposal {
		var b client.BaseChannelProposal
		b.ProposalID[0], b.ProposalID[1] = 0xC8, byte(c.I)
		b.ChallengeDuration = 10
		b.NonceShare[0] = 9
		b.App, b.InitData = channel.NoApp(), channel.NoData()
		b.InitBals = alloc
		b.FundingAgreement = alloc.Balances.Clone()
		return b
	}
	switch c.Kind {
	case "ledger":
		p := &client.LedgerChannelProposalMsg{BaseChannelProposal: base(), Participant: addrMap(M),
			Peers: []map[wallet.BackendID]wire.Address{M.WireAddr, H.WireAddr}}
		switch c.Mut {
		case "none":
		case "one-participant":
			p.InitBals.Balances[0] = p.InitBals.Balances[0][:1]
			p.FundingAgreement[0] = p.FundingAgreement[0][:1]
			p.Peers = p.Peers[:1]
		case "three-participants":
			p.InitBals.Balances[0] = append(p.InitBals.Balances[0], bal(1))
			p.FundingAgreement[0] = append(p.FundingAgreement[0], bal(1))
			p.Peers = append(p.Peers, S.WireAddr)
		case "duration-zero":
			p.ChallengeDuration = 0
		case "ragged":
			p.InitBals.Assets = append(p.InitBals.Assets, &simchannel.Asset{ID: 101})
			p.InitBals.Backends = append(p.InitBals.Backends, 0)
			p.InitBals.Balances = append(p.InitBals.Balances, []channel.Bal{bal(1)})
		case "negative":
			p.InitBals.Balances[0][1] = big.NewInt(-1)
		case "empty-balances":
			p.InitBals.Balances = channel.Balances{}
		case "no-assets":
			p.InitBals.Assets, p.InitBals.Backends = nil, nil
		case "pre-locked":
			p.InitBals.Locked = []channel.SubAlloc{*channel.NewSubAlloc(channel.ID{1}, []channel.Bal{bal(1)}, nil)}
		case "peer0-not-sender":
			p.Peers[0] = S.WireAddr
		case "peer1-not-receiver":
			p.Peers[1] = S.WireAddr
		case "three-peers":
			p.Peers = append(p.Peers, S.WireAddr)
		case "one-peer":
			p.Peers = p.Peers[:1]
		case "columns-vs-peers":
			p.InitBals.Balances[0] = append(p.InitBals.Balances[0], bal(0))
		case "nil-app":
			p.App = nil
		}
		msg = p
	case "sub":
		p := &client.SubChannelProposalMsg{BaseChannelProposal: base(), Parent: parentMH[0].ID()}
		switch c.Mut {
		case "none":
		case "unknown-parent":
			p.Parent[5] ^= 1
		case "other-asset":
			p.InitBals.Assets[0] = &simchannel.Asset{ID: 999}
		case "other-backend":
			p.InitBals.Backends[0] = 1
		case "more-funds":
			p.InitBals.Balances[ai][0] = bal(41)
			p.FundingAgreement = p.InitBals.Balances.Clone()
		case "more-funds-other-party":
			p.InitBals.Balances[ai][1] = bal(41)
			p.FundingAgreement = p.InitBals.Balances.Clone()
		case "pre-locked":
			p.InitBals.Locked = []channel.SubAlloc{*channel.NewSubAlloc(channel.ID{1}, []channel.Bal{bal(1)}, nil)}
		case "duration-zero":
			p.ChallengeDuration = 0
		case "three-columns":
			p.InitBals.Balances[0] = append(p.InitBals.Balances[0], bal(0))
		case "stranger-sender":
			sender = S
		case "extra-asset":
			p.InitBals.Assets = append(p.InitBals.Assets, &simchannel.Asset{ID: 101})
			p.InitBals.Backends = append(p.InitBals.Backends, 0)
			p.InitBals.Balances = append(p.InitBals.Balances, []channel.Bal{bal(1), bal(1)})
		case "negative":
			p.InitBals.Balances[0][0] = big.NewInt(-3)
		case "ragged":
			p.InitBals.Balances[0] = p.InitBals.Balances[0][:1]
		}
		msg = p
	case "virtual":
		sender = S
		var otherParent channel.ID
		otherParent[0] = 0x77
		p := &client.VirtualChannelProposalMsg{BaseChannelProposal: base(), Proposer: addrMap(S),
			Peers:     []map[wallet.BackendID]wire.Address{S.WireAddr, H.WireAddr},
			Parents:   []channel.ID{otherParent, parentHI[0].ID()},
			IndexMaps: [][]channel.Index{{0, 1}, {1, 0}}}
		switch c.Mut {
		case "none":
		case "unequal-funding":
			p.FundingAgreement[0][0], p.FundingAgreement[0][1] = bal(6), bal(6)
		case "parents-0":
			p.Parents = nil
		case "parents-1":
			p.Parents = p.Parents[:1]
		case "parents-3":
			p.Parents = append(p.Parents, otherParent)
		case "indexmaps-1":
			p.IndexMaps = p.IndexMaps[:1]
		case "indexmaps-3":
			p.IndexMaps = append(p.IndexMaps, []channel.Index{0, 1})
		case "indexmap-out-of-range":
			p.IndexMaps[1] = []channel.Index{1, channel.Index(2 + c.I)}
		case "indexmap-empty":
			p.IndexMaps[1] = []channel.Index{}
		case "more-funds":
			p.InitBals.Balances[ai][1] = bal(41) // mapped to H's own balance in the parent
			p.FundingAgreement = p.InitBals.Balances.Clone()
		case "unknown-parent":
			p.Parents[1][5] ^= 1
		case "other-asset":
			p.InitBals.Assets[0] = &simchannel.Asset{ID: 999}
		case "duration-zero":
			p.ChallengeDuration = 0
		case "pre-locked":
			p.InitBals.Locked = []channel.SubAlloc{*channel.NewSubAlloc(channel.ID{1}, []channel.Bal{bal(1)}, nil)}
		case "peer0-not-sender":
			p.Peers[0] = M.WireAddr
		case "peer1-not-receiver":
			p.Peers[1] = M.WireAddr
		case "three-columns":
			p.InitBals.Balances[0] = append(p.InitBals.Balances[0], bal(0))
			p.FundingAgreement = p.InitBals.Balances.Clone()
		case "funding-dims":
			p.FundingAgreement = channel.Balances{{bal(5), bal(7)}, {bal(0), bal(0)}}
		}
		msg = p
	}
	// ---- optional serializer round trip: only decodable messages reach a client
	env2 := &wire.Envelope{Sender: sender.WireAddr, Recipient: H.WireAddr, Msg: msg}
	if ser := serializer(c.Ser); ser != nil {
		var f *h.Failure
		var skip bool
		f = h.Guard(func() *h.Failure {
			var b bytes.Buffer
			if err := ser.Encode(&b, env2); err != nil {
				skip = true
				return nil
			}
			d, err := ser.Decode(&b)
			if err != nil {
				skip = true
				return nil
			}
			env2 = d
			return nil
		})
		if f != nil || skip {
			// not expressible in this wire format (the encoder refuses or panics on it): the
			// condition is then checked on the in-memory value below instead of by delivery
			o.Class("not-expressible:" + c.Ser)
			if cp, ok := msg.(client.ChannelProposal); ok && c.Mut != "none" {
				var verr error
				g := h.Guard(func() *h.Failure { verr = cp.Valid(); return nil })
				if g == nil && verr != nil {
					o.Class("refused-by-Valid")
				}
			}
			return o
		}
		o.Class("ser:" + c.Ser)
	}
	// ---- situation: the parent is locked by an update in flight
	var hold *sim.Hold
	var upd chan error
	if c.Busy {
		parent := parentMH[1]
		if c.Kind == "virtual" {
			parent = parentHI[0]
		}
		hold = env.Bus.Hold(func(e *wire.Envelope) bool { _, ok := e.Msg.(*client.ChannelUpdateAccMsg); return ok })
		upd = make(chan error, 1)
		go func() {
			ctx, cancel := context.WithTimeout(context.Background(), sim.HangLimit)
			defer cancel()
			upd <- parent.Update(ctx, func(s *channel.State) {
				if c.Mut == "funds-gone-in-flight" {
					// the receiver pays 36 of its 40 away: 4 are left, the proposal asks for 7
					sim.Transfer(ai, sim.Idx(parent), bal(36), false)(s)
				}
			})
		}()
		select {
		case <-hold.Caught():
		case <-time.After(sim.HangLimit):
			return fail("harness", "in-flight update not caught")
		}
		o.Class("parent-busy")
	}
	if err := env.Bus.Publish(context.Background(), env2); err != nil {
		return fail("harness", "publishing: %v", err)
	}
	env.Quiesce(15*time.Millisecond, sim.HangLimit)
	if hold != nil {
		hold.Release()
		select {
		case <-upd:
		case <-time.After(sim.HangLimit):
			return fail("parent-locked", "the honest update on the parent did not finish after the proposal was handled")
		}
		env.Quiesce(15*time.Millisecond, sim.HangLimit)
	}
	n := calls.Load()
	created := 0
	for _, e := range H.Rec.Events() {
		if e.Kind == "created" {
			created++
		}
	}
	if c.Mut == "none" {
		if n != 1 {
			return fail("twin-not-delivered", "the well-formed %s proposal did not reach the proposal handler (calls=%d): the negative checks would be vacuous", c.Kind, n)
		}
		o.Class("twin-reached-handler")
		return o
	}
	o.Nontrivial = true
	if n != 0 {
		return fail("bad-proposal-reached-handler:"+c.Kind+":"+c.Mut, "a %s proposal with %s reached the user's proposal handler", c.Kind, c.Mut)
	}
	if created != createdBefore {
		return fail("bad-proposal-created-channel:"+c.Kind+":"+c.Mut, "a %s proposal with %s created a channel", c.Kind, c.Mut)
	}
	return o
}

const openRule = "well-formed ledger, sub-channel and virtual channel (via a hub) proposals with generated assets (1-3), balances, funding agreement with another split, app (none/payment/mock with data), challenge duration, both nonce shares, aux data, serializer (none/native/protobuf) and optionally the acceptance message delayed on the bus, opened between real clients. Oracle: both returned channels have byte-identical parameter encodings and ids, participant order (proposer, responder), nonce == SHA3-256(proposer share || responder share) computed by the harness, ledger/virtual flags, the same version-0 state equal to the proposed balances/data with two valid signatures, ChannelCreated and Enabled(v0) persisted exactly once per side, the proposal handler invoked exactly once; metamorphic: re-running the case with one bit of either nonce share flipped yields another id. non-trivial = app, >= 2 assets, funding agreement, delayed acceptance, or a sub/virtual channel"
const badRule = "a well-formed proposal of each kind with exactly one validity condition of the property's list broken (15 ledger, 13 sub-channel, 18 virtual-channel mutations: participants, challenge duration, ragged/negative/empty/pre-locked allocation, peers vs sender/receiver, unknown parent, other asset/backend, funds above the parent's, funding agreement, parent list length 0/1/3, index-map count/range), sent by a channel peer or a stranger, optionally through a serializer (mutants the format cannot express are checked on Valid() instead) and optionally while the parent channel is locked by an update in flight. Oracle: the user's proposal handler is not invoked, no channel is created, the process stays alive (a panic ends the test process and is attributed by the driver), the honest update on the parent completes; the un-mutated twin must reach the handler. non-trivial = every mutant"

func TestOpen(t *testing.T) {
	rec := h.Begin("C08", "open")
	rec.SetRule(openRule, "goroutine schedules are sampled; the scripted bus is FIFO per link")
	defer rec.Flush()
	rapid.Check(t, func(rt *rapid.T) {
		c := drawOpenCase(rt)
		rec.MarkCurrent(map[string]any{"part": "open", "case": c})
		rec.Report(rt, c, runOpenCase(c))
	})
}

func TestBadProposals(t *testing.T) {
	rec := h.Begin("C08", "bad")
	rec.SetRule(badRule, "negative balances and other values no wire format can express are delivered in memory (no serializer) or checked on ChannelProposal.Valid()")
	defer rec.Flush()
	rapid.Check(t, func(rt *rapid.T) {
		c := drawBadCase(rt)
		rec.MarkCurrent(c)
		rec.Report(rt, c, runBadCase(c))
	})
}

func TestReplay(t *testing.T) {
	p := h.ReplayPath()
	if p == "" {
		t.Skip("no replay requested")
	}
	rec := h.Begin("C08", "replay")
	switch h.ReplayPart(p) {
	case "open":
		var c OpenCase
		if err := h.LoadReplay(p, &c); err != nil {
			t.Fatal(err)
		}
		rec.Report(t, c, runOpenCase(c))
	default:
		var c BadCase
		if err := h.LoadReplay(p, &c); err != nil {
			t.Fatal(err)
		}
		o := runBadCase(c)
		fmt.Println("classes:", o.Classes)
		rec.Report(t, c, o)
	}
}
