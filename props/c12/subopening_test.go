package c12

// Sub-channel variant of the opening attack: the adversary A, participant 0 of
// an established ledger channel with the client H, proposes a sub-channel by
// hand; H accepts.  Instead of (or next to) its version-0 signature A sends
// hostile messages for the sub-channel id and - the point of this variant -
// the funding update on the PARENT channel that H's client was told to expect
// when it accepted the proposal, also after the opening has already failed.

import (
	"bytes"
	"context"
	"fmt"
	"math/big"
	"sync"
	"time"

	"perun.network/go-perun/channel"
	"perun.network/go-perun/client"
	"perun.network/go-perun/wallet"
	"perun.network/go-perun/wire"

	"verif/h"
	"verif/sim"
)

var osubKinds = []string{"rej-v0", "rej-v0", "acc-v0-garbage", "acc-v0-wrong-state", "acc-v0-valid", "acc-v1",
	"parent-funding", "parent-funding", "parent-funding", "parent-funding-again", "update-v1", "sync"}

func runOSubScenario(sc OScenario, idx int, o *h.Outcome, omu *sync.Mutex) *h.Failure {
	class := func(c string) { omu.Lock(); o.Class(c); omu.Unlock() }
	env := sim.NewEnv(nil)
	defer func() { go env.Close() }()
	var err error
	mk := func(name string) *sim.Party {
		p, e := env.NewParty(name, -1, false)
		if e != nil && err == nil {
			err = e
		}
		return p
	}
	H, A, P := mk("H"), mk("A"), mk("P")
	if err != nil {
		return h.Failf("harness", "parties: %v", err)
	}
	for _, p := range []*sim.Party{H, A, P} {
		env.Ledger.Credit(p.Name, p.Acc.Address(), 100, big.NewInt(100000))
	}
	ph, e := openHonest(P, H)
	if e != nil {
		return h.Failf("harness-open", "P-H: %v", e)
	}
	ah, e := openHonest(A, H) // A proposes: it is participant 0 and may propose sub-channels
	if e != nil {
		return h.Failf("harness-open", "A-H: %v", e)
	}
	parentA, parentH := ah[0], ah[1]
	A.SetHandlers(func(client.ChannelProposal, *client.ProposalResponder) {},
		func(*channel.State, client.ChannelUpdate, *client.UpdateResponder) {})
	H.SetHandlers(nil, func(_ *channel.State, _ client.ChannelUpdate, r *client.UpdateResponder) {
		c2, cc := context.WithTimeout(context.Background(), 2*time.Second)
		defer cc()
		_ = r.Accept(c2)
	})
	accepted := H.AcceptSubProposals(openCtx)
	fromH := sim.FromParty(H)

	// ---- the sub-channel proposal, by hand
	var share client.NonceShare
	copy(share[:], []byte(fmt.Sprintf("adversary sub nonce sh. %09d", idx)))
	aI, hI := int(parentA.Idx()), int(parentH.Idx())
	initBals := [][2]*big.Int{{nil, nil}}
	initBals[0][aI], initBals[0][hI] = bal(3), bal(4)
	init := sim.MakeAlloc([]uint64{100}, initBals)
	prop, err := client.NewSubChannelProposal(parentA.ID(), 10, init, client.WithNonce(share))
	if err != nil {
		return h.Failf("harness", "sub-channel proposal: %v", err)
	}
	accs := env.Bus.Collect(func(e *wire.Envelope) bool {
		m, ok := e.Msg.(*client.SubChannelProposalAccMsg)
		return ok && fromH(e) && m.ProposalID == prop.ProposalID
	})
	if err := A.Inject(H, prop); err != nil {
		return h.Failf("harness", "publish: %v", err)
	}
	got := accs.Wait(1, sim.HangLimit)
	if len(got) == 0 {
		return h.Failf("harness", "the client did not accept the adversary's (valid) sub-channel proposal")
	}
	hAcc := got[0].Msg.(*client.SubChannelProposalAccMsg)
	params := channel.NewParamsUnsafe(10, parentA.Params().Parts, channel.NoApp(), sim.CalcNonce(share, hAcc.NonceShare), false, false, channel.ZeroAux)
	cid := params.ID()
	sm, err := channel.NewStateMachine(map[wallet.BackendID]wallet.Account{0: A.Acc}, *params)
	if err != nil {
		return h.Failf("harness", "state machine: %v", err)
	}
	if err := sm.Init(init.Clone(), channel.NoData()); err != nil {
		return h.Failf("harness", "init: %v", err)
	}
	v0 := sm.StagingState().Clone()
	v0sig := A.SignState(v0)
	garbage := wallet.Sig(bytes.Repeat([]byte{9}, 64))
	class("open:sub-channel-proposal-accepted")

	// the funding update on the parent, exactly as the honest proposer would make it
	parentFunding := func() wire.Msg {
		cur := parentA.State()
		if got := make(chan *channel.State, 1); true {
			go func() { got <- parentH.State() }()
			select {
			case s := <-got:
				cur = s
			case <-time.After(40 * time.Millisecond):
			}
		}
		s := cur.Clone()
		s.Version++
		if _, has := s.SubAlloc(cid); has {
			return nil
		}
		for p := 0; p < 2; p++ {
			s.Balances[0][p] = new(big.Int).Sub(s.Balances[0][p], init.Balances[0][p])
			if s.Balances[0][p].Sign() < 0 {
				return nil
			}
		}
		s.Locked = append(s.Locked, *channel.NewSubAlloc(cid, init.Balances.Sum(), nil))
		return &client.ChannelUpdateMsg{ChannelUpdate: client.ChannelUpdate{State: s, ActorIdx: parentA.Idx()}, Sig: A.SignState(s)}
	}
	build := func(m OMsg) wire.Msg {
		switch m.Kind {
		case "rej-v0":
			return &client.ChannelUpdateRejMsg{ChannelID: cid, Version: 0, Reason: "changed my mind"}
		case "acc-v0-garbage":
			return &client.ChannelUpdateAccMsg{ChannelID: cid, Version: 0, Sig: garbage}
		case "acc-v0-wrong-state":
			s := v0.Clone()
			s.Balances[0][0], s.Balances[0][1] = s.Balances[0][1], s.Balances[0][0]
			return &client.ChannelUpdateAccMsg{ChannelID: cid, Version: 0, Sig: A.SignState(s)}
		case "acc-v0-valid":
			return &client.ChannelUpdateAccMsg{ChannelID: cid, Version: 0, Sig: v0sig}
		case "acc-v1":
			return &client.ChannelUpdateAccMsg{ChannelID: cid, Version: 1, Sig: v0sig}
		case "parent-funding", "parent-funding-again":
			return parentFunding()
		case "update-v1":
			s := v0.Clone()
			s.Version = 1
			return &client.ChannelUpdateMsg{ChannelUpdate: client.ChannelUpdate{State: s, ActorIdx: 0}, Sig: A.SignState(s)}
		case "sync":
			return &client.ChannelSyncMsg{Phase: channel.Acting, CurrentTX: channel.Transaction{State: v0.Clone(), Sigs: []wallet.Sig{garbage, garbage}}}
		}
		return nil
	}
	openReturned := false
	var openErr error
	waitOpen := func(limit time.Duration) {
		if openReturned {
			return
		}
		select {
		case openErr = <-accepted:
			openReturned = true
		case <-time.After(limit):
		}
	}
	for _, m := range sc.Msgs {
		if m.Kind == "parent-funding-again" || (m.Kind == "parent-funding" && !m.Early) {
			// after the opening call has come back (failed or not)
			waitOpen(openCtx + 2*time.Second)
			if openReturned {
				class("open:parent-funding-after-the-opening-returned")
			}
		}
		msg := build(m)
		if msg == nil {
			class("not-applicable:opensub/" + m.Kind)
			continue
		}
		env1 := &wire.Envelope{Sender: A.WireAddr, Recipient: H.WireAddr, Msg: msg}
		var dec *wire.Envelope
		g := h.Guard(func() *h.Failure {
			var b bytes.Buffer
			ser := serializer(m.Ser)
			if err := ser.Encode(&b, env1); err != nil {
				return nil
			}
			d, err := ser.Decode(&b)
			if err != nil {
				return nil
			}
			dec = d
			return nil
		})
		if g != nil || dec == nil {
			class("not-expressible:" + m.Ser + ":opensub/" + m.Kind)
			continue
		}
		class("delivered:opensub/" + m.Kind)
		if err := env.Bus.Publish(context.Background(), dec); err != nil {
			return h.Failf("harness", "publish: %v", err)
		}
		env.Quiesce(5*time.Millisecond, sim.HangLimit)
	}
	waitOpen(openCtx + probeLimit)
	if !openReturned {
		return h.Failf("open-hang", "scenario %d: accepting the sub-channel proposal did not return %v after its context had expired", idx, probeLimit)
	}
	if openErr != nil {
		class("open:sub-returned-error")
	} else {
		class("open:sub-returned-channel")
	}
	env.Quiesce(5*time.Millisecond, sim.HangLimit)
	// ---- probes
	for name, ch := range map[string]*client.Channel{"parent channel (with the adversary)": parentH, "channel with the honest peer": ph[1]} {
		done := make(chan struct{})
		go func() { _ = ch.State(); close(done) }()
		select {
		case <-done:
		case <-time.After(probeLimit):
			return h.Failf("channel-locked", "scenario %d: Channel.State() on the %s does not return %v after the hostile sub-channel opening: the machine mutex is held for ever", idx, name, probeLimit)
		}
	}
	ctx, cancel := context.WithTimeout(context.Background(), probeLimit)
	err = ph[0].Update(ctx, sim.Transfer(0, int(ph[0].Idx()), bal(1), false))
	cancel()
	if err != nil {
		return h.Failf("honest-peer-update-failed", "scenario %d: after the hostile sub-channel opening an honest update on the channel with the honest peer failed: %v", idx, err)
	}
	return nil
}
