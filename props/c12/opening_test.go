package c12

// Second part of C12: hostile messages while a channel is being OPENED with the
// adversary.  The adversary takes part in the proposal protocol by hand (it
// accepts the honest client's proposal, or proposes a channel the client
// accepts) and then, instead of (or before, or next to) its version-0
// signature, sends whatever the channel's receivers admit.  Added after the
// seeded change C12-2 (a rejection as answer to the version-0 signature
// exchange) showed that the first part only attacks established channels.

import (
	"bytes"
	"context"
	"fmt"
	"math/big"
	"sync"
	"testing"
	"time"

	"pgregory.net/rapid"

	simchannel "perun.network/go-perun/backend/sim/channel"
	"perun.network/go-perun/channel"
	"perun.network/go-perun/client"
	"perun.network/go-perun/wallet"
	"perun.network/go-perun/wire"

	"verif/h"
	"verif/sim"
)

// OMsg is one message of the adversary during the opening.
type OMsg struct {
	Kind  string `json:"kind"`
	Early bool   `json:"early,omitempty"` // sent before the client's version-0 signature was seen
	Ser   string `json:"ser"`
	S     bool   `json:"stranger,omitempty"` // sent from a stranger's address
}

// OScenario is one opening under attack.
type OScenario struct {
	HProposes bool   `json:"hproposes"`
	Fund      bool   `json:"fund,omitempty"` // the adversary funds its part, so that a completed signature exchange yields a live channel
	Sub       bool   `json:"sub,omitempty"`  // the adversary proposes a SUB-channel of an established ledger channel (subopening_test.go)
	Msgs      []OMsg `json:"msgs"`
}

// OCase is a batch of concurrent opening scenarios.
type OCase struct {
	Scen []OScenario `json:"scen"`
}

var okinds = []string{
	"rej-v0", "rej-v0", "rej-v1", "acc-v0-garbage", "acc-v0-short-sig", "acc-v0-wrong-state", "acc-v1", "acc-v0-valid",
	"update-v1", "update-v1-cols+1", "update-v0", "update-v1-unsigned", "sync", "sync-nil", "propacc-again", "proprej",
	"propacc-sub-kind", "propacc-virtual-kind",
}

func drawOScenario(t *rapid.T) OScenario {
	var s OScenario
	if rapid.IntRange(0, 3).Draw(t, "sub") == 0 {
		s.Sub = true
		if rapid.IntRange(0, 3).Draw(t, "subcompleting") == 0 {
			// the opening completes: valid signature, funding update in time; then more
			s.Msgs = append(s.Msgs, OMsg{Kind: "acc-v0-valid", Ser: "native"}, OMsg{Kind: "parent-funding", Early: true, Ser: "native"})
		}
		n := rapid.IntRange(1, 4).Draw(t, "nmsgs")
		for i := 0; i < n; i++ {
			s.Msgs = append(s.Msgs, OMsg{
				Kind:  rapid.SampledFrom(osubKinds).Draw(t, "kind"),
				Early: rapid.IntRange(0, 3).Draw(t, "early") == 0,
				Ser:   rapid.SampledFrom([]string{"native", "protobuf"}).Draw(t, "ser"),
			})
		}
		return s
	}
	s.HProposes = rapid.Bool().Draw(t, "hproposes")
	s.Fund = rapid.Bool().Draw(t, "fund")
	n := rapid.IntRange(1, 4).Draw(t, "nmsgs")
	// a third of the scenarios complete the signature exchange: only messages
	// that do not answer the version-0 exchange, then the valid signature
	completing := rapid.IntRange(0, 2).Draw(t, "completing") == 0
	kinds := okinds
	if completing {
		kinds = []string{"rej-v1", "acc-v1", "update-v1", "update-v1-cols+1", "update-v0", "update-v1-unsigned", "sync", "sync-nil", "propacc-again"}
		s.Fund = true
	}
	for i := 0; i < n; i++ {
		s.Msgs = append(s.Msgs, OMsg{
			Kind:  rapid.SampledFrom(kinds).Draw(t, "kind"),
			Early: rapid.IntRange(0, 3).Draw(t, "early") == 0,
			Ser:   rapid.SampledFrom([]string{"native", "protobuf"}).Draw(t, "ser"),
			S:     rapid.IntRange(0, 5).Draw(t, "stranger") == 0,
		})
	}
	if completing {
		s.Msgs = append(s.Msgs, OMsg{Kind: "acc-v0-valid", Ser: "native"})
	}
	return s
}

func drawOCase(t *rapid.T) OCase {
	var c OCase
	n := rapid.IntRange(4, 8).Draw(t, "nscen")
	for i := 0; i < n; i++ {
		c.Scen = append(c.Scen, drawOScenario(t))
	}
	return c
}

const openCtx = 1500 * time.Millisecond

// openHonest opens a ledger channel between two honest parties.
func openHonest(prop, resp *sim.Party) ([2]*client.Channel, error) {
	got := make(chan *client.Channel, 1)
	resp.SetHandlers(func(cp client.ChannelProposal, r *client.ProposalResponder) {
		ctx, cancel := context.WithTimeout(context.Background(), sim.HangLimit)
		defer cancel()
		if lp, ok := cp.(*client.LedgerChannelProposalMsg); ok {
			ch, _ := r.Accept(ctx, lp.Accept(addrMap(resp), client.WithRandomNonce()))
			got <- ch
		}
	}, nil)
	p, e := client.NewLedgerChannelProposal(10, addrMap(prop), sim.MakeAlloc([]uint64{100}, [][2]*big.Int{{bal(50), bal(50)}}),
		[]map[wallet.BackendID]wire.Address{prop.WireAddr, resp.WireAddr}, client.WithRandomNonce())
	if e != nil {
		return [2]*client.Channel{}, e
	}
	ctx, cancel := context.WithTimeout(context.Background(), sim.HangLimit)
	defer cancel()
	ch, e := prop.Client.ProposeChannel(ctx, p)
	if e != nil {
		return [2]*client.Channel{}, e
	}
	select {
	case rc := <-got:
		if rc == nil {
			return [2]*client.Channel{}, fmt.Errorf("responder failed")
		}
		return [2]*client.Channel{ch, rc}, nil
	case <-ctx.Done():
		return [2]*client.Channel{}, fmt.Errorf("responder hang")
	}
}

func runOScenario(sc OScenario, idx int, o *h.Outcome, omu *sync.Mutex) *h.Failure {
	class := func(c string) { omu.Lock(); o.Class(c); omu.Unlock() }
	env := sim.NewEnv(nil)
	defer func() { go env.Close() }()
	var err error
	mk := func(name string) *sim.Party {
		p, e := env.NewParty(name, -1, false)
		if e != nil && err == nil {
			err = e
		}
		return p
	}
	H, A, P, S := mk("H"), mk("A"), mk("P"), mk("S")
	if err != nil {
		return h.Failf("harness", "parties: %v", err)
	}
	for _, p := range []*sim.Party{H, A, P} {
		env.Ledger.Credit(p.Name, p.Acc.Address(), 100, big.NewInt(100000))
	}
	ph, e := openHonest(P, H)
	if e != nil {
		return h.Failf("harness-open", "P-H: %v", e)
	}
	H.SetHandlers(nil, func(_ *channel.State, _ client.ChannelUpdate, r *client.UpdateResponder) {
		c2, cc := context.WithTimeout(context.Background(), 2*time.Second)
		defer cc()
		_ = r.Accept(c2)
	})
	// the adversary's own client never answers anything
	A.SetHandlers(func(client.ChannelProposal, *client.ProposalResponder) {},
		func(*channel.State, client.ChannelUpdate, *client.UpdateResponder) {})
	fromH := sim.FromParty(H)
	alloc := sim.MakeAlloc([]uint64{100}, [][2]*big.Int{{bal(40), bal(60)}})
	toA := wire.Keys(A.WireAddr)
	hSigs := env.Bus.Collect(func(e *wire.Envelope) bool {
		m, ok := e.Msg.(*client.ChannelUpdateAccMsg)
		return ok && fromH(e) && wire.Keys(e.Recipient) == toA && m.Version == 0
	})

	// ---- the proposal protocol, the adversary's half by hand
	var share client.NonceShare
	copy(share[:], []byte(fmt.Sprintf("adversary nonce share %011d", idx)))
	var prop *client.LedgerChannelProposalMsg
	var parts []map[wallet.BackendID]wallet.Address
	var hShare, aShare client.NonceShare
	aIdx := channel.Index(1)
	type res struct {
		err  error
		fail *h.Failure
	}
	opened := make(chan res, 1)
	var accMsg *client.LedgerChannelProposalAccMsg
	if sc.HProposes {
		prop, err = client.NewLedgerChannelProposal(10, addrMap(H), alloc,
			[]map[wallet.BackendID]wire.Address{H.WireAddr, A.WireAddr}, client.WithRandomNonce())
		if err != nil {
			return h.Failf("harness", "proposal: %v", err)
		}
		go func() {
			var r res
			r.fail = h.Guard(func() *h.Failure {
				ctx, cancel := context.WithTimeout(context.Background(), openCtx)
				defer cancel()
				_, r.err = H.Client.ProposeChannel(ctx, prop)
				return nil
			})
			opened <- r
		}()
		// wait until the proposal is on the wire (the client is subscribed to the answer by then)
		seen := env.Bus.Collect(func(e *wire.Envelope) bool {
			m, ok := e.Msg.(*client.LedgerChannelProposalMsg)
			return ok && fromH(e) && m.ProposalID == prop.ProposalID
		})
		found := false
		for _, e := range env.Bus.Sent() {
			if m, ok := e.Msg.(*client.LedgerChannelProposalMsg); ok && fromH(e) && m.ProposalID == prop.ProposalID {
				found = true
			}
		}
		if !found && len(seen.Wait(1, sim.HangLimit)) == 0 {
			return h.Failf("harness", "the client's proposal never appeared on the bus")
		}
		hShare, aShare = prop.NonceShare, share
		parts = []map[wallet.BackendID]wallet.Address{addrMap(H), addrMap(A)}
		accMsg = &client.LedgerChannelProposalAccMsg{
			BaseChannelProposalAcc: client.BaseChannelProposalAcc{ProposalID: prop.ProposalID, NonceShare: share},
			Participant:            addrMap(A),
		}
	} else {
		aIdx = 0
		prop, err = client.NewLedgerChannelProposal(10, addrMap(A), alloc,
			[]map[wallet.BackendID]wire.Address{A.WireAddr, H.WireAddr}, client.WithNonce(share))
		if err != nil {
			return h.Failf("harness", "proposal: %v", err)
		}
		H.SetHandlers(func(cp client.ChannelProposal, r *client.ProposalResponder) {
			lp, ok := cp.(*client.LedgerChannelProposalMsg)
			if !ok || lp.ProposalID != prop.ProposalID {
				ctx, cancel := context.WithTimeout(context.Background(), time.Second)
				defer cancel()
				_ = r.Reject(ctx, "no")
				return
			}
			var rr res
			rr.fail = h.Guard(func() *h.Failure {
				ctx, cancel := context.WithTimeout(context.Background(), openCtx)
				defer cancel()
				_, rr.err = r.Accept(ctx, lp.Accept(addrMap(H), client.WithRandomNonce()))
				return nil
			})
			opened <- rr
		}, nil)
		accs := env.Bus.Collect(func(e *wire.Envelope) bool {
			m, ok := e.Msg.(*client.LedgerChannelProposalAccMsg)
			return ok && fromH(e) && m.ProposalID == prop.ProposalID
		})
		if err := A.Inject(H, prop); err != nil {
			return h.Failf("harness", "publish: %v", err)
		}
		got := accs.Wait(1, sim.HangLimit)
		if len(got) == 0 {
			return h.Failf("harness", "the client did not accept the adversary's (valid) ledger channel proposal")
		}
		hAcc := got[0].Msg.(*client.LedgerChannelProposalAccMsg)
		aShare, hShare = share, hAcc.NonceShare
		parts = []map[wallet.BackendID]wallet.Address{addrMap(A), addrMap(H)}
	}
	var nonce channel.Nonce
	if sc.HProposes {
		nonce = sim.CalcNonce(hShare, aShare)
	} else {
		nonce = sim.CalcNonce(aShare, hShare)
	}
	params := channel.NewParamsUnsafe(prop.ChallengeDuration, parts, prop.App, nonce, true, false, prop.Aux)
	cid := params.ID()
	sm, err := channel.NewStateMachine(map[wallet.BackendID]wallet.Account{0: A.Acc}, *params)
	if err != nil {
		return h.Failf("harness", "state machine: %v", err)
	}
	if err := sm.Init(alloc.Clone(), prop.InitData); err != nil {
		return h.Failf("harness", "init: %v", err)
	}
	v0 := sm.StagingState().Clone()
	v0sig := A.SignState(v0)
	garbage := wallet.Sig(bytes.Repeat([]byte{9}, 64))

	build := func(m OMsg) wire.Msg {
		next := func(mod func(*channel.State)) *channel.State {
			s := v0.Clone()
			s.Version = 1
			s.Balances[0][0] = new(big.Int).Sub(s.Balances[0][0], bal(1))
			s.Balances[0][1] = new(big.Int).Add(s.Balances[0][1], bal(1))
			if mod != nil {
				mod(s)
			}
			return s
		}
		upd := func(s *channel.State, sign bool) wire.Msg {
			sig := garbage
			if sign {
				var b bytes.Buffer
				if s.Encode(&b) == nil {
					sig = A.SignState(s)
				}
			}
			return &client.ChannelUpdateMsg{ChannelUpdate: client.ChannelUpdate{State: s, ActorIdx: aIdx}, Sig: sig}
		}
		switch m.Kind {
		case "rej-v0":
			return &client.ChannelUpdateRejMsg{ChannelID: cid, Version: 0, Reason: "changed my mind"}
		case "rej-v1":
			return &client.ChannelUpdateRejMsg{ChannelID: cid, Version: 1, Reason: "changed my mind"}
		case "acc-v0-garbage":
			return &client.ChannelUpdateAccMsg{ChannelID: cid, Version: 0, Sig: garbage}
		case "acc-v0-short-sig":
			return &client.ChannelUpdateAccMsg{ChannelID: cid, Version: 0, Sig: wallet.Sig{1, 2, 3}}
		case "acc-v0-wrong-state":
			s := v0.Clone()
			s.Balances[0][0], s.Balances[0][1] = s.Balances[0][1], s.Balances[0][0]
			return &client.ChannelUpdateAccMsg{ChannelID: cid, Version: 0, Sig: A.SignState(s)}
		case "acc-v1":
			return &client.ChannelUpdateAccMsg{ChannelID: cid, Version: 1, Sig: v0sig}
		case "acc-v0-valid":
			return &client.ChannelUpdateAccMsg{ChannelID: cid, Version: 0, Sig: v0sig}
		case "update-v1":
			return upd(next(nil), true)
		case "update-v1-unsigned":
			return upd(next(nil), false)
		case "update-v1-cols+1":
			return upd(next(func(s *channel.State) { s.Balances[0] = append(s.Balances[0], bal(0)) }), true)
		case "update-v0":
			return upd(v0.Clone(), true)
		case "sync":
			return &client.ChannelSyncMsg{Phase: channel.Acting, CurrentTX: channel.Transaction{State: next(nil), Sigs: []wallet.Sig{garbage, garbage}}}
		case "sync-nil":
			return &client.ChannelSyncMsg{Phase: channel.Acting, CurrentTX: channel.Transaction{State: v0.Clone()}}
		case "propacc-again":
			if accMsg != nil {
				return accMsg
			}
			return &client.LedgerChannelProposalAccMsg{
				BaseChannelProposalAcc: client.BaseChannelProposalAcc{ProposalID: prop.ProposalID, NonceShare: share},
				Participant:            addrMap(A),
			}
		case "proprej":
			return &client.ChannelProposalRejMsg{ProposalID: prop.ProposalID, Reason: "no"}
		case "propacc-sub-kind": // an acceptance for the right proposal id, but of another proposal kind
			return &client.SubChannelProposalAccMsg{BaseChannelProposalAcc: client.BaseChannelProposalAcc{ProposalID: prop.ProposalID, NonceShare: share}}
		case "propacc-virtual-kind":
			return &client.VirtualChannelProposalAccMsg{BaseChannelProposalAcc: client.BaseChannelProposalAcc{ProposalID: prop.ProposalID, NonceShare: share}, Responder: addrMap(A)}
		}
		return nil
	}
	send := func(m OMsg) *h.Failure {
		msg := build(m)
		if msg == nil {
			return nil
		}
		sender := A
		if m.S {
			sender = S
		}
		env1 := &wire.Envelope{Sender: sender.WireAddr, Recipient: H.WireAddr, Msg: msg}
		var dec *wire.Envelope
		g := h.Guard(func() *h.Failure {
			var b bytes.Buffer
			ser := serializer(m.Ser)
			if err := ser.Encode(&b, env1); err != nil {
				return nil
			}
			d, err := ser.Decode(&b)
			if err != nil {
				return nil
			}
			dec = d
			return nil
		})
		if g != nil || dec == nil {
			class("not-expressible:" + m.Ser + ":open/" + m.Kind)
			return nil
		}
		when := "waiting"
		if m.Early {
			when = "early"
		}
		class("delivered:open/" + m.Kind + ":" + when)
		if err := env.Bus.Publish(context.Background(), dec); err != nil {
			return h.Failf("harness", "publish: %v", err)
		}
		env.Quiesce(5*time.Millisecond, sim.HangLimit)
		return nil
	}
	// early messages: before the acceptance reaches the client (H proposes) or
	// right after the client's acceptance (A proposes)
	for _, m := range sc.Msgs {
		if m.Early {
			if f := send(m); f != nil {
				return f
			}
		}
	}
	if sc.HProposes {
		if err := A.Inject(H, accMsg); err != nil {
			return h.Failf("harness", "publish: %v", err)
		}
	}
	// the client's version-0 signature reveals that it is subscribed to the channel
	waiting := false
	if got := hSigs.Wait(1, 400*time.Millisecond); len(got) > 0 {
		m := got[0].Msg.(*client.ChannelUpdateAccMsg)
		if m.ChannelID != cid {
			return h.Failf("harness", "the client opens channel %x, the harness computed %x", m.ChannelID[:4], cid[:4])
		}
		waiting = true
		class("open:client-waits-for-version-0-signature")
	} else {
		class("open:no-version-0-signature-from-client")
	}
	for _, m := range sc.Msgs {
		if !m.Early {
			if f := send(m); f != nil {
				return f
			}
		}
	}
	_ = waiting
	if sc.Fund {
		go func() {
			ctx, cancel := context.WithTimeout(context.Background(), openCtx)
			defer cancel()
			_ = A.View.Fund(ctx, *channel.NewFundingReq(params, v0, aIdx, alloc.Balances.Clone()))
		}()
	}
	// ---- the opening call must come back
	select {
	case r := <-opened:
		if r.fail != nil {
			return h.Failf(r.fail.Sig, "scenario %d: opening a channel with the adversary: %s", idx, r.fail.Msg)
		}
		if r.err != nil {
			class("open:returned-error")
		} else {
			class("open:returned-channel")
			// a live channel with the adversary: it must not be locked up by what was cached
			if ch, err := H.Client.Channel(cid); err == nil {
				done := make(chan struct{})
				go func() { _ = ch.State(); close(done) }()
				select {
				case <-done:
				case <-time.After(probeLimit):
					return h.Failf("channel-locked", "scenario %d: Channel.State() on the freshly opened channel with the adversary does not return", idx)
				}
			}
		}
	case <-time.After(openCtx + probeLimit):
		return h.Failf("open-hang", "scenario %d: the channel opening call did not return %v after its context had expired", idx, probeLimit)
	}
	env.Quiesce(5*time.Millisecond, sim.HangLimit)
	// ---- probes: the client is alive and can still work with honest peers
	done := make(chan struct{})
	go func() { _ = ph[1].State(); close(done) }()
	select {
	case <-done:
	case <-time.After(probeLimit):
		return h.Failf("channel-locked", "scenario %d: Channel.State() on the channel with the honest peer does not return", idx)
	}
	ctx, cancel := context.WithTimeout(context.Background(), probeLimit)
	H.SetHandlers(nil, func(_ *channel.State, _ client.ChannelUpdate, r *client.UpdateResponder) {
		c2, cc := context.WithTimeout(context.Background(), 2*time.Second)
		defer cc()
		_ = r.Accept(c2)
	})
	err = ph[0].Update(ctx, sim.Transfer(0, int(ph[0].Idx()), bal(1), false))
	cancel()
	if err != nil {
		return h.Failf("honest-peer-update-failed", "scenario %d: after the hostile opening an honest update on the channel with the honest peer failed: %v", idx, err)
	}
	if _, e := openHonest(P, H); e != nil {
		return h.Failf("honest-open-failed", "scenario %d: after the hostile opening the client cannot open a channel with an honest peer any more: %v", idx, e)
	}
	return nil
}

func runOCase(c OCase) *h.Outcome {
	o := &h.Outcome{}
	var omu sync.Mutex
	fails := make([]*h.Failure, len(c.Scen))
	var wg sync.WaitGroup
	for i, sc := range c.Scen {
		wg.Add(1)
		go func(i int, sc OScenario) {
			defer wg.Done()
			if sc.Sub {
				fails[i] = runOSubScenario(sc, i, o, &omu)
				return
			}
			fails[i] = runOScenario(sc, i, o, &omu)
		}(i, sc)
	}
	wg.Wait()
	for _, f := range fails {
		if f != nil {
			o.Fail = f
			break
		}
	}
	for _, sc := range c.Scen {
		for _, m := range sc.Msgs {
			if m.Kind != "acc-v0-valid" {
				o.Nontrivial = true
			}
		}
	}
	return o
}

const openRule = "batches of 4-8 concurrent scenarios in which the client H opens a ledger channel with the adversary A, who runs its half of the proposal protocol by hand (H proposes and A's acceptance is crafted, or A's proposal is crafted and H's handler accepts). Before H's version-0 signature is on the wire (early) or while H waits for A's version-0 signature, A (or a stranger) sends 1-4 envelopes for the new channel id, each through the native or the protobuf serializer: update rejections and acceptances for version 0 and 1 (garbage, short, wrong-state and valid signatures), signed and unsigned version-1 and version-0 update requests (also with an extra balance column), sync messages, a repeated proposal acceptance, a late proposal rejection. Oracle: no panic in the opening call (ProposeChannel / ProposalResponder.Accept, run under a recover that turns it into a failure; a panic elsewhere ends the process and is attributed by the driver), the call returns at the latest 20 s after its 1.5 s context expired, and afterwards State() and an honest update on H's channel with an honest peer P and a fresh honest opening P-H succeed. non-trivial = the scenario contains a message other than the valid version-0 signature"

func TestOpening(t *testing.T) {
	rec := h.Begin("C12", "opening")
	rec.SetRule(openRule, "the funding of a channel whose signatures were exchanged is left to time out (the adversary never funds)")
	defer rec.Flush()
	rapid.Check(t, func(rt *rapid.T) {
		c := drawOCase(rt)
		rec.MarkCurrent(c)
		rec.Report(rt, c, runOCase(c))
	})
}

var _ = simchannel.Asset{}
