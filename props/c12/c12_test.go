// Package c12: no message from a remote peer can crash a client or lock up a
// channel (DESIGN.md §3 C12).
package c12

import (
	"bytes"
	"context"
	"fmt"
	"math/big"
	"os"
	"sync"
	"testing"
	"time"

	"pgregory.net/rapid"

	simchannel "perun.network/go-perun/backend/sim/channel"
	"perun.network/go-perun/channel"
	"perun.network/go-perun/client"
	"perun.network/go-perun/wallet"
	"perun.network/go-perun/wire"
	perunser "perun.network/go-perun/wire/perunio/serializer"
	"perun.network/go-perun/wire/protobuf"

	"verif/gen"
	"verif/h"
	"verif/sim"
)

func TestMain(m *testing.M) {
	gen.Setup()
	code := m.Run()
	h.FlushAll()
	os.Exit(code)
}

// Msg is one hostile envelope: a message of Kind built from the live context
// of the scenario with mutation Mut, sent by the channel counterparty M (valid
// keys) or by a stranger S, through serializer Ser.
type Msg struct {
	Kind string `json:"kind"`
	Mut  string `json:"mut"`
	From string `json:"from"` // M | S | U (an address nobody listens on: the client's answers cannot be delivered)
	Ser  string `json:"ser"`  // native | protobuf
	I    int    `json:"i"`
	V    uint64 `json:"v"`
}

// Scenario is one client under attack.
type Scenario struct {
	MProposes bool `json:"mproposes"` // M is participant 0 of the M-H channel
	WithSub   bool `json:"withsub"`
	// Stage of the M-H channel's life when the messages arrive: "" = open,
	// "final" = after a final update, "disputed" = H has registered a dispute
	// and its Settle call is waiting for the challenge period (it is finished
	// after the messages), "closed" = settled, withdrawn and closed by H
	Stage string `json:"stage,omitempty"`
	Msgs  []Msg  `json:"msgs"`
}

// Case is a batch of independent scenarios that run concurrently (the client
// has 10 s protocol constants that cannot be shortened).
type Case struct {
	Scen []Scenario `json:"scen"`
}

var catalog = map[string][]string{
	"sync":       {"nil-tx", "phase-200", "newer-fake", "unknown-channel", "current", "older"},
	"update":     {"valid", "cols+1", "cols-1", "asset+1", "locked-bigmap", "locked-dims", "actor-max", "actor-eq-parts", "actor-honest", "version-max", "sig-garbage", "unknown-channel", "final", "mock-app", "sum+1"},
	"updateacc":  {"current", "next", "zero", "unknown-channel", "sig-garbage"},
	"updaterej":  {"current", "next", "unknown-channel"},
	"propacc":    {"ledger", "sub", "virtual", "rej"},
	"ledgerprop": {"valid", "empty-balances", "one-participant", "peers-3", "huge-assets", "no-participant", "locked"},
	"subprop":    {"valid", "unknown-parent", "cols-3", "empty-balances", "other-channel", "assets-2"},
	"virtprop":   {"valid", "parents-0", "parents-1", "parents-3", "indexmaps-0", "indexmaps-1", "indexmap-big", "indexmap-short", "indexmap-eq-peers", "indexmap-eq-peers-first", "cols-3", "empty-balances", "funding-ragged"},
	"vcfund":     {"valid", "state-3-cols", "state-1-col", "sigs-3", "sigs-1", "indexmap-big", "indexmap-eq-parts", "indexmap-eq-parts-first", "indexmap-3", "indexmap-empty", "not-virtual", "locked", "id-mismatch", "bad-sig", "params-3-parts", "assets-2", "no-suballoc", "parent-invalid"},
	"vcsettle":   {"unallocated", "state-3-cols", "sigs-3", "id-mismatch", "bad-sig", "params-3-parts"},
}

var kinds = []string{"sync", "update", "updateacc", "updaterej", "propacc", "ledgerprop", "subprop", "virtprop", "vcfund", "vcfund", "vcsettle"}

func drawScenario(t *rapid.T) Scenario {
	var s Scenario
	s.MProposes = rapid.Bool().Draw(t, "mproposes")
	s.WithSub = rapid.IntRange(0, 3).Draw(t, "withsub") == 0
	s.Stage = rapid.SampledFrom([]string{"", "", "", "final", "disputed", "closed"}).Draw(t, "stage")
	n := rapid.IntRange(1, 6).Draw(t, "nmsgs")
	for i := 0; i < n; i++ {
		k := rapid.SampledFrom(kinds).Draw(t, "kind")
		m := Msg{Kind: k, Mut: rapid.SampledFrom(catalog[k]).Draw(t, "mut"),
			From: rapid.SampledFrom([]string{"M", "M", "M", "M", "S", "U"}).Draw(t, "from"),
			Ser:  rapid.SampledFrom([]string{"native", "protobuf"}).Draw(t, "ser"),
			I:    rapid.IntRange(0, 3).Draw(t, "i"), V: uint64(rapid.IntRange(1, 3).Draw(t, "v"))}
		s.Msgs = append(s.Msgs, m)
	}
	return s
}

func drawCase(t *rapid.T) Case {
	var c Case
	n := rapid.IntRange(4, 8).Draw(t, "nscen")
	for i := 0; i < n; i++ {
		c.Scen = append(c.Scen, drawScenario(t))
	}
	return c
}

func serializer(name string) wire.EnvelopeSerializer {
	if name == "protobuf" {
		return protobuf.Serializer()
	}
	return perunser.Serializer()
}

func bal(v uint64) *big.Int { return new(big.Int).SetUint64(v) }

func addrMap(p *sim.Party) map[wallet.BackendID]wallet.Address {
	return map[wallet.BackendID]wallet.Address{0: p.Acc.Address()}
}

const probeLimit = 20 * time.Second

type ctxS struct {
	env        *sim.Env
	H, M, P, S *sim.Party
	mh, ph     [2]*client.Channel // [0] = the other party's handle, [1] = H's handle
	sub        *client.Channel    // H's handle of the sub-channel, if any
	v1, v2     *sim.Party         // keys of the adversary's "virtual channel participants"
	lastMu     sync.Mutex
	last       *channel.State
}

// ---------------------------------------------------------------- message construction

// hCur returns H's current state on the M-channel.  While a handler keeps the
// channel's machine mutex (virtual funding proposals do so for 10 s by design)
// State() would block; the last known state is used then, so that hostile
// messages can also arrive while the channel is busy.
func (x *ctxS) hCur() *channel.State {
	got := make(chan *channel.State, 1)
	go func() { got <- x.mh[1].State() }()
	select {
	case s := <-got:
		x.lastMu.Lock()
		x.last = s
		x.lastMu.Unlock()
		return s
	case <-time.After(40 * time.Millisecond):
		x.lastMu.Lock()
		defer x.lastMu.Unlock()
		return x.last.Clone()
	}
}

// signedUpdate builds an update message on the M-H channel from H's current state.
func (x *ctxS) signedUpdate(mod func(*channel.State), sign bool) *client.ChannelUpdateMsg {
	s := x.hCur().Clone()
	s.Version++
	mod(s)
	var sig wallet.Sig = bytes.Repeat([]byte{9}, 64)
	if sign {
		var b bytes.Buffer
		if s.Encode(&b) == nil {
			sig = x.M.SignState(s)
		}
	}
	return &client.ChannelUpdateMsg{ChannelUpdate: client.ChannelUpdate{State: s, ActorIdx: x.mh[0].Idx()}, Sig: sig}
}

// virtualInitial builds a signed "virtual channel" state whose two participants
// are keys of the adversary.
func (x *ctxS) virtualInitial(cols int, nparts int, virtual bool, final bool) channel.SignedState {
	parts := []map[wallet.BackendID]wallet.Address{addrMap(x.v1), addrMap(x.v2)}
	for len(parts) < nparts {
		parts = append(parts, addrMap(x.S))
	}
	params := channel.NewParamsUnsafe(10, parts, channel.NoApp(), big.NewInt(4242), false, virtual, channel.ZeroAux)
	row := make([]channel.Bal, cols)
	for i := range row {
		row[i] = bal(2)
	}
	st := &channel.State{ID: params.ID(), Version: 0, App: channel.NoApp(), Data: channel.NoData(), IsFinal: final,
		Allocation: channel.Allocation{Assets: []channel.Asset{&simchannel.Asset{ID: 100}}, Backends: []wallet.BackendID{0}, Balances: channel.Balances{row}}}
	sigs := []wallet.Sig{x.v1.SignState(st), x.v2.SignState(st)}
	return channel.SignedState{Params: params, State: st, Sigs: sigs}
}

func (x *ctxS) build(m Msg) (wire.Msg, bool) {
	mIdx, hIdx := int(x.mh[0].Idx()), int(x.mh[1].Idx())
	mhID := x.mh[1].ID()
	var unknown channel.ID
	unknown[0], unknown[9] = 0x55, byte(m.I)
	switch m.Kind {
	case "sync":
		cur := x.hCur()
		tx := channel.Transaction{State: cur.Clone(), Sigs: []wallet.Sig{bytes.Repeat([]byte{1}, 64), bytes.Repeat([]byte{2}, 64)}}
		msg := &client.ChannelSyncMsg{Phase: channel.Acting, CurrentTX: tx}
		switch m.Mut {
		case "nil-tx":
			msg.CurrentTX = channel.Transaction{}
		case "phase-200":
			msg.Phase = channel.Phase(200)
		case "newer-fake":
			msg.CurrentTX.State.Version += 5
		case "unknown-channel":
			msg.CurrentTX.State.ID = unknown
		case "older":
			if msg.CurrentTX.State.Version > 0 {
				msg.CurrentTX.State.Version--
			}
		}
		return msg, true
	case "update":
		sign := m.Mut != "sig-garbage"
		um := x.signedUpdate(func(s *channel.State) {
			switch m.Mut {
			case "cols+1":
				s.Balances[0] = append(s.Balances[0], bal(0))
			case "cols-1":
				s.Balances[0] = s.Balances[0][:1]
			case "asset+1":
				s.Assets = append(s.Assets, &simchannel.Asset{ID: 777})
				s.Backends = append(s.Backends, 0)
				s.Balances = append(s.Balances, []channel.Bal{bal(0), bal(0)})
			case "locked-bigmap":
				im := make([]channel.Index, 300)
				for i := range im {
					im[i] = channel.Index(60000 + i)
				}
				s.Balances[0][mIdx] = new(big.Int).Sub(s.Balances[0][mIdx], bal(0))
				s.Locked = append(s.Locked, *channel.NewSubAlloc(unknown, []channel.Bal{bal(0)}, im))
			case "locked-dims":
				s.Locked = append(s.Locked, *channel.NewSubAlloc(unknown, []channel.Bal{bal(0), bal(0), bal(0)}, nil))
			case "version-max":
				s.Version = ^uint64(0)
			case "unknown-channel":
				s.ID = unknown
				s.Version = 1
			case "final":
				s.IsFinal = true
			case "mock-app":
				d := make([]byte, 64)
				d[0] = 0x51
				s.App = gen.AppSpec{Kind: "mock", Def: gen.HexOf(d)}.Build()
				s.Data = channel.NewMockOp(channel.OpPanic)
			case "sum+1":
				s.Balances[0][mIdx] = new(big.Int).Add(s.Balances[0][mIdx], bal(m.V))
			}
		}, sign)
		switch m.Mut {
		case "actor-max":
			um.ActorIdx = 65535
		case "actor-eq-parts": // exactly one past the last participant
			um.ActorIdx = 2
		case "actor-honest":
			um.ActorIdx = channel.Index(hIdx)
		}
		return um, true
	case "updateacc":
		cur := x.hCur()
		msg := &client.ChannelUpdateAccMsg{ChannelID: mhID, Version: cur.Version, Sig: x.M.SignState(cur)}
		switch m.Mut {
		case "next":
			msg.Version++
		case "zero":
			msg.Version = 0
		case "unknown-channel":
			msg.ChannelID = unknown
		case "sig-garbage":
			msg.Sig = bytes.Repeat([]byte{3}, 64)
		}
		return msg, true
	case "updaterej":
		msg := &client.ChannelUpdateRejMsg{ChannelID: mhID, Version: x.hCur().Version, Reason: "no"}
		switch m.Mut {
		case "next":
			msg.Version++
		case "unknown-channel":
			msg.ChannelID = unknown
		}
		return msg, true
	case "propacc":
		var pid client.ProposalID
		pid[0] = byte(m.I)
		base := client.BaseChannelProposalAcc{ProposalID: pid}
		switch m.Mut {
		case "ledger":
			return &client.LedgerChannelProposalAccMsg{BaseChannelProposalAcc: base, Participant: addrMap(x.M)}, true
		case "sub":
			return &client.SubChannelProposalAccMsg{BaseChannelProposalAcc: base}, true
		case "virtual":
			return &client.VirtualChannelProposalAccMsg{BaseChannelProposalAcc: base, Responder: addrMap(x.M)}, true
		default:
			return &client.ChannelProposalRejMsg{ProposalID: pid, Reason: "x"}, true
		}
	}
	// proposals
	sender := x.M
	if m.From == "S" {
		sender = x.S
	}
	alloc := sim.MakeAlloc([]uint64{100}, [][2]*big.Int{{bal(3), bal(4)}})
	mkBase := func() client.BaseChannelProposal {
		var b client.BaseChannelProposal
		b.ProposalID[0], b.ProposalID[1], b.ProposalID[2] = 0xC1, byte(m.I), byte(len(m.Mut))
		b.ChallengeDuration = 10
		b.App, b.InitData = channel.NoApp(), channel.NoData()
		b.InitBals = alloc
		b.FundingAgreement = alloc.Balances.Clone()
		return b
	}
	switch m.Kind {
	case "ledgerprop":
		p := &client.LedgerChannelProposalMsg{BaseChannelProposal: mkBase(), Participant: addrMap(sender),
			Peers: []map[wallet.BackendID]wire.Address{sender.WireAddr, x.H.WireAddr}}
		switch m.Mut {
		case "empty-balances":
			p.InitBals.Balances = channel.Balances{}
			p.FundingAgreement = channel.Balances{}
		case "one-participant":
			p.InitBals.Balances[0] = p.InitBals.Balances[0][:1]
		case "peers-3":
			p.Peers = append(p.Peers, x.S.WireAddr)
		case "huge-assets":
			for i := 0; i < 600; i++ {
				p.InitBals.Assets = append(p.InitBals.Assets, &simchannel.Asset{ID: uint64(1000 + i)})
				p.InitBals.Backends = append(p.InitBals.Backends, 0)
				p.InitBals.Balances = append(p.InitBals.Balances, []channel.Bal{bal(1), bal(1)})
			}
			p.FundingAgreement = p.InitBals.Balances.Clone()
		case "no-participant":
			p.Participant = map[wallet.BackendID]wallet.Address{}
		case "locked":
			p.InitBals.Locked = []channel.SubAlloc{*channel.NewSubAlloc(unknown, []channel.Bal{bal(1)}, []channel.Index{9, 9, 9})}
		}
		return p, true
	case "subprop":
		p := &client.SubChannelProposalMsg{BaseChannelProposal: mkBase(), Parent: mhID}
		switch m.Mut {
		case "unknown-parent":
			p.Parent = unknown
		case "cols-3":
			p.InitBals.Balances[0] = append(p.InitBals.Balances[0], bal(0))
		case "empty-balances":
			p.InitBals.Balances = channel.Balances{}
		case "other-channel":
			p.Parent = x.ph[1].ID()
		case "assets-2":
			p.InitBals.Assets = append(p.InitBals.Assets, &simchannel.Asset{ID: 5})
			p.InitBals.Backends = append(p.InitBals.Backends, 0)
			p.InitBals.Balances = append(p.InitBals.Balances, []channel.Bal{bal(0), bal(0)})
		}
		return p, true
	case "virtprop":
		p := &client.VirtualChannelProposalMsg{BaseChannelProposal: mkBase(), Proposer: addrMap(sender),
			Peers:     []map[wallet.BackendID]wire.Address{sender.WireAddr, x.H.WireAddr},
			Parents:   []channel.ID{unknown, mhID},
			IndexMaps: [][]channel.Index{{0, 1}, {1, 0}}}
		switch m.Mut {
		case "parents-0":
			p.Parents = nil
		case "parents-1":
			p.Parents = p.Parents[:1]
		case "indexmaps-0":
			p.IndexMaps = nil
		case "indexmap-big":
			p.IndexMaps[1] = []channel.Index{7, 65535}
		case "indexmap-short":
			p.IndexMaps[1] = []channel.Index{1}
		case "indexmap-eq-peers": // exactly one past the last participant of the parent
			p.IndexMaps[1] = []channel.Index{1, 2}
		case "indexmap-eq-peers-first":
			p.IndexMaps[1] = []channel.Index{2, 0}
		case "parents-3":
			p.Parents = append(p.Parents, unknown)
		case "indexmaps-1":
			p.IndexMaps = p.IndexMaps[:1]
		case "cols-3":
			p.InitBals.Balances[0] = append(p.InitBals.Balances[0], bal(0))
			p.FundingAgreement = p.InitBals.Balances.Clone()
		case "empty-balances":
			p.InitBals.Balances = channel.Balances{}
			p.FundingAgreement = channel.Balances{}
		case "funding-ragged":
			p.FundingAgreement = channel.Balances{{bal(3)}, {bal(4), bal(0), bal(1)}}
		}
		return p, true
	case "vcfund":
		cols, nparts, virtual := 2, 2, true
		switch m.Mut {
		case "state-3-cols":
			cols = 3
		case "state-1-col":
			cols = 1
		case "not-virtual":
			virtual = false
		case "params-3-parts":
			nparts = 3
		}
		ini := x.virtualInitial(cols, nparts, virtual, false)
		imap := []channel.Index{channel.Index(mIdx), channel.Index(hIdx)}
		switch m.Mut {
		case "sigs-3":
			ini.Sigs = append(ini.Sigs, bytes.Repeat([]byte{5}, 64))
		case "sigs-1":
			ini.Sigs = ini.Sigs[:1]
		case "indexmap-big":
			imap = []channel.Index{channel.Index(mIdx), 7}
		case "indexmap-eq-parts": // exactly one past the last participant
			imap = []channel.Index{channel.Index(mIdx), 2}
		case "indexmap-eq-parts-first":
			imap = []channel.Index{2, channel.Index(hIdx)}
		case "indexmap-3":
			imap = []channel.Index{channel.Index(mIdx), channel.Index(hIdx), channel.Index(mIdx)}
		case "indexmap-empty":
			imap = []channel.Index{}
		case "locked":
			ini.State.Locked = []channel.SubAlloc{*channel.NewSubAlloc(unknown, []channel.Bal{bal(0)}, nil)}
			ini.Sigs = []wallet.Sig{x.v1.SignState(ini.State), x.v2.SignState(ini.State)}
		case "id-mismatch":
			ini.State.ID[3] ^= 1
			ini.Sigs = []wallet.Sig{x.v1.SignState(ini.State), x.v2.SignState(ini.State)}
		case "bad-sig":
			ini.Sigs[1] = bytes.Repeat([]byte{6}, 64)
		case "assets-2":
			ini.State.Assets = append(ini.State.Assets, &simchannel.Asset{ID: 101})
			ini.State.Backends = append(ini.State.Backends, 0)
			ini.State.Balances = append(ini.State.Balances, []channel.Bal{bal(0), bal(0)})
			ini.Sigs = []wallet.Sig{x.v1.SignState(ini.State), x.v2.SignState(ini.State)}
		}
		sum := ini.State.Allocation.Sum()
		upd := x.signedUpdate(func(s *channel.State) {
			if m.Mut == "parent-invalid" {
				s.Balances[0][mIdx] = new(big.Int).Add(s.Balances[0][mIdx], bal(1))
				return
			}
			// every participant of the virtual channel is debited at the parent
			// participant its index-map entry names (an acceptable funding update);
			// entries out of range are taken from the adversary's own balance
			need := new(big.Int).Set(sum[0])
			after := []*big.Int{new(big.Int).Set(s.Balances[0][0]), new(big.Int).Set(s.Balances[0][1])}
			okFunds := len(ini.State.Balances) > 0
			if okFunds {
				for j, vb := range ini.State.Balances[0] {
					p := mIdx
					if j < len(imap) && int(imap[j]) < 2 {
						p = int(imap[j])
					}
					after[p].Sub(after[p], vb)
				}
			}
			if okFunds && after[0].Sign() >= 0 && after[1].Sign() >= 0 {
				s.Balances[0][0], s.Balances[0][1] = after[0], after[1]
			} else {
				need = new(big.Int)
			}
			if m.Mut != "no-suballoc" {
				s.Locked = append(s.Locked, *channel.NewSubAlloc(ini.Params.ID(), []channel.Bal{need}, imap))
			} else {
				s.Balances[0][mIdx] = new(big.Int).Add(s.Balances[0][mIdx], need)
			}
		}, true)
		return &client.VirtualChannelFundingProposalMsg{ChannelUpdateMsg: *upd, Initial: ini, IndexMap: imap}, true
	case "vcsettle":
		cols, nparts := 2, 2
		switch m.Mut {
		case "state-3-cols":
			cols = 3
		case "params-3-parts":
			nparts = 3
		}
		fin := x.virtualInitial(cols, nparts, true, true)
		switch m.Mut {
		case "sigs-3":
			fin.Sigs = append(fin.Sigs, bytes.Repeat([]byte{5}, 64))
		case "id-mismatch":
			fin.State.ID[3] ^= 1
		case "bad-sig":
			fin.Sigs[0] = bytes.Repeat([]byte{6}, 64)
		}
		upd := x.signedUpdate(func(s *channel.State) {}, true)
		return &client.VirtualChannelSettlementProposalMsg{ChannelUpdateMsg: *upd, Final: fin}, true
	}
	return nil, false
}

// ---------------------------------------------------------------- one scenario

func runScenario(sc Scenario, idx int, o *h.Outcome, omu *sync.Mutex) *h.Failure {
	class := func(c string) { omu.Lock(); o.Class(c); omu.Unlock() }
	env := sim.NewEnv(nil)
	defer env.Close()
	env.Bus.BlockOnUnknownRecipient()
	x := &ctxS{env: env}
	var err error
	mk := func(name string, key int) *sim.Party {
		p, e := env.NewParty(name, key, false)
		if e != nil && err == nil {
			err = e
		}
		return p
	}
	x.H, x.M, x.P, x.S = mk("H", -1), mk("M", -1), mk("P", -1), mk("S", -1)
	x.v1, x.v2 = mk("V1", -1), mk("V2", -1)
	if err != nil {
		return h.Failf("harness", "parties: %v", err)
	}
	for _, p := range []*sim.Party{x.H, x.M, x.P} {
		env.Ledger.Credit(p.Name, p.Acc.Address(), 100, big.NewInt(100000))
	}
	open := func(prop, resp *sim.Party) ([2]*client.Channel, error) {
		got := make(chan *client.Channel, 1)
		resp.SetHandlers(func(cp client.ChannelProposal, r *client.ProposalResponder) {
			ctx, cancel := context.WithTimeout(context.Background(), sim.HangLimit)
			defer cancel()
			if lp, ok := cp.(*client.LedgerChannelProposalMsg); ok {
				ch, _ := r.Accept(ctx, lp.Accept(addrMap(resp), client.WithRandomNonce()))
				got <- ch
			}
		}, nil)
		p, e := client.NewLedgerChannelProposal(10, addrMap(prop), sim.MakeAlloc([]uint64{100}, [][2]*big.Int{{bal(50), bal(50)}}),
			[]map[wallet.BackendID]wire.Address{prop.WireAddr, resp.WireAddr}, client.WithRandomNonce())
		if e != nil {
			return [2]*client.Channel{}, e
		}
		ctx, cancel := context.WithTimeout(context.Background(), sim.HangLimit)
		defer cancel()
		ch, e := prop.Client.ProposeChannel(ctx, p)
		if e != nil {
			return [2]*client.Channel{}, e
		}
		select {
		case rc := <-got:
			if rc == nil {
				return [2]*client.Channel{}, fmt.Errorf("responder failed")
			}
			return [2]*client.Channel{ch, rc}, nil
		case <-ctx.Done():
			return [2]*client.Channel{}, fmt.Errorf("responder hang")
		}
	}
	// P-H first (H responds), then M-H
	pc, e := open(x.P, x.H)
	if e != nil {
		return h.Failf("harness-open", "P-H: %v", e)
	}
	x.ph = pc
	if sc.MProposes {
		mc, e := open(x.M, x.H)
		if e != nil {
			return h.Failf("harness-open", "M-H: %v", e)
		}
		x.mh = mc
	} else {
		mc, e := open(x.H, x.M)
		if e != nil {
			return h.Failf("harness-open", "H-M: %v", e)
		}
		x.mh = [2]*client.Channel{mc[1], mc[0]}
	}
	x.last = x.mh[1].State()
	// H's handlers: reject proposals, accept updates
	x.H.SetHandlers(func(_ client.ChannelProposal, r *client.ProposalResponder) {
		ctx, cancel := context.WithTimeout(context.Background(), 2*time.Second)
		defer cancel()
		_ = r.Reject(ctx, "no")
	}, func(_ *channel.State, _ client.ChannelUpdate, r *client.UpdateResponder) {
		ctx, cancel := context.WithTimeout(context.Background(), 2*time.Second)
		defer cancel()
		_ = r.Accept(ctx)
	})
	// ---- life stage of the M-H channel
	var settled chan error
	startSettle := func() {
		settled = make(chan error, 1)
		go func() {
			ctx, cancel := context.WithTimeout(context.Background(), 2*probeLimit)
			defer cancel()
			settled <- x.mh[1].Settle(ctx, false)
		}()
	}
	finishSettle := func() *h.Failure {
		deadline := time.After(2*probeLimit + 5*time.Second)
		for {
			select {
			case <-settled:
				return nil
			case <-time.After(3 * time.Millisecond):
				env.AdvanceIfParked()
			case <-deadline:
				return h.Failf("settle-hang", "scenario %d: H's own Settle call on the channel with the adversary does not return", idx)
			}
		}
	}
	switch sc.Stage {
	case "final":
		ctx, cancel := context.WithTimeout(context.Background(), probeLimit)
		err := x.mh[0].Update(ctx, func(s *channel.State) { s.IsFinal = true })
		cancel()
		if err != nil {
			return h.Failf("harness", "final update before the attack: %v", err)
		}
		env.Quiesce(8*time.Millisecond, sim.HangLimit)
		x.last = x.mh[1].State()
	case "disputed":
		startSettle()
		// wait until the dispute is on the ledger and H is parked on the clock
		for i := 0; i < 400; i++ {
			if n, _ := env.Ledger.Clock.Waiters(); n > 0 {
				break
			}
			time.Sleep(2 * time.Millisecond)
		}
	case "closed":
		startSettle()
		if f := finishSettle(); f != nil {
			return f
		}
		_ = x.mh[1].Close()
	}
	if sc.Stage != "" {
		class("stage:" + sc.Stage)
	}
	slow := 0
	for _, m := range sc.Msgs {
		var msg wire.Msg
		var ok bool
		if f := h.Guard(func() *h.Failure { msg, ok = x.build(m); return nil }); f != nil {
			return h.Failf("harness-build", "building %s/%s: %s", m.Kind, m.Mut, f.Msg)
		}
		if !ok {
			continue
		}
		sender := x.M
		if m.From == "S" || m.Kind == "sync" {
			// sync messages always come from the stranger's address (the handler does
			// not look at the sender): M is a real client here, and two live clients
			// answer each other's sync replies for ever, which only burns CPU
			sender = x.S
		}
		senderAddr := sender.WireAddr
		if m.From == "U" {
			// nobody listens on this address: whatever H answers waits for its own
			// context (the bus keeps "dialling", as a network bus does)
			senderAddr = sim.WireAddrOf(fmt.Sprintf("unreachable-%d", idx))
			class("from-unreachable:" + m.Kind)
			if m.Kind == "sync" {
				slow++ // the reply is tried for the client's 10 s reply window while the channel is kept
			}
		}
		env1 := &wire.Envelope{Sender: senderAddr, Recipient: x.H.WireAddr, Msg: msg}
		// only decodable messages reach a client
		var dec *wire.Envelope
		g := h.Guard(func() *h.Failure {
			var b bytes.Buffer
			ser := serializer(m.Ser)
			if err := ser.Encode(&b, env1); err != nil {
				return nil
			}
			d, err := ser.Decode(&b)
			if err != nil {
				return nil
			}
			dec = d
			return nil
		})
		if g != nil || dec == nil {
			class("not-expressible:" + m.Ser + ":" + m.Kind + "/" + m.Mut)
			continue
		}
		class("delivered:" + m.Kind + "/" + m.Mut)
		if m.Kind == "vcfund" || m.Kind == "vcsettle" {
			slow++
		}
		if err := env.Bus.Publish(context.Background(), dec); err != nil {
			return h.Failf("harness", "publish: %v", err)
		}
		env.Quiesce(8*time.Millisecond, sim.HangLimit)
	}
	if slow > 0 {
		// virtual funding/settlement handlers legitimately keep the channel for their
		// 10 s matching window, one after the other; a handler that then blocks for
		// ever (or a lock released by the wrong goroutine) shows only afterwards
		class("slow-scenario")
		if slow > 3 {
			slow = 3
		}
		time.Sleep(time.Duration(slow)*10500*time.Millisecond + time.Second)
	} else {
		time.Sleep(100 * time.Millisecond)
	}
	if sc.Stage == "disputed" {
		if f := finishSettle(); f != nil {
			return f
		}
	}
	// ---- probes
	// 1. State() returns on every channel of H
	for name, ch := range map[string]*client.Channel{"M-channel": x.mh[1], "P-channel": x.ph[1]} {
		done := make(chan struct{})
		go func() { _ = ch.State(); close(done) }()
		select {
		case <-done:
		case <-time.After(probeLimit):
			return h.Failf("channel-locked", "scenario %d: Channel.State() on the %s does not return %v after the hostile messages: the machine mutex is held for ever", idx, name, probeLimit)
		}
	}
	// 2. an honest update by P completes
	ctx, cancel := context.WithTimeout(context.Background(), probeLimit)
	err = x.ph[0].Update(ctx, sim.Transfer(0, int(x.ph[0].Idx()), bal(1), false))
	cancel()
	if err != nil {
		return h.Failf("honest-peer-update-failed", "scenario %d: after the hostile messages an honest update on the channel with the honest peer failed: %v", idx, err)
	}
	// 3. a valid update by M is answered, if the channel still admits updates
	cur := x.mh[1].State()
	if ph := x.mh[1].Phase(); ph == channel.Acting && !cur.IsFinal {
		fromH := sim.FromParty(x.H)
		id := cur.ID
		next := cur.Version + 1
		answers := env.Bus.Collect(func(e *wire.Envelope) bool {
			switch a := e.Msg.(type) {
			case *client.ChannelUpdateAccMsg:
				return fromH(e) && a.ChannelID == id && a.Version == next
			case *client.ChannelUpdateRejMsg:
				return fromH(e) && a.ChannelID == id && a.Version == next
			}
			return false
		})
		probe := x.signedUpdate(func(s *channel.State) {}, true)
		_ = x.M.Inject(x.H, probe)
		if got := answers.Wait(1, probeLimit); len(got) == 0 {
			return h.Failf("peer-update-unanswered", "scenario %d: a valid update of the counterparty is neither accepted nor rejected within %v after the hostile messages (phase %v)", idx, probeLimit, x.mh[1].Phase())
		}
		class("probe:peer-update-answered")
	} else {
		class("probe:peer-update-skipped")
	}
	return nil
}

func runCase(c Case) *h.Outcome {
	o := &h.Outcome{}
	var omu sync.Mutex
	fails := make([]*h.Failure, len(c.Scen))
	var wg sync.WaitGroup
	for i, sc := range c.Scen {
		wg.Add(1)
		go func(i int, sc Scenario) {
			defer wg.Done()
			fails[i] = runScenario(sc, i, o, &omu)
		}(i, sc)
	}
	wg.Wait()
	for _, f := range fails {
		if f != nil {
			o.Fail = f
			break
		}
	}
	for _, sc := range c.Scen {
		for _, m := range sc.Msgs {
			if m.Mut != "valid" && m.Mut != "current" {
				o.Nontrivial = true
			}
		}
	}
	return o
}

const rule = "batches of 4-8 independent scenarios run concurrently. In each a client H has a ledger channel with the adversary M (valid keys; either side proposer) and one with an honest peer P, and receives 1-6 envelopes from M or from a stranger S: sync messages (empty transaction, phase 200, fake newer state, unknown channel), updates signed by M with dimension mismatches (balance columns, extra asset, locked entries with 300-entry index maps or wrong dimensions), actor 65535, version 2^64-1, foreign app; update and proposal responses for unknown/answered requests; ledger/sub/virtual proposals with empty balances, 600 assets, parent lists and index maps of any length and range; virtual channel funding and settlement proposals carrying a virtual state validly signed by two adversary keys with mismatching signature count, participant count, balance columns, index-map length/range, flags and ids. Every envelope passes the native or the protobuf serializer and is delivered only if it decodes. Oracle: the process stays alive (a panic ends the test process; the driver attributes it to the batch in flight); after a settle period (10.5 s per delivered virtual funding/settlement proposal, at most three, plus 1 s, because their handlers keep the channel for the 10 s matching window one after the other by design) Channel.State() returns on both channels within 20 s, an honest update by P completes, and a valid update by M is accepted or rejected. non-trivial = the batch contains a mutated message"

func TestHostile(t *testing.T) {
	rec := h.Begin("C12", "")
	rec.SetRule(rule,
		"'bounded time' is checked as 'no hang within 20 s' for operations that take microseconds; the 10 s protocol constants of the client cannot be shortened, so slow scenarios run concurrently in batches",
		"only the crash and lock-up clauses are checked here; what a client signs is C07, whether a bad proposal reaches the handler is C08")
	defer rec.Flush()
	rapid.Check(t, func(rt *rapid.T) {
		c := drawCase(rt)
		rec.MarkCurrent(c)
		rec.Report(rt, c, runCase(c))
	})
}

func TestReplay(t *testing.T) {
	p := h.ReplayPath()
	if p == "" {
		t.Skip("no replay requested")
	}
	var c Case
	if err := h.LoadReplay(p, &c); err != nil {
		t.Fatal(err)
	}
	rec := h.Begin("C12", "replay")
	if h.ReplayPart(p) == "hub" {
		var hc HubCase
		if err := h.LoadReplay(p, &hc); err != nil {
			t.Fatal(err)
		}
		rec.MarkCurrent(hc)
		o := runHubCase(hc)
		fmt.Println("classes:", o.Classes)
		rec.Report(t, hc, o)
		return
	}
	if h.ReplayPart(p) == "endpoint" {
		var ec EPCase
		if err := h.LoadReplay(p, &ec); err != nil {
			t.Fatal(err)
		}
		rec.MarkCurrent(ec)
		o := runEPCase(ec)
		fmt.Println("classes:", o.Classes)
		rec.Report(t, ec, o)
		return
	}
	if h.ReplayPart(p) == "opening" {
		var oc OCase
		if err := h.LoadReplay(p, &oc); err != nil {
			t.Fatal(err)
		}
		rec.MarkCurrent(oc)
		o := runOCase(oc)
		fmt.Println("classes:", o.Classes)
		rec.Report(t, oc, o)
		return
	}
	rec.MarkCurrent(c)
	o := runCase(c)
	fmt.Println("classes:", o.Classes)
	rec.Report(t, c, o)
}
