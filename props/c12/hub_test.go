package c12

// Third part of C12: the client is the HUB of a virtual channel between two
// endpoints that hold valid keys, and one endpoint goes off-line at the moment
// the hub has to answer it.  Funding and settlement proposals of the two
// endpoints are individually valid and match; the hub accepts both - but its
// answer to the off-line endpoint cannot be delivered.  Whatever the hub makes
// of that, its two ledger channels must be usable again afterwards.

import (
	"context"
	"fmt"
	"math/big"
	"sync"
	"testing"
	"time"

	"pgregory.net/rapid"

	"perun.network/go-perun/channel"
	"perun.network/go-perun/client"
	"perun.network/go-perun/wallet"
	"perun.network/go-perun/wire"

	"verif/h"
	"verif/sim"
)

// HubScenario: which endpoint disappears, and when.
type HubScenario struct {
	OfflineAt string  `json:"offline_at"` // "" (nobody) | "fund" | "settle"
	Offline   int     `json:"offline"`    // endpoint 0 or 1
	First     int     `json:"first"`      // whose proposal is sent first
	HProposes [2]bool `json:"hproposes"`
	// Parts3: the virtual channel has a third participant (a further key of the
	// adversary); the proposals stay self-consistent and matching: the hub
	// stands in for participant 2 in ledger channel 0, endpoint 1 in channel 1
	Parts3 bool `json:"parts3,omitempty"`
}

// HubCase is a batch of concurrent hub scenarios.
type HubCase struct {
	Scen []HubScenario `json:"scen"`
}

func drawHubCase(t *rapid.T) HubCase {
	var c HubCase
	n := rapid.IntRange(4, 8).Draw(t, "nscen")
	for i := 0; i < n; i++ {
		c.Scen = append(c.Scen, HubScenario{
			OfflineAt: rapid.SampledFrom([]string{"", "fund", "fund", "settle", "settle", "settle"}).Draw(t, "offline_at"),
			Offline:   rapid.IntRange(0, 1).Draw(t, "offline"),
			First:     rapid.IntRange(0, 1).Draw(t, "first"),
			HProposes: [2]bool{rapid.Bool().Draw(t, "hp0"), rapid.Bool().Draw(t, "hp1")},
			Parts3:    rapid.IntRange(0, 2).Draw(t, "parts3") == 0,
		})
	}
	return c
}

func runHubScenario(sc HubScenario, idx int, o *h.Outcome, omu *sync.Mutex) *h.Failure {
	class := func(c string) { omu.Lock(); o.Class(c); omu.Unlock() }
	env := sim.NewEnv(nil)
	env.Bus.BlockOnUnknownRecipient() // an off-line peer: sending to it waits for the sender's context
	defer func() { go env.Close() }()
	var err error
	mk := func(name string) *sim.Party {
		p, e := env.NewParty(name, -1, false)
		if e != nil && err == nil {
			err = e
		}
		return p
	}
	H := mk("H")
	M := [2]*sim.Party{mk("M1"), mk("M2")}
	if err != nil {
		return h.Failf("harness", "parties: %v", err)
	}
	for _, p := range []*sim.Party{H, M[0], M[1]} {
		env.Ledger.Credit(p.Name, p.Acc.Address(), 100, big.NewInt(100000))
	}
	var hch, mch [2]*client.Channel
	for i := 0; i < 2; i++ {
		if sc.HProposes[i] {
			chs, e := openHonest(H, M[i])
			if e != nil {
				return h.Failf("harness-open", "%v", e)
			}
			hch[i], mch[i] = chs[0], chs[1]
		} else {
			chs, e := openHonest(M[i], H)
			if e != nil {
				return h.Failf("harness-open", "%v", e)
			}
			hch[i], mch[i] = chs[1], chs[0]
		}
	}
	H.SetHandlers(nil, func(_ *channel.State, _ client.ChannelUpdate, r *client.UpdateResponder) {
		ctx, cancel := context.WithTimeout(context.Background(), 2*time.Second)
		defer cancel()
		_ = r.Accept(ctx)
	})
	for i := 0; i < 2; i++ {
		M[i].SetHandlers(func(client.ChannelProposal, *client.ProposalResponder) {},
			func(*channel.State, client.ChannelUpdate, *client.UpdateResponder) {})
	}
	// the virtual channel between the two endpoints
	vparts := []map[wallet.BackendID]wallet.Address{{0: M[0].Acc.Address()}, {0: M[1].Acc.Address()}}
	signers := []*sim.Party{M[0], M[1]}
	if sc.Parts3 {
		M3 := mk("M3")
		if err != nil {
			return h.Failf("harness", "parties: %v", err)
		}
		vparts = append(vparts, map[wallet.BackendID]wallet.Address{0: M3.Acc.Address()})
		signers = append(signers, M3)
		class("hub:virtual-channel-with-3-participants")
	}
	vparams := channel.NewParamsUnsafe(10, vparts, channel.NoApp(), big.NewInt(880000+int64(idx)), false, true, channel.ZeroAux)
	mkV := func(b []uint64, version uint64, final bool) channel.SignedState {
		row := make([]channel.Bal, len(vparts))
		for i := range row {
			row[i] = bal(b[i])
		}
		al := sim.MakeAlloc([]uint64{100}, [][2]*big.Int{{bal(0), bal(0)}})
		al.Balances[0] = row
		st := &channel.State{ID: vparams.ID(), Version: version, App: channel.NoApp(), Data: channel.NoData(), IsFinal: final, Allocation: *al}
		sigs := make([]wallet.Sig, len(signers))
		for i, p := range signers {
			sigs[i] = p.SignState(st)
		}
		return channel.SignedState{Params: vparams, State: st, Sigs: sigs}
	}
	// (with three participants the middle one holds nothing: the library's
	// balance remapping does not add up two participants mapped to one index)
	vb := []uint64{3, 4}
	if len(vparts) == 3 {
		vb = []uint64{3, 0, 4}
	}
	vsum := uint64(0)
	for _, x := range vb {
		vsum += x
	}
	v0 := mkV(vb, 0, false)
	offline := func(i int) {
		// the endpoint's client goes away; its address is not reachable any more
		go M[i].Close()
		for k := 0; k < 500; k++ {
			ctx, cancel := context.WithTimeout(context.Background(), time.Millisecond)
			e := env.Bus.Publish(ctx, &wire.Envelope{Sender: H.WireAddr, Recipient: M[i].WireAddr, Msg: wire.NewPingMsg()})
			cancel()
			if e != nil {
				return
			}
			time.Sleep(2 * time.Millisecond)
		}
	}
	state := func(ch *client.Channel) *channel.State {
		got := make(chan *channel.State, 1)
		go func() { got <- ch.State() }()
		select {
		case s := <-got:
			return s
		case <-time.After(probeLimit):
			return nil
		}
	}
	funding := func(i int) wire.Msg {
		cur := state(hch[i])
		if cur == nil {
			return nil
		}
		hI, mI := int(hch[i].Idx()), int(mch[i].Idx())
		imap := make([]channel.Index, len(vparts))
		imap[i], imap[1-i] = channel.Index(mI), channel.Index(hI)
		if len(vparts) == 3 {
			// the hub stands in for participant 2 in ledger channel 0; endpoint 1 pays for it in channel 1
			imap[2] = channel.Index([]int{hI, mI}[i])
		}
		s := cur.Clone()
		s.Version++
		for v, p := range imap {
			s.Balances[0][p] = new(big.Int).Sub(s.Balances[0][p], bal(vb[v]))
		}
		s.AddSubAlloc(*channel.NewSubAlloc(vparams.ID(), []channel.Bal{bal(vsum)}, imap))
		return &client.VirtualChannelFundingProposalMsg{
			ChannelUpdateMsg: client.ChannelUpdateMsg{ChannelUpdate: client.ChannelUpdate{State: s, ActorIdx: channel.Index(mI)}, Sig: M[i].SignState(s)},
			Initial:          v0, IndexMap: imap}
	}
	order := []int{sc.First, 1 - sc.First}
	waited := false
	// ---- funding
	if sc.OfflineAt == "fund" {
		offline(sc.Offline)
		class("hub:endpoint-offline-at-funding")
	}
	for _, i := range order {
		msg := funding(i)
		if msg == nil {
			return h.Failf("channel-locked", "scenario %d: Channel.State() on the hub's ledger channel %d does not return", idx, i)
		}
		_ = M[i].InjectAs(M[i].WireAddr, H, msg)
		env.Quiesce(8*time.Millisecond, sim.HangLimit)
	}
	if sc.OfflineAt == "fund" {
		// the hub's answer to the off-line endpoint waits for the 10 s window of the handler
		time.Sleep(10500*time.Millisecond + time.Second)
		waited = true
	}
	funded := 0
	for i := 0; i < 2; i++ {
		if st := state(hch[i]); st == nil {
			return h.Failf("channel-locked", "scenario %d: after the funding proposals of a virtual channel, one of whose endpoints went off-line, Channel.State() on the hub's ledger channel %d does not return within %v: the machine mutex is held for ever", idx, i, probeLimit)
		} else if _, ok := st.SubAlloc(vparams.ID()); ok {
			funded++
		}
	}
	class(fmt.Sprintf("hub:funded-on-%d-channels", funded))
	// ---- settlement
	if funded == 2 && sc.OfflineAt != "fund" {
		fb := []uint64{5, 2}
		if len(vparts) == 3 {
			fb = []uint64{5, 0, 2}
		}
		fin := mkV(fb, 1, true)
		if sc.OfflineAt == "settle" {
			offline(sc.Offline)
			class("hub:endpoint-offline-at-settlement")
		}
		for _, i := range order {
			cur := state(hch[i])
			if cur == nil {
				return h.Failf("channel-locked", "scenario %d: Channel.State() on the hub's ledger channel %d does not return", idx, i)
			}
			mI := int(mch[i].Idx())
			sa, _ := cur.SubAlloc(vparams.ID())
			s := cur.Clone()
			s.Version++
			for v, p := range sa.IndexMap {
				s.Balances[0][p] = new(big.Int).Add(s.Balances[0][p], fin.State.Balances[0][v])
			}
			_ = s.RemoveSubAlloc(sa)
			msg := &client.VirtualChannelSettlementProposalMsg{
				ChannelUpdateMsg: client.ChannelUpdateMsg{ChannelUpdate: client.ChannelUpdate{State: s, ActorIdx: channel.Index(mI)}, Sig: M[i].SignState(s)},
				Final:            fin}
			_ = M[i].InjectAs(M[i].WireAddr, H, msg)
			env.Quiesce(8*time.Millisecond, sim.HangLimit)
		}
		if sc.OfflineAt == "settle" {
			time.Sleep(10500*time.Millisecond + time.Second)
			waited = true
		}
		for i := 0; i < 2; i++ {
			if st := state(hch[i]); st == nil {
				return h.Failf("channel-locked", "scenario %d: after the settlement proposals of a virtual channel, one of whose endpoints went off-line, Channel.State() on the hub's ledger channel %d does not return within %v: the machine mutex is held for ever", idx, i, probeLimit)
			}
		}
	}
	_ = waited
	// ---- the endpoint that stayed on-line can still update its channel with the hub
	on := 1 - sc.Offline
	if sc.OfflineAt == "" {
		on = 0
	}
	if st := state(hch[on]); st != nil && !st.IsFinal && hch[on].Phase() == channel.Acting {
		fromH := sim.FromParty(H)
		id, next := st.ID, st.Version+1
		answers := env.Bus.Collect(func(e *wire.Envelope) bool {
			switch a := e.Msg.(type) {
			case *client.ChannelUpdateAccMsg:
				return fromH(e) && a.ChannelID == id && a.Version == next
			case *client.ChannelUpdateRejMsg:
				return fromH(e) && a.ChannelID == id && a.Version == next
			}
			return false
		})
		s := st.Clone()
		s.Version++
		_ = M[on].InjectAs(M[on].WireAddr, H, &client.ChannelUpdateMsg{
			ChannelUpdate: client.ChannelUpdate{State: s, ActorIdx: mch[on].Idx()}, Sig: M[on].SignState(s)})
		if got := answers.Wait(1, probeLimit); len(got) == 0 {
			return h.Failf("peer-update-unanswered", "scenario %d: after the episode a valid update of the endpoint that stayed on-line is neither accepted nor rejected by the hub within %v", idx, probeLimit)
		}
		class("hub:probe-update-answered")
	}
	return nil
}

func runHubCase(c HubCase) *h.Outcome {
	o := &h.Outcome{}
	var omu sync.Mutex
	fails := make([]*h.Failure, len(c.Scen))
	var wg sync.WaitGroup
	for i, sc := range c.Scen {
		wg.Add(1)
		go func(i int, sc HubScenario) {
			defer wg.Done()
			fails[i] = runHubScenario(sc, i, o, &omu)
		}(i, sc)
	}
	wg.Wait()
	for _, f := range fails {
		if f != nil {
			o.Fail = f
			break
		}
	}
	for _, sc := range c.Scen {
		if sc.OfflineAt != "" {
			o.Nontrivial = true
		}
	}
	return o
}

const hubRule = "batches of 4-8 concurrent scenarios in which the client is the hub of a virtual channel between two endpoints with valid keys (each has a ledger channel with the hub, either side proposer). The endpoints send valid, matching funding proposals and, once the channel is funded, valid, matching settlement proposals; before the funding or before the settlement one endpoint goes off-line (its client is closed; the bus lets a sender wait for an unreachable recipient until the sender's context ends, as a network bus does), so that the hub's acceptance cannot be delivered to it. Oracle: after the hub's 10 s matching window Channel.State() returns on both ledger channels of the hub within 20 s, and an honest update of the endpoint that stayed on-line is completed. non-trivial = an endpoint went off-line"

func TestHubOffline(t *testing.T) {
	rec := h.Begin("C12", "hub")
	rec.SetRule(hubRule, "only the lock-up clause is checked here; what the hub signs is C07")
	defer rec.Flush()
	rapid.Check(t, func(rt *rapid.T) {
		c := drawHubCase(rt)
		rec.MarkCurrent(c)
		rec.Report(rt, c, runHubCase(c))
	})
}
