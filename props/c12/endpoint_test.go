package c12

// Fifth part of C12: the honest client is an END POINT of a virtual channel;
// its hub holds a valid key and sends hand-made messages on their ledger
// channel.  The other parts never give the honest client a virtual channel of
// its own.  After the virtual channel's final update the hub sends plain
// two-party updates on the ledger channel that look like the settlement of
// the virtual channel (sub-allocation removed, final balances credited) or
// edit the sub-allocation otherwise.  A plain update may never touch the
// locked funds, so every one of them has to be dropped - and whatever the
// client makes of them, its ledger channel must be usable afterwards.  Added
// after seeded change C12-11.

import (
	"context"
	"fmt"
	"math/big"
	"testing"
	"time"

	"pgregory.net/rapid"

	"perun.network/go-perun/channel"
	"perun.network/go-perun/client"
	"perun.network/go-perun/wallet"
	"perun.network/go-perun/wire"

	"verif/h"
	"verif/sim"
)

// EPCase is one scenario.
type EPCase struct {
	Ser       string    `json:"ser"`
	VBals     [2]uint64 `json:"vbals"`     // initial balances of the virtual channel
	Pay       uint64    `json:"pay"`       // moved from the honest end point to the other one by the final update
	FinalBy   int       `json:"finalby"`   // 0: the honest end point proposes the final update, 1: it accepts it
	NoFinal   bool      `json:"nofinal"`   // the virtual channel is not finalised at all
	Hostile   []string  `json:"hostile"`   // plain updates the hub sends afterwards
	AProposes bool      `json:"aproposes"` // who proposed the ledger channel (decides the honest party's index)
}

var epHostile = []string{"settle-shaped", "settle-shaped-initial", "settle-swapped", "suballoc-amount", "suballoc-relabel", "suballoc-imap"}

func drawEPCase(t *rapid.T) EPCase {
	c := EPCase{
		Ser:       rapid.SampledFrom([]string{"", "protobuf"}).Draw(t, "ser"),
		VBals:     [2]uint64{uint64(rapid.IntRange(0, 9).Draw(t, "va")), uint64(rapid.IntRange(0, 9).Draw(t, "vb"))},
		FinalBy:   rapid.IntRange(0, 1).Draw(t, "finalby"),
		NoFinal:   rapid.IntRange(0, 5).Draw(t, "nofinal") == 0,
		AProposes: rapid.Bool().Draw(t, "aproposes"),
	}
	if c.VBals[0]+c.VBals[1] == 0 {
		c.VBals[0] = 1
	}
	c.Pay = uint64(rapid.IntRange(0, int(c.VBals[0])).Draw(t, "pay"))
	c.Hostile = rapid.SliceOfN(rapid.SampledFrom(epHostile), 1, 3).Draw(t, "hostile")
	return c
}

func runEPCase(c EPCase) *h.Outcome {
	o := &h.Outcome{Nontrivial: !c.NoFinal}
	fail := func(sig, f string, a ...interface{}) *h.Outcome {
		o.Fail = h.Failf(sig, f, a...)
		return o
	}
	env := sim.NewEnv(serializer(c.Ser))
	defer env.Close()
	var ps [3]*sim.Party // A (honest end point), B (far end point), I (hub)
	for i, n := range []string{"A", "B", "I"} {
		p, err := env.NewParty(n, -1, false)
		if err != nil {
			return fail("harness", "party: %v", err)
		}
		env.Ledger.Credit(p.Name, p.Acc.Address(), 100, big.NewInt(1000))
		ps[i] = p
	}
	A, B, I := ps[0], ps[1], ps[2]
	var chAI, chBI [2]*client.Channel // [0] = end point's object, [1] = hub's object
	var err error
	if c.AProposes {
		chAI, err = openHonest(A, I)
	} else {
		var x [2]*client.Channel
		x, err = openHonest(I, A)
		chAI = [2]*client.Channel{x[1], x[0]}
	}
	if err != nil {
		return fail("harness-open", "ledger channel A-I: %v", err)
	}
	if chBI, err = openHonest(B, I); err != nil {
		return fail("harness-open", "ledger channel B-I: %v", err)
	}
	aIdx, iIdxA := chAI[0].Idx(), chAI[1].Idx()
	bIdx, iIdxB := chBI[0].Idx(), chBI[1].Idx()
	// everybody accepts ordinary updates
	asked := 0
	accept := func(count bool) func(*channel.State, client.ChannelUpdate, *client.UpdateResponder) {
		return func(_ *channel.State, _ client.ChannelUpdate, r *client.UpdateResponder) {
			if count {
				asked++
			}
			ctx, cancel := context.WithTimeout(context.Background(), sim.HangLimit)
			defer cancel()
			_ = r.Accept(ctx)
		}
	}
	// ---- the virtual channel A-B through I, opened by the real protocol
	gotV := make(chan *client.Channel, 1)
	B.SetHandlers(func(cp client.ChannelProposal, r *client.ProposalResponder) {
		ctx, cancel := context.WithTimeout(context.Background(), sim.HangLimit)
		defer cancel()
		if vp, ok := cp.(*client.VirtualChannelProposalMsg); ok {
			ch, _ := r.Accept(ctx, vp.Accept(addrMap(B), client.WithRandomNonce()))
			gotV <- ch
		}
	}, accept(false))
	A.SetHandlers(nil, accept(false))
	I.SetHandlers(nil, accept(false))
	imapA := make([]channel.Index, 2)
	imapA[0], imapA[1] = aIdx, iIdxA
	imapB := make([]channel.Index, 2)
	imapB[0], imapB[1] = iIdxB, bIdx
	vprop, err := client.NewVirtualChannelProposal(10, addrMap(A),
		sim.MakeAlloc([]uint64{100}, [][2]*big.Int{{bal(c.VBals[0]), bal(c.VBals[1])}}),
		[]map[wallet.BackendID]wire.Address{A.WireAddr, B.WireAddr},
		[]channel.ID{chAI[0].ID(), chBI[0].ID()},
		[][]channel.Index{imapA, imapB}, client.WithRandomNonce())
	if err != nil {
		return fail("harness-vprop", "virtual channel proposal: %v", err)
	}
	ctx, cancel := context.WithTimeout(context.Background(), sim.HangLimit)
	vA, err := A.Client.ProposeChannel(ctx, vprop)
	cancel()
	if err != nil {
		return fail("harness-vopen", "opening the virtual channel: %v", err)
	}
	var vB *client.Channel
	select {
	case vB = <-gotV:
	case <-time.After(sim.HangLimit):
	}
	if vB == nil {
		return fail("harness-vopen", "the far end point did not obtain the virtual channel")
	}
	env.Quiesce(5*time.Millisecond, sim.HangLimit)
	// ---- the final update of the virtual channel
	finalBals := [2]*big.Int{bal(c.VBals[0] - c.Pay), bal(c.VBals[1] + c.Pay)}
	if !c.NoFinal {
		by := vA
		if c.FinalBy == 1 {
			by = vB
		}
		ctx, cancel := context.WithTimeout(context.Background(), sim.HangLimit)
		err := by.Update(ctx, func(s *channel.State) {
			s.Balances[0][0], s.Balances[0][1] = finalBals[0], finalBals[1]
			s.IsFinal = true
		})
		cancel()
		if err != nil {
			return fail("harness-vfinal", "final update of the virtual channel: %v", err)
		}
		env.Quiesce(5*time.Millisecond, sim.HangLimit)
		if c.FinalBy == 1 {
			o.Class("ep:honest-accepted-final-update")
		} else {
			o.Class("ep:honest-proposed-final-update")
		}
	} else {
		finalBals = [2]*big.Int{bal(c.VBals[0]), bal(c.VBals[1])}
		o.Class("ep:not-finalised")
	}
	// ---- hostile plain updates from the hub on the ledger channel A-I
	A.SetHandlers(nil, accept(true))
	before := chAI[0].State().Clone()
	sa, ok := before.SubAlloc(vA.ID())
	if !ok {
		return fail("harness-vfund", "the honest end point's ledger channel does not hold the virtual channel's funds")
	}
	for k, kind := range c.Hostile {
		s := before.Clone()
		s.Version++
		credit := func(b [2]*big.Int) {
			// index-wise, through the sub-allocation's index map
			for v, p := range sa.IndexMap {
				s.Balances[0][p] = new(big.Int).Add(s.Balances[0][p], b[v])
			}
		}
		removeVC := func() {
			var l []channel.SubAlloc
			for _, x := range s.Locked {
				if x.ID != vA.ID() {
					l = append(l, x)
				}
			}
			s.Locked = l
		}
		edit := func(f func(*channel.SubAlloc)) {
			for i := range s.Locked {
				if s.Locked[i].ID == vA.ID() {
					f(&s.Locked[i])
				}
			}
		}
		switch kind {
		case "settle-shaped":
			removeVC()
			credit(finalBals)
		case "settle-shaped-initial":
			removeVC()
			credit([2]*big.Int{bal(c.VBals[0]), bal(c.VBals[1])})
		case "settle-swapped":
			removeVC()
			credit([2]*big.Int{finalBals[1], finalBals[0]})
		case "suballoc-amount":
			if before.Balances[0][aIdx].Sign() == 0 {
				o.Class("ep:variant-inapplicable")
				continue
			}
			edit(func(x *channel.SubAlloc) { x.Bals[0] = new(big.Int).Add(x.Bals[0], big.NewInt(1)) })
			s.Balances[0][aIdx] = new(big.Int).Sub(s.Balances[0][aIdx], big.NewInt(1))
		case "suballoc-relabel":
			edit(func(x *channel.SubAlloc) { x.ID[0] ^= 0x5a })
		case "suballoc-imap":
			edit(func(x *channel.SubAlloc) {
				im := append([]channel.Index(nil), x.IndexMap...)
				im[0], im[1] = im[1], im[0]
				x.IndexMap = im
			})
		}
		sig, err := channel.Sign(I.Acc, s, 0)
		if err != nil {
			return fail("harness-sign", "%v", err)
		}
		msg := &client.ChannelUpdateMsg{ChannelUpdate: client.ChannelUpdate{State: s, ActorIdx: iIdxA}, Sig: sig}
		ctx, cancel := context.WithTimeout(context.Background(), sim.HangLimit)
		err = env.Bus.Publish(ctx, &wire.Envelope{Sender: I.WireAddr, Recipient: A.WireAddr, Msg: msg})
		cancel()
		if err != nil {
			return fail("harness-publish", "hostile message %d: %v", k, err)
		}
		o.Class("ep:hostile:" + kind)
		env.Quiesce(5*time.Millisecond, 2*time.Second)
	}
	// ---- what the honest client made of it
	type stateRes struct{ s *channel.State }
	sc := make(chan stateRes, 1)
	go func() { sc <- stateRes{chAI[0].State()} }()
	var after *channel.State
	select {
	case r := <-sc:
		after = r.s
	case <-time.After(5 * time.Second):
		return fail("channel-locked", "after the hub's plain updates %v the honest end point's ledger channel does not answer State() within 5 s", c.Hostile)
	}
	if err := after.Equal(before); err != nil {
		return fail("hostile-update-enabled", "a plain update of the hub that touches the locked funds (%v) changed the honest end point's ledger state: %v", c.Hostile, err)
	}
	if asked > 0 {
		return fail("handler-asked", "the honest end point's update handler was asked %d times about plain updates that touch the locked funds (%v)", asked, c.Hostile)
	}
	// the ledger channel is usable: an ordinary payment to the (real) hub goes through
	A.SetHandlers(nil, accept(false))
	ctx, cancel = context.WithTimeout(context.Background(), 5*time.Second)
	err = chAI[0].Update(ctx, func(s *channel.State) {
		if s.Balances[0][aIdx].Sign() > 0 {
			s.Balances[0][aIdx] = new(big.Int).Sub(s.Balances[0][aIdx], big.NewInt(1))
			s.Balances[0][iIdxA] = new(big.Int).Add(s.Balances[0][iIdxA], big.NewInt(1))
		}
	})
	cancel()
	if err != nil {
		return fail("channel-locked", "after the hub's plain updates %v an ordinary update of the honest end point on its ledger channel fails: %v", c.Hostile, err)
	}
	o.Class(fmt.Sprintf("ep:hostile-messages:%d", len(c.Hostile)))
	return o
}

const epRule = "three real clients: the honest end point A, the far end point B and the hub I; ledger channels A-I and B-I (either side proposes A-I), a virtual channel A-B with generated balances opened by the real protocol; in 5 of 6 cases it is finalised with a payment, the final update proposed by A or by B (A accepts); then the hub's key signs 1-3 hand-made PLAIN updates of the ledger channel A-I that touch the virtual channel's locked funds: shaped like its settlement (sub-allocation removed; final, initial or swapped balances credited through the index map), amount raised, id relabelled, index map swapped. Oracle: A's ledger state is unchanged, its update handler is never asked, State() answers within 5 s and an ordinary payment of A on the ledger channel succeeds. non-trivial = the virtual channel was finalised"

func TestEndpoint(t *testing.T) {
	rec := h.Begin("C12", "endpoint")
	rec.SetRule(epRule, "the hub's real client is not told about the hand-made messages; they must all be dropped, so its state stays in step with A's")
	defer rec.Flush()
	rapid.Check(t, func(rt *rapid.T) {
		c := drawEPCase(rt)
		rec.Report(rt, c, runEPCase(c))
	})
}
