// Package c06: update protocol agreement - success means both hold the same
// signed state (DESIGN.md §3 C06).
package c06

import (
	"bytes"
	"context"
	"errors"
	"fmt"
	"math/big"
	"os"
	"sort"
	"sync"
	"sync/atomic"
	"testing"
	"time"

	"pgregory.net/rapid"

	"perun.network/go-perun/channel"
	"perun.network/go-perun/client"
	"perun.network/go-perun/wallet"
	"perun.network/go-perun/wire"
	perunser "perun.network/go-perun/wire/perunio/serializer"
	"perun.network/go-perun/wire/protobuf"

	"verif/gen"
	"verif/h"
	"verif/sim"
)

func TestMain(m *testing.M) {
	gen.Setup()
	code := m.Run()
	h.FlushAll()
	os.Exit(code)
}

// Step is one update proposal.
type Step struct {
	Chan    int    `json:"chan"`
	By      int    `json:"by"`
	Amount  uint64 `json:"amount"`
	ToPeer  bool   `json:"topeer"` // direction of the transfer
	Final   bool   `json:"final"`
	Accept  bool   `json:"accept"`
	DelayMs int    `json:"delay"`             // responder's handler delay
	With    bool   `json:"concurrent"`        // runs concurrently with the next step
	CtxEnds bool   `json:"ctxends,omitempty"` // the context the responder's handler passes to Accept ends as soon as the acceptance is on the wire
	// Early: the channel's proposer issues this update as soon as its
	// ProposeChannel call has returned, while the channels are still being
	// opened concurrently (only in cases with EarlyOpen)
	Early bool `json:"early,omitempty"`
	// Double: the responder's handler answers the request a second time:
	// "rej-acc" (Reject, then Accept), "rej-rej", "acc-acc", or "acc|rej" (Accept
	// in a goroutine while Reject is called from the handler).  The second
	// answer is refused by the responder and must not have any effect.
	Double string `json:"double,omitempty"`
	// Invalid: the update function breaks the balance sum (it mints one unit), so
	// the proposer's own machine refuses the proposal and nothing is sent; the
	// channel must be as ready for further updates as before
	Invalid bool `json:"invalid,omitempty"`
}

// Case is a program of update proposals on 1-3 channels of one client pair.
type Case struct {
	NChans int    `json:"nchans"`
	Ser    string `json:"ser"`
	Steps  []Step `json:"steps"`
	// Stepwise: everything is judged at quiescence after every group, not only
	// at the end (costs the back-to-back schedules, finds a divergence before
	// the follow-up requests time out)
	Stepwise bool `json:"stepwise,omitempty"`
	// EarlyOpen: the channels are opened concurrently; FundDelay[k] ms pass
	// between the funding of channel k being complete and the responder's
	// funder returning, so that the proposer's first updates reach a responder
	// that has not registered the channel yet
	EarlyOpen bool  `json:"earlyopen,omitempty"`
	FundDelay []int `json:"funddelay,omitempty"`
}

func drawCase(t *rapid.T) Case {
	var c Case
	c.NChans = []int{1, 1, 2, 3}[rapid.IntRange(0, 3).Draw(t, "nchans")]
	c.Ser = rapid.SampledFrom([]string{"", "", "native", "protobuf"}).Draw(t, "ser")
	c.Stepwise = rapid.Bool().Draw(t, "stepwise")
	c.EarlyOpen = rapid.IntRange(0, 3).Draw(t, "earlyopen") == 0
	if c.EarlyOpen {
		for k := 0; k < c.NChans; k++ {
			c.FundDelay = append(c.FundDelay, []int{0, 1, 3, 8, 15}[rapid.IntRange(0, 4).Draw(t, "funddelay")])
			ne := rapid.IntRange(0, 2).Draw(t, "nearly")
			for j := 0; j < ne; j++ {
				c.Steps = append(c.Steps, Step{
					Chan:    k,
					By:      k % 2, // the channel's proposer
					Amount:  uint64(rapid.IntRange(0, 5).Draw(t, "amount")),
					ToPeer:  rapid.Bool().Draw(t, "topeer"),
					Accept:  rapid.Bool().Draw(t, "accept"),
					DelayMs: []int{0, 0, 1, 5}[rapid.IntRange(0, 3).Draw(t, "delay")],
					Early:   true,
				})
			}
		}
	}
	n := rapid.IntRange(1, 20).Draw(t, "nsteps")
	for i := 0; i < n; i++ {
		s := Step{
			Chan:    rapid.IntRange(0, c.NChans-1).Draw(t, "chan"),
			By:      rapid.IntRange(0, 1).Draw(t, "by"),
			Amount:  uint64(rapid.IntRange(0, 5).Draw(t, "amount")),
			ToPeer:  rapid.Bool().Draw(t, "topeer"),
			Final:   rapid.IntRange(0, 39).Draw(t, "final") == 0,
			Accept:  rapid.IntRange(0, 3).Draw(t, "accept") != 0,
			DelayMs: []int{0, 0, 1, 5, 20}[rapid.IntRange(0, 4).Draw(t, "delay")],
			With:    rapid.IntRange(0, 2).Draw(t, "with") == 0,
			CtxEnds: rapid.IntRange(0, 4).Draw(t, "ctxends") == 0,
			Invalid: rapid.IntRange(0, 13).Draw(t, "invalid") == 0,
			Double:  rapid.SampledFrom([]string{"", "", "", "", "", "", "", "", "rej-acc", "rej-rej", "acc-acc", "acc|rej", "acc-held|rej"}).Draw(t, "double"),
		}
		// two thirds of the overlapping groups avoid a head-on collision (both
		// parties proposing on one channel), which always ends in timeouts
		if i > 0 {
			prev := c.Steps[len(c.Steps)-1]
			if prev.With && prev.Chan == s.Chan && prev.By != s.By && rapid.IntRange(0, 2).Draw(t, "nocollide") != 0 {
				if c.NChans > 1 && rapid.Bool().Draw(t, "otherchan") {
					s.Chan = (s.Chan + 1) % c.NChans
				} else {
					s.By = prev.By
				}
			}
		}
		c.Steps = append(c.Steps, s)
	}
	return c
}

func serializer(name string) wire.EnvelopeSerializer {
	switch name {
	case "native":
		return perunser.Serializer()
	case "protobuf":
		return protobuf.Serializer()
	}
	return nil
}

func enc(s *channel.State) []byte {
	var b bytes.Buffer
	if err := s.Encode(&b); err != nil {
		return []byte("unencodable:" + err.Error())
	}
	return b.Bytes()
}

type decision struct {
	accept  bool
	delay   time.Duration
	ctxEnds bool
	double  string
}

type result struct {
	startSeq uint64 // persister event order when the call started / returned
	endSeq   uint64
	step     int
	proposed *channel.State
	err      error
	kind     string // ok | rejected | timeout | local | other
}

// classify sorts the result of one Update call without looking at message
// texts: the typed errors of the client, whether the call's own context had
// expired when it returned, and whether the proposal was put on the wire at all.
func classify(err error, ctxExpired, sent bool) string {
	if err == nil {
		return "ok"
	}
	var rej client.PeerRejectedError
	if errors.As(err, &rej) {
		return "rejected"
	}
	var to client.RequestTimedOutError
	if errors.As(err, &to) || ctxExpired || errors.Is(err, context.DeadlineExceeded) || errors.Is(err, context.Canceled) {
		return "timeout"
	}
	if !sent {
		return "local" // refused by the own machine before anything was sent (final state, wrong phase)
	}
	return "other"
}

func verifyTx(params *channel.Params, tx channel.Transaction) error {
	if tx.State == nil {
		return errors.New("nil state")
	}
	if len(tx.Sigs) != len(params.Parts) {
		return fmt.Errorf("%d signatures for %d participants", len(tx.Sigs), len(params.Parts))
	}
	for i, sig := range tx.Sigs {
		if sig == nil {
			return fmt.Errorf("signature %d missing", i)
		}
		ok, err := channel.Verify(params.Parts[i][0], tx.State, sig)
		if err != nil || !ok {
			return fmt.Errorf("signature %d does not verify (err=%v)", i, err)
		}
	}
	return nil
}

// shrinking is set while rapid minimises a failing case: requests that go
// unanswered then cost 400 ms instead of 5 s (a shrink pass runs hundreds of
// candidates and rapid looks at its time budget only between passes).
var shrinking atomic.Bool

func runCase(c Case) *h.Outcome {
	o := &h.Outcome{}
	fail := func(sig, format string, args ...any) *h.Outcome {
		o.Fail = h.Failf(sig, format, args...)
		return o
	}
	pr, err := sim.NewPair(serializer(c.Ser), 0, 1, false)
	if err != nil {
		return fail("harness", "creating parties: %v", err)
	}
	defer pr.Env.Close()
	assets := []uint64{100}
	for i := 0; i < 2; i++ {
		pr.Env.Ledger.Credit(pr.P[i].Name, pr.P[i].Acc.Address(), 100, big.NewInt(100000))
	}
	chans := make([][2]*client.Channel, c.NChans)
	// contexts to cancel when the acceptance of (channel, version) is published
	type accKey struct {
		id channel.ID
		v  uint64
	}
	var amu sync.Mutex
	onAcc := map[accKey]context.CancelFunc{}
	// proposals that were put on the wire
	var smu sync.Mutex
	sentProps := map[string]bool{}
	// acceptances whose sender is held inside Publish for a moment (the message
	// is on its way already), and who waits for them to be on the wire
	holdAcc := map[accKey]chan struct{}{}
	pr.Env.Bus.TapAfter(func(e *wire.Envelope) {
		if m, ok := e.Msg.(*client.ChannelUpdateAccMsg); ok {
			amu.Lock()
			sent := holdAcc[accKey{m.ChannelID, m.Version}]
			delete(holdAcc, accKey{m.ChannelID, m.Version})
			amu.Unlock()
			if sent != nil {
				close(sent)
				time.Sleep(3 * time.Millisecond)
			}
		}
	})
	pr.Env.Bus.Tap(func(e *wire.Envelope) {
		if m, ok := e.Msg.(*client.ChannelUpdateMsg); ok && m.State != nil {
			smu.Lock()
			sentProps[string(enc(m.State))] = true
			smu.Unlock()
		}
		if m, ok := e.Msg.(*client.ChannelUpdateAccMsg); ok {
			amu.Lock()
			cancel := onAcc[accKey{m.ChannelID, m.Version}]
			delete(onAcc, accKey{m.ChannelID, m.Version})
			amu.Unlock()
			if cancel != nil {
				cancel()
			}
		}
	})
	// decisions of the responder, keyed by channel and proposer
	var dmu sync.Mutex
	decisions := map[channel.ID]map[channel.Index]decision{}
	for i := 0; i < 2; i++ {
		pr.P[i].SetHandlers(nil, func(cur *channel.State, u client.ChannelUpdate, r *client.UpdateResponder) {
			dmu.Lock()
			d, ok := decisions[u.State.ID][u.ActorIdx]
			dmu.Unlock()
			if !ok {
				d = decision{accept: true}
			}
			if d.delay > 0 {
				time.Sleep(d.delay)
			}
			ctx, cancel := context.WithTimeout(context.Background(), sim.HangLimit)
			defer cancel()
			if d.accept && d.ctxEnds {
				// no request times out by this: the acceptance has been sent in time
				amu.Lock()
				onAcc[accKey{u.State.ID, u.State.Version}] = cancel
				amu.Unlock()
			}
			switch d.double {
			case "rej-acc":
				_ = r.Reject(ctx, "scenario says no")
				_ = r.Accept(ctx)
				return
			case "rej-rej":
				_ = r.Reject(ctx, "scenario says no")
				_ = r.Reject(ctx, "scenario says no again")
				return
			case "acc-acc":
				_ = r.Accept(ctx)
				_ = r.Accept(ctx)
				return
			case "acc-held|rej":
				// the watchdog fires when the acceptance is on the wire and the
				// accepting call has not returned yet (its Publish is held for 3 ms)
				sent := make(chan struct{})
				amu.Lock()
				holdAcc[accKey{u.State.ID, u.State.Version}] = sent
				amu.Unlock()
				done := make(chan struct{})
				go func() { _ = r.Accept(ctx); close(done) }()
				select {
				case <-sent:
					_ = r.Reject(ctx, "watchdog")
				case <-done: // the acceptance failed before anything was sent
				}
				<-done
				return
			case "acc|rej":
				done := make(chan struct{})
				go func() { _ = r.Accept(ctx); close(done) }()
				// the watchdog fires while the acceptance is under way (signing and
				// sending take some hundred microseconds)
				time.Sleep(time.Duration(50+100*(int(u.State.Version)%6)) * time.Microsecond)
				_ = r.Reject(ctx, "watchdog")
				<-done
				return
			}
			if d.accept {
				_ = r.Accept(ctx)
			} else {
				_ = r.Reject(ctx, "scenario says no")
			}
		})
	}
	// evaluate judges everything that has happened so far, at quiescence.  It is
	// called at the end of the program and - in stepwise cases, as long as no
	// request has timed out - after every group: the prefix of a program is a
	// program, and a divergence is then seen before the follow-up requests time
	// out and take the run out of the scope of clauses (a), (b) and (d).
	var results []result
	var usedChansEarly []int
	evaluate := func(final bool) *h.Outcome {
		limit := 30 * time.Millisecond
		if !final {
			limit = 6 * time.Millisecond
		}
		if !pr.Env.Quiesce(limit, sim.HangLimit) {
			return fail("harness", "world did not become quiet")
		}
		timedOut := false
		for _, r := range results {
			if final {
				o.Class("update:" + r.kind)
			}
			if r.kind == "timeout" {
				timedOut = true
			}
		}
		if timedOut && final {
			o.Class("run-with-timeout")
		}
		if timedOut && !final {
			return nil
		}
		for _, r := range results {
			// after a timed-out request a late response of the abandoned attempt can
			// reach a later attempt with the same version; the property makes no
			// promise for such runs beyond clause (c)
			if r.kind == "other" && !timedOut {
				return fail("update-unexpected-error", "step %d: Update failed with an error that is neither a rejection, a timeout nor a local refusal although no request timed out: %v", r.step, r.err)
			}
		}
		// ---- merged log
		type ev = sim.Event
		var log []ev
		for i := 0; i < 2; i++ {
			log = append(log, pr.P[i].Rec.Events()...)
		}
		sort.Slice(log, func(i, j int) bool { return log[i].Seq < log[j].Seq })
		params := map[channel.ID]*channel.Params{}
		for k := range chans {
			params[chans[k][0].ID()] = chans[k][0].Params()
		}
		// (c) every enabled transaction is fully and validly signed
		type enabledEv struct {
			seq uint64
			enc []byte
		}
		enabledSeq := map[channel.ID][]enabledEv{}
		enabledBy := [2]map[channel.ID]map[uint64][]byte{{}, {}}
		who := map[string]int{pr.P[0].Name: 0, pr.P[1].Name: 1}
		fullySigned := map[channel.ID]map[uint64]map[string]bool{}
		ver := map[channel.ID]*[2]uint64{}
		for _, e := range log {
			p := params[e.Chan]
			if p == nil {
				continue
			}
			note := func(tx channel.Transaction) {
				if tx.State == nil || verifyTx(p, tx) != nil {
					return
				}
				if fullySigned[e.Chan] == nil {
					fullySigned[e.Chan] = map[uint64]map[string]bool{}
				}
				if fullySigned[e.Chan][tx.State.Version] == nil {
					fullySigned[e.Chan][tx.State.Version] = map[string]bool{}
				}
				fullySigned[e.Chan][tx.State.Version][string(enc(tx.State))] = true
			}
			note(e.Staged)
			note(e.Cur)
			if e.Kind != "enabled" {
				continue
			}
			if err := verifyTx(p, e.Cur); err != nil {
				return fail("enabled-not-fully-signed", "%s enabled version %d of channel %s: %v", e.Who, e.Cur.State.Version, sim.Describe(e.Chan), err)
			}
			i := who[e.Who]
			if enabledBy[i][e.Chan] == nil {
				enabledBy[i][e.Chan] = map[uint64][]byte{}
			}
			enabledBy[i][e.Chan][e.Cur.State.Version] = enc(e.Cur.State)
			enabledSeq[e.Chan] = append(enabledSeq[e.Chan], enabledEv{e.Seq, enc(e.Cur.State)})
			if ver[e.Chan] == nil {
				ver[e.Chan] = &[2]uint64{}
			}
			ver[e.Chan][i] = e.Cur.State.Version
			if !timedOut {
				a, b := ver[e.Chan][0], ver[e.Chan][1]
				if a > b+1 || b > a+1 {
					return fail("versions-diverge", "channel %s: party versions %d and %d differ by more than one (no request timed out)", sim.Describe(e.Chan), a, b)
				}
			}
		}
		if !timedOut {
			for id, byVer := range fullySigned {
				for v, states := range byVer {
					if len(states) > 1 {
						return fail("two-states-one-version", "channel %s: %d different states of version %d obtained both signatures", sim.Describe(id), len(states), v)
					}
				}
			}
		}
		// (a), (b) per update.  Only in runs without a timed-out request, as the
		// property states: the response to an abandoned request stays cached at the
		// proposer and can answer a later request with the same version number (the
		// thorough tier found such a run: a stale rejection from a collision made a
		// later, accepted update return "rejected").
		for _, r := range results {
			if timedOut {
				continue
			}
			s := c.Steps[r.step]
			ch := chans[s.Chan]
			id := ch[0].ID()
			if r.proposed == nil {
				continue
			}
			pe := enc(r.proposed)
			v := r.proposed.Version
			switch r.kind {
			case "ok":
				got, ok := enabledBy[s.By][id][v]
				if !ok || !bytes.Equal(got, pe) {
					return fail("success-but-proposer-state-differs", "step %d: Update returned nil but the proposer did not enable the proposed state as version %d", r.step, v)
				}
				got, ok = enabledBy[s.By^1][id][v]
				if !ok || !bytes.Equal(got, pe) {
					return fail("success-but-peer-state-differs", "step %d: Update returned nil but at quiescence the peer has not enabled the proposed state as version %d", r.step, v)
				}
			case "rejected":
				// while the call was running nobody enabled the proposed state (a later,
				// identical proposal may of course be accepted), unless an identical
				// proposal ran concurrently
				twin := false
				for _, r2 := range results {
					if r2.step != r.step && r2.proposed != nil && c.Steps[r2.step].Chan == s.Chan && bytes.Equal(enc(r2.proposed), pe) && r2.startSeq <= r.endSeq && r.startSeq <= r2.endSeq {
						twin = true
					}
				}
				if twin {
					o.Class("unspecified:identical-concurrent-proposal")
					break
				}
				for _, ev := range enabledSeq[id] {
					if ev.seq > r.startSeq && ev.seq <= r.endSeq && bytes.Equal(ev.enc, pe) {
						return fail("rejected-but-enabled", "step %d: Update returned a rejection but the proposed state was enabled while the call was running", r.step)
					}
				}
			}
		}
		// after a run without timeouts both sides agree and are ready
		if !timedOut {
			for k, ch := range chans {
				a, b := ch[0].State(), ch[1].State()
				if !bytes.Equal(enc(a), enc(b)) {
					return fail("final-states-differ", "channel %d: the parties' current states differ at quiescence (v%d / v%d)", k, a.Version, b.Version)
				}
				for i := 0; i < 2; i++ {
					ph := ch[i].Phase()
					if ph != channel.Acting && ph != channel.Final {
						return fail("not-ready", "channel %d: party %d is in phase %v at quiescence", k, i, ph)
					}
				}
			}
		}
		return nil
	}
	// execStep runs one update proposal and classifies its result.
	execStep := func(si int, limit time.Duration) result {
		s := c.Steps[si]
		ch := chans[s.Chan][s.By]
		from := int(ch.Idx())
		if !s.ToPeer {
			from ^= 1
		}
		var proposed *channel.State
		startSeq := pr.Env.Seq.Load()
		ctx, cancel := context.WithTimeout(context.Background(), limit)
		defer cancel()
		err := ch.Update(ctx, func(st *channel.State) {
			amt := new(big.Int).SetUint64(s.Amount)
			if s.Invalid {
				st.Balances[0][from] = new(big.Int).Add(st.Balances[0][from], big.NewInt(1))
			} else if st.Balances[0][from].Cmp(amt) >= 0 {
				sim.Transfer(0, from, amt, s.Final)(st)
			} else if s.Final {
				st.IsFinal = true
			}
			proposed = st.Clone()
			proposed.Version++
		})
		sent := false
		if proposed != nil {
			smu.Lock()
			sent = sentProps[string(enc(proposed))]
			smu.Unlock()
		}
		return result{step: si, proposed: proposed, err: err, kind: classify(err, ctx.Err() != nil, sent), startSeq: startSeq, endSeq: pr.Env.Seq.Load()}
	}
	// ---- opening
	early := map[int][]int{} // channel -> early steps
	for si, st := range c.Steps {
		if st.Early && c.EarlyOpen {
			early[st.Chan] = append(early[st.Chan], si)
		}
	}
	if !c.EarlyOpen {
		for k := 0; k < c.NChans; k++ {
			chs, err := pr.OpenLedger(k%2, assets, [][2]*big.Int{{big.NewInt(100), big.NewInt(100)}}, nil, 10, nil, nil)
			if err != nil {
				return fail("harness-open", "opening channel %d: %v", k, err)
			}
			chans[k] = chs
		}
	} else {
		o.Class("early-open")
		// channel k has the initial balances (100+k, 100), which tells the ledger hook which channel is funded
		pr.Env.Ledger.SetOnFunded(func(who string, req channel.FundingReq) {
			k := int(new(big.Int).Add(req.State.Balances[0][0], req.State.Balances[0][1]).Int64()) - 200
			if k >= 0 && k < c.NChans && who == pr.P[(k%2)^1].Name && c.FundDelay[k] > 0 {
				time.Sleep(time.Duration(c.FundDelay[k]) * time.Millisecond)
			}
		})
		respCh := [2]chan *client.Channel{make(chan *client.Channel, 8), make(chan *client.Channel, 8)}
		for i := 0; i < 2; i++ {
			i := i
			pr.P[i].SetHandlers(func(cp client.ChannelProposal, r *client.ProposalResponder) {
				ctx, cancel := context.WithTimeout(context.Background(), sim.HangLimit)
				defer cancel()
				lp, ok := cp.(*client.LedgerChannelProposalMsg)
				if !ok {
					_ = r.Reject(ctx, "unexpected proposal type")
					return
				}
				ch, err := r.Accept(ctx, lp.Accept(map[wallet.BackendID]wallet.Address{0: pr.P[i].Acc.Address()}, client.WithRandomNonce()))
				if err != nil {
					ch = nil
				}
				respCh[i] <- ch
			}, nil)
		}
		openErr := make([]error, c.NChans)
		earlyRes := make([][]result, c.NChans)
		var owg sync.WaitGroup
		for k := 0; k < c.NChans; k++ {
			owg.Add(1)
			go func(k int) {
				defer owg.Done()
				by := k % 2
				prop, err := client.NewLedgerChannelProposal(10, map[wallet.BackendID]wallet.Address{0: pr.P[by].Acc.Address()},
					sim.MakeAlloc(assets, [][2]*big.Int{{big.NewInt(int64(100 + k)), big.NewInt(100)}}),
					[]map[wallet.BackendID]wire.Address{pr.P[by].WireAddr, pr.P[by^1].WireAddr}, client.WithRandomNonce())
				if err != nil {
					openErr[k] = err
					return
				}
				ctx, cancel := context.WithTimeout(context.Background(), sim.HangLimit)
				defer cancel()
				ch, err := pr.P[by].Client.ProposeChannel(ctx, prop)
				if err != nil {
					openErr[k] = err
					return
				}
				chans[k][by] = ch
				// the proposer goes ahead at once
				for _, si := range early[k] {
					st := c.Steps[si]
					dmu.Lock()
					if decisions[ch.ID()] == nil {
						decisions[ch.ID()] = map[channel.Index]decision{}
					}
					decisions[ch.ID()][ch.Idx()] = decision{accept: st.Accept, delay: time.Duration(st.DelayMs) * time.Millisecond}
					dmu.Unlock()
					earlyRes[k] = append(earlyRes[k], execStep(si, 5*time.Second))
				}
			}(k)
		}
		owg.Wait()
		for k := 0; k < c.NChans; k++ {
			if openErr[k] != nil {
				return fail("harness-open", "opening channel %d concurrently: %v", k, openErr[k])
			}
		}
		// the responders' handles, matched by channel id
		need := [2]int{}
		for k := 0; k < c.NChans; k++ {
			need[(k%2)^1]++
		}
		for i := 0; i < 2; i++ {
			for n := 0; n < need[i]; n++ {
				select {
				case ch := <-respCh[i]:
					if ch == nil {
						return fail("harness-open", "a responder failed to open its channel")
					}
					for k := 0; k < c.NChans; k++ {
						if chans[k][(k%2)] != nil && chans[k][k%2].ID() == ch.ID() {
							chans[k][i] = ch
						}
					}
				case <-time.After(sim.HangLimit):
					return fail("harness-open", "a responder did not finish opening")
				}
			}
		}
		for k := 0; k < c.NChans; k++ {
			if chans[k][0] == nil || chans[k][1] == nil {
				return fail("harness-open", "channel %d: handle missing after the concurrent opening", k)
			}
			for _, r := range earlyRes[k] {
				results = append(results, r)
				usedChansEarly = append(usedChansEarly, k)
				if c.Steps[r.step].Accept {
					o.Class("early-update:" + r.kind)
				} else {
					o.Class("early-update-to-be-rejected:" + r.kind)
				}
			}
		}
		pr.Env.Ledger.SetOnFunded(nil)
		if c.Stepwise {
			if out := evaluate(false); out != nil {
				return out
			}
		}
	}
	// group steps
	var groups [][]int
	for i := 0; i < len(c.Steps); {
		if c.Steps[i].Early {
			i++
			continue
		}
		g := []int{i}
		for c.Steps[i].With && i+1 < len(c.Steps) && !c.Steps[i+1].Early && len(g) < 3 {
			i++
			g = append(g, i)
		}
		i++
		groups = append(groups, g)
	}
	usedChans := map[int]bool{}
	for _, k := range usedChansEarly {
		usedChans[k] = true
	}
	overlaps := 0
	for _, g := range groups {
		// do opposite parties propose on the same channel in this group?
		collide := false
		for _, a := range g {
			for _, b := range g {
				if a < b && c.Steps[a].Chan == c.Steps[b].Chan && c.Steps[a].By != c.Steps[b].By {
					collide = true
				}
			}
		}
		if len(g) > 1 {
			overlaps++
		}
		// an honest update takes about a millisecond plus the handler delay; a
		// request that is not answered within 5 s only makes the run one "in which a
		// request timed out" (never an alarm), so the limit need not be generous
		limit := 5 * time.Second
		if shrinking.Load() {
			limit = 400 * time.Millisecond
		}
		sawTimeout := false
		for _, r := range results {
			if r.kind == "timeout" {
				sawTimeout = true
			}
		}
		if sawTimeout {
			// after a timed-out request the two sides may have diverged (each may have
			// accepted the other's abandoned proposal); later requests can then go
			// unanswered, and the run is only checked for clause (c) anyway
			limit = 400 * time.Millisecond
		}
		if collide {
			// simultaneous proposals on one channel end in both requests timing out by design
			limit = 400 * time.Millisecond
			o.Class("colliding-proposals")
		}
		dmu.Lock()
		for _, si := range g {
			s := c.Steps[si]
			ch := chans[s.Chan][s.By]
			if decisions[ch.ID()] == nil {
				decisions[ch.ID()] = map[channel.Index]decision{}
			}
			decisions[ch.ID()][ch.Idx()] = decision{accept: s.Accept, delay: time.Duration(s.DelayMs) * time.Millisecond, ctxEnds: s.CtxEnds && s.Double == "", double: s.Double}
		}
		dmu.Unlock()
		for _, si := range g {
			usedChans[c.Steps[si].Chan] = true
		}
		res := make([]result, len(g))
		var wg sync.WaitGroup
		for gi, si := range g {
			wg.Add(1)
			go func(gi, si int) {
				defer wg.Done()
				res[gi] = execStep(si, limit)
			}(gi, si)
		}
		wg.Wait()
		results = append(results, res...)
		// clause (b), second half: after a rejection both parties are ready for
		// further updates.  Checked right away when nothing else ran concurrently
		// and no request has timed out so far.
		if len(g) == 1 && res[0].kind == "rejected" && !sawTimeout {
			pr.Env.Quiesce(5*time.Millisecond, sim.HangLimit)
			s := c.Steps[g[0]]
			for i := 0; i < 2; i++ {
				if ph := chans[s.Chan][i].Phase(); ph != channel.Acting {
					return fail("not-ready-after-reject", "step %d: after the rejected update party %d is in phase %v instead of Acting", g[0], i, ph)
				}
			}
			o.Class("ready-after-reject-checked")
		}
		// a (valid: the update function only makes affordable transfers) proposal
		// refused by the proposer's own machine although the channel is idle, not
		// final and nothing has timed out means the party was not ready for a
		// further update
		for _, r := range res {
			if c.Steps[r.step].Invalid {
				o.Class("invalid-proposal:" + r.kind)
				continue
			}
			if r.kind == "local" && !sawTimeout && len(g) == 1 && r.err != nil {
				st := chans[c.Steps[r.step].Chan][c.Steps[r.step].By].State()
				if !st.IsFinal {
					return fail("not-ready-for-update", "step %d: Update was refused by the proposer's own machine (%v) although its channel is idle and not final", r.step, r.err)
				}
			}
		}
		if c.Stepwise && !sawTimeout {
			if out := evaluate(false); out != nil {
				return out
			}
		}
	}
	if c.Stepwise {
		o.Class("stepwise")
	}
	if out := evaluate(true); out != nil {
		return out
	}
	if len(usedChans) >= 2 {
		o.Class("several-channels")
	}
	rejected := 0
	for _, r := range results {
		if r.kind == "rejected" {
			rejected++
		}
	}
	if rejected > 0 {
		o.Class("with-reject")
	}
	if overlaps > 0 {
		o.Class("with-overlap")
	}
	o.Nontrivial = rejected > 0 || overlaps > 0 || len(usedChans) >= 2
	return o
}

const rule = "programs of 1-20 update proposals on 1-3 ledger channels between two honest clients (real client.Client over the scripted FIFO bus, optional serializer): proposer, channel, amount and direction, final flag, responder decision (accept/reject) and handler delay 0-20 ms; steps are sequential or run concurrently in groups of 2-3 (same or different channel, same or opposite party). Observation: return value of every Channel.Update, the merged, globally ordered log of both recording persisters (Staged/SigAdded/Enabled with transaction clones), State()/Phase() at quiescence. Oracle: (a) Update==nil => proposer and, at quiescence, the peer enabled exactly the proposed state; (b) rejection => neither side enabled the proposed state; (c) every enabled transaction carries a valid signature of every participant; (d) if no request timed out: at every point of the merged log the parties' versions differ by <= 1, no version has two different fully signed states anywhere in the log, and at quiescence both sides hold the same state in phase Acting/Final. A fourteenth of the steps proposes a state that mints a unit (refused by the proposer's own machine, nothing sent); in two fifths of the steps the handler answers twice (Reject-Accept, Reject-Reject, Accept-Accept, Accept with a Reject from a watchdog 50-550 us later, Accept with a Reject at the moment the acceptance is on the wire while the accepting call is held in Publish for 3 ms). non-trivial = a rejection, an overlapping group, or >= 2 channels in use"

func TestUpdateAgreement(t *testing.T) {
	rec := h.Begin("C06", "")
	rec.SetRule(rule,
		"runs in which a request timed out (simultaneous proposals of both parties on one channel always do, each side holds its machine mutex while waiting) are only checked for clause (c), as the property states",
		"goroutine schedules inside the clients are sampled; message order per link is FIFO; handler delays are real time and only shape the schedule")
	defer rec.Flush()
	rapid.Check(t, func(rt *rapid.T) {
		c := drawCase(rt)
		rec.MarkCurrent(c)
		shrinking.Store(rec.Failed())
		rec.Report(rt, c, runCase(c))
	})
}

func TestReplay(t *testing.T) {
	p := h.ReplayPath()
	if p == "" {
		t.Skip("no replay requested")
	}
	var c Case
	if err := h.LoadReplay(p, &c); err != nil {
		t.Fatal(err)
	}
	rec := h.Begin("C06", "replay")
	// a handler whose watchdog rejects while its acceptance is under way races
	// with the library by design (F35): such cases are repeated
	runs := 1
	for _, s := range c.Steps {
		if s.Double == "acc|rej" {
			runs = 20
		}
	}
	for i := 1; ; i++ {
		o := runCase(c)
		if o.Fail != nil || i == runs {
			fmt.Println("classes:", o.Classes, "runs:", i)
			rec.Report(t, c, o)
			return
		}
	}
}
