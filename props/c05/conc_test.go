package c05

// Part (c): concurrent mode.  A case is a sequence of segments; each segment is
// a sequential piece (same operations and oracle as the other parts) followed
// by a block in which several harness goroutines act on the watcher at once:
//
//	mode "pub": one goroutine injects events one after the other while one
//	            goroutine per channel publishes new versions (and one more
//	            repeats refused stop requests).  Oracle: interval-tolerant - the
//	            watcher's idea of "newest" lies between the last publish that
//	            completed before the injection and the last publish that started
//	            before the handler returned.
//	mode "ev":  one goroutine per watched channel injects registered events, no
//	            publishing.  Handlers of one channel family are serialised by the
//	            watcher, so the recorded Register calls must be explained by at
//	            least one interleaving of the per-channel event sequences
//	            (exact model, every interleaving is tried).

import (
	"context"
	"fmt"
	"runtime"
	"sync"
	"testing"
	"time"

	"pgregory.net/rapid"

	"perun.network/go-perun/channel"
	"perun.network/go-perun/watcher/local"

	"verif/h"
)

// COp is an operation inside a block with a pacing delay (microseconds) before
// it is issued.  The delay only varies the interleaving; it is never a verdict.
type COp struct {
	Op
	D int `json:"d,omitempty"`
}

// Seg is one segment of a concurrent case.
type Seg struct {
	Seq  []Op   `json:"seq,omitempty"`
	Mode string `json:"mode,omitempty"` // "", "pub", "ev"
	// mode "pub": Events are injected by one goroutine; Pubs[c] are published
	// by one goroutine per channel (K "pubp" with toggle C for the parent, "pubs").
	Events []COp   `json:"events,omitempty"`
	Pubs   [][]COp `json:"pubs,omitempty"` // index = channel (missing = none)
	// mode "ev": Ev[c] are injected by one goroutine per channel.
	Ev [][]COp `json:"ev,omitempty"` // index = channel (missing = none)
	// Stops: stop requests for the parent issued by one more goroutine during
	// the block (only while a sub-channel is watched: every one must be refused).
	Stops []int `json:"stops,omitempty"` // pacing delays
}

func at(x [][]COp, c int) []COp {
	if c < len(x) {
		return x[c]
	}
	return nil
}

func put(x *[][]COp, c int, op COp) {
	for len(*x) <= c {
		*x = append(*x, nil)
	}
	(*x)[c] = append((*x)[c], op)
}

// ------------------------------------------------------------------ logical clock

type pubRec struct {
	c          int
	v          uint64
	start, end int // ticks; end == 0: not returned yet
}

type clock struct {
	mu   sync.Mutex
	t    int
	pubs []pubRec
}

func (c *clock) tick() int {
	c.mu.Lock()
	defer c.mu.Unlock()
	c.t++
	return c.t
}

func (c *clock) pubStart(ch int, v uint64) int {
	c.mu.Lock()
	defer c.mu.Unlock()
	c.t++
	c.pubs = append(c.pubs, pubRec{c: ch, v: v, start: c.t})
	return len(c.pubs) - 1
}

func (c *clock) pubEnd(i int) {
	c.mu.Lock()
	defer c.mu.Unlock()
	c.t++
	c.pubs[i].end = c.t
}

// bounds returns, for channel ch, the newest version whose Publish had returned
// before tick ti (lo) and the newest version whose Publish had been called
// before tick tr (hi).
func (c *clock) bounds(ch int, base uint64, ti, tr int) (lo, hi uint64) {
	c.mu.Lock()
	defer c.mu.Unlock()
	lo, hi = base, base
	for _, p := range c.pubs {
		if p.c != ch {
			continue
		}
		if p.end != 0 && p.end < ti && p.v > lo {
			lo = p.v
		}
		if p.start < tr && p.v > hi {
			hi = p.v
		}
	}
	return lo, hi
}

func pace(us int) {
	switch {
	case us <= 0:
	case us < 50:
		runtime.Gosched()
	default:
		time.Sleep(time.Duration(us) * time.Microsecond)
	}
}

// ------------------------------------------------------------------ segments

// validSeg checks the block against the model state reached after Seq (m is a
// scratch copy).
func validSeg(m *model, s Seg) bool {
	switch s.Mode {
	case "":
		return len(s.Events) == 0 && len(s.Stops) == 0
	case "pub", "ev":
	default:
		return false
	}
	if !m.watched(0) || len(s.Pubs) > 3 || len(s.Ev) > 3 || len(s.Stops) > 8 {
		return false
	}
	if len(s.Stops) > 0 && m.subsWatched() == 0 {
		return false
	}
	npub := [3]uint64{}
	for c := 0; c <= 2; c++ {
		if s.Mode == "ev" && len(at(s.Pubs, c)) > 0 {
			return false
		}
		if len(at(s.Pubs, c)) > 8 {
			return false
		}
		for _, p := range at(s.Pubs, c) {
			if !m.watched(c) {
				return false
			}
			if c == 0 && (p.K != "pubp" || p.C < 0 || p.C > 2) {
				return false
			}
			if c != 0 && (p.K != "pubs" || p.C != c) {
				return false
			}
			npub[c]++
		}
	}
	okEv := func(e COp, c int) bool {
		switch e.K {
		case "reg", "prog", "conc":
		default:
			return false
		}
		return e.C == c && m.watched(c) && e.V <= m.ch[c].newest+npub[c]+1
	}
	if s.Mode == "pub" {
		if len(s.Events) > 8 {
			return false
		}
		for _, e := range s.Events {
			if e.C < 0 || e.C > 2 || !okEv(e, e.C) {
				return false
			}
		}
		for c := 0; c <= 2; c++ {
			if len(at(s.Ev, c)) > 0 {
				return false
			}
		}
	} else {
		if len(s.Events) > 0 {
			return false
		}
		for c := 0; c <= 2; c++ {
			if len(at(s.Ev, c)) > 3 {
				return false
			}
			for _, e := range at(s.Ev, c) {
				if !okEv(e, c) {
					return false
				}
			}
		}
	}
	return true
}

// runSeg executes one segment; returns the number of expected refutations and
// whether an operation followed a refused stop.
func (r *runner) runSeg(s Seg) (refutes int, afterRefuse bool, _ *h.Failure) {
	for i, op := range s.Seq {
		if !r.m.valid(op) {
			r.o.Class("skipped-invalid-op")
			continue
		}
		e, fl := r.step(op)
		if e != nil && e.refute {
			refutes++
		}
		if e != nil && e.afterRefuse {
			afterRefuse = true
		}
		if fl != nil {
			fl.Msg = fmt.Sprintf("op %d: %s", i, fl.Msg)
			return refutes, afterRefuse, fl
		}
	}
	if s.Mode == "" {
		return refutes, afterRefuse, nil
	}
	if !validSeg(r.m.clone(), s) {
		r.o.Class("skipped-invalid-block")
		return refutes, afterRefuse, nil
	}
	if r.m.refusals > 0 {
		afterRefuse = true
	}
	var n int
	var fl *h.Failure
	if s.Mode == "pub" {
		n, fl = r.blockPub(s)
	} else {
		n, fl = r.blockEv(s)
	}
	return refutes + n, afterRefuse, fl
}

// stopper repeats stop requests for the parent during a block; every one must
// be refused with ErrSubChannelsPresent.
func (r *runner) stopper(delays []int, start <-chan struct{}) *h.Failure {
	<-start
	for i, d := range delays {
		pace(d)
		var err error
		if fl := guarded("StopWatching", func() { err = r.w.StopWatching(context.Background(), r.u.ids[0]) }); fl != nil {
			return fl
		}
		if err == nil {
			return h.Failf("stop-not-refused", "concurrent stop request %d: StopWatching(parent) succeeded although sub-channels are watched", i)
		}
		if !local.IsErrSubChannelsPresent(err) {
			return h.Failf("stop-refusal-wrong-error", "concurrent stop request %d: %v", i, err)
		}
	}
	return nil
}

// checkRelay drains the client stream of channel c after one injected event.
func (r *runner) checkRelay(op Op, injected channel.AdjudicatorEvent, want bool) *h.Failure {
	c := op.C
	wasClosed := r.closed[c]
	evs := r.drain(c)
	n := 0
	if want {
		n = 1
	}
	switch {
	case len(evs) > n && n == 0 && sameEvent(evs[0], injected):
		return h.Failf("relay-not-increasing", "after %v: registered event version %d relayed to the client although version %d was relayed before", op, op.V, r.m.ch[c].relayedMax)
	case len(evs) > n:
		return h.Failf("relay-spurious", "after %v: client stream of channel %d carries %d event(s), expected %d (last: %s)", op, c, len(evs), n, evString(evs[len(evs)-1]))
	case len(evs) < n:
		return h.Failf("relay-missing:"+op.K, "after %v: event was not relayed on the client stream of channel %d", op, c)
	case n == 1 && !sameEvent(evs[0], injected):
		return h.Failf("relay-wrong-event", "after %v: client stream of channel %d carries %s", op, c, evString(evs[0]))
	}
	if !wasClosed && r.closed[c] {
		return h.Failf("stream-closed-while-watched", "after %v: client stream of channel %d was closed although the channel is still watched", op, c)
	}
	return nil
}

// parentPlan computes versions and locked lists of the planned parent
// publishes and registers them in the model's payload table.
func (r *runner) parentPlan(pubs []COp) (locked map[uint64][]int) {
	locked = map[uint64][]int{r.m.ch[0].newest: r.m.locked}
	cur := append([]int(nil), r.m.locked...)
	v := r.m.ch[0].newest
	for _, p := range pubs {
		v++
		if p.C != 0 {
			found := false
			var l []int
			for _, x := range cur {
				if x == p.C {
					found = true
				} else {
					l = append(l, x)
				}
			}
			if !found {
				l = append(l, p.C)
			}
			cur = l
		}
		locked[v] = append([]int(nil), cur...)
		r.m.lockedAt[v] = locked[v]
	}
	return locked
}

// blockPub: events injected by this goroutine while publishers run.
func (r *runner) blockPub(s Seg) (refutes int, _ *h.Failure) {
	ctx := context.Background()
	clk := &clock{}
	base := [3]uint64{r.m.ch[0].newest, r.m.ch[1].newest, r.m.ch[2].newest}
	plocked := r.parentPlan(at(s.Pubs, 0))
	// events are built before anything moves
	evs := make([]channel.AdjudicatorEvent, len(s.Events))
	for i, e := range s.Events {
		evs[i] = r.eventFor(e.Op)
	}
	start := make(chan struct{})
	var wg sync.WaitGroup
	fails := make(chan *h.Failure, 8)
	for c := 0; c <= 2; c++ {
		if len(at(s.Pubs, c)) == 0 {
			continue
		}
		wg.Add(1)
		go func(c int) {
			defer wg.Done()
			<-start
			v := base[c]
			for _, p := range at(s.Pubs, c) {
				pace(p.D)
				v++
				var locked []int
				if c == 0 {
					locked = plocked[v]
				}
				tx := fresh(r.u.tx(c, v, locked))
				i := clk.pubStart(c, v)
				var err error
				fl := guarded("Publish", func() { err = r.pubs[c].Publish(ctx, tx) })
				clk.pubEnd(i)
				if fl == nil && err != nil {
					fl = h.Failf("publish-failed", "Publish(channel %d v%d): %v", c, v, err)
				}
				if fl != nil {
					fails <- fl
					return
				}
			}
		}(c)
	}
	if len(s.Stops) > 0 {
		wg.Add(1)
		go func() {
			defer wg.Done()
			if fl := r.stopper(s.Stops, start); fl != nil {
				fails <- fl
			}
		}()
		r.m.refusals += len(s.Stops)
		r.o.Class("conc:refused-stops-during-block")
	}
	close(start)

	var fail *h.Failure
	for i, e := range s.Events {
		pace(e.D)
		ti := clk.tick()
		if fl := r.inject(e.C, evs[i]); fl != nil {
			fail = fl
			break
		}
		tr := clk.tick()
		calls := r.rs.takeCalls()
		var lo, hi [3]uint64
		for c := 0; c <= 2; c++ {
			lo[c], hi[c] = clk.bounds(c, base[c], ti, tr)
		}
		relayWant := true
		if e.K == "reg" {
			relayWant = r.m.relay(e.C, e.V)
			must := e.V < lo[e.C] && e.V >= r.m.ch[e.C].selfReg
			mustNot := e.V >= hi[e.C] || e.V < r.m.ch[e.C].selfReg
			switch {
			case len(calls) > 1:
				fail = h.Failf("register-repeated", "after %v: %d Register calls for one event", e.Op, len(calls))
			case must && len(calls) == 0:
				fail = h.Failf("register-missing", "after %v (concurrent publishing): no Register call although version %d of channel %d was published completely before the event was injected (self-registered %d)", e.Op, lo[e.C], e.C, r.m.ch[e.C].selfReg)
			case mustNot && len(calls) == 1:
				fail = h.Failf("register-unexpected", "after %v (concurrent publishing): Register call although no version above %d of channel %d was handed to Publish before the handler returned (self-registered %d)", e.Op, hi[e.C], e.C, r.m.ch[e.C].selfReg)
			}
			if fail != nil {
				break
			}
			switch {
			case must:
				r.o.Class("conc:pub:must-refute")
				refutes++
			case mustNot:
				r.o.Class("conc:pub:must-not-refute")
			case len(calls) == 1:
				r.o.Class("conc:pub:either:refuted")
			default:
				r.o.Class("conc:pub:either:not-refuted")
			}
			if len(calls) == 1 {
				if fl := r.checkConcCall(e.Op, calls[0], lo, hi, plocked); fl != nil {
					fail = fl
					break
				}
			}
		} else if len(calls) > 0 {
			fail = h.Failf("register-unexpected", "after %v: Register call for an event that is not a registered event", e.Op)
			break
		}
		if fl := r.checkRelay(e.Op, evs[i], relayWant); fl != nil {
			fail = fl
			break
		}
	}
	// join
	done := make(chan struct{})
	go func() { wg.Wait(); close(done) }()
	timer := time.NewTimer(hangLimit + 5*time.Second)
	defer timer.Stop()
	select {
	case <-done:
	case <-timer.C:
		if fail == nil {
			fail = h.Failf("hang:block", "publishers / stop requests of a concurrent block did not finish")
		}
		return refutes, fail
	}
	close(fails)
	for fl := range fails {
		if fail == nil {
			fail = fl
		}
	}
	if fail != nil {
		return refutes, fail
	}
	// the block is over: every planned version is published
	for c := 0; c <= 2; c++ {
		r.m.ch[c].newest = base[c] + uint64(len(at(s.Pubs, c)))
	}
	r.m.locked = plocked[r.m.ch[0].newest]
	// nothing may happen after the last handler returned
	if calls := r.rs.takeCalls(); len(calls) > 0 {
		return refutes, h.Failf("register-unexpected", "%d Register call(s) after the last event handler of the block had returned", len(calls))
	}
	for c := 0; c <= 2; c++ {
		if evs := r.drain(c); len(evs) > 0 {
			return refutes, h.Failf("relay-spurious", "client stream of channel %d carries %d event(s) after the block", c, len(evs))
		}
	}
	return refutes, nil
}

// checkConcCall validates a Register call observed during concurrent
// publishing: every version must lie in its interval and be exactly the
// transaction that was published with that version; then the model adopts the
// call as what the watcher registered itself.
func (r *runner) checkConcCall(op Op, c regCall, lo, hi [3]uint64, plocked map[uint64][]int) *h.Failure {
	if c.req.Secondary {
		return h.Failf("register-args:secondary", "after %v: the watcher's Register request (version %d) is marked secondary", op, c.req.Tx.Version)
	}
	if c.req.Tx.State == nil {
		return h.Failf("register-args:parent-tx", "after %v: Register request without a state", op)
	}
	pv := c.req.Tx.Version
	if pv < lo[0] || pv > hi[0] {
		return h.Failf("register-args:parent-tx", "after %v (concurrent publishing): registered parent version %d, but version %d was published completely before the event and nothing above %d was handed to Publish before the handler returned", op, pv, lo[0], hi[0])
	}
	if op.C == 0 && pv <= op.V {
		return h.Failf("register-args:parent-tx", "after %v: refuted with parent version %d, which is not newer than the reported one", op, pv)
	}
	locked, ok := plocked[pv]
	if !ok {
		return h.Failf("harness:plan", "no planned parent transaction with version %d", pv)
	}
	if len(c.subs) != len(locked) {
		return h.Failf("register-args:sub-count", "after %v: %d sub-channel states, parent version %d locks %d", op, len(c.subs), pv, len(locked))
	}
	var cls expect
	exp := r.m.tree(pv, locked, func(j int) uint64 {
		for i, x := range locked {
			if x == j && c.subs[i].State != nil {
				return c.subs[i].State.Version
			}
		}
		return ^uint64(0)
	}, &cls)
	for _, s := range exp.Subs {
		if !s.Known || r.m.ch[s.J].status != stWatched {
			continue
		}
		if s.V < lo[s.J] || s.V > hi[s.J] {
			return h.Failf("register-args:sub-tx", "after %v (concurrent publishing): registered version %d of sub-channel %d, but version %d was published completely before the event and nothing above %d was handed to Publish before the handler returned", op, s.V, s.J, lo[s.J], hi[s.J])
		}
		if s.J == op.C && s.V <= op.V {
			return h.Failf("register-args:sub-tx", "after %v: refuted with version %d of the reported sub-channel, which is not newer than the reported one", op, s.V)
		}
	}
	if fl := r.checkRegArgs(op.String()+" (concurrent publishing)", c, exp); fl != nil {
		return fl
	}
	for _, cl := range cls.classes {
		r.o.Class(cl)
	}
	r.m.noteSelfReg(exp)
	return nil
}

// blockEv: one injecting goroutine per channel, no publishing.
func (r *runner) blockEv(s Seg) (refutes int, _ *h.Failure) {
	pre := r.m.clone() // relay state before the block
	evs := [3][]channel.AdjudicatorEvent{}
	for c := 0; c <= 2; c++ {
		for _, e := range at(s.Ev, c) {
			evs[c] = append(evs[c], r.eventFor(e.Op))
		}
	}
	start := make(chan struct{})
	var wg sync.WaitGroup
	fails := make(chan *h.Failure, 8)
	relayed := [3][]channel.AdjudicatorEvent{}
	threads := 0
	for c := 0; c <= 2; c++ {
		if len(at(s.Ev, c)) == 0 {
			continue
		}
		threads++
		wg.Add(1)
		go func(c int) {
			defer wg.Done()
			<-start
			for i, e := range at(s.Ev, c) {
				pace(e.D)
				if fl := r.inject(c, evs[c][i]); fl != nil {
					fails <- fl
					return
				}
				// only this goroutine touches the stream of c
				relayed[c] = append(relayed[c], r.drain(c)...)
			}
		}(c)
	}
	if len(s.Stops) > 0 {
		wg.Add(1)
		go func() {
			defer wg.Done()
			if fl := r.stopper(s.Stops, start); fl != nil {
				fails <- fl
			}
		}()
		r.m.refusals += len(s.Stops)
		r.o.Class("conc:refused-stops-during-block")
	}
	close(start)
	done := make(chan struct{})
	go func() { wg.Wait(); close(done) }()
	timer := time.NewTimer(3*hangLimit + 5*time.Second)
	defer timer.Stop()
	select {
	case <-done:
	case <-timer.C:
		return 0, h.Failf("hang:block", "event injectors / stop requests of a concurrent block did not finish")
	}
	close(fails)
	for fl := range fails {
		return 0, fl
	}
	if threads > 1 {
		r.o.Class("conc:ev:parallel-handlers")
	}
	calls := r.rs.takeCalls()
	// find an interleaving of the per-channel sequences that explains the
	// Register calls (handlers of one family are serialised by the watcher)
	var pos [3]int
	var firstMismatch *h.Failure
	var search func(m *model, pos [3]int, calls []regCall, classes []string, nref int) (*model, []string, int, bool)
	search = func(m *model, pos [3]int, calls []regCall, classes []string, nref int) (*model, []string, int, bool) {
		rest := false
		for c := 0; c <= 2; c++ {
			if pos[c] >= len(at(s.Ev, c)) {
				continue
			}
			rest = true
			m2 := m.clone()
			e := m2.apply(at(s.Ev, c)[pos[c]].Op)
			cs := calls
			if e.reg != nil {
				if len(cs) == 0 {
					continue
				}
				if fl := r.checkRegArgs(at(s.Ev, c)[pos[c]].Op.String(), cs[0], e.reg); fl != nil {
					if firstMismatch == nil {
						firstMismatch = fl
					}
					continue
				}
				cs = cs[1:]
			}
			p2 := pos
			p2[c]++
			n2 := nref
			if e.refute {
				n2++
			}
			if mm, cl, n, ok := search(m2, p2, cs, append(classes[:len(classes):len(classes)], e.classes...), n2); ok {
				return mm, cl, n, true
			}
		}
		if !rest && len(calls) == 0 {
			return m, classes, nref, true
		}
		return nil, nil, 0, false
	}
	// the refusals counter was already advanced; apply() labels are taken from the explaining path
	mm, classes, nref, ok := search(r.m, pos, calls, nil, 0)
	if !ok {
		desc := ""
		for _, c := range calls {
			if c.req.Tx.State != nil {
				desc += fmt.Sprintf(" Register(parent v%d, %d sub-states)", c.req.Tx.Version, len(c.subs))
			} else {
				desc += " Register(no state)"
			}
		}
		detail := ""
		if firstMismatch != nil {
			detail = "; first mismatch: " + firstMismatch.Error()
		}
		sig := "conc:register-calls-not-explained"
		if len(calls) == 0 {
			sig = "register-missing"
		}
		return 0, h.Failf(sig, "events injected concurrently on several channels (%s): the %d recorded Register call(s)%s match no interleaving of the per-channel event sequences%s",
			evDesc(s), len(calls), desc, detail)
	}
	*r.m = *mm
	for _, cl := range classes {
		r.o.Class(cl)
	}
	// relays: per channel, independent of the interleaving
	for c := 0; c <= 2; c++ {
		var want []channel.AdjudicatorEvent
		for i, e := range at(s.Ev, c) {
			if e.K != "reg" || pre.relay(c, e.V) {
				want = append(want, evs[c][i])
			}
		}
		got := relayed[c]
		if len(got) != len(want) {
			sig := "relay-spurious"
			if len(got) < len(want) {
				sig = "relay-missing:" + at(s.Ev, c)[0].K
			}
			return nref, h.Failf(sig, "events injected concurrently on several channels (%s): client stream of channel %d carries %d event(s), expected %d", evDesc(s), c, len(got), len(want))
		}
		for i := range want {
			if !sameEvent(got[i], want[i]) {
				return nref, h.Failf("relay-wrong-event", "events injected concurrently (%s): client stream of channel %d carries %s at position %d, expected %s", evDesc(s), c, evString(got[i]), i, evString(want[i]))
			}
		}
	}
	for c := 0; c <= 2; c++ {
		if len(at(s.Ev, c)) == 0 {
			if x := r.drain(c); len(x) > 0 {
				return nref, h.Failf("relay-spurious", "client stream of channel %d carries %d event(s) although no event was injected for it", c, len(x))
			}
		}
		if r.closed[c] && r.m.watched(c) {
			return nref, h.Failf("stream-closed-while-watched", "client stream of channel %d was closed during a concurrent block", c)
		}
	}
	return nref, nil
}

func evDesc(s Seg) string {
	d := ""
	for c := 0; c <= 2; c++ {
		for _, e := range at(s.Ev, c) {
			d += e.Op.String() + " "
		}
		if c < 2 && len(at(s.Ev, c)) > 0 {
			d += "| "
		}
	}
	return d
}

// ------------------------------------------------------------------ generator

const concRule = "rapid: 1..4 segments, each a sequential piece of 0..8 operations (alphabet and oracle of the other parts) followed by a concurrent block: mode pub = 1..6 events (any watched channel, versions 0..final newest+1) injected one after the other by one goroutine while one goroutine per watched channel publishes 0..5 new versions (parent publishes may lock/unlock) with pacing delays of 0..3 ms and a further goroutine repeats stop requests for the parent (only while a sub-channel is watched: each must be refused); oracle with intervals: lo(c) = newest version whose Publish returned before the injection, hi(c) = newest version handed to Publish before the handler returned (logical ticks under one mutex): Register must happen if e < lo(c) and e >= selfRegistered(c), must not happen if e >= hi(c) or e < selfRegistered(c), either otherwise; an observed call must carry a published parent transaction with a version in [lo(0),hi(0)] (and > e for a parent event), per locked entry of THAT transaction the published transaction of a watched sub-channel with a version in [lo(j),hi(j)] or the archived one, and becomes the self-registered version. mode ev = up to 3 registered/progressed/concluded events per watched channel injected by one goroutine per channel, no publishing: the recorded Register call sequence must equal the expected sequence of at least one interleaving of the per-channel sequences under the exact model (all interleavings tried); relays are judged per channel. non-trivial = a refutation is required (sequential piece, must-refute in mode pub, or in the explaining interleaving of mode ev) or an operation/block follows a refused stop"

var pacing = []int{0, 0, 10, 200, 700, 1500, 3000}

func drawSeqOps(m *model, raws []rawOp, allowEnd bool) []Op {
	var ops []Op
	for _, raw := range raws {
		if !m.watched(0) {
			break
		}
		op, ok := pickOp(m, raw, allowEnd)
		if !ok {
			continue
		}
		m.apply(op)
		ops = append(ops, op)
	}
	return ops
}

func genCOpRaw() *rapid.Generator[[4]int] {
	return rapid.Custom(func(t *rapid.T) [4]int {
		return [4]int{
			rapid.IntRange(0, 5).Draw(t, "ch"),
			rapid.IntRange(0, 9).Draw(t, "vsel"),
			rapid.IntRange(0, len(pacing)-1).Draw(t, "pace"),
			rapid.IntRange(0, 9).Draw(t, "kind"),
		}
	})
}

func drawConcCase(t *rapid.T) Case {
	var c Case
	m := newModel(0)
	nseg := rapid.IntRange(1, 4).Draw(t, "nseg")
	for si := 0; si < nseg && m.watched(0); si++ {
		var s Seg
		raws := rapid.SliceOfN(genRaw(), 0, 8).Draw(t, "seq")
		s.Seq = drawSeqOps(m, raws, false)
		if !m.watched(0) {
			c.Segs = append(c.Segs, s)
			break
		}
		var watched []int
		for ch := 0; ch <= 2; ch++ {
			if m.watched(ch) {
				watched = append(watched, ch)
			}
		}
		mode := rapid.IntRange(0, 3).Draw(t, "mode")
		if mode >= 2 && len(watched) < 2 {
			mode = 1 // parallel handlers need two channels
		}
		if m.subsWatched() > 0 {
			for _, p := range rapid.SliceOfN(rapid.IntRange(0, len(pacing)-1), 0, 3).Draw(t, "stops") {
				s.Stops = append(s.Stops, pacing[p])
			}
		}
		if mode <= 1 {
			s.Mode = "pub"
			npub := [3]uint64{}
			for _, ch := range watched {
				for _, raw := range rapid.SliceOfN(genCOpRaw(), 0, 5).Draw(t, fmt.Sprintf("pubs%d", ch)) {
					op := COp{D: pacing[raw[2]]}
					if ch == 0 {
						op.K = "pubp"
						if raw[3] >= 6 {
							op.C = 1 + raw[0]%2
						}
					} else {
						op.K, op.C = "pubs", ch
					}
					put(&s.Pubs, ch, op)
					npub[ch]++
				}
			}
			for _, raw := range rapid.SliceOfN(genCOpRaw(), 1, 6).Draw(t, "events") {
				ch := watched[raw[0]%len(watched)]
				op := COp{D: pacing[raw[2]]}
				op.C = ch
				switch {
				case raw[3] == 0:
					op.K = "prog"
				case raw[3] == 1:
					op.K = "conc"
				default:
					op.K = "reg"
				}
				hi := m.ch[ch].newest + npub[ch] + 1
				switch {
				case raw[1] <= 2:
					op.V = m.ch[ch].newest // the last version before the block
				case raw[1] <= 4 && m.ch[ch].newest > 0:
					op.V = m.ch[ch].newest - 1
				case raw[1] == 5:
					op.V = m.ch[ch].selfReg
				default:
					op.V = uint64(raw[1]*7+raw[0]) % (hi + 1)
				}
				if op.V > hi {
					op.V = hi
				}
				s.Events = append(s.Events, op)
			}
			// advance the generator's model over the block (selfReg/relay state are
			// unknown to the generator; they only steer later version choices)
			for ch := 0; ch <= 2; ch++ {
				for _, p := range at(s.Pubs, ch) {
					m.apply(p.Op)
				}
			}
		} else {
			s.Mode = "ev"
			total := 0
			for _, ch := range watched {
				for _, raw := range rapid.SliceOfN(genCOpRaw(), 0, 3).Draw(t, fmt.Sprintf("ev%d", ch)) {
					op := COp{D: pacing[raw[2]]}
					op.C = ch
					switch {
					case raw[3] == 0:
						op.K = "prog"
					case raw[3] == 1:
						op.K = "conc"
					default:
						op.K = "reg"
					}
					hi := m.ch[ch].newest + 1
					switch {
					case raw[1] <= 3:
						op.V = 0
					case raw[1] <= 5 && m.ch[ch].newest > 0:
						op.V = m.ch[ch].newest - 1
					case raw[1] == 6:
						op.V = m.ch[ch].selfReg
					default:
						op.V = uint64(raw[1]*7+raw[0]) % (hi + 1)
					}
					if op.V > hi {
						op.V = hi
					}
					put(&s.Ev, ch, op)
					total++
				}
			}
			if total == 0 {
				put(&s.Ev, 0, COp{Op: Op{K: "reg", C: 0, V: 0}})
			}
			// the generator's model follows one arbitrary interleaving
			for ch := 0; ch <= 2; ch++ {
				for _, e := range at(s.Ev, ch) {
					m.apply(e.Op)
				}
			}
		}
		m.refusals += len(s.Stops)
		if !validSeg(preBlock(c, s), s) {
			t.Fatalf("harness: drew an invalid block %+v", s)
		}
		c.Segs = append(c.Segs, s)
	}
	return c
}

// preBlock recomputes the model state in front of the block of segment s
// (appended to case c).
func preBlock(c Case, s Seg) *model {
	m := newModel(c.P0)
	for _, op := range c.Ops {
		if m.valid(op) {
			m.apply(op)
		}
	}
	adv := func(x Seg, block bool) {
		for _, op := range x.Seq {
			if m.valid(op) {
				m.apply(op)
			}
		}
		if !block {
			return
		}
		for ch := 0; ch <= 2; ch++ {
			for _, p := range at(x.Pubs, ch) {
				m.apply(p.Op)
			}
		}
	}
	for _, x := range c.Segs {
		adv(x, true)
	}
	adv(s, false)
	return m
}

func TestConcurrent(t *testing.T) {
	rec := h.Begin("C05", "conc")
	rec.SetRule(concRule, append(append([]string(nil), commonAssumptions...),
		"concurrent part: reproducible at the level of the case, not of the goroutine interleaving; pacing delays only vary the schedule; start/stop of sub-channels and successful stops happen in the sequential pieces only")...)
	defer rec.Flush()
	g0 := runtime.NumGoroutine()
	rapid.Check(t, func(rt *rapid.T) {
		c := drawConcCase(rt)
		rec.MarkCurrent(c)
		rec.Report(rt, c, runCase(c))
	})
	time.Sleep(20 * time.Millisecond)
	rec.AddExtra("goroutines_left_conc", runtime.NumGoroutine()-g0)
}
