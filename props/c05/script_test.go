package c05

// Scripted channel.RegisterSubscriber: records Register calls; its
// subscriptions hand out exactly the events the harness injects and report when
// the watcher's handler has come back to Next().

import (
	"context"
	"sync"
	"time"

	"perun.network/go-perun/channel"
)

// hangLimit is a hang detector only (the waits it bounds normally take about a
// millisecond); it is never used as a verdict about timing.
const hangLimit = 60 * time.Second

type regCall struct {
	req  channel.AdjudicatorReq
	subs []channel.SignedState
}

type scriptRS struct {
	mu    sync.Mutex
	calls []regCall
	subs  map[channel.ID]*scriptSub
}

func newScriptRS() *scriptRS { return &scriptRS{subs: map[channel.ID]*scriptSub{}} }

// Register records the call and succeeds.
func (r *scriptRS) Register(_ context.Context, req channel.AdjudicatorReq, subs []channel.SignedState) error {
	r.mu.Lock()
	r.calls = append(r.calls, regCall{req: req, subs: append([]channel.SignedState(nil), subs...)})
	r.mu.Unlock()
	return nil
}

// Subscribe returns a fresh scripted subscription for the channel.
func (r *scriptRS) Subscribe(_ context.Context, id channel.ID) (channel.AdjudicatorSubscription, error) {
	s := &scriptSub{
		events: make(chan channel.AdjudicatorEvent),
		closed: make(chan struct{}),
		poke:   make(chan struct{}, 1),
	}
	r.mu.Lock()
	r.subs[id] = s
	r.mu.Unlock()
	return s, nil
}

func (r *scriptRS) sub(id channel.ID) *scriptSub {
	r.mu.Lock()
	defer r.mu.Unlock()
	return r.subs[id]
}

// takeCalls returns the Register calls recorded since the last takeCalls.
func (r *scriptRS) takeCalls() []regCall {
	r.mu.Lock()
	defer r.mu.Unlock()
	c := r.calls
	r.calls = nil
	return c
}

type scriptSub struct {
	events chan channel.AdjudicatorEvent
	closed chan struct{}
	once   sync.Once

	mu    sync.Mutex
	nexts int           // number of times Next() was entered
	poke  chan struct{} // poked whenever nexts changes
	// late, if set, is handed to the handler parked in Next() when the watcher
	// closes the subscription, before Next() starts to return nil
	late channel.AdjudicatorEvent
}

// Next parks until the harness injects an event or the subscription is closed.
func (s *scriptSub) Next() channel.AdjudicatorEvent {
	s.mu.Lock()
	s.nexts++
	s.mu.Unlock()
	select {
	case s.poke <- struct{}{}:
	default:
	}
	select {
	case e := <-s.events:
		return e
	case <-s.closed:
		return nil
	}
}

func (s *scriptSub) Err() error { return nil }

func (s *scriptSub) Close() error {
	s.once.Do(func() {
		s.mu.Lock()
		late := s.late
		s.mu.Unlock()
		if late != nil {
			select {
			case s.events <- late:
			case <-time.After(200 * time.Millisecond):
			}
		}
		close(s.closed)
	})
	return nil
}

func (s *scriptSub) isClosed() bool {
	select {
	case <-s.closed:
		return true
	default:
		return false
	}
}

// waitNexts waits until Next() has been entered at least n times.  It returns
// false when the subscription was closed first or the hang limit expired.
func (s *scriptSub) waitNexts(n int) (ok bool, hung bool) {
	var timer *time.Timer
	for {
		s.mu.Lock()
		cur := s.nexts
		s.mu.Unlock()
		if cur >= n {
			return true, false
		}
		if timer == nil {
			timer = time.NewTimer(hangLimit)
			defer timer.Stop()
		}
		select {
		case <-s.poke:
		case <-s.closed:
			return false, false
		case <-timer.C:
			return false, true
		}
	}
}

// send hands e to the handler parked in Next().
func (s *scriptSub) send(e channel.AdjudicatorEvent) (ok bool, hung bool) {
	timer := time.NewTimer(hangLimit)
	defer timer.Stop()
	select {
	case s.events <- e:
		return true, false
	case <-s.closed:
		return false, false
	case <-timer.C:
		return false, true
	}
}
