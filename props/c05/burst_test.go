package c05

// Fourth part of C05: a client that reads its event stream late.  The other
// parts read the stream after every operation, so the relay never has more than
// one event outstanding.  "Progressed and concluded events are always relayed"
// must also hold when the client lags behind: with more events outstanding than
// the relay buffers, the watcher may wait for the reader, but it must not drop
// anything.  Added after seeded change C05-10.

import (
	"context"
	"testing"
	"time"

	"pgregory.net/rapid"

	"perun.network/go-perun/channel"
	"perun.network/go-perun/watcher/local"

	"verif/h"
)

// BurstCase: N events on the ledger channel before the client reads any.
type BurstCase struct {
	Kinds []string `json:"kinds"` // prog | conc | reg (registered events carry increasing versions)
	// Pubs > 0: that many transactions (versions 1..Pubs) are published back to
	// back right after the start, then version Low < Pubs is reported as
	// registered: the watcher must refute with version Pubs.
	Pubs int `json:"pubs,omitempty"`
	Low  int `json:"low,omitempty"`
	// StopBeforeRead: (at most 10 events) the channel is de-registered before
	// the client reads; what was relayed must still be readable.
	StopBeforeRead bool `json:"stopbeforeread,omitempty"`
}

func drawBurstCase(t *rapid.T) BurstCase {
	var c BurstCase
	n := rapid.IntRange(1, 16).Draw(t, "n")
	if rapid.Bool().Draw(t, "aroundbuffer") {
		n = rapid.IntRange(9, 14).Draw(t, "nbuf")
	}
	switch rapid.IntRange(0, 3).Draw(t, "variant") {
	case 0:
		c.Pubs = rapid.IntRange(2, 200).Draw(t, "pubs")
		c.Low = rapid.IntRange(0, c.Pubs-1).Draw(t, "low")
		n = rapid.IntRange(0, 8).Draw(t, "nafter")
	case 1:
		c.StopBeforeRead = true
		n = rapid.IntRange(1, 9).Draw(t, "nstop")
	}
	for i := 0; i < n; i++ {
		c.Kinds = append(c.Kinds, rapid.SampledFrom([]string{"prog", "prog", "conc", "reg"}).Draw(t, "k"))
	}
	return c
}

func runBurstCase(c BurstCase) *h.Outcome {
	o := &h.Outcome{}
	o.Nontrivial = len(c.Kinds) > 10 || c.Pubs > 10 || c.StopBeforeRead
	if c.Pubs > 10 {
		o.Class("publication-burst-beyond-buffer")
	}
	if c.StopBeforeRead {
		o.Class("stop-before-read")
	}
	o.Fail = h.Guard(func() *h.Failure {
		u := theUniverse()
		rs := newScriptRS()
		w, err := local.NewWatcher(rs)
		if err != nil {
			return h.Failf("harness", "NewWatcher: %v", err)
		}
		tx0 := fresh(u.tx(0, 0, nil))
		pub, stream, err := w.StartWatchingLedgerChannel(context.Background(), channel.SignedState{Params: u.params[0], State: tx0.State, Sigs: tx0.Sigs})
		if err != nil {
			return h.Failf("start-failed", "StartWatchingLedgerChannel: %v", err)
		}
		sub := rs.sub(u.ids[0])
		if sub == nil {
			return h.Failf("harness:no-subscription", "no subscription for the ledger channel")
		}
		// the events: registered events with versions 1, 2, ... (nothing newer than
		// version 0 was published, so nothing is refuted and every one is relayed)
		var events []channel.AdjudicatorEvent
		regV := uint64(0)
		if c.Pubs > 0 {
			txs := make([]channel.Transaction, c.Pubs)
			for i := range txs {
				txs[i] = fresh(u.tx(0, uint64(i+1), nil))
			}
			for i := range txs { // back to back: the watcher's 10-slot buffer fills up
				if err := pub.Publish(context.Background(), txs[i]); err != nil {
					return h.Failf("publish-failed", "Publish of version %d: %v", i+1, err)
				}
			}
			regV = uint64(c.Pubs)
			t := fresh(u.tx(0, uint64(c.Low), nil))
			events = append(events, channel.NewRegisteredEvent(u.ids[0], &channel.ElapsedTimeout{}, uint64(c.Low), t.State, t.Sigs))
		}
		for _, k := range c.Kinds {
			switch k {
			case "reg":
				regV++
				t := fresh(u.tx(0, regV, nil))
				events = append(events, channel.NewRegisteredEvent(u.ids[0], &channel.ElapsedTimeout{}, regV, t.State, t.Sigs))
			case "prog":
				t := fresh(u.tx(0, regV+1, nil))
				events = append(events, channel.NewProgressedEvent(u.ids[0], &channel.ElapsedTimeout{}, t.State, 0))
			default:
				events = append(events, channel.NewConcludedEvent(u.ids[0], &channel.ElapsedTimeout{}, regV))
			}
		}
		// feed them without reading; the feeder may get stuck when the relay's
		// buffer is full - then the reader below frees it
		fed := make(chan *h.Failure, 1)
		go func() {
			for i, e := range events {
				if ok, hung := sub.waitNexts(i + 1); !ok {
					if hung {
						fed <- nil // stuck behind a full buffer for the whole hang limit: judged by the reader
					} else {
						fed <- h.Failf("subscription-closed-while-watched", "the adjudicator subscription was closed")
					}
					return
				}
				if ok, _ := sub.send(e); !ok {
					fed <- nil
					return
				}
			}
			fed <- nil
		}()
		// give the watcher time to take in what it can, then read everything
		time.Sleep(time.Duration(2+len(events)/4) * time.Millisecond)
		fedTaken := false
		if c.StopBeforeRead {
			// all events are relayed (the feeder is done and the watcher is back in
			// Next after the last one)
			if f := <-fed; f != nil {
				return f
			}
			fedTaken = true
			if ok, _ := sub.waitNexts(len(events) + 1); !ok {
				return h.Failf("harness:not-relayed", "the watcher did not come back for a further event")
			}
			if err := w.StopWatching(context.Background(), u.ids[0]); err != nil {
				return h.Failf("stop-refused", "StopWatching of a ledger channel without sub-channels: %v", err)
			}
		}
		for i, want := range events {
			select {
			case got, ok := <-stream.EventStream():
				if !ok {
					return h.Failf("stream-closed-while-watched", "the client stream was closed after %d of %d events", i, len(events))
				}
				if !sameEvent(got, want) {
					return h.Failf("burst:relay-missing-or-reordered", "the client read its stream only after %d events had been reported: event %d of %d on the stream is %s, reported was %s (an event was dropped or reordered)", len(events), i+1, len(events), evString(got), evString(want))
				}
			case <-time.After(5 * time.Second):
				return h.Failf("burst:relay-missing", "the client read its stream only after %d events had been reported: only %d arrive, event %d (%s) never does", len(events), i, i+1, evString(want))
			}
		}
		select {
		case got := <-stream.EventStream():
			if got != nil {
				return h.Failf("relay-spurious", "an event beyond the %d reported ones arrives: %s", len(events), evString(got))
			}
		case <-time.After(3 * time.Millisecond):
		}
		if !fedTaken {
			if f := <-fed; f != nil {
				return f
			}
		}
		calls := rs.takeCalls()
		if c.Pubs > 0 {
			if len(calls) != 1 {
				return h.Failf("burst:refutations", "%d transactions were published back to back, then version %d was reported as registered: Register was called %d times, expected once", c.Pubs, c.Low, len(calls))
			}
			if got := calls[0].req.Tx.Version; got != uint64(c.Pubs) {
				return h.Failf("burst:refuted-with-stale", "%d transactions (versions 1..%d) were published back to back, then version %d was reported as registered: the watcher refuted with version %d, the newest published one is %d", c.Pubs, c.Pubs, c.Low, got, c.Pubs)
			}
			if d := sameTx(calls[0].req.Tx.State, calls[0].req.Tx.Sigs, u.tx(0, uint64(c.Pubs), nil)); d != "" {
				return h.Failf("burst:refuted-with-other", "refutation after a burst of %d publications: %s", c.Pubs, d)
			}
		} else if len(calls) > 0 {
			return h.Failf("register-unexpected", "Register was called although nothing newer than the reported versions was published")
		}
		if !c.StopBeforeRead {
			_ = w.StopWatching(context.Background(), u.ids[0])
		}
		return nil
	})
	return o
}

const burstRule = "three variants. (publication burst, 1 in 4) 2-200 transactions of increasing versions are published back to back (the states subscription buffers 10), then a lower version is reported as registered: Register must be called exactly once, with the newest published transaction; 0-8 further events follow. (stop before read, 1 in 4) 1-9 events are relayed, the channel is de-registered, and only then the client reads: every relayed event must still arrive. (event burst) 1-16 adjudicator events (progressed, concluded, registered with increasing versions; nothing newer is published, so nothing is refuted and every event must be relayed) are reported for the watched ledger channel BEFORE the client reads its event stream (half of the cases have 9-14 events, around the relay's buffer of 10); then the client reads. Oracle: exactly the reported events arrive, in order. non-trivial = more than 10 events or publications, or stop before read"

func TestBurst(t *testing.T) {
	rec := h.Begin("C05", "burst")
	rec.SetRule(burstRule, "the watcher may make the adjudicator subscription wait while the client does not read; it may not drop events")
	defer rec.Flush()
	rapid.Check(t, func(rt *rapid.T) {
		c := drawBurstCase(rt)
		rec.Report(rt, c, runBurstCase(c))
	})
}
