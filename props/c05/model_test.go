package c05

// Reference model of property C05, written from the property text and the
// documentation of watcher.Watcher (never by calling the code it judges).
//
// Channels are numbered 0 (the ledger channel = parent) and 1, 2 (its
// sub-channels).  The model tracks, per channel, exactly what the property
// text talks about:
//
//	newest      version of the newest transaction published to the watcher
//	selfReg     version of this channel the watcher itself handed to the
//	            adjudicator in a refutation ("has already registered")
//	relayedMax  highest version of a registered event relayed to the client
//	archived    last transaction of a sub-channel that was de-registered while
//	            it was still locked in the newest parent transaction

import "fmt"

// Op is one operation of a history (plain data, part of the replay file).
type Op struct {
	// K is the kind:
	//  "startsub" start watching sub-channel C (initial version V)
	//  "stopsub"  stop watching sub-channel C
	//  "pubp"     publish parent version newest+1; C != 0 toggles the locked entry of sub-channel C
	//  "pubs"     publish version newest+1 of sub-channel C
	//  "reg"      adjudicator reports registered(channel C, version V)
	//  "prog"     adjudicator reports progressed(channel C, version V)
	//  "conc"     adjudicator reports concluded(channel C, version V)
	//  "stopp"    stop watching the parent
	K string `json:"k"`
	C int    `json:"c,omitempty"`
	V uint64 `json:"v,omitempty"`
	// Late ("stopsub" only, random part): the adjudicator subscription hands
	// over one more registered event (version 0) at the moment the watcher
	// closes it, i.e. while StopWatching is under way
	Late bool `json:"late,omitempty"`
}

func (o Op) String() string { return fmt.Sprintf("%s(c=%d,v=%d)", o.K, o.C, o.V) }

const (
	stNever   = 0
	stWatched = 1
	stStopped = 2
)

type chModel struct {
	status     int
	first      uint64 // version the channel was started with
	newest     uint64
	selfReg    uint64 // 0 also means "nothing registered by the watcher"
	relayed    bool
	relayedMax uint64
	archived   bool // sub-channels only
	archivedV  uint64
}

type model struct {
	ch [3]chModel
	// locked is the list of sub-channels locked in the newest parent
	// transaction, in allocation order.
	locked []int
	// lockedAt remembers the locked list of every published parent version (only
	// used to build realistic event payloads).
	lockedAt map[uint64][]int
	refusals int // refused stops of the parent so far
}

func newModel(p0 uint64) *model {
	m := &model{lockedAt: map[uint64][]int{}}
	m.ch[0] = chModel{status: stWatched, first: p0, newest: p0}
	m.lockedAt[p0] = nil
	return m
}

func (m *model) clone() *model {
	c := *m
	c.locked = append([]int(nil), m.locked...)
	c.lockedAt = make(map[uint64][]int, len(m.lockedAt))
	for k, v := range m.lockedAt {
		c.lockedAt[k] = v
	}
	return &c
}

func (m *model) watched(c int) bool { return m.ch[c].status == stWatched }

func (m *model) subsWatched() int {
	n := 0
	for j := 1; j <= 2; j++ {
		if m.watched(j) {
			n++
		}
	}
	return n
}

func (m *model) isLocked(j int) bool {
	for _, x := range m.locked {
		if x == j {
			return true
		}
	}
	return false
}

// lockedFor returns the locked list used for the payload of an event that
// reports parent version v.
func (m *model) lockedFor(v uint64) []int {
	if l, ok := m.lockedAt[v]; ok {
		return l
	}
	if v > m.ch[0].newest {
		return m.locked
	}
	return nil
}

// valid reports whether op is inside the domain in the current state: only
// calls a client makes (see client/adjudicate.go, client/update.go): a channel
// is watched at most once, a sub-channel only while its parent is watched,
// publishing and events only for watched channels, versions increase by one.
func (m *model) valid(o Op) bool {
	switch o.K {
	case "startsub":
		if !(o.C == 1 || o.C == 2) || !m.watched(0) {
			return false
		}
		// watching a de-registered sub-channel again: with the last state the
		// client had published for it, or its successor
		if m.ch[o.C].status == stStopped {
			return o.V == m.ch[o.C].newest || o.V == m.ch[o.C].newest+1
		}
		return m.ch[o.C].status == stNever && o.V <= 8
	case "stopsub", "pubs", "startagain":
		return (o.C == 1 || o.C == 2) && m.watched(o.C)
	case "pubp":
		return o.C >= 0 && o.C <= 2 && m.watched(0)
	case "reg", "prog", "conc":
		return o.C >= 0 && o.C <= 2 && m.watched(o.C) && o.V <= m.ch[o.C].newest+1
	case "stopp":
		return true
	}
	return false
}

// enabled lists every operation of the enumeration alphabet that is valid in
// the current state, simplest first.
func (m *model) enabled() []Op {
	var ops []Op
	for c := 0; c <= 2; c++ {
		if !m.watched(c) {
			continue
		}
		for v := uint64(0); v <= m.ch[c].newest+1; v++ {
			ops = append(ops, Op{K: "reg", C: c, V: v})
		}
	}
	for c := 0; c <= 2; c++ {
		if m.watched(c) {
			ops = append(ops, Op{K: "prog", C: c, V: m.ch[c].newest}, Op{K: "conc", C: c, V: m.ch[c].newest})
		}
	}
	if m.watched(0) {
		for j := 0; j <= 2; j++ {
			ops = append(ops, Op{K: "pubp", C: j})
		}
	}
	for j := 1; j <= 2; j++ {
		if m.watched(j) {
			ops = append(ops, Op{K: "pubs", C: j})
		}
	}
	for j := 1; j <= 2; j++ {
		if m.watched(0) && m.ch[j].status == stNever {
			ops = append(ops, Op{K: "startsub", C: j})
		}
		if m.watched(0) && m.ch[j].status == stStopped {
			ops = append(ops, Op{K: "startsub", C: j, V: m.ch[j].newest})
		}
	}
	for j := 1; j <= 2; j++ {
		if m.watched(j) {
			ops = append(ops, Op{K: "stopsub", C: j})
		}
	}
	for j := 1; j <= 2; j++ {
		if m.watched(j) {
			ops = append(ops, Op{K: "startagain", C: j})
		}
	}
	ops = append(ops, Op{K: "stopp"})
	return ops
}

// expSub is one expected entry of the sub-channel states of a Register call.
type expSub struct {
	J     int
	V     uint64
	Known bool // false: the property text does not say what to hand over (never watched / de-registered while not locked)
}

// expReg is the expected Register call.
type expReg struct {
	ParentV      uint64
	ParentLocked []int
	Subs         []expSub
}

const (
	stopNA          = 0
	stopMustSucceed = 1
	stopMustRefuse  = 2
	stopUnspecified = 3 // stop of a channel that is not watched: not covered by the text
)

// expect is what the property demands to be observable after one operation.
type expect struct {
	reg     *expReg // nil: no Register call may happen
	relay   bool    // the injected event must appear (once) on the client stream of its channel
	relayC  int
	stop    int
	classes []string
	// nontrivial contributions
	refute      bool
	afterRefuse bool
}

func (e *expect) class(s string) { e.classes = append(e.classes, s) }

// apply advances the model by one (valid) operation and returns what must be
// observed.
func (m *model) apply(o Op) *expect {
	e := &expect{}
	if m.refusals > 0 {
		e.afterRefuse = true
		e.class("after-refused-stop:" + o.K)
	}
	switch o.K {
	case "startsub":
		if m.ch[o.C].status == stStopped {
			// a watched channel is refuted with its newest published
			// transaction; the archive of the earlier de-registration is history
			e.class("startsub:again")
		}
		m.ch[o.C] = chModel{status: stWatched, first: o.V, newest: o.V}
		if m.isLocked(o.C) {
			e.class("startsub:already-locked")
		} else {
			e.class("startsub:not-yet-locked")
		}
	case "startagain":
		// a second start of a sub-channel that is being watched is refused (the
		// watcher's own tests expect the error) and changes nothing
		e.class("startagain:refused")
	case "pubs":
		m.ch[o.C].newest++
		e.class("pubs")
	case "pubp":
		m.ch[0].newest++
		if o.C != 0 {
			if m.isLocked(o.C) {
				var l []int
				for _, x := range m.locked {
					if x != o.C {
						l = append(l, x)
					}
				}
				m.locked = l
				e.class("pubp:unlock")
			} else {
				m.locked = append(append([]int(nil), m.locked...), o.C)
				e.class("pubp:lock")
			}
		} else {
			e.class("pubp:plain")
		}
		m.lockedAt[m.ch[0].newest] = m.locked
	case "stopsub":
		c := &m.ch[o.C]
		c.status = stStopped
		if m.isLocked(o.C) {
			// "archived last transaction" of a de-registered, still locked sub-channel
			c.archived, c.archivedV = true, c.newest
			e.class("stopsub:archived")
		} else {
			e.class("stopsub:not-locked")
		}
		e.stop = stopMustSucceed
	case "stopp":
		switch {
		case !m.watched(0):
			e.stop = stopUnspecified
			e.class("unspecified:stop-of-unwatched-parent")
		case m.subsWatched() > 0:
			// refused; the channel stays watched, nothing else changes
			e.stop = stopMustRefuse
			m.refusals++
			if m.refusals > 1 {
				e.class("stopp:refused-again")
			} else {
				e.class("stopp:refused")
			}
		default:
			e.stop = stopMustSucceed
			m.ch[0].status = stStopped
			if m.refusals > 0 {
				e.class("stopp:succeeds-after-refusal")
			} else {
				e.class("stopp:succeeds")
			}
		}
	case "prog", "conc":
		// always relayed
		e.relay, e.relayC = true, o.C
		e.class(o.K + "-relayed")
	case "reg":
		c := &m.ch[o.C]
		who := "parent"
		if o.C != 0 {
			who = "sub"
		}
		switch {
		case o.V >= c.newest:
			e.class("reg:" + who + ":nothing-newer-known")
		case o.V < c.selfReg:
			e.class("reg:" + who + ":already-registered-newer")
		default:
			// refute with the newest channel tree, from the parent
			r := m.tree(m.ch[0].newest, m.locked, func(j int) uint64 { return m.ch[j].newest }, e)
			e.reg = r
			e.refute = true
			e.class("reg:" + who + ":refute")
			if o.C != 0 && !m.isLocked(o.C) {
				e.class("refute:event-sub-not-locked-in-parent")
			}
			if len(m.locked) == 0 {
				e.class("refute:no-locked")
			}
			if len(m.locked) == 2 {
				e.class("refute:two-locked")
			}
			m.noteSelfReg(r)
		}
		if m.relay(o.C, o.V) {
			e.relay, e.relayC = true, o.C
			e.class("reg:relayed")
		} else {
			e.class("reg:not-relayed-again")
		}
	}
	return e
}

// tree builds the channel tree that a refutation must hand to the adjudicator
// when the newest parent transaction has version parentV and locks `locked`:
// per locked entry (in order) the newest published transaction of a watched
// sub-channel (version newestOf(j)), the archived last transaction of a
// de-registered one, or nothing the text specifies.
func (m *model) tree(parentV uint64, locked []int, newestOf func(j int) uint64, e *expect) *expReg {
	r := &expReg{ParentV: parentV, ParentLocked: append([]int(nil), locked...)}
	for _, j := range locked {
		s := &m.ch[j]
		switch {
		case s.status == stWatched:
			r.Subs = append(r.Subs, expSub{J: j, V: newestOf(j), Known: true})
			e.class("refute:with-watched-sub")
		case s.status == stStopped && s.archived:
			r.Subs = append(r.Subs, expSub{J: j, V: s.archivedV, Known: true})
			e.class("refute:with-archived-sub")
		case s.status == stStopped:
			r.Subs = append(r.Subs, expSub{J: j})
			e.class("unspecified:locked-sub-deregistered-while-unlocked")
		default:
			r.Subs = append(r.Subs, expSub{J: j})
			e.class("unspecified:locked-sub-never-watched")
		}
	}
	return r
}

// noteSelfReg records what the watcher registered itself with the call r.
func (m *model) noteSelfReg(r *expReg) {
	m.ch[0].selfReg = r.ParentV
	for _, s := range r.Subs {
		if s.Known && m.ch[s.J].status == stWatched {
			m.ch[s.J].selfReg = s.V
		}
	}
}

// relay decides whether a registered event (c, v) reaches the client: at most
// once each, strictly increasing; a version above everything relayed so far is
// relayed (watcher.Watcher: "the corresponding adjudicator event will be
// relayed").
func (m *model) relay(c int, v uint64) bool {
	x := &m.ch[c]
	if !x.relayed || v > x.relayedMax {
		x.relayed, x.relayedMax = true, v
		return true
	}
	return false
}

// closing returns the operations that de-register everything still watched.
func (m *model) closing() []Op {
	var ops []Op
	for j := 1; j <= 2; j++ {
		if m.watched(j) {
			ops = append(ops, Op{K: "stopsub", C: j})
		}
	}
	if m.watched(0) {
		ops = append(ops, Op{K: "stopp"})
	}
	return ops
}
