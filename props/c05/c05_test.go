// Package c05: the watcher refutes with the newest channel-tree states, once,
// and relays events (DESIGN.md §3 C05).
package c05

import (
	"bytes"
	"context"
	"fmt"
	"math/big"
	"os"
	"runtime"
	"strconv"
	"sync"
	"testing"
	"time"

	"pgregory.net/rapid"

	simchannel "perun.network/go-perun/backend/sim/channel"
	"perun.network/go-perun/channel"
	"perun.network/go-perun/wallet"
	"perun.network/go-perun/watcher"
	"perun.network/go-perun/watcher/local"

	"verif/gen"
	"verif/h"
)

func TestMain(m *testing.M) {
	gen.Setup()
	code := m.Run()
	h.FlushAll()
	os.Exit(code)
}

// ------------------------------------------------------------------ cases

// Case is one history over one watcher.  The ledger channel is started
// (version P0) before the first operation; after the last operation everything
// still watched is de-registered (sub-channels first), which must succeed.
type Case struct {
	P0  uint64 `json:"p0,omitempty"`
	Ops []Op   `json:"ops"`
	// Segs (concurrent part only) follow Ops: each is a sequential piece
	// followed by a block in which several harness goroutines act at once.
	Segs []Seg `json:"segs,omitempty"`
}

// ------------------------------------------------------------------ universe

// universe holds the per-process channel parameters and a cache of genuinely
// signed transactions (signatures are expensive and not reproducible; a case
// refers to a transaction by channel, version and locked list).
type universe struct {
	params [3]*channel.Params
	ids    [3]channel.ID

	mu    sync.Mutex
	cache map[string]channel.Transaction
}

var (
	uniOnce sync.Once
	uni     *universe
)

func theUniverse() *universe {
	uniOnce.Do(func() {
		u := &universe{cache: map[string]channel.Transaction{}}
		parts := []map[wallet.BackendID]wallet.Address{gen.Addr(0), gen.Addr(1)}
		for c := 0; c < 3; c++ {
			p, err := channel.NewParams(60, parts, channel.NoApp(), channel.NonceFromBytes([]byte{0xc5, byte(c + 1)}), c == 0, false, channel.ZeroAux)
			if err != nil {
				panic("c05: params: " + err.Error())
			}
			u.params[c] = p
			u.ids[c] = p.ID()
		}
		uni = u
	})
	return uni
}

// tx returns the signed transaction of channel c at version v; for the parent,
// locked lists the sub-channels (in order) that have funds locked.
func (u *universe) tx(c int, v uint64, locked []int) channel.Transaction {
	key := fmt.Sprintf("%d/%d/%v", c, v, locked)
	u.mu.Lock()
	t, ok := u.cache[key]
	u.mu.Unlock()
	if ok {
		return t
	}
	st := &channel.State{
		ID: u.ids[c], Version: v, App: channel.NoApp(), Data: channel.NoData(),
		IsFinal: v%4 == 3, // the watcher treats final transactions like any other
		Allocation: channel.Allocation{
			Assets:   []channel.Asset{&simchannel.Asset{ID: 7}},
			Backends: []wallet.BackendID{0},
		},
	}
	if c == 0 {
		a, b := int64(50-10*len(locked)), int64(50-10*len(locked))
		// payments move one unit back and forth
		a, b = a+int64(v%3), b-int64(v%3)
		st.Balances = channel.Balances{{big.NewInt(a), big.NewInt(b)}}
		for _, j := range locked {
			st.AddSubAlloc(*channel.NewSubAlloc(u.ids[j], []channel.Bal{big.NewInt(20)}, nil))
		}
	} else {
		st.Balances = channel.Balances{{big.NewInt(10 + int64(v%5)), big.NewInt(10 - int64(v%5))}}
	}
	if err := st.Valid(); err != nil {
		panic("c05: generated state invalid: " + err.Error())
	}
	t = channel.Transaction{State: st, Sigs: make([]wallet.Sig, 2)}
	for i := 0; i < 2; i++ {
		sig, err := channel.Sign(gen.Acc(i), st, 0)
		if err != nil {
			panic("c05: sign: " + err.Error())
		}
		t.Sigs[i] = sig
	}
	u.mu.Lock()
	if prev, ok := u.cache[key]; ok {
		t = prev
	} else {
		u.cache[key] = t
	}
	u.mu.Unlock()
	return t
}

// fresh returns a deep copy that is handed to the code under test, so that
// parallel watcher instances never share memory.
func fresh(t channel.Transaction) channel.Transaction { return t.Clone() }

func sameTx(state *channel.State, sigs []wallet.Sig, want channel.Transaction) string {
	if state == nil {
		return "state is nil"
	}
	if err := state.Equal(want.State); err != nil {
		return fmt.Sprintf("state differs (got version %d, want version %d): %v", state.Version, want.Version, err)
	}
	if len(sigs) != len(want.Sigs) {
		return fmt.Sprintf("%d signatures, want %d", len(sigs), len(want.Sigs))
	}
	for i := range sigs {
		if !bytes.Equal(sigs[i], want.Sigs[i]) {
			return fmt.Sprintf("signature %d differs from the published one", i)
		}
	}
	return ""
}

// ------------------------------------------------------------------ runner

type runner struct {
	u  *universe
	rs *scriptRS
	w  *local.Watcher
	m  *model
	o  *h.Outcome

	pubs      [3]watcher.StatesPub
	streams   [3]watcher.AdjudicatorSub
	closed    [3]bool // client stream seen closed
	delivered [3]int  // events injected per channel
}

// guarded runs f in its own goroutine, converts a panic into a failure naming
// the innermost go-perun frame and a missing return into a hang failure.
func guarded(name string, f func()) *h.Failure {
	done := make(chan *h.Failure, 1)
	go func() {
		done <- h.Guard(func() *h.Failure { f(); return nil })
	}()
	timer := time.NewTimer(hangLimit)
	defer timer.Stop()
	select {
	case fl := <-done:
		return fl
	case <-timer.C:
		return h.Failf("hang:"+name, "%s did not return within %v", name, hangLimit)
	}
}

func (r *runner) startParent(p0 uint64) *h.Failure {
	tx := fresh(r.u.tx(0, p0, nil))
	var err error
	if fl := guarded("StartWatchingLedgerChannel", func() {
		r.pubs[0], r.streams[0], err = r.w.StartWatchingLedgerChannel(context.Background(),
			channel.SignedState{Params: r.u.params[0], State: tx.State, Sigs: tx.Sigs})
	}); fl != nil {
		return fl
	}
	if err != nil {
		return h.Failf("start-failed", "StartWatchingLedgerChannel: %v", err)
	}
	return nil
}

// drain reads, without blocking, everything that is on the client stream of c.
func (r *runner) drain(c int) (evs []channel.AdjudicatorEvent) {
	if r.streams[c] == nil || r.closed[c] {
		return nil
	}
	for {
		select {
		case e, ok := <-r.streams[c].EventStream():
			if !ok {
				r.closed[c] = true
				return evs
			}
			evs = append(evs, e)
		default:
			return evs
		}
	}
}

func evString(e channel.AdjudicatorEvent) string {
	id := e.ID()
	return fmt.Sprintf("%T(id=%x.., version=%d)", e, id[:3], e.Version())
}

// sameEvent compares a relayed event with the injected one by content.
func sameEvent(got, want channel.AdjudicatorEvent) bool {
	if got.ID() != want.ID() || got.Version() != want.Version() {
		return false
	}
	switch w := want.(type) {
	case *channel.RegisteredEvent:
		g, ok := got.(*channel.RegisteredEvent)
		return ok && g.State != nil && g.State.Equal(w.State) == nil
	case *channel.ProgressedEvent:
		g, ok := got.(*channel.ProgressedEvent)
		return ok && g.State != nil && g.State.Equal(w.State) == nil && g.Idx == w.Idx
	case *channel.ConcludedEvent:
		_, ok := got.(*channel.ConcludedEvent)
		return ok
	}
	return false
}

// observe compares Register calls and client streams with the expectation of
// the operation that just finished.
func (r *runner) observe(op Op, e *expect, injected channel.AdjudicatorEvent) *h.Failure {
	// --- Register calls
	calls := r.rs.takeCalls()
	switch {
	case e.reg == nil && len(calls) > 0:
		c := calls[0]
		ver := uint64(0)
		if c.req.Tx.State != nil {
			ver = c.req.Tx.Version
		}
		return h.Failf("register-unexpected", "after %v: %d Register call(s) although nothing newer is known or a newer version was already registered (first call: parent version %d, %d sub-states)",
			op, len(calls), ver, len(c.subs))
	case e.reg != nil && len(calls) == 0:
		return h.Failf("register-missing", "after %v: no Register call; expected refutation with parent version %d, locked %v", op, e.reg.ParentV, e.reg.ParentLocked)
	case e.reg != nil && len(calls) > 1:
		return h.Failf("register-repeated", "after %v: %d Register calls for one event", op, len(calls))
	case e.reg != nil:
		if fl := r.checkRegArgs(op.String(), calls[0], e.reg); fl != nil {
			return fl
		}
	}
	// --- client streams
	for c := 0; c <= 2; c++ {
		wasClosed := r.closed[c]
		evs := r.drain(c)
		want := 0
		if e.relay && e.relayC == c {
			want = 1
		}
		if len(evs) > want {
			x := evs[len(evs)-1]
			if want == 0 && injected != nil && c == op.C && sameEvent(x, injected) {
				return h.Failf("relay-not-increasing", "after %v: registered event version %d relayed to the client although version %d was relayed before", op, op.V, r.m.ch[c].relayedMax)
			}
			return h.Failf("relay-spurious", "after %v: client stream of channel %d carries %d event(s), expected %d (last: %s)", op, c, len(evs), want, evString(x))
		}
		if len(evs) < want {
			return h.Failf("relay-missing:"+op.K, "after %v: event was not relayed on the client stream of channel %d", op, c)
		}
		if want == 1 && !sameEvent(evs[0], injected) {
			return h.Failf("relay-wrong-event", "after %v: client stream of channel %d carries %s", op, c, evString(evs[0]))
		}
		if !wasClosed && r.closed[c] && r.m.watched(c) {
			return h.Failf("stream-closed-while-watched", "after %v: client stream of channel %d was closed although the channel is still watched", op, c)
		}
	}
	return nil
}

// checkRegArgs compares the arguments of one Register call with the expected
// channel tree.
func (r *runner) checkRegArgs(op string, c regCall, exp *expReg) *h.Failure {
	if c.req.Params == nil || c.req.Params.ID() != r.u.ids[0] {
		return h.Failf("register-args:parent-params", "after %v: Register request does not carry the ledger channel's parameters", op)
	}
	if c.req.Secondary {
		return h.Failf("register-args:secondary", "after %v: the watcher's Register request (version %d) is marked secondary: a backend need not send it, and the party that registered the old state will not", op, c.req.Tx.Version)
	}
	if d := sameTx(c.req.Tx.State, c.req.Tx.Sigs, r.u.tx(0, exp.ParentV, exp.ParentLocked)); d != "" {
		return h.Failf("register-args:parent-tx", "after %v: Register request is not the newest published ledger-channel transaction (version %d, locked %v): %s", op, exp.ParentV, exp.ParentLocked, d)
	}
	if len(c.subs) != len(exp.Subs) {
		return h.Failf("register-args:sub-count", "after %v: %d sub-channel states, the newest parent transaction locks %d", op, len(c.subs), len(exp.Subs))
	}
	for i, s := range exp.Subs {
		if !s.Known {
			continue
		}
		got := c.subs[i]
		if got.Params == nil || got.Params.ID() != r.u.ids[s.J] {
			return h.Failf("register-args:sub-params", "after %v: sub-state %d does not carry the parameters of sub-channel %d", op, i, s.J)
		}
		if d := sameTx(got.State, got.Sigs, r.u.tx(s.J, s.V, nil)); d != "" {
			return h.Failf("register-args:sub-tx", "after %v: sub-state %d is not the newest published / archived transaction of sub-channel %d (version %d): %s", op, i, s.J, s.V, d)
		}
	}
	return nil
}

// inject delivers e on the adjudicator subscription of channel c and waits for
// the handler to come back to Next().
func (r *runner) inject(c int, e channel.AdjudicatorEvent) *h.Failure {
	s := r.rs.sub(r.u.ids[c])
	if s == nil {
		return h.Failf("harness:no-subscription", "no subscription for channel %d", c)
	}
	if ok, hung := s.waitNexts(r.delivered[c] + 1); !ok {
		if hung {
			return h.Failf("hang:handler-not-listening", "the event handler of watched channel %d is not waiting in Next()", c)
		}
		return h.Failf("subscription-closed-while-watched", "the adjudicator subscription of watched channel %d was closed", c)
	}
	if ok, hung := s.send(e); !ok {
		if hung {
			return h.Failf("hang:handler-not-listening", "the event handler of watched channel %d did not take the event", c)
		}
		return h.Failf("subscription-closed-while-watched", "the adjudicator subscription of watched channel %d was closed", c)
	}
	r.delivered[c]++
	if ok, hung := s.waitNexts(r.delivered[c] + 1); !ok {
		if hung {
			return h.Failf("hang:event-handler", "handling %s on channel %d did not finish", evString(e), c)
		}
		return h.Failf("subscription-closed-while-watched", "the adjudicator subscription of watched channel %d was closed while an event was handled", c)
	}
	return nil
}

func (r *runner) eventFor(op Op) channel.AdjudicatorEvent {
	var locked []int
	if op.C == 0 {
		locked = r.m.lockedFor(op.V)
	}
	tx := fresh(r.u.tx(op.C, op.V, locked))
	id := r.u.ids[op.C]
	switch op.K {
	case "reg":
		return channel.NewRegisteredEvent(id, &channel.ElapsedTimeout{}, op.V, tx.State, tx.Sigs)
	case "prog":
		return channel.NewProgressedEvent(id, &channel.ElapsedTimeout{}, tx.State, 0)
	default:
		return channel.NewConcludedEvent(id, &channel.ElapsedTimeout{}, op.V)
	}
}

// step executes one valid operation against the watcher and checks it.
func (r *runner) step(op Op) (e *expect, _ *h.Failure) {
	ctx := context.Background()
	var injected channel.AdjudicatorEvent
	if op.K == "reg" || op.K == "prog" || op.K == "conc" {
		injected = r.eventFor(op) // built against the pre-state of the model
	}
	e = r.m.apply(op)
	for _, cl := range e.classes {
		r.o.Class(cl)
	}
	var err error
	switch op.K {
	case "startsub":
		tx := fresh(r.u.tx(op.C, op.V, nil))
		if fl := guarded("StartWatchingSubChannel", func() {
			r.pubs[op.C], r.streams[op.C], err = r.w.StartWatchingSubChannel(ctx, r.u.ids[0],
				channel.SignedState{Params: r.u.params[op.C], State: tx.State, Sigs: tx.Sigs})
		}); fl != nil {
			return e, fl
		}
		if err != nil {
			return e, h.Failf("start-failed", "StartWatchingSubChannel(%d) while the parent is watched: %v", op.C, err)
		}
		// a channel that is watched again has a new subscription and a new client stream
		r.closed[op.C], r.delivered[op.C] = false, 0
	case "startagain":
		tx := fresh(r.u.tx(op.C, r.m.ch[op.C].newest, nil))
		var serr error
		if fl := guarded("StartWatchingSubChannel", func() {
			_, _, serr = r.w.StartWatchingSubChannel(ctx, r.u.ids[0],
				channel.SignedState{Params: r.u.params[op.C], State: tx.State, Sigs: tx.Sigs})
		}); fl != nil {
			return e, fl
		}
		if serr == nil {
			return e, h.Failf("start-of-watched-channel-succeeded", "StartWatchingSubChannel(%d) returned nil although the sub-channel is already watched", op.C)
		}
	case "pubp":
		tx := fresh(r.u.tx(0, r.m.ch[0].newest, r.m.locked))
		if fl := guarded("Publish", func() { err = r.pubs[0].Publish(ctx, tx) }); fl != nil {
			return e, fl
		}
		if err != nil {
			return e, h.Failf("publish-failed", "Publish(parent v%d): %v", tx.Version, err)
		}
	case "pubs":
		tx := fresh(r.u.tx(op.C, r.m.ch[op.C].newest, nil))
		if fl := guarded("Publish", func() { err = r.pubs[op.C].Publish(ctx, tx) }); fl != nil {
			return e, fl
		}
		if err != nil {
			return e, h.Failf("publish-failed", "Publish(sub %d v%d): %v", op.C, tx.Version, err)
		}
	case "reg", "prog", "conc":
		if fl := r.inject(op.C, injected); fl != nil {
			return e, fl
		}
	case "stopsub", "stopp":
		id := r.u.ids[op.C]
		if op.K == "stopp" {
			id = r.u.ids[0]
		}
		if op.Late && op.K == "stopsub" {
			if sub := r.rs.sub(id); sub != nil {
				t := fresh(r.u.tx(op.C, 0, nil))
				sub.mu.Lock()
				sub.late = channel.NewRegisteredEvent(id, &channel.ElapsedTimeout{}, 0, t.State, t.Sigs)
				sub.mu.Unlock()
				r.o.Class("stop-with-late-event")
			}
		}
		if fl := guarded("StopWatching", func() { err = r.w.StopWatching(ctx, id) }); fl != nil {
			return e, fl
		}
		if op.Late && op.K == "stopsub" {
			// whether an event that arrives while the channel is being de-registered
			// is still acted upon is left open: calls it caused are not judged
			_ = r.rs.takeCalls()
		}
		switch e.stop {
		case stopMustSucceed:
			if err != nil {
				if op.K == "stopp" {
					return e, h.Failf("stop-parent-failed", "StopWatching(parent) with no watched sub-channel (after %d refusals): %v", r.m.refusals, err)
				}
				return e, h.Failf("stop-sub-failed", "StopWatching(sub %d): %v", op.C, err)
			}
		case stopMustRefuse:
			if err == nil {
				return e, h.Failf("stop-not-refused", "StopWatching(parent) succeeded although %d sub-channel(s) are watched", r.m.subsWatched())
			}
			if !local.IsErrSubChannelsPresent(err) {
				return e, h.Failf("stop-refusal-wrong-error", "StopWatching(parent) with %d watched sub-channel(s), refusal no. %d: %v", r.m.subsWatched(), r.m.refusals, err)
			}
		case stopUnspecified:
			if err == nil {
				r.o.Class("stop-of-unwatched-parent:nil")
			} else {
				r.o.Class("stop-of-unwatched-parent:error")
			}
		}
	}
	return e, r.observe(op, e, injected)
}

// runCase executes one history on a fresh watcher.
func runCase(c Case) *h.Outcome {
	o := &h.Outcome{}
	u := theUniverse()
	rs := newScriptRS()
	w, err := local.NewWatcher(rs)
	if err != nil {
		o.Fail = h.Failf("harness:new-watcher", "%v", err)
		return o
	}
	r := &runner{u: u, rs: rs, w: w, m: newModel(c.P0), o: o}
	if fl := r.startParent(c.P0); fl != nil {
		o.Fail = fl
		return o
	}
	refutes, afterRefuse := 0, false
	for i, op := range c.Ops {
		if !r.m.valid(op) {
			o.Class("skipped-invalid-op")
			continue
		}
		e, fl := r.step(op)
		if e != nil && e.refute {
			refutes++
		}
		if e != nil && e.afterRefuse {
			afterRefuse = true
		}
		if fl != nil {
			fl.Msg = fmt.Sprintf("op %d: %s", i, fl.Msg)
			o.Fail = fl
			break
		}
	}
	for si := 0; si < len(c.Segs) && o.Fail == nil; si++ {
		nr, ar, fl := r.runSeg(c.Segs[si])
		refutes += nr
		afterRefuse = afterRefuse || ar
		if fl != nil {
			fl.Msg = fmt.Sprintf("segment %d: %s", si, fl.Msg)
			o.Fail = fl
		}
	}
	o.Nontrivial = refutes > 0 || afterRefuse
	if refutes > 0 {
		o.Class("history:with-refutation")
	}
	if afterRefuse {
		o.Class("history:refused-stop-then-op")
	}
	// closing: de-register everything still watched; must succeed and ends all
	// goroutines of this watcher
	failed := o.Fail != nil
	for _, op := range r.m.closing() {
		_, fl := r.step(op)
		if fl != nil && !failed {
			fl.Msg = fmt.Sprintf("closing %v after the history: %s", op, fl.Msg)
			o.Fail = fl
			failed = true
		}
	}
	return o
}

// ------------------------------------------------------------------ part (a)

func envInt(name string, def int) int {
	if v := os.Getenv(name); v != "" {
		if n, err := strconv.Atoi(v); err == nil {
			return n
		}
	}
	return def
}

// enumerate calls emit for every history with exactly depth operations.
func enumerate(m *model, prefix []Op, depth int, emit func([]Op) bool) bool {
	if depth == 0 {
		return emit(prefix)
	}
	for _, op := range m.enabled() {
		n := m.clone()
		n.apply(op)
		if !enumerate(n, append(prefix[:len(prefix):len(prefix)], op), depth-1, emit) {
			return false
		}
	}
	return true
}

type batch struct {
	Inflight []Case `json:"inflight"`
}

// inflight tracks the cases currently handed to the parallel workers (in
// chunks), so that a process death (panic in a watcher goroutine) can be
// attributed: the replay of a death runs them one after the other.
type inflight struct {
	mu  sync.Mutex
	cur map[int][]Case
	rec *h.Rec
}

func (f *inflight) set(worker int, cs []Case) {
	f.mu.Lock()
	defer f.mu.Unlock()
	f.cur[worker] = cs
	b := batch{}
	for i := 0; i < len(f.cur)+1024 && len(b.Inflight) < 4096; i++ {
		b.Inflight = append(b.Inflight, f.cur[i]...)
	}
	f.rec.MarkCurrent(b)
}

const chunkSize = 8

const enumRule = "EXHAUSTIVE: every history of length 0..%d over the alphabet {start sub-channel j, stop sub-channel j, publish parent v+1 (plain | toggling the locked entry of j), publish sub-channel j v+1, registered(c, v) for every watched channel c and every v in 0..newest(c)+1, progressed(c), concluded(c), stop parent} (j in {1,2}; only operations enabled in the reference model: a channel is watched at most once, sub-channels only while the parent is watched, events and publishing only for watched channels), after the initial StartWatchingLedgerChannel(version 0) and followed by de-registration of everything still watched, which must succeed. One local.Watcher per history with a scripted RegisterSubscriber (records Register arguments, hands out exactly the injected events, reports the handler's return to Next()); genuinely signed transactions. Oracle = reference model from the property text, checked after every operation: Register call <=> e.version < newest(c) and e.version >= selfRegistered(c), arguments = newest parent transaction + per locked entry (in order) the newest published transaction of a watched sub-channel or the archived one of a de-registered sub-channel; no Register call otherwise; client stream gets exactly the injected event when it is progressed/concluded or a registered event above every version relayed before, nothing otherwise; StopWatching(parent) with watched sub-channels returns ErrSubChannelsPresent any number of times, leaves everything working, and succeeds once the sub-channels are gone. non-trivial = history contains a registered event for which a refutation is expected, or a refused stop followed by another operation; distinct by SHA-256 of the case JSON"

var commonAssumptions = []string{
	"single-ledger channels only (one sim asset); Register of the scripted adjudicator always succeeds",
	"the harness is the only client: operations are issued one after the other, each adjudicator event is injected only after the previous handler returned to Next(); the Go scheduler still interleaves the watcher's internal goroutines",
	"entries of the newest parent transaction that lock a sub-channel which was never watched, or which was de-registered while it was not locked, are not judged (the text is silent; counted in classes unspecified:*)",
	"a sub-channel id is watched at most once per watcher (as the client does); stopping a parent that is no longer watched is only required not to panic or hang",
	"participant keys come from a per-process pool; cases are key-independent",
}

// runParallel executes the cases produced by produce on `workers` watcher
// instances and reports every outcome from the test goroutine.
func runParallel(t *testing.T, rec *h.Rec, workers int, classes map[string]int, produce func(emit func(Case) bool)) (complete bool) {
	type result struct {
		c Case
		o *h.Outcome
	}
	chunks := make(chan []Case, workers)
	results := make(chan result, workers*chunkSize)
	stop := make(chan struct{})
	var stopOnce sync.Once
	closeStop := func() { stopOnce.Do(func() { close(stop) }) }
	var wg sync.WaitGroup
	fl := &inflight{cur: map[int][]Case{}, rec: rec}
	for i := 0; i < workers; i++ {
		wg.Add(1)
		go func(id int) {
			defer wg.Done()
			for cs := range chunks {
				fl.set(id, cs)
				for _, c := range cs {
					results <- result{c, runCase(c)}
				}
			}
		}(i)
	}
	producerDone := make(chan bool, 1)
	go func() {
		ok := true
		var cur []Case
		flush := func() bool {
			if len(cur) == 0 {
				return true
			}
			select {
			case chunks <- cur:
				cur = nil
				return true
			case <-stop:
				ok = false
				return false
			}
		}
		produce(func(c Case) bool {
			cur = append(cur, c)
			if len(cur) >= chunkSize {
				return flush()
			}
			return true
		})
		flush()
		close(chunks)
		wg.Wait()
		close(results)
		producerDone <- ok
	}()
	defer func() {
		// reached early only when Report failed the test (runtime.Goexit)
		closeStop()
		for range results {
		}
	}()
	for r := range results {
		if r.o.Fail != nil && !rec.IsKnown(r.o.Fail.Sig) {
			// Results arrive in completion order: stop producing, wait for the
			// cases in flight, take the shortest failing history and shrink it
			// (every history that starts with a failing prefix fails as well).
			closeStop()
			best := r
			for x := range results {
				if x.o.Fail != nil && !rec.IsKnown(x.o.Fail.Sig) && len(x.c.Ops) < len(best.c.Ops) {
					best = x
				}
			}
			c, o := shrinkHistory(best.c, best.o)
			rec.Report(t, c, o)
			return false
		}
		for _, cl := range r.o.Classes {
			classes[cl]++
		}
		rec.Report(t, r.c, r.o)
	}
	return <-producerDone
}

// allValid reports whether every operation of the history is enabled when it
// is issued (so that the history belongs to the enumerated space).
func allValid(c Case) bool {
	m := newModel(c.P0)
	for _, op := range c.Ops {
		if !m.valid(op) {
			return false
		}
		m.apply(op)
	}
	return true
}

// shrinkHistory greedily minimises a failing history of the exhaustive part:
// shortest failing prefix first, then single deletions, keeping the failure
// signature.  It only reruns real histories; nothing is assumed.
func shrinkHistory(c Case, o *h.Outcome) (Case, *h.Outcome) {
	sig := o.Fail.Sig
	try := func(ops []Op) (*h.Outcome, bool) {
		cand := Case{P0: c.P0, Ops: append([]Op(nil), ops...)}
		if !allValid(cand) {
			return nil, false
		}
		for rep := 0; rep < 3; rep++ { // a failure may depend on goroutine scheduling
			oo := runCase(cand)
			if oo.Fail != nil && oo.Fail.Sig == sig {
				return oo, true
			}
		}
		return nil, false
	}
	for n := 0; n < len(c.Ops); n++ {
		if oo, ok := try(c.Ops[:n]); ok {
			c.Ops, o = append([]Op(nil), c.Ops[:n]...), oo
			break
		}
	}
	for changed := true; changed; {
		changed = false
		for i := 0; i < len(c.Ops); i++ {
			ops := append(append([]Op(nil), c.Ops[:i]...), c.Ops[i+1:]...)
			if oo, ok := try(ops); ok {
				c.Ops, o, changed = ops, oo, true
				break
			}
		}
	}
	return c, o
}

func TestEnumerate(t *testing.T) {
	rec := h.Begin("C05", "enum")
	maxLen := envInt("VERIF_C05_LEN", h.Pick(5, 6))
	rec.SetRule(fmt.Sprintf(enumRule, maxLen), commonAssumptions...)
	rec.SetExhaustive(false)
	defer rec.Flush()
	workers := envInt("VERIF_C05_WORKERS", 16)
	shard, nshards := h.Shard()
	g0 := runtime.NumGoroutine()
	total := 0
	classes := map[string]int{}
	complete := runParallel(t, rec, workers, classes, func(emit func(Case) bool) {
		idx := 0
		// by increasing length: the first failure found is a shortest one
		for l := 0; l <= maxLen; l++ {
			ok := enumerate(newModel(0), nil, l, func(ops []Op) bool {
				idx++
				if idx%nshards != shard {
					return true
				}
				total++
				return emit(Case{Ops: append([]Op(nil), ops...)})
			})
			if !ok {
				return
			}
		}
	})
	rec.Extra("enum_max_len", strconv.Itoa(maxLen)) // a string: the driver sums numeric extras over shards
	rec.AddExtra("enum_histories", total)
	time.Sleep(20 * time.Millisecond)
	rec.AddExtra("goroutines_left_enum", runtime.NumGoroutine()-g0)
	if complete && !rec.Failed() {
		rec.SetExhaustive(true)
		// anti-vacuity: the classes the property names must have been reached
		// in this shard (a failure here is a harness problem, not a violation)
		if maxLen >= 5 {
			for _, cl := range []string{
				"reg:parent:refute", "reg:sub:refute", "reg:parent:nothing-newer-known", "reg:sub:nothing-newer-known",
				"reg:parent:already-registered-newer", "refute:with-watched-sub", "refute:with-archived-sub", "refute:two-locked",
				"reg:relayed", "reg:not-relayed-again", "prog-relayed", "conc-relayed",
				"stopp:refused", "stopp:refused-again", "stopp:succeeds", "stopp:succeeds-after-refusal",
				"after-refused-stop:reg", "after-refused-stop:prog", "after-refused-stop:pubp", "stopsub:archived", "stopsub:not-locked",
			} {
				if classes[cl] == 0 {
					rec.Flush()
					t.Fatalf("harness: class %q was never produced by the enumeration (shard %d/%d, length %d)", cl, shard, nshards, maxLen)
				}
			}
		}
	}
}

// ------------------------------------------------------------------ part (b)

const randomRule = "rapid: random histories of 1..40 operations over the same alphabet as the exhaustive part, drawn against the reference model (only enabled operations; event versions biased to newest-1, newest, newest+1, the self-registered and the last relayed version; progressed/concluded with any version in 0..newest+1; the parent starts at version 0..3, sub-channels at 0..2); same per-operation oracle and closing de-registration; In the random part a stop of a sub-channel may come with one more registered event that the adjudicator subscription hands over at the moment the watcher closes it (calls caused by that event are not judged; StopWatching must return). Every fourth version is a final state; a Register request marked secondary is reported. non-trivial as in the exhaustive part"

// rawOp is a model-independent bundle of choices; drawCase interprets it
// against the reference model, so that rapid can delete or simplify single
// elements of the slice while every remaining element stays meaningful.
type rawOp struct {
	Pick, Ch, VKind, Aux int
	V                    uint64
}

func genRaw() *rapid.Generator[rawOp] {
	return rapid.Custom(func(t *rapid.T) rawOp {
		return rawOp{
			Pick:  rapid.IntRange(0, 999).Draw(t, "pick"),
			Ch:    rapid.IntRange(0, 5).Draw(t, "ch"),
			VKind: rapid.IntRange(0, 6).Draw(t, "vkind"),
			Aux:   rapid.IntRange(0, 7).Draw(t, "aux"),
			V:     rapid.Uint64Range(0, 41).Draw(t, "v"),
		}
	})
}

// pickOp interprets raw against the model state: a weighted choice among the
// enabled operations.  ok=false: nothing chosen (history over).
func pickOp(m *model, raw rawOp, allowEnd bool) (op Op, ok bool) {
	type cand struct {
		w  int
		op Op
	}
	var cs []cand
	var watched []int
	for ch := 0; ch <= 2; ch++ {
		if m.watched(ch) {
			watched = append(watched, ch)
		}
	}
	if len(watched) > 0 {
		cs = append(cs, cand{6, Op{K: "reg"}})
	}
	if m.watched(0) {
		cs = append(cs, cand{4, Op{K: "pubp"}})
	}
	for j := 1; j <= 2; j++ {
		if m.watched(0) && m.ch[j].status == stNever {
			cs = append(cs, cand{3, Op{K: "startsub", C: j}})
		}
		if m.watched(0) && m.ch[j].status == stStopped {
			cs = append(cs, cand{2, Op{K: "startsub", C: j}})
		}
		if m.watched(j) {
			cs = append(cs, cand{2, Op{K: "pubs", C: j}}, cand{1, Op{K: "stopsub", C: j}}, cand{1, Op{K: "stopsub", C: j, Late: true}}, cand{1, Op{K: "startagain", C: j}})
		}
	}
	if len(watched) > 0 {
		cs = append(cs, cand{1, Op{K: "prog"}}, cand{1, Op{K: "conc"}})
	}
	switch {
	case !m.watched(0):
		cs = append(cs, cand{1, Op{K: "stopp"}})
	case m.subsWatched() > 0:
		cs = append(cs, cand{3, Op{K: "stopp"}})
	default:
		// ends the history: rare
		if allowEnd && raw.Aux == 7 {
			cs = append(cs, cand{1, Op{K: "stopp"}})
		}
	}
	tot := 0
	for _, x := range cs {
		tot += x.w
	}
	if tot == 0 {
		return op, false
	}
	pick := raw.Pick % tot
	for _, x := range cs {
		if pick < x.w {
			op = x.op
			break
		}
		pick -= x.w
	}
	switch op.K {
	case "reg", "prog", "conc":
		op.C = watched[raw.Ch%len(watched)]
		cm := m.ch[op.C]
		hi := cm.newest + 1
		var v uint64
		switch raw.VKind {
		case 0:
			v = cm.newest
			if v > 0 {
				v--
			}
		case 1:
			v = cm.newest
		case 2:
			v = hi
		case 3:
			v = cm.selfReg
		case 4:
			v = cm.selfReg
			if v > 0 {
				v--
			}
		case 5:
			v = cm.relayedMax
		default:
			v = raw.V % (hi + 1)
		}
		if v > hi {
			v = hi
		}
		op.V = v
	case "pubp":
		if raw.Aux%2 == 1 {
			op.C = 1 + raw.Ch%2
		}
	case "startsub":
		if m.ch[op.C].status == stStopped {
			op.V = m.ch[op.C].newest + uint64(raw.Aux%2)
		} else {
			op.V = uint64([]int{0, 0, 0, 1, 2}[raw.Aux%5])
		}
	}
	return op, true
}

func drawCase(t *rapid.T) Case {
	var c Case
	c.P0 = uint64([]int{0, 0, 0, 1, 3}[rapid.IntRange(0, 4).Draw(t, "p0")])
	lo := rapid.IntRange(1, 32).Draw(t, "minlen") // long histories are the point of this part
	raws := rapid.SliceOfN(genRaw(), lo, 40).Draw(t, "ops")
	m := newModel(c.P0)
	unwatchedStops := 0
	for _, raw := range raws {
		if !m.watched(0) {
			// nothing is watched any more: at most one further stop request
			if unwatchedStops > 0 {
				return c
			}
			unwatchedStops++
		}
		op, ok := pickOp(m, raw, true)
		if !ok {
			return c
		}
		if !m.valid(op) {
			t.Fatalf("harness: drew invalid op %v", op)
		}
		m.apply(op)
		c.Ops = append(c.Ops, op)
	}
	return c
}

func TestRandom(t *testing.T) {
	rec := h.Begin("C05", "random")
	rec.SetRule(randomRule, commonAssumptions...)
	defer rec.Flush()
	g0 := runtime.NumGoroutine()
	rapid.Check(t, func(rt *rapid.T) {
		c := drawCase(rt)
		rec.MarkCurrent(c)
		rec.Report(rt, c, runCase(c))
	})
	time.Sleep(20 * time.Millisecond)
	rec.AddExtra("goroutines_left_random", runtime.NumGoroutine()-g0)
}

// ------------------------------------------------------------------ replay

func TestReplay(t *testing.T) {
	p := h.ReplayPath()
	if p == "" {
		t.Skip("no replay requested")
	}
	if h.ReplayPart(p) == "burst" {
		var bc BurstCase
		if err := h.LoadReplay(p, &bc); err != nil {
			t.Fatal(err)
		}
		h.Begin("C05", "replay").Report(t, bc, runBurstCase(bc))
		return
	}
	var c struct {
		Case
		Inflight []Case `json:"inflight"`
	}
	if err := h.LoadReplay(p, &c); err != nil {
		t.Fatal(err)
	}
	rec := h.Begin("C05", "replay")
	part := h.ReplayPart(p)
	run := runCase // every part uses the same executor; concurrent cases carry segments
	switch part {
	case "enum", "random", "conc", "":
	default:
		t.Fatalf("unknown part %q in replay file", part)
	}
	if len(c.Inflight) > 0 {
		// a process death: the cases that were executing, one after the other
		for _, cc := range c.Inflight {
			rec.MarkCurrent(cc)
			rec.Report(t, cc, run(cc))
		}
		return
	}
	rec.MarkCurrent(c.Case)
	rec.Report(t, c.Case, run(c.Case))
}
