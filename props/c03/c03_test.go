// Package c03: honest settlement pays each party its balance in the last
// agreed state (DESIGN.md §3 C03).
package c03

import (
	"context"
	"fmt"
	"math/big"
	"os"
	"strings"
	"testing"
	"time"

	"pgregory.net/rapid"

	"perun.network/go-perun/channel"
	"perun.network/go-perun/client"
	"perun.network/go-perun/wire"
	perunser "perun.network/go-perun/wire/perunio/serializer"
	"perun.network/go-perun/wire/protobuf"

	"verif/gen"
	"verif/h"
	"verif/sim"
)

func TestMain(m *testing.M) {
	gen.Setup()
	code := m.Run()
	h.FlushAll()
	os.Exit(code)
}

// Step is one scenario step.
type Step struct {
	Kind   string      `json:"kind"` // pay | subopen | subpay | subclose
	By     int         `json:"by"`   // proposing party (0 = A, 1 = B)
	Asset  int         `json:"asset"`
	Amount uint64      `json:"amount"`
	Accept bool        `json:"accept"`
	Bals   [][2]uint64 `json:"bals,omitempty"` // sub-channel balances per asset (by party)
}

// Case is a scenario program.
type Case struct {
	Proposer   int         `json:"proposer"`
	Init       [][2]uint64 `json:"init"` // per asset, by party
	Fund       [][2]uint64 `json:"fund"` // funding agreement (same sum per asset), nil rows = same as init
	UseFund    bool        `json:"usefund"`
	Challenge  uint64      `json:"challenge"`
	Ser        string      `json:"ser"` // "" | native | protobuf
	Steps      []Step      `json:"steps"`
	FinalLast  bool        `json:"final"`
	Order      []int       `json:"order"`
	Concurrent bool        `json:"concurrent"`
	Secondary  [2]bool     `json:"secondary"`
	// Rush (dispute path only): after the program party RushBy makes one more
	// payment and settles the moment its Update returns, while the accepting
	// party is still inside its acceptance (the return of its Publish call is
	// held for RushHold ms): the registration races with the acceptance.
	// WithdrawFault[i]: party i's first Withdraw call on the ledger fails
	// without effect (the chain was not reachable); the party repeats Settle
	WithdrawFault [2]bool `json:"withdrawfault,omitempty"`
	// NoWatch[i]: party i never calls Channel.Watch (it learns about
	// registrations only when it settles itself)
	NoWatch [2]bool `json:"nowatch,omitempty"`
	// SlowCtx[i]: microseconds the first Done() calls on party i's Settle
	// context take (schedule control, see sim.SlowCtx)
	SlowCtx  [2][]int `json:"slowctx,omitempty"`
	Rush     bool     `json:"rush,omitempty"`
	RushBy   int      `json:"rushby,omitempty"`
	RushHold int      `json:"rushhold,omitempty"`
}

func drawCase(t *rapid.T) Case {
	var c Case
	c.Proposer = rapid.IntRange(0, 1).Draw(t, "proposer")
	na := []int{1, 1, 2, 3}[rapid.IntRange(0, 3).Draw(t, "nassets")]
	for i := 0; i < na; i++ {
		a, b := uint64(rapid.IntRange(0, 100).Draw(t, "initA")), uint64(rapid.IntRange(0, 100).Draw(t, "initB"))
		c.Init = append(c.Init, [2]uint64{a, b})
		// funding agreement: same sum, other split
		fa := uint64(rapid.IntRange(0, int(a+b)).Draw(t, "fundA"))
		c.Fund = append(c.Fund, [2]uint64{fa, a + b - fa})
	}
	c.UseFund = rapid.Bool().Draw(t, "usefund")
	c.Challenge = uint64(rapid.IntRange(1, 50).Draw(t, "challenge"))
	c.Ser = rapid.SampledFrom([]string{"", "native", "protobuf"}).Draw(t, "ser")
	ns := rapid.IntRange(0, 12).Draw(t, "nsteps")
	subOpen, subFinal := false, false
	for i := 0; i < ns; i++ {
		var s Step
		kinds := []string{"pay", "pay", "pay", "subopen"}
		if subOpen && !subFinal {
			kinds = []string{"pay", "pay", "subpay", "subpay", "subclose", "subfinal", "settle-timeout", "subopen2", "sub2pay"}
		} else if subOpen {
			// the sub-channel is final but not settled yet: the parent goes on meanwhile
			kinds = []string{"pay", "pay", "subsettle"}
		}
		s.Kind = rapid.SampledFrom(kinds).Draw(t, "kind")
		s.By = rapid.IntRange(0, 1).Draw(t, "by")
		s.Asset = rapid.IntRange(0, na-1).Draw(t, "asset")
		s.Amount = uint64(rapid.IntRange(0, 60).Draw(t, "amount"))
		s.Accept = rapid.IntRange(0, 4).Draw(t, "accept") != 0
		switch s.Kind {
		case "subopen2":
			for a := 0; a < na; a++ {
				s.Bals = append(s.Bals, [2]uint64{uint64(rapid.IntRange(0, 6).Draw(t, "sub2A")), uint64(rapid.IntRange(0, 6).Draw(t, "sub2B"))})
			}
			s.Accept = true
		case "subopen":
			for a := 0; a < na; a++ {
				s.Bals = append(s.Bals, [2]uint64{uint64(rapid.IntRange(0, 15).Draw(t, "subA")), uint64(rapid.IntRange(0, 15).Draw(t, "subB"))})
			}
			s.Accept = true
			subOpen = true // may still fail (insufficient funds); the runner tracks the truth
		case "subclose", "subsettle":
			subOpen, subFinal = false, false
		case "subfinal":
			subFinal = true
		}
		c.Steps = append(c.Steps, s)
	}
	c.FinalLast = rapid.Bool().Draw(t, "final")
	switch rapid.IntRange(0, 2).Draw(t, "order") {
	case 0:
		c.Order = []int{0, 1}
	case 1:
		c.Order = []int{1, 0}
	default:
		c.Order, c.Concurrent = []int{0, 1}, true
	}
	c.Secondary = [2]bool{rapid.Bool().Draw(t, "sec0"), rapid.Bool().Draw(t, "sec1")}
	if rapid.IntRange(0, 4).Draw(t, "nowatch") == 0 {
		c.NoWatch = [2]bool{rapid.Bool().Draw(t, "nw0"), rapid.Bool().Draw(t, "nw1")}
	}
	for i := 0; i < 2; i++ {
		if rapid.IntRange(0, 2).Draw(t, "slowctx") == 0 {
			c.SlowCtx[i] = rapid.SliceOfN(rapid.SampledFrom([]int{0, 60, 400, 1500}), 1, 3).Draw(t, "delays")
		}
	}
	if rapid.IntRange(0, 3).Draw(t, "wfault") == 0 {
		c.WithdrawFault = [2]bool{rapid.Bool().Draw(t, "wf0"), rapid.Bool().Draw(t, "wf1")}
	}
	if rapid.IntRange(0, 3).Draw(t, "rush") == 0 {
		c.Rush, c.FinalLast = true, false
		c.RushBy = rapid.IntRange(0, 1).Draw(t, "rushby")
		c.RushHold = []int{2, 5, 10, 25}[rapid.IntRange(0, 3).Draw(t, "rushhold")]
		c.Order, c.Concurrent = []int{c.RushBy, c.RushBy ^ 1}, false
	}
	return c
}

func bigs(v [][2]uint64) [][2]*big.Int {
	out := make([][2]*big.Int, len(v))
	for i := range v {
		out[i] = [2]*big.Int{new(big.Int).SetUint64(v[i][0]), new(big.Int).SetUint64(v[i][1])}
	}
	return out
}

func serializer(name string) wire.EnvelopeSerializer {
	switch name {
	case "native":
		return perunser.Serializer()
	case "protobuf":
		return protobuf.Serializer()
	}
	return nil
}

const startBalance = 1000

// lastAgreed returns the highest-version transaction of channel id that both
// recorders logged as enabled with two valid signatures.
func lastAgreed(pr *sim.Pair, id channel.ID) (*channel.State, *h.Failure) {
	best := map[uint64]int{}
	states := map[uint64]*channel.State{}
	for i := 0; i < 2; i++ {
		seen := map[uint64]bool{}
		for _, e := range pr.P[i].Rec.Events() {
			if e.Kind != "enabled" || e.Chan != id || e.Cur.State == nil {
				continue
			}
			v := e.Cur.State.Version
			if seen[v] {
				continue
			}
			seen[v] = true
			best[v]++
			if prev, ok := states[v]; ok {
				if prev.Equal(e.Cur.State) != nil {
					return nil, h.Failf("agreed-states-differ", "the two parties enabled different states for version %d of channel %s", v, sim.Describe(id))
				}
			} else {
				states[v] = e.Cur.State
			}
		}
	}
	var top *channel.State
	for v, n := range best {
		if n == 2 && (top == nil || v > top.Version) {
			top = states[v]
		}
	}
	return top, nil
}

// hangPanic is raised by stateOf when a channel's machine mutex is never
// released (Channel.State takes it without a context).
type hangPanic struct{}

// stateOf is Channel.State with the hang limit.
func stateOf(ch *client.Channel) *channel.State {
	got := make(chan *channel.State, 1)
	go func() { got <- ch.State() }()
	select {
	case s := <-got:
		return s
	case <-time.After(sim.HangLimit):
		panic(hangPanic{})
	}
}

func runCase(c Case) (o *h.Outcome) {
	o = &h.Outcome{}
	defer func() {
		if r := recover(); r != nil {
			if _, ok := r.(hangPanic); !ok {
				panic(r)
			}
			o.Fail = h.Failf("channel-locked", "Channel.State() does not return within the hang limit: the channel's machine mutex is held for ever")
		}
	}()
	na := len(c.Init)
	assets := make([]uint64, na)
	for i := range assets {
		assets[i] = uint64(100 + i)
	}
	fail := func(sig, format string, args ...any) *h.Outcome {
		o.Fail = h.Failf(sig, format, args...)
		return o
	}
	pr, err := sim.NewPairOpt(serializer(c.Ser), 0, 1, [2]bool{!c.NoWatch[0], !c.NoWatch[1]})
	if c.NoWatch[0] || c.NoWatch[1] {
		o.Class("party-without-watcher")
	}
	pr.SettleCtxDelay = c.SlowCtx
	if len(c.SlowCtx[0])+len(c.SlowCtx[1]) > 0 {
		o.Class("settle-context-slow")
	}
	if err != nil {
		return fail("harness", "creating parties: %v", err)
	}
	defer pr.Env.Close()
	L := pr.Env.Ledger
	for i := 0; i < 2; i++ {
		for _, a := range assets {
			L.Credit(pr.P[i].Name, pr.P[i].Acc.Address(), a, big.NewInt(startBalance))
		}
	}
	var fund [][2]*big.Int
	if c.UseFund {
		fund = bigs(c.Fund)
		o.Class("funding-agreement")
	}
	if err := pr.Open(c.Proposer, assets, bigs(c.Init), fund, c.Challenge, nil, nil); err != nil {
		return fail("open-failed", "honest opening failed: %v", err)
	}
	if c.Ser != "" {
		o.Class("serializer:" + c.Ser)
	}
	if na > 1 {
		o.Class("multi-asset")
	}
	ledgerID := pr.Ch[0].ID()
	// funding took exactly the agreed amounts
	for i := 0; i < 2; i++ {
		for a, aid := range assets {
			want := c.Init[a][i]
			if c.UseFund {
				want = c.Fund[a][i]
			}
			got := new(big.Int).Sub(big.NewInt(startBalance), L.Balance(pr.P[i].Acc.Address(), aid))
			if got.Cmp(new(big.Int).SetUint64(want)) != 0 {
				return fail("funding-amount", "funding took %v of asset %d from party %d, agreed %d", got, a, i, want)
			}
		}
	}
	var sub2 [2]*client.Channel // a second sub-channel, by party
	// lastPayment: the final update of the sub-channel may carry a last payment
	lastPayment := func(s Step) func(*channel.State) {
		if s.Amount == 0 || s.Amount%3 == 0 || pr.Sub[0] == nil {
			return nil
		}
		ch := pr.Sub[pr.SubBy]
		from := sim.Idx(ch)
		amt := new(big.Int).SetUint64(s.Amount % 7)
		if stateOf(ch).Balances[s.Asset][from].Cmp(amt) < 0 || amt.Sign() == 0 {
			return nil
		}
		o.Class("sub-final-update-with-payment")
		return sim.Transfer(s.Asset, from, amt, false)
	}
	balanceChanging, rejected, subUsed := 0, 0, false
	subFinalised := false
	var subID channel.ID
	for si, s := range c.Steps {
		switch s.Kind {
		case "pay", "subpay":
			chs := pr.Ch
			if s.Kind == "subpay" {
				if pr.Sub[0] == nil || subFinalised {
					continue
				}
				chs = pr.Sub
			}
			ch := chs[s.By]
			before := stateOf(ch).Clone()
			from := sim.Idx(ch)
			amt := new(big.Int).SetUint64(s.Amount)
			affordable := before.Balances[s.Asset][from].Cmp(amt) >= 0
			err := pr.Update(s.By, ch, sim.Transfer(s.Asset, from, amt, false), s.Accept)
			after := stateOf(ch)
			switch {
			case !affordable:
				o.Class("overdraft-refused-locally")
				if err == nil {
					return fail("overdraft-accepted", "step %d: an update that makes a balance negative succeeded", si)
				}
				if after.Equal(before) != nil {
					return fail("state-changed-after-error", "step %d: state changed although the update failed", si)
				}
			case s.Accept:
				if err != nil {
					return fail("update-failed", "step %d (%s): accepted honest update failed: %v", si, s.Kind, err)
				}
				if s.Amount > 0 {
					balanceChanging++
				}
			default:
				rejected++
				if err == nil {
					return fail("rejected-update-succeeded", "step %d: update returned nil although the peer rejected", si)
				}
				if after.Equal(before) != nil {
					return fail("state-changed-after-reject", "step %d: state changed although the peer rejected", si)
				}
			}
		case "subopen":
			if pr.Sub[0] != nil {
				continue
			}
			parent := stateOf(pr.Ch[c.Proposer])
			ok := true
			for a := range s.Bals {
				for p := 0; p < 2; p++ {
					if parent.Balances[a][sim.Idx(pr.Ch[p])].Cmp(new(big.Int).SetUint64(s.Bals[a][p])) < 0 {
						ok = false
					}
				}
			}
			// a sub-channel can only be proposed by participant 0 of the parent
			// (the proposal's peers are the parent's peers and the proposer must
			// be peer 0), i.e. by the party that proposed the ledger channel
			s.By = c.Proposer
			err := pr.OpenSub(s.By, bigs(s.Bals), c.Challenge)
			if !ok {
				o.Class("sub-insufficient-funds")
				if err == nil {
					return fail("sub-overfunded", "step %d: sub-channel with more funds than the parent holds was opened", si)
				}
				continue
			}
			if err != nil {
				return fail("subopen-failed", "step %d: honest sub-channel opening failed: %v", si, err)
			}
			subUsed = true
			subID = pr.Sub[0].ID()
		case "settle-timeout":
			// a settlement attempt that gives up: while a sub-channel update is in
			// flight (the peer's handler takes 150 ms) party By calls Settle on the
			// ledger channel with a 50 ms context.  The attempt may fail - the
			// sub-channel is busy - but it must not leave anything behind: every
			// later step and the final settlement go on as usual.
			if pr.Sub[0] == nil || subFinalised {
				continue
			}
			x := pr.SubBy
			pr.HandlerDelay[x^1].Store(int64(150 * time.Millisecond))
			theSub := pr.Sub[0].ID()
			sent := pr.Env.Bus.Collect(func(e *wire.Envelope) bool {
				m, ok := e.Msg.(*client.ChannelUpdateMsg)
				return ok && m.State != nil && m.State.ID == theSub
			})
			for len(pr.HandlerEntered[s.By]) > 0 {
				<-pr.HandlerEntered[s.By]
			}
			upd := make(chan error, 1)
			go func() {
				upd <- pr.Update(x, pr.Sub[x], func(*channel.State) {}, true)
			}()
			sent.Wait(1, 2*time.Second)
			if s.By != x {
				// the settling party is the responder of the update: wait until its
				// handler runs (its sub-channel is busy from then on)
				select {
				case <-pr.HandlerEntered[s.By]:
				case <-time.After(2 * time.Second):
				}
			}
			ctx, cancel := context.WithTimeout(context.Background(), 50*time.Millisecond)
			attempt := make(chan error, 1)
			go func() { attempt <- pr.Ch[s.By].Settle(ctx, false) }()
			var err error
			select {
			case err = <-attempt:
			case <-time.After(sim.HangLimit):
				cancel()
				return fail("settle-hang", "step %d: a Settle call with a 50 ms context did not return within the hang limit", si)
			}
			cancel()
			if err != nil {
				o.Class("settle-attempt-timed-out-while-sub-channel-busy")
			} else {
				o.Class("settle-attempt-succeeded")
			}
			uerr := <-upd
			pr.HandlerDelay[x^1].Store(0)
			if lc := L.Channel(ledgerID); lc != nil && lc.Reg != nil {
				// the attempt was quicker than the update (a loaded machine): it has
				// registered a dispute, an honest if impatient move after which updates
				// are refused by design.  Not the situation this step is about.
				o.Class("settle-attempt-registered-a-dispute(scenario ends)")
				return o
			}
			if uerr != nil {
				return fail("update-failed", "step %d: the sub-channel update that ran during the settlement attempt failed: %v", si, uerr)
			}
			if err == nil {
				// the channel was settled by the attempt: nothing more to do in this scenario
				return o
			}
			pr.Env.Quiesce(10*time.Millisecond, sim.HangLimit)
		case "subclose":
			if pr.Sub[0] == nil || subFinalised {
				continue
			}
			if err := pr.FinalizeSubWith(lastPayment(s)); err != nil {
				return fail("subclose-failed", "step %d: honest final sub-channel update failed: %v", si, err)
			}
			if err := pr.SettleSub(); err != nil {
				return fail("subclose-failed", "step %d: honest sub-channel settlement failed: %v", si, err)
			}
			o.Class("sub-closed")
		case "subfinal":
			if pr.Sub[0] == nil || subFinalised {
				continue
			}
			if err := pr.FinalizeSubWith(lastPayment(s)); err != nil {
				return fail("subfinal-failed", "step %d: honest final sub-channel update failed: %v", si, err)
			}
			subFinalised = true
		case "subopen2":
			// a second sub-channel next to the first one; it stays open until the
			// ledger channel is settled
			if pr.Sub[0] == nil || sub2[0] != nil {
				continue
			}
			parent := stateOf(pr.Ch[c.Proposer])
			ok := true
			for a := range s.Bals {
				for p := 0; p < 2; p++ {
					if parent.Balances[a][sim.Idx(pr.Ch[p])].Cmp(new(big.Int).SetUint64(s.Bals[a][p])) < 0 {
						ok = false
					}
				}
			}
			if !ok {
				continue
			}
			chs, err := pr.OpenSubExtra(c.Proposer, bigs(s.Bals), c.Challenge)
			if err != nil {
				return fail("subopen-failed", "step %d: honest opening of a second sub-channel failed: %v", si, err)
			}
			sub2 = chs
			o.Class("second-sub-channel")
		case "sub2pay":
			if sub2[0] == nil {
				continue
			}
			ch := sub2[s.By]
			amt := new(big.Int).SetUint64(s.Amount)
			if stateOf(ch).Balances[s.Asset][sim.Idx(ch)].Cmp(amt) < 0 {
				continue
			}
			if err := pr.Update(s.By, ch, sim.Transfer(s.Asset, sim.Idx(ch), amt, false), true); err != nil {
				return fail("update-failed", "step %d (sub2pay): accepted honest update failed: %v", si, err)
			}
		case "subsettle":
			if pr.Sub[0] == nil || !subFinalised {
				continue
			}
			if err := pr.SettleSub(); err != nil {
				return fail("subsettle-failed", "step %d: honest settlement of the finalised sub-channel failed: %v", si, err)
			}
			subFinalised = false
			o.Class("sub-closed")
			o.Class("sub-settled-after-parent-activity")
		}
	}
	subOpenAtEnd := pr.Sub[0] != nil
	anySubOpen := subOpenAtEnd || sub2[0] != nil // a ledger channel is not finalised while it locks funds
	if c.FinalLast && !anySubOpen {
		if err := pr.Update(c.Order[0], pr.Ch[c.Order[0]], func(s *channel.State) { s.IsFinal = true }, true); err != nil {
			return fail("final-update-failed", "final update failed: %v", err)
		}
		o.Class("final")
	} else {
		o.Class("dispute-path")
	}
	if subOpenAtEnd {
		o.Class("sub-open-at-settle")
	}
	// the accepting side enables a state after it has sent its acceptance, so
	// the proposer's Update may return a moment earlier: wait for both sides
	if !pr.Env.Quiesce(10*time.Millisecond, sim.HangLimit) {
		return fail("harness", "world did not become quiet before settlement")
	}
	rush := c.Rush && !anySubOpen && !c.FinalLast
	var rushRes [2]sim.SettleResult
	var rushBefore [2][]*big.Int
	if rush {
		o.Class("rush:settle-during-peer-acceptance")
		for i := 0; i < 2; i++ {
			for _, aid := range assets {
				rushBefore[i] = append(rushBefore[i], L.Balance(pr.P[i].Acc.Address(), aid))
			}
		}
		x := c.RushBy
		ch := pr.Ch[x]
		fromPeer := sim.FromParty(pr.P[x^1])
		next := stateOf(ch).Version + 1
		pr.Env.Bus.TapAfter(func(e *wire.Envelope) {
			if m, ok := e.Msg.(*client.ChannelUpdateAccMsg); ok && fromPeer(e) && m.ChannelID == ledgerID && m.Version == next {
				time.Sleep(time.Duration(c.RushHold) * time.Millisecond)
			}
		})
		amt := big.NewInt(1)
		if stateOf(ch).Balances[0][sim.Idx(ch)].Sign() == 0 {
			amt = big.NewInt(0)
		}
		if err := pr.Update(x, ch, sim.Transfer(0, sim.Idx(ch), amt, false), true); err != nil {
			return fail("update-failed", "rush payment: accepted honest update failed: %v", err)
		}
		rushRes = pr.Settle(c.Order, false, c.Secondary)
		if !pr.Env.Quiesce(10*time.Millisecond, sim.HangLimit) {
			return fail("harness", "world did not become quiet after the rushed settlement")
		}
	}
	agreed, f := lastAgreed(pr, ledgerID)
	if f != nil {
		o.Fail = f
		return o
	}
	if agreed == nil {
		return fail("no-agreed-state", "no state was enabled by both parties")
	}
	if cur := stateOf(pr.Ch[0]); !rush && cur.Equal(agreed) != nil {
		return fail("current-not-agreed", "party A's current state (v%d) is not the last agreed state (v%d)", cur.Version, agreed.Version)
	}
	var sub2Agreed *channel.State
	if sub2[0] != nil {
		sub2Agreed, f = lastAgreed(pr, sub2[0].ID())
		if f != nil {
			o.Fail = f
			return o
		}
	}
	var subAgreed *channel.State
	if subOpenAtEnd {
		subAgreed, f = lastAgreed(pr, subID)
		if f != nil {
			o.Fail = f
			return o
		}
	}
	before := [2][]*big.Int{}
	for i := 0; i < 2; i++ {
		for _, aid := range assets {
			before[i] = append(before[i], L.Balance(pr.P[i].Acc.Address(), aid))
		}
	}
	var res [2]sim.SettleResult
	if rush {
		res, before = rushRes, rushBefore
	} else {
		for i := 0; i < 2; i++ {
			if c.WithdrawFault[i] {
				L.FailWithdraws(pr.P[i].Name, 1)
				o.Class("withdraw-fault-injected")
			}
		}
		res = pr.Settle(c.Order, c.Concurrent, c.Secondary)
		// a party whose withdrawal met the injected fault settles again.  So does a
		// party whose Settle started after the ledger channel's registered event
		// was handled but before a sub-channel's own event reached its machine
		// ("can only withdraw after registering"): nothing has been paid or lost by
		// the failed call and the property does not promise that one call suffices
		// (same rule as in C04, DESIGN.md section 9).  Other errors, and errors that
		// persist, are reported.
		for attempt := 0; attempt < 2; attempt++ {
			for i := 0; i < 2; i++ {
				if res[i].Err == nil || res[i].Hung {
					continue
				}
				msg := res[i].Err.Error()
				switch {
				case c.WithdrawFault[i] && strings.Contains(msg, "transient failure injected"):
					o.Class("settle-repeated-after-withdraw-fault")
				case anySubOpen && strings.Contains(msg, "can only withdraw after registering"):
					o.Class("settle-repeated-after-phase-error")
				default:
					continue
				}
				pr.Env.Quiesce(10*time.Millisecond, sim.HangLimit)
				r2 := pr.Settle([]int{i}, false, c.Secondary)
				res[i] = r2[i]
			}
		}
	}
	for i := 0; i < 2; i++ {
		if res[i].Hung {
			return fail("settle-hang", "Settle of party %d did not return within the hang limit", i)
		}
		if res[i].Err != nil {
			return fail("settle-error", "Settle of party %d failed in an honest run: %v", i, res[i].Err)
		}
	}
	// payouts
	for i := 0; i < 2; i++ {
		ci := sim.Idx(pr.Ch[i])
		for a, aid := range assets {
			want := new(big.Int).Set(agreed.Balances[a][ci])
			if subAgreed != nil {
				want.Add(want, subAgreed.Balances[a][sim.Idx(pr.Sub[i])])
			}
			if sub2Agreed != nil {
				want.Add(want, sub2Agreed.Balances[a][sim.Idx(sub2[i])])
			}
			got := new(big.Int).Sub(L.Balance(pr.P[i].Acc.Address(), aid), before[i][a])
			if got.Cmp(want) != 0 {
				return fail("payout", "party %d was paid %v of asset %d, its balance in the last agreed state (v%d%s) is %v", i, got, a, agreed.Version, map[bool]string{true: " + sub-channel", false: ""}[subAgreed != nil], want)
			}
		}
	}
	if ch := L.Channel(ledgerID); ch != nil {
		for a, hd := range ch.Holdings {
			if hd.Sign() != 0 {
				return fail("holdings-left", "%v of asset %d remain held for the channel after both settled", hd, a)
			}
		}
	}
	for _, p := range L.Problems() {
		return fail("ledger-rule:"+p.Kind, "%s: %s", p.Who, p.Msg)
	}
	o.Nontrivial = balanceChanging > 0 && (rejected > 0 || !(c.FinalLast && !anySubOpen) || subUsed || na > 1)
	if rejected > 0 {
		o.Class("with-reject")
	}
	if subUsed {
		o.Class("with-sub-channel")
	}
	return o
}

const rule = "scenario programs for two honest clients (real client.Client, real local.Watcher) over the strict reference ledger with a logical clock and the scripted FIFO bus: 1-3 assets, initial balances, optional funding agreement with another split, challenge duration, proposer, serializer (none/native/protobuf), 0-12 steps {payment either way incl. amounts above the balance (must fail locally), accept/reject decision, open sub-channel (incl. more funds than the parent holds: must fail), payment inside the sub-channel, finalise+close sub-channel, finalise the sub-channel and settle it only after further parent activity}, last state final or not, settle order (A first / B first / concurrent), secondary flags. Oracle: every honest operation returns nil; funding debits exactly the agreed amounts; after both Settle calls each party's account grew by exactly its balance in the last state enabled by BOTH recording persisters (+ its balance in the last agreed state of a still-open sub-channel); holdings are zero; per-asset conservation after every ledger call; the ledger never had to refuse a call (signatures, versions, sub-channel tree, unregistered non-final withdraw). Also generated: a settlement attempt that times out and is repeated, a second sub-channel, a transient ledger fault on the first Withdraw with a repeated Settle, parties that never call Watch (a fifth of the scenarios; the reference ledger refuses to register a concluded channel), and Settle contexts whose first Done() calls take 60-1500 us. non-trivial = at least one accepted balance-changing update and one of {rejected update, dispute path (register + timeout), sub-channel, several assets}"

func TestSettlement(t *testing.T) {
	rec := h.Begin("C03", "")
	rec.SetRule(rule,
		"goroutine schedules are sampled, not enumerated; the harness owns message order per link (FIFO), ledger time (logical clock) and handler decisions",
		"conventions of DESIGN §2.6a for driving honest clients; wall-clock limits (30 s) only as hang detectors")
	defer rec.Flush()
	rapid.Check(t, func(rt *rapid.T) {
		c := drawCase(rt)
		if rec.Failed() {
			sim.HangLimit = time.Second // rapid is minimising a failing case
		}
		rec.MarkCurrent(c)
		rec.Report(rt, c, runCase(c))
	})
}

func TestReplay(t *testing.T) {
	p := h.ReplayPath()
	if p == "" {
		t.Skip("no replay requested")
	}
	var c Case
	if err := h.LoadReplay(p, &c); err != nil {
		t.Fatal(err)
	}
	rec := h.Begin("C03", "replay")
	o := runCase(c)
	fmt.Println("classes:", o.Classes)
	rec.Report(t, c, o)
}
