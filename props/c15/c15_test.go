// Package c15: values are equal exactly when their encodings are; a signature
// binds exactly one state (DESIGN.md §3 C15).
package c15

import (
	"bytes"
	"os"
	"testing"

	"pgregory.net/rapid"

	"perun.network/go-perun/channel"
	"perun.network/go-perun/wire/perunio"

	"verif/gen"
	"verif/h"
)

func TestMain(m *testing.M) {
	gen.Setup()
	code := m.Run()
	h.FlushAll()
	os.Exit(code)
}

// Case is a pair (v, w): w is v with the mutations applied, or an independent
// state.
type Case struct {
	V      gen.StateSpec  `json:"v"`
	Muts   []gen.Mut      `json:"muts"`
	Indep  *gen.StateSpec `json:"indep,omitempty"`
	Signer int            `json:"signer"`
	Other  int            `json:"other"`
	// RawData: both states get the no-app and these data values (a state of an
	// app-less channel may carry data: the no-app admits every transition)
	RawData *[2]uint64 `json:"rawdata,omitempty"`
	// BackendWrap: one asset's backend id of w is changed to a value that is
	// congruent to v's modulo 2^32 (1: +2^32, 2: -2^32; the wire format has 32
	// bits for it).  Such a state is refused by the encoder - outside the
	// domain - unless an encoder truncates: then two unequal states share an
	// encoding and a signature.
	BackendWrap int `json:"backendwrap,omitempty"`
	WrapAt      int `json:"wrapat,omitempty"`
}

func drawCase(t *rapid.T) Case {
	var c Case
	c.V = gen.GenState(gen.AllocOpts{MaxLocked: 3}).Draw(t, "v")
	switch rapid.IntRange(0, 9).Draw(t, "mode") {
	case 0:
		w := gen.GenState(gen.AllocOpts{MaxLocked: 3}).Draw(t, "w")
		c.Indep = &w
	case 1:
		c.Muts = []gen.Mut{gen.GenMut().Draw(t, "m1"), gen.GenMut().Draw(t, "m2")}
	default:
		c.Muts = []gen.Mut{gen.GenMut().Draw(t, "m")}
	}
	c.Signer = rapid.IntRange(0, 3).Draw(t, "signer")
	c.Other = rapid.IntRange(0, 3).Draw(t, "other")
	if rapid.IntRange(0, 19).Draw(t, "backendwrap") == 0 {
		c.BackendWrap = rapid.IntRange(1, 2).Draw(t, "wrapkind")
		c.WrapAt = rapid.IntRange(0, 7).Draw(t, "wrapat")
	}
	if rapid.IntRange(0, 9).Draw(t, "rawdata") == 0 {
		// 0-3: a MockOp of that value; 9: channel.NoData()
		vals := []uint64{0, 1, 2, 3, 9}
		a := rapid.SampledFrom(vals).Draw(t, "d0")
		b := a
		if rapid.Bool().Draw(t, "ddiff") {
			b = rapid.SampledFrom(vals).Draw(t, "d1")
		}
		c.RawData = &[2]uint64{a, b}
	}
	return c
}

func enc(v perunio.Encoder) ([]byte, error) {
	var b bytes.Buffer
	err := v.Encode(&b)
	return b.Bytes(), err
}

type locked []channel.SubAlloc

func (l locked) Encode(w *bytes.Buffer) error {
	for i := range l {
		if err := l[i].Encode(w); err != nil {
			return err
		}
	}
	return nil
}

func runCase(c Case) *h.Outcome {
	o := &h.Outcome{}
	ws := c.V
	applied := 0
	if c.Indep != nil {
		ws = *c.Indep
		o.Class("independent")
	} else {
		for _, m := range c.Muts {
			var ok bool
			ws, ok = m.Apply(ws)
			if ok {
				applied++
				o.Class("mut:" + m.Kind)
			} else {
				o.Class("mut-inapplicable")
			}
		}
	}
	o.Fail = h.Guard(func() *h.Failure {
		v, w := c.V.Build(), ws.Build()
		if c.RawData != nil {
			v.App, w.App = channel.NoApp(), channel.NoApp()
			rawData := func(d uint64) channel.Data {
				if d == 9 {
					return channel.NoData()
				}
				return channel.NewMockOp(channel.MockOp(d))
			}
			v.Data, w.Data = rawData(c.RawData[0]), rawData(c.RawData[1])
			if (c.RawData[0] == 9) != (c.RawData[1] == 9) {
				o.Class("data-vs-no-data")
			}
			if c.RawData[0] != c.RawData[1] {
				o.Class("app-less-states-with-different-data")
			} else {
				o.Class("app-less-states-with-data")
			}
		}
		if c.BackendWrap != 0 && len(w.Backends) > 0 {
			i := c.WrapAt % len(w.Backends)
			if c.BackendWrap == 1 {
				w.Backends[i] += 1 << 32
			} else {
				w.Backends[i] -= 1 << 32
			}
			o.Class("backend-id-wrapped-by-2^32")
		}
		ev, err1 := enc(v)
		ew, err2 := enc(w)
		if err1 != nil || err2 != nil {
			// not a well-formed value (e.g. dimension mutation made it ragged): outside the domain
			o.Class("unencodable")
			return nil
		}
		same := bytes.Equal(ev, ew)
		if same {
			o.Class("same-encoding")
		} else {
			o.Class("different-encoding")
		}
		o.Nontrivial = (c.Indep == nil && applied == 1 && (!same || c.Muts[0].Kind == "imapnil")) || (c.RawData != nil && c.RawData[0] != c.RawData[1])

		// State
		if got := v.Equal(w) == nil; got != same {
			return h.Failf("state-equal", "State.Equal=%v but encodings equal=%v", got, same)
		}
		if got := w.Equal(v) == nil; got != same {
			return h.Failf("state-equal-sym", "State.Equal (swapped)=%v but encodings equal=%v", got, same)
		}
		// Allocation
		av, _ := enc(v.Allocation)
		aw, _ := enc(w.Allocation)
		sameA := bytes.Equal(av, aw)
		if got := v.Allocation.Equal(&w.Allocation) == nil; got != sameA {
			return h.Failf("alloc-equal", "Allocation.Equal=%v but encodings equal=%v", got, sameA)
		}
		if got := w.Allocation.Equal(&v.Allocation) == nil; got != sameA {
			return h.Failf("alloc-equal-sym", "Allocation.Equal (swapped)=%v but encodings equal=%v", got, sameA)
		}
		// Balances
		bv, e1 := enc(v.Balances)
		bw, e2 := enc(w.Balances)
		if e1 == nil && e2 == nil {
			sameB := bytes.Equal(bv, bw)
			if got := v.Balances.Equal(w.Balances); got != sameB {
				return h.Failf("balances-equal", "Balances.Equal=%v but encodings equal=%v", got, sameB)
			}
			if got := w.Balances.AssertEqual(v.Balances) == nil; got != sameB {
				return h.Failf("balances-equal-sym", "Balances.AssertEqual (swapped)=%v but encodings equal=%v", got, sameB)
			}
		}
		// Sub-allocations, pairwise and as lists
		var lv, lw bytes.Buffer
		_ = locked(v.Locked).Encode(&lv)
		_ = locked(w.Locked).Encode(&lw)
		sameL := len(v.Locked) == len(w.Locked) && bytes.Equal(lv.Bytes(), lw.Bytes())
		if got := channel.SubAllocsAssertEqual(v.Locked, w.Locked) == nil; got != sameL {
			return h.Failf("suballocs-equal", "SubAllocsAssertEqual=%v but encodings equal=%v", got, sameL)
		}
		if got := channel.SubAllocsEqual(w.Locked, v.Locked); got != sameL {
			return h.Failf("suballocs-equal-sym", "SubAllocsEqual (swapped)=%v but encodings equal=%v", got, sameL)
		}
		for i := 0; i < len(v.Locked) && i < len(w.Locked); i++ {
			sv, _ := enc(v.Locked[i])
			sw, _ := enc(w.Locked[i])
			sameS := bytes.Equal(sv, sw)
			if got := v.Locked[i].Equal(&w.Locked[i]) == nil; got != sameS {
				return h.Failf("suballoc-equal", "SubAlloc.Equal=%v but encodings equal=%v (entry %d)", got, sameS, i)
			}
			if got := w.Locked[i].Equal(&v.Locked[i]) == nil; got != sameS {
				return h.Failf("suballoc-equal-sym", "SubAlloc.Equal (swapped)=%v but encodings equal=%v (entry %d)", got, sameS, i)
			}
		}
		// asset / backend projections
		var asv, asw bytes.Buffer
		for _, a := range v.Assets {
			_ = perunio.Encode(&asv, a)
		}
		for _, a := range w.Assets {
			_ = perunio.Encode(&asw, a)
		}
		sameAs := len(v.Assets) == len(w.Assets) && bytes.Equal(asv.Bytes(), asw.Bytes())
		if got := channel.AssertAssetsEqual(v.Assets, w.Assets) == nil; got != sameAs {
			return h.Failf("assets-equal", "AssertAssetsEqual=%v but encodings equal=%v", got, sameAs)
		}
		sameBk := len(v.Backends) == len(w.Backends)
		if sameBk {
			for i := range v.Backends {
				sameBk = sameBk && v.Backends[i] == w.Backends[i]
			}
		}
		if got := channel.AssertBackendsEqual(v.Backends, w.Backends) == nil; got != sameBk {
			return h.Failf("backends-equal", "AssertBackendsEqual=%v but ids equal=%v", got, sameBk)
		}

		// signatures
		acc := gen.Acc(c.Signer)
		sig, err := channel.Sign(acc, v, 0)
		if err != nil {
			return h.Failf("sign-error", "Sign failed on an encodable state: %v", err)
		}
		okV, err := channel.Verify(acc.Address(), v, sig)
		if err != nil || !okV {
			return h.Failf("verify-own", "signature does not verify for the signed state: ok=%v err=%v", okV, err)
		}
		okW, err := channel.Verify(acc.Address(), w, sig)
		if err != nil {
			return h.Failf("verify-error", "Verify returned an error on an encodable state: %v", err)
		}
		if okW != same {
			return h.Failf("sig-binds-state", "signature over v verifies for w = %v, encodings equal = %v", okW, same)
		}
		if c.Other != c.Signer {
			okO, err := channel.Verify(gen.Acc(c.Other).Address(), v, sig)
			if err != nil || okO {
				return h.Failf("sig-binds-signer", "signature of participant %d verifies for participant %d (err=%v)", c.Signer, c.Other, err)
			}
			o.Class("other-signer")
		}
		return nil
	})
	return o
}

const rule = "pairs (v,w) of valid states: w = v with one (10%: two) single-field mutations from the 27-kind alphabet of gen/mutate.go (id, version, final flag, app, data, one balance, one asset, one backend id, locked id/amount/index-map entry/length, nil-vs-empty index map, dimensions, swaps) or an independent state; in a tenth of the pairs both states are app-less and carry (equal or different) data or no data; oracle: Equal==nil <=> identical native encodings for State, Allocation, Balances, SubAlloc (both argument orders) and the helper comparisons; Verify(signer, w, Sign(signer, v)) <=> identical encodings; never verifies for another key. non-trivial = exactly one applicable mutation that changed the encoding (or the nil/empty index map neutral mutation); distinct by SHA-256 of the canonical case JSON"

func TestEqualEncoding(t *testing.T) {
	rec := h.Begin("C15", "")
	rec.SetRule(rule,
		"values are well-formed (encodable); pairs where either side is not encodable are outside the domain and only counted",
		"participant keys come from a per-process pool (sim key generation is not reproducible); cases are key-independent",
		"cryptographic coincidences (signature forgery, hash collisions) are outside any generator")
	defer rec.Flush()
	rapid.Check(t, func(rt *rapid.T) {
		c := drawCase(rt)
		rec.Report(rt, c, runCase(c))
	})
}

func TestReplay(t *testing.T) {
	p := h.ReplayPath()
	if p == "" {
		t.Skip("no replay requested")
	}
	var c Case
	if err := h.LoadReplay(p, &c); err != nil {
		t.Fatal(err)
	}
	rec := h.Begin("C15", "replay")
	rec.Report(t, c, runCase(c))
}
