// Package c11: the persistent store always describes exactly the live channels
// (DESIGN.md §3 C11).
package c11

import (
	"bytes"
	"context"
	"encoding/json"
	"fmt"
	"os"
	"sort"
	"strings"
	"testing"

	"pgregory.net/rapid"

	"perun.network/go-perun/channel"
	"perun.network/go-perun/channel/persistence"
	"perun.network/go-perun/channel/persistence/keyvalue"
	"perun.network/go-perun/wallet"
	"perun.network/go-perun/wire"

	"verif/faultkv"
	"verif/faultkv/chanops"
	"verif/gen"
	"verif/h"
)

func TestMain(m *testing.M) {
	gen.Setup()
	code := m.Run()
	h.FlushAll()
	os.Exit(code)
}

// Step is one step of a history: create a channel in an empty slot, apply a
// machine operation to the channel of a slot, or remove it directly
// (Persister.ChannelRemoved; SetWithdrawn as an operation removes as well).
type Step struct {
	Kind string            `json:"step"` // "create" | "op" | "remove"
	Slot int               `json:"slot"`
	Chan *chanops.ChanSpec `json:"chan,omitempty"` // create; Chan.Parent = slot of the parent (used if that slot is live) or -1
	Op   *chanops.Op       `json:"op,omitempty"`   // op
}

// Case is one history over up to 6 channel slots and 2-5 peer identities.
// Multi[i]: identity i has a 2-entry wire address map (backend ids 0 and 1).
type Case struct {
	LevelDB bool   `json:"leveldb"`
	Multi   []bool `json:"multi"`
	Slots   int    `json:"slots"`
	Steps   []Step `json:"steps"`
}

const (
	maxSlots = 6
	maxSteps = 50
)

func drawCase(t *rapid.T) Case {
	var c Case
	c.LevelDB = rapid.IntRange(0, 4).Draw(t, "leveldb") == 3 // rapid favours small values: compare with a mid-range one
	nid := rapid.IntRange(2, 5).Draw(t, "identities")
	c.Multi = make([]bool, nid)
	if rapid.IntRange(0, 3).Draw(t, "multicase") == 2 {
		for i := range c.Multi {
			c.Multi[i] = rapid.Bool().Draw(t, "multi")
		}
	}
	c.Slots = rapid.IntRange(1, maxSlots).Draw(t, "slots")
	n := rapid.IntRange(1, maxSteps).Draw(t, "steps")
	trs := make([]*chanops.Tracker, c.Slots)
	gens := make([]int, c.Slots)
	c.Steps = []Step{}
	s := 0
	for len(c.Steps) < n {
		if len(c.Steps) == 0 || rapid.IntRange(0, 2).Draw(t, "switch") == 0 {
			s = rapid.IntRange(0, c.Slots-1).Draw(t, "slot")
		}
		if trs[s] == nil || trs[s].Gone {
			np := rapid.IntRange(2, min(3, nid)).Draw(t, "parts")
			if rapid.IntRange(0, 11).Draw(t, "manyparts") == 5 {
				// around the point where participant indices get a second decimal digit
				// (the signature slots are keyed by zero-padded index)
				np = rapid.IntRange(9, 11).Draw(t, "parts10")
			}
			// the Persister interface does not tie the number of network peers to the
			// number of participants (a caller may list only the remote peers, or an
			// additional hub): mostly one per participant, sometimes one less or more
			npeers := np + []int{0, 0, 0, 0, -1, 1}[rapid.IntRange(0, 5).Draw(t, "peerdelta")]
			if npeers < 1 {
				npeers = 1
			}
			if npeers > nid {
				npeers = nid
			}
			perm := rapid.Permutation(seq(nid)).Draw(t, "peers")[:npeers]
			sp := &chanops.ChanSpec{
				N: np, Own: rapid.IntRange(0, np-1).Draw(t, "own"), Peers: perm,
				Nonce:  uint64(s + maxSlots*gens[s]),
				App:    rapid.SampledFrom([]string{"none", "mock"}).Draw(t, "app"),
				Flags:  rapid.SampledFrom([]int{1, 1, 0, 2}).Draw(t, "flags"),
				Parent: -1,
			}
			if c.Slots > 1 && rapid.Bool().Draw(t, "hasparent") {
				sp.Parent = rapid.IntRange(0, c.Slots-1).Draw(t, "parent")
			}
			gens[s]++
			trs[s] = chanops.NewTracker(np, sp.Own)
			c.Steps = append(c.Steps, Step{Kind: "create", Slot: s, Chan: sp})
			if rapid.Bool().Draw(t, "fastopen") {
				// the usual opening, as ordinary (individually checked) steps
				a := gen.GenAlloc(gen.AllocOpts{MinAssets: 1, MaxAssets: 2, Parts: np, Bal: gen.GenSmallBal()}).Draw(t, "openalloc")
				open := []chanops.Op{{Kind: "Init", Alloc: &a}, {Kind: "Sig"}}
				for j := 0; j < np; j++ {
					if j != sp.Own {
						open = append(open, chanops.Op{Kind: "AddSig", Slot: j, Sig: "valid"})
					}
				}
				open = append(open, chanops.Op{Kind: "EnableInit"}, chanops.Op{Kind: "SetFunded"})
				for i := range open {
					trs[s].Predict(open[i])
					c.Steps = append(c.Steps, Step{Kind: "op", Slot: s, Op: &open[i]})
				}
			}
			continue
		}
		if rapid.IntRange(0, 11).Draw(t, "remove") == 7 {
			trs[s].Gone = true
			c.Steps = append(c.Steps, Step{Kind: "remove", Slot: s})
			continue
		}
		op := trs[s].Draw(t, false)
		c.Steps = append(c.Steps, Step{Kind: "op", Slot: s, Op: &op})
	}
	return c
}

func seq(n int) []int {
	s := make([]int, n)
	for i := range s {
		s[i] = i
	}
	return s
}

var bg = context.Background()

// knownSig tells runCase which failure signatures are listed findings (set by
// the tests from the recorder).
var knownSig = func(string) bool { return false }

const sigUnstablePeerKey = "peer-key-unstable-for-multi-entry-identity"

// probeMultiEntryIdentity checks, through the persistence API only, that a
// peer with a 2-entry wire address map is found again: 4 channels listing the
// peer are created in a scratch store, then RestorePeer is asked 80 times.  The
// peer index key contains an encoding of the address map; if that encoding
// depends on Go's map iteration order (Go 1.23 reverses a 2-entry map in one
// of eight iterations) the answer changes from call to call; 84 encodings all
// come out in the same order with probability (7/8)^84 < 2^-16.
func probeMultiEntryIdentity() *h.Failure {
	fk := faultkv.NewMemory()
	defer fk.Close()
	pr := keyvalue.NewPersistRestorer(fk)
	peers := []map[wallet.BackendID]wire.Address{chanops.IdentMap(0, true), chanops.IdentMap(1, false)}
	const k, q = 4, 80
	for i := 0; i < k; i++ {
		l, err := chanops.NewLive(chanops.ChanSpec{N: 2, Peers: []int{0, 1}, Nonce: uint64(1_000_000 + i), App: "none", Flags: 1, Parent: -1}, pr, peers, nil)
		if err != nil {
			panic("harness: " + err.Error())
		}
		if err := l.Create(bg); err != nil {
			return h.Failf("persister-error:ChannelCreated", "probe: %v", err)
		}
	}
	var counts []int
	bad := false
	for i := 0; i < q; i++ {
		it, err := pr.RestorePeer(peers[0])
		if err != nil {
			return h.Failf("restore-peer-error", "probe: %v", err)
		}
		n := 0
		for it.Next(bg) {
			n++
		}
		if err := it.Close(); err != nil {
			return h.Failf("restore-peer-iterator-error", "probe: %v", err)
		}
		if n != k && len(counts) < 6 {
			counts = append(counts, n)
		}
		bad = bad || n != k
	}
	if !bad {
		return nil
	}
	prefixes := map[string]bool{}
	for _, key := range fk.LiveKeys() {
		if strings.HasPrefix(key, "Peer:") && len(key) > 5+4 && key[5] == 2 { // 2-entry map
			prefixes[fmt.Sprintf("%x", key[5:5+4+4])] = true
		}
	}
	var ps []string
	for p := range prefixes {
		ps = append(ps, p)
	}
	sort.Strings(ps)
	return h.Failf(sigUnstablePeerKey,
		"%d channels were created with one peer whose wire address map has two entries (backend ids 0 and 1); of %d successive RestorePeer calls for that peer some yield %v channels instead of %d; the peer's index keys start with %d different byte strings %v (map length + first backend id): the key is built from an encoding of the address map that depends on Go's map iteration order",
		k, q, counts, k, len(ps), ps)
}

// restored is what one view shows for one channel.
type restored struct {
	snap *chanops.Snap // nil: failed / absent
	ch   *persistence.Channel
}

type world struct {
	c       Case
	o       *h.Outcome
	fk      *faultkv.DB
	pr      *keyvalue.PersistRestorer
	idents  []map[wallet.BackendID]wire.Address
	slots   []*chanops.Live
	removed []channel.ID
}

func (w *world) live() []*chanops.Live {
	var ls []*chanops.Live
	for _, l := range w.slots {
		if l != nil {
			ls = append(ls, l)
		}
	}
	return ls
}

func hasPeer(l *chanops.Live, ident int) bool {
	for _, p := range l.Spec.Peers {
		if p == ident {
			return true
		}
	}
	return false
}

func idStr(id channel.ID) string { return fmt.Sprintf("%x", id[:4]) }

// compareSet checks that got (restored channels of one view) is exactly the
// set want of live channels, each equal to its live machine.
func compareSet(view string, got []*persistence.Channel, want []*chanops.Live) *h.Failure {
	byID := map[channel.ID]*chanops.Live{}
	for _, l := range want {
		byID[l.ID()] = l
	}
	seen := map[channel.ID]bool{}
	for _, ch := range got {
		id := ch.ID()
		l, ok := byID[id]
		if !ok {
			return h.Failf("view-extra-channel", "%s yields channel %s which is not a live channel of this view", view, idStr(id))
		}
		if seen[id] {
			return h.Failf("view-duplicate-channel", "%s yields channel %s twice", view, idStr(id))
		}
		seen[id] = true
		if clause, detail := chanops.StagedSigsProblem(ch); clause != "" {
			return h.Failf(clause, "%s, channel %s: %s", view, idStr(id), detail)
		}
		sn, err := chanops.SnapRestored(ch)
		if err != nil {
			return h.Failf("restored-unencodable", "%s, channel %s: %v", view, idStr(id), err)
		}
		if field, detail := l.Snap().Diff(sn); field != "" {
			return h.Failf("mismatch:"+field, "%s, channel %s differs from its live machine: %s", view, idStr(id), detail)
		}
	}
	for _, l := range want {
		if !seen[l.ID()] {
			return h.Failf("view-missing-channel", "%s does not yield live channel %s", view, idStr(l.ID()))
		}
	}
	return nil
}

func drain(it persistence.ChannelIterator) ([]*persistence.Channel, error) {
	var chans []*persistence.Channel
	for it.Next(bg) {
		chans = append(chans, it.Channel())
	}
	return chans, it.Close()
}

// restoreEach restores every id known so far on its own.
func (w *world) restoreEach(pr *keyvalue.PersistRestorer) map[channel.ID]restored {
	m := map[channel.ID]restored{}
	one := func(id channel.ID) {
		ch, err := pr.RestoreChannel(bg, id)
		if err != nil {
			m[id] = restored{}
			return
		}
		sn, err := chanops.SnapRestored(ch)
		if err != nil {
			sn = nil
		}
		m[id] = restored{snap: sn, ch: ch}
	}
	for _, l := range w.live() {
		one(l.ID())
	}
	for _, id := range w.removed {
		one(id)
	}
	return m
}

// checkViews is the oracle after every step.
func (w *world) checkViews(where string) *h.Failure {
	pr := keyvalue.NewPersistRestorer(w.fk) // a fresh restorer over the same store
	live := w.live()
	fail := func(f *h.Failure) *h.Failure {
		f.Msg = where + ": " + f.Msg
		return f
	}

	// raw key set: every key belongs to a live channel, none to a removed one.
	// A key belongs to a channel if it contains the channel's 32 byte id (all
	// keys of the layout do: "Chan:<id>:..." and "Peer:<address map>:channel:<id>").
	for _, key := range w.fk.LiveKeys() {
		owner := false
		for _, l := range live {
			id := l.ID()
			if strings.Contains(key, string(id[:])) {
				owner = true
			}
		}
		for _, id := range w.removed {
			if strings.Contains(key, string(id[:])) {
				return fail(h.Failf("key-of-removed-channel-left", "the store still holds key %q of removed channel %s", printable(key, id), idStr(id)))
			}
		}
		if !owner {
			return fail(h.Failf("key-without-live-channel", "the store holds key %q which contains no live channel's id", printable(key, channel.ID{})))
		}
	}

	// RestorePeer(p) = exactly the live channels listing p
	for i, p := range w.idents {
		view := fmt.Sprintf("RestorePeer(identity %d)", i)
		it, err := pr.RestorePeer(p)
		if err != nil {
			return fail(h.Failf("restore-peer-error", "%s: %v", view, err))
		}
		chans, err := drain(it)
		if err != nil {
			return fail(h.Failf("restore-peer-iterator-error", "%s: iterator ends with an error: %v", view, err))
		}
		var want []*chanops.Live
		for _, l := range live {
			if hasPeer(l, i) {
				want = append(want, l)
			}
		}
		if f := compareSet(view, chans, want); f != nil {
			return fail(f)
		}
	}

	// ActivePeers = union of the peers of live channels, as a set
	wantPeers := map[string]int{}
	for _, l := range live {
		for _, pi := range l.Spec.Peers {
			wantPeers[string(chanops.PeerCanon(w.idents[pi]))] = pi
		}
	}
	aps, err := pr.ActivePeers(bg)
	if err != nil {
		return fail(h.Failf("active-peers-error", "ActivePeers: %v", err))
	}
	gotPeers := map[string]bool{}
	for _, p := range aps {
		k := string(chanops.PeerCanon(p))
		if _, ok := wantPeers[k]; !ok {
			return fail(h.Failf("active-peers-extra", "ActivePeers lists a peer that no live channel lists (%d live channels)", len(live)))
		}
		gotPeers[k] = true
	}
	for k, pi := range wantPeers {
		if !gotPeers[k] {
			return fail(h.Failf("active-peers-missing", "ActivePeers does not list identity %d, a peer of a live channel", pi))
		}
	}

	// RestoreAll = exactly the live channels
	it, err := pr.RestoreAll()
	if err != nil {
		return fail(h.Failf("restore-all-error", "RestoreAll: %v", err))
	}
	chans, err := drain(it)
	if err != nil {
		return fail(h.Failf("restore-all-iterator-error", "RestoreAll: iterator ends with an error (%d live channels, %d removed): %v", len(live), len(w.removed), err))
	}
	if f := compareSet("RestoreAll", chans, live); f != nil {
		return fail(f)
	}

	// RestoreChannel: live ids restore to their machine, removed ids fail
	each := w.restoreEach(pr)
	for _, l := range live {
		r := each[l.ID()]
		if r.ch == nil {
			return fail(h.Failf("restore-channel-error", "RestoreChannel of live channel %s fails", idStr(l.ID())))
		}
		if f := compareSet("RestoreChannel", []*persistence.Channel{r.ch}, []*chanops.Live{l}); f != nil {
			return fail(f)
		}
	}
	for _, id := range w.removed {
		if each[id].ch != nil {
			return fail(h.Failf("removed-channel-restorable", "RestoreChannel of removed channel %s succeeds", idStr(id)))
		}
	}

	return nil
}

// checkMidOperation looks at the store at every write boundary strictly inside
// the operation that produced boundaries (b0, b1].
func (w *world) checkMidOperation(where string, b0, b1 int, others []*chanops.Live, target *channel.ID) *h.Failure {
	var want []*chanops.Live
	for _, l := range others {
		if target == nil || l.ID() != *target {
			want = append(want, l)
		}
	}
	if len(want) == 0 {
		return nil
	}
	for i := b0 + 1; i < b1; i++ {
		w.o.Class("mid-operation-view-check")
		pr := keyvalue.NewPersistRestorer(w.fk.Materialize(i))
		contains := func(view string, got []*persistence.Channel, wantIn []*chanops.Live) *h.Failure {
			byID := map[channel.ID]*persistence.Channel{}
			for _, ch := range got {
				byID[ch.ID()] = ch
			}
			for _, l := range wantIn {
				ch, ok := byID[l.ID()]
				if !ok {
					return h.Failf("mid-operation:view-missing-channel", "%s: with the store as it is after write %d of %d of the operation, %s does not yield the untouched live channel %s", where, i-b0, b1-b0, view, idStr(l.ID()))
				}
				sn, err := chanops.SnapRestored(ch)
				if err != nil {
					return h.Failf("mid-operation:restored-unencodable", "%s: write %d of %d, %s, channel %s: %v", where, i-b0, b1-b0, view, idStr(l.ID()), err)
				}
				if field, detail := l.Snap().Diff(sn); field != "" {
					return h.Failf("mid-operation:mismatch:"+field, "%s: write %d of %d, %s: the untouched channel %s differs from its live machine: %s", where, i-b0, b1-b0, view, idStr(l.ID()), detail)
				}
			}
			return nil
		}
		for pi, p := range w.idents {
			var wantP []*chanops.Live
			for _, l := range want {
				if hasPeer(l, pi) {
					wantP = append(wantP, l)
				}
			}
			if len(wantP) == 0 {
				continue
			}
			var chans []*persistence.Channel
			if it, err := pr.RestorePeer(p); err == nil {
				chans, _ = drain(it)
			}
			if f := contains(fmt.Sprintf("RestorePeer(identity %d)", pi), chans, wantP); f != nil {
				return f
			}
		}
		var chans []*persistence.Channel
		if it, err := pr.RestoreAll(); err == nil {
			chans, _ = drain(it)
		}
		if f := contains("RestoreAll", chans, want); f != nil {
			return f
		}
		for _, l := range want {
			ch, err := pr.RestoreChannel(bg, l.ID())
			if err != nil || ch == nil {
				return h.Failf("mid-operation:restore-channel-error", "%s: write %d of %d: RestoreChannel of the untouched live channel %s fails: %v", where, i-b0, b1-b0, idStr(l.ID()), err)
			}
			if f := contains("RestoreChannel", []*persistence.Channel{ch}, []*chanops.Live{l}); f != nil {
				return f
			}
		}
	}
	return nil
}

// printable renders a raw key with the channel id abbreviated and other
// non-printable bytes escaped.
func printable(key string, id channel.ID) string {
	key = strings.ReplaceAll(key, string(id[:]), "<id "+idStr(id)+">")
	var b bytes.Buffer
	for i := 0; i < len(key); i++ {
		if c := key[i]; c >= 0x20 && c < 0x7f {
			b.WriteByte(c)
		} else {
			fmt.Fprintf(&b, "\\x%02x", c)
		}
	}
	s := b.String()
	if len(s) > 160 {
		s = s[:160] + "..."
	}
	return s
}

func runCase(c Case) *h.Outcome {
	o := &h.Outcome{}
	o.Fail = h.Guard(func() *h.Failure { return run(c, o) })
	return o
}

func run(c Case, o *h.Outcome) *h.Failure {
	multi := append([]bool(nil), c.Multi...)
	anyMulti := false
	for _, m := range multi {
		anyMulti = anyMulti || m
	}
	if anyMulti {
		if f := probeMultiEntryIdentity(); f != nil {
			if !knownSig(f.Sig) {
				return f
			}
			// listed finding: recorded, and the case continues with single
			// entry identities (exclusion by construction)
			o.Known = append(o.Known, f)
			for i := range multi {
				multi[i] = false
			}
			o.Class("multi-entry-identities-demoted(known finding)")
		} else {
			o.Class("with-multi-entry-identity")
		}
	}

	w := &world{c: c, o: o, slots: make([]*chanops.Live, c.Slots)}
	if c.LevelDB {
		var err error
		if w.fk, err = faultkv.NewLevelDB(os.Getenv("VERIF_OUT")); err != nil {
			panic("harness: cannot create a LevelDB: " + err.Error())
		}
		o.Class("store:leveldb")
	} else {
		w.fk = faultkv.NewMemory()
		o.Class("store:memorydb")
	}
	defer w.fk.Close()
	w.pr = keyvalue.NewPersistRestorer(w.fk)
	for i, m := range multi {
		w.idents = append(w.idents, chanops.IdentMap(i, m))
	}

	removalSeen := false
	last := map[channel.ID]restored{}
	for si, stp := range c.Steps {
		where := fmt.Sprintf("after step %d (%s slot %d)", si, stp.Kind, stp.Slot)
		if stp.Slot < 0 || stp.Slot >= c.Slots {
			o.Class("skipped:bad-slot")
			continue
		}
		before := last // what every known channel restored to after the previous step
		var target *channel.ID
		cur := w.slots[stp.Slot]
		b0 := w.fk.NumBoundaries()
		othersBefore := w.live() // live channels before the step (the step touches at most one of them)
		switch stp.Kind {
		case "create":
			if cur != nil || stp.Chan == nil {
				o.Class("skipped:create-in-live-slot")
				continue
			}
			sp := *stp.Chan
			peers := make([]map[wallet.BackendID]wire.Address, len(sp.Peers))
			okPeers := len(sp.Peers) >= 1
			if len(sp.Peers) != sp.N {
				o.Class("create:peers!=participants")
			}
			for j, pi := range sp.Peers {
				if pi < 0 || pi >= len(w.idents) {
					okPeers = false
					break
				}
				peers[j] = w.idents[pi]
			}
			if !okPeers {
				o.Class("skipped:bad-peers")
				continue
			}
			var parent *channel.ID
			if sp.Parent >= 0 && sp.Parent < c.Slots && sp.Parent != stp.Slot && w.slots[sp.Parent] != nil {
				pid := w.slots[sp.Parent].ID()
				parent = &pid
				o.Class("create:with-parent")
			} else {
				o.Class("create:without-parent")
			}
			l, err := chanops.NewLive(sp, w.pr, peers, parent)
			if err != nil {
				panic("harness: cannot build the machine: " + err.Error())
			}
			id := l.ID()
			for _, rid := range w.removed {
				if rid == id {
					panic("harness: channel id reused")
				}
			}
			if ch, err := keyvalue.NewPersistRestorer(w.fk).RestoreChannel(bg, id); err == nil && ch != nil {
				return h.Failf("restorable-before-creation", "%s: RestoreChannel succeeds for a channel that was never created", where)
			}
			if err := l.Create(bg); err != nil {
				return h.Failf("persister-error:ChannelCreated", "%s: %v", where, err)
			}
			if len(w.removed) > 0 {
				o.Class("create-after-a-removal")
			}
			w.slots[stp.Slot] = l
			target = &id
		case "op":
			if cur == nil || stp.Op == nil {
				o.Class("skipped:op-on-empty-slot")
				continue
			}
			id := cur.ID()
			target = &id
			res := cur.Apply(bg, *stp.Op)
			switch {
			case res.Skipped != "":
				o.Class("skipped:" + res.Skipped)
			case res.Persist:
				return h.Failf("persister-error:"+stp.Op.Kind, "%s: the machine accepted %s but the persister failed: %v", where, stp.Op.Kind, res.Err)
			case res.Err != nil:
				o.Class("refused:" + stp.Op.Kind)
			default:
				o.Class("ok:" + stp.Op.Kind)
			}
			if res.Removed {
				w.removeSlot(stp.Slot, "SetWithdrawn")
				removalSeen = true
			}
		case "remove":
			if cur == nil {
				o.Class("skipped:remove-empty-slot")
				continue
			}
			id := cur.ID()
			target = &id
			if err := w.pr.ChannelRemoved(bg, id); err != nil {
				return h.Failf("persister-error:ChannelRemoved", "%s: %v", where, err)
			}
			w.removeSlot(stp.Slot, "direct")
			removalSeen = true
		default:
			o.Class("skipped:unknown-step")
			continue
		}

		if f := w.checkViews(where); f != nil {
			return f
		}
		// ... nor at any moment in between: the store as it is between two writes
		// of this operation (what a concurrent reader, or a restart after a crash,
		// finds) still yields every OTHER live channel, with its data, in every
		// view.  Nothing is demanded for the channel the operation works on.
		if f := w.checkMidOperation(where, b0, w.fk.NumBoundaries(), othersBefore, target); f != nil {
			return f
		}
		// operations on one channel never change what is restored for another
		after := w.restoreEach(keyvalue.NewPersistRestorer(w.fk))
		for id, b := range before {
			if target != nil && id == *target {
				continue
			}
			a := after[id]
			switch {
			case (a.ch == nil) != (b.ch == nil):
				return h.Failf("other-channel-changed", "%s: RestoreChannel of the untouched channel %s %s before the step and %s after it", where, idStr(id), okStr(b.ch != nil), okStr(a.ch != nil))
			case a.snap != nil && b.snap != nil:
				if field, detail := b.snap.Diff(a.snap); field != "" {
					return h.Failf("other-channel-changed:"+field, "%s: what is restored for the untouched channel %s changed: %s", where, idStr(id), detail)
				}
			}
		}

		last = after

		live := w.live()
		if removalSeen && len(live) > 0 {
			o.Class("view-check-after-removal-with-live-channels")
			o.Nontrivial = true
		}
		if sharePeer(live) {
			o.Class("live-channels-share-a-peer")
			o.Nontrivial = true
		}
		o.Class(fmt.Sprintf("live-channels:%d", len(live)))
	}
	return nil
}

func okStr(ok bool) string {
	if ok {
		return "succeeds"
	}
	return "fails"
}

func (w *world) removeSlot(slot int, how string) {
	l := w.slots[slot]
	w.removed = append(w.removed, l.ID())
	w.slots[slot] = nil
	w.o.Class("removed:" + how)
	for _, other := range w.live() {
		if other.Parent != nil && *other.Parent == l.ID() {
			w.o.Class("removed:parent-before-child")
		}
	}
	if l.Parent != nil {
		w.o.Class("removed:child")
	}
}

func sharePeer(live []*chanops.Live) bool {
	cnt := map[int]int{}
	for _, l := range live {
		for _, p := range l.Spec.Peers {
			cnt[p]++
			if cnt[p] > 1 {
				return true
			}
		}
	}
	return false
}

// minimize reduces a failing case at the case level (see
// chanops.MinimizeList); every candidate must fail with the same signature.
func minimize(c Case, sig string) Case {
	fails := func(x Case) bool {
		o := runCase(x)
		return o.Fail != nil && o.Fail.Sig == sig
	}
	clone := func(x Case) Case {
		var y Case
		if err := json.Unmarshal(h.Canon(x), &y); err != nil {
			panic(err)
		}
		return y
	}
	try := func(mut func(*Case)) {
		x := clone(c)
		mut(&x)
		if fails(x) {
			c = x
		}
	}
	shrinkSteps := func() {
		c.Steps = chanops.MinimizeList(c.Steps, func(steps []Step) bool {
			x := clone(c)
			x.Steps = steps
			return fails(x)
		})
	}
	try(func(x *Case) { x.LevelDB = false })
	try(func(x *Case) {
		for i := range x.Multi {
			x.Multi[i] = false
		}
	})
	shrinkSteps()
	minAlloc := func(n int) *gen.AllocSpec {
		row := make([]gen.Big, n)
		for i := range row {
			row[i] = "5"
		}
		return &gen.AllocSpec{Assets: []uint64{0}, Backends: []int{0}, Bals: [][]gen.Big{row}, Locked: []gen.SubAllocSpec{}}
	}
	for i := range c.Steps {
		i := i
		if c.Steps[i].Chan != nil {
			try(func(x *Case) { x.Steps[i].Chan.Parent = -1 })
			try(func(x *Case) { x.Steps[i].Chan.App = "none" })
			try(func(x *Case) { x.Steps[i].Chan.Flags = 1 })
			try(func(x *Case) { x.Steps[i].Chan.Own = 0 })
		}
		if op := c.Steps[i].Op; op != nil {
			if op.Alloc != nil {
				n := len(op.Alloc.Bals[0])
				try(func(x *Case) { x.Steps[i].Op.Alloc = minAlloc(n) })
			}
			if op.St != nil {
				try(func(x *Case) {
					x.Steps[i].Op.St = &chanops.StSpec{Kind: "next", Final: x.Steps[i].Op.St.Final}
					x.Steps[i].Op.Actor = 0
				})
			}
		}
	}
	shrinkSteps()
	return c
}

const rule = "histories of 1-50 steps over 1-6 channel slots and 2-5 peer identities (1-entry wire address maps; in a fifth of the cases identities " +
	"may have 2-entry maps with backend ids 0 and 1) on one keyvalue.PersistRestorer over faultkv(memorydb | LevelDB, a fifth): create a channel in an " +
	"empty slot (2-3 participants = distinct identities, with/without a live parent, fresh nonce so re-creation gives new params; half of the creations are followed by the usual opening Init, Sig, AddSig, EnableInit, SetFunded as ordinary steps), apply a phase-aware " +
	"operation of the persisting state machine to a live channel (alphabet of C10), or remove a live channel directly (Persister.ChannelRemoved, any phase) " +
	"or through SetWithdrawn - any order, including parent before child. Oracle after EVERY step against the harness's own set of live machines: " +
	"RestorePeer(p) = exactly the live channels listing p for every identity, ActivePeers = union of their peers as a set, RestoreAll = exactly the live " +
	"channels, each restored channel equal to its live machine (index, params, phase, current tx, staged state, per-slot staged signatures, peers, parent; " +
	"restored staging signatures verify), RestoreChannel of every removed id fails, every raw key of the store contains the id of a live channel and none " +
	"the id of a removed channel, and RestoreChannel of every channel other than the step's target is unchanged by the step. non-trivial = a view check " +
	"after a removal while other channels are alive, or two live channels sharing a peer; distinct by SHA-256 of the case JSON"

func TestViews(t *testing.T) {
	rec := h.Begin("C11", "")
	knownSig = rec.IsKnown
	rec.SetRule(rule,
		"a channel id is not created twice while live; operations are applied to created, not yet removed channels only",
		"states handed to the machines are well-formed for their channel; ForceUpdate only with a current state; SetProgressed only in Registered/Progressing/Progressed",
		"a key 'belongs to' a channel if it contains the channel's 32 byte id (true for both tables of the key layout; ids and addresses are hashes, accidental containment is out of reach)",
		"multi-entry identities are first probed for stable peer keys through the API (4 channels, 80 RestorePeer calls); a map-iteration-order dependent key is missed with probability (7/8)^84 < 2^-16 per probe",
		"participant keys come from a per-process pool; cases are key-independent")
	defer rec.Flush()
	rapid.Check(t, func(rt *rapid.T) {
		c := drawCase(rt)
		o := runCase(c)
		if !rec.Failed() && o.Fail != nil && !rec.IsKnown(o.Fail.Sig) {
			c = minimize(c, o.Fail.Sig)
			o = runCase(c)
		}
		rec.Report(rt, c, o)
	})
}

func TestReplay(t *testing.T) {
	p := h.ReplayPath()
	if p == "" {
		t.Skip("no replay requested")
	}
	var c Case
	if err := h.LoadReplay(p, &c); err != nil {
		t.Fatal(err)
	}
	rec := h.Begin("C11", "replay")
	knownSig = rec.IsKnown
	rec.Report(t, c, runCase(c))
}
