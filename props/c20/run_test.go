package c20

import (
	"context"
	"errors"
	"fmt"
	"math/big"
	"reflect"
	"runtime"
	"sort"
	"sync"
	"time"

	simchannel "perun.network/go-perun/backend/sim/channel"
	"perun.network/go-perun/channel"
	"perun.network/go-perun/channel/multi"
	"perun.network/go-perun/wallet"

	"verif/gen"
	"verif/h"
)

// hangLimit is a hang detector, never a schedule: the unchanged tree needs
// microseconds where this allows 10 s.
const hangLimit = 10 * time.Second

// graceYields is how often the harness yields the processor before it lets a
// callee return and before it takes the final snapshot, so that calls the
// oracle does not expect (and therefore cannot wait for) get a chance to show
// up in the log.  It only adds detection power; no verdict depends on it.
const graceYields = 8

func yield() {
	for i := 0; i < graceYields; i++ {
		runtime.Gosched()
	}
}

// ---------------------------------------------------------------- identifiers and assets

type ledgerID string

func (l ledgerID) MapKey() multi.LedgerIDMapKey { return multi.LedgerIDMapKey(l) }

type ledgerBackendID struct {
	backend uint32
	ledger  ledgerID
}

func (i *ledgerBackendID) BackendID() uint32        { return i.backend }
func (i *ledgerBackendID) LedgerID() multi.LedgerID { return i.ledger }

// newLBID returns a fresh identifier object on every call: registration and
// assets never share an object, only the (backend id, ledger id) content.
func newLBID(l Ledger) multi.LedgerBackendID {
	return &ledgerBackendID{backend: l.Backend, ledger: ledgerID(fmt.Sprintf("L%d", l.LID))}
}

// mlAsset is a multi-ledger asset (cf. client/test.MultiLedgerAsset).
type mlAsset struct {
	l  Ledger
	no uint64 // position in the asset list: assets on one ledger are still different assets
}

var _ multi.Asset = (*mlAsset)(nil)

func (a *mlAsset) LedgerBackendID() multi.LedgerBackendID { return newLBID(a.l) }
func (a *mlAsset) MarshalBinary() ([]byte, error) {
	return []byte(fmt.Sprintf("%d/L%d/%d", a.l.Backend, a.l.LID, a.no)), nil
}
func (a *mlAsset) UnmarshalBinary([]byte) error { return errors.New("c20: not needed") }
func (a *mlAsset) Address() []byte              { b, _ := a.MarshalBinary(); return b }
func (a *mlAsset) Equal(b channel.Asset) bool {
	o, ok := b.(*mlAsset)
	return ok && *o == *a
}

// ---------------------------------------------------------------- call log

type evKind int

const (
	evStart  evKind = iota // a scripted callee was entered
	evReturn               // a scripted callee is about to return (logged before it returns)
	evDone                 // the dispatcher returned (logged after it returned)
)

type event struct {
	kind   evKind
	ledger int
	n      int // 1 = first call on this ledger, 2 = second ...
	method string
	reqOK  bool
	err    error      // evDone
	pan    *h.Failure // evDone
}

type world struct {
	mu         sync.Mutex
	log        []event
	active     int           // callees entered and not yet returned
	notify     chan struct{} // signalled whenever active drops
	releaseAll chan struct{} // closed by the harness at the end: nothing may stay blocked
	done       chan struct{} // closed after evDone is logged
	callees    []*callee

	// the original request
	adjReq  channel.AdjudicatorReq
	subs    []channel.SignedState
	subMap  channel.StateMap
	progReq channel.ProgressReq
	fundReq channel.FundingReq
}

// callee is the scripted adjudicator and funder of one ledger.
type callee struct {
	w        *world
	ledger   int
	planned  bool          // the oracle expects exactly one call; the first call blocks until released
	err      error         // scripted result
	gate     chan struct{} // closed by the harness to let the first call return
	started  chan struct{} // closed when the first call was entered
	returned chan struct{} // closed when the first call was logged as returning
	calls    int
}

var (
	_ channel.Adjudicator = (*callee)(nil)
	_ channel.Funder      = (*callee)(nil)
)

func (c *callee) enter(method string, reqOK bool) error {
	w := c.w
	w.mu.Lock()
	c.calls++
	n := c.calls
	w.active++
	w.log = append(w.log, event{kind: evStart, ledger: c.ledger, n: n, method: method, reqOK: reqOK})
	w.mu.Unlock()
	if n == 1 {
		close(c.started)
		if c.planned {
			select {
			case <-c.gate:
			case <-w.releaseAll:
			}
		}
	}
	w.mu.Lock()
	w.log = append(w.log, event{kind: evReturn, ledger: c.ledger, n: n})
	w.active--
	w.mu.Unlock()
	if n == 1 {
		close(c.returned)
	}
	select {
	case w.notify <- struct{}{}:
	default:
	}
	return c.err
}

func (c *callee) Register(_ context.Context, req channel.AdjudicatorReq, subs []channel.SignedState) error {
	return c.enter("register", reflect.DeepEqual(req, c.w.adjReq) && reflect.DeepEqual(subs, c.w.subs))
}

func (c *callee) Withdraw(_ context.Context, req channel.AdjudicatorReq, subs channel.StateMap) error {
	return c.enter("withdraw", reflect.DeepEqual(req, c.w.adjReq) && reflect.DeepEqual(subs, c.w.subMap))
}

func (c *callee) Progress(_ context.Context, req channel.ProgressReq) error {
	return c.enter("progress", reflect.DeepEqual(req, c.w.progReq))
}

func (c *callee) Fund(_ context.Context, req channel.FundingReq) error {
	return c.enter("fund", reflect.DeepEqual(req, c.w.fundReq))
}

func (c *callee) Subscribe(context.Context, channel.ID) (channel.AdjudicatorSubscription, error) {
	_ = c.enter("subscribe", false)
	return nil, errors.New("c20: scripted adjudicators have no subscriptions")
}

// wait waits for ch with the hang limit.
func wait(ch <-chan struct{}) bool {
	select {
	case <-ch:
		return true
	default:
	}
	t := time.NewTimer(hangLimit)
	defer t.Stop()
	select {
	case <-ch:
		return true
	case <-t.C:
		return false
	}
}

func isClosed(ch <-chan struct{}) bool {
	select {
	case <-ch:
		return true
	default:
		return false
	}
}

// result returns the evDone event (only after w.done is closed).
func (w *world) result() event {
	w.mu.Lock()
	defer w.mu.Unlock()
	for i := len(w.log) - 1; i >= 0; i-- {
		if w.log[i].kind == evDone {
			return w.log[i]
		}
	}
	return event{}
}

type waitRes int

const (
	wStarted     waitRes = iota // the call was entered
	wReturnedNil                // the dispatcher returned nil first
	wPanicked                   // the dispatcher panicked first
	wEgoFirst                   // the call on the egoistic ledger was entered first
	wHung                       // the hang limit expired
)

// waitStarted waits until the first call of the planned callee c was entered.
// ego is the planned callee of the egoistic ledger while c belongs to the
// other ledgers (nil otherwise).  The wait is cut short when it cannot end
// well any more: a dispatcher that has returned nil (or panicked) will not
// make the call in a way the property allows, and an egoistic call that is
// entered while c has not even been entered is already out of order (the
// harness has not let c return yet).
func (w *world) waitStarted(c, ego *callee) waitRes {
	if isClosed(c.started) {
		return wStarted
	}
	t := time.NewTimer(hangLimit)
	defer t.Stop()
	done := w.done
	var egoStarted chan struct{}
	if ego != nil {
		egoStarted = ego.started
	}
	for {
		select {
		case <-c.started:
			return wStarted
		case <-done:
			// every evReturn is logged before the callee returns, hence before
			// a correct dispatcher can have collected its result
			if isClosed(c.started) {
				return wStarted
			}
			switch r := w.result(); {
			case r.pan != nil:
				return wPanicked
			case r.err == nil:
				return wReturnedNil
			}
			done = nil // an error result: the call may still arrive
		case <-egoStarted:
			if isClosed(c.started) {
				return wStarted // the log decides
			}
			return wEgoFirst
		case <-t.C:
			return wHung
		}
	}
}

// waitIdle waits until no callee is inside a call.
func (w *world) waitIdle() bool {
	t := time.NewTimer(hangLimit)
	defer t.Stop()
	for {
		w.mu.Lock()
		a := w.active
		w.mu.Unlock()
		if a == 0 {
			return true
		}
		select {
		case <-w.notify:
		case <-t.C:
			return false
		}
	}
}

// ---------------------------------------------------------------- requests

var (
	paramsOnce sync.Once
	params     *channel.Params
)

func theParams() *channel.Params {
	paramsOnce.Do(func() {
		parts := []map[wallet.BackendID]wallet.Address{gen.Addr(0), gen.Addr(1)}
		params = channel.NewParamsUnsafe(3600, parts, channel.NoApp(), big.NewInt(0xc20), true, false, channel.ZeroAux)
	})
	return params
}

func (c Case) wellFormed() bool {
	switch c.Method {
	case "register", "progress", "withdraw", "fund":
	default:
		return false
	}
	n := len(c.Ledgers)
	if n == 0 || len(c.Order) != n || c.Idx < 0 || c.Idx > 1 || c.NSub < 0 || c.NSub > 8 {
		return false
	}
	seen := map[[2]uint64]bool{}
	for _, l := range c.Ledgers {
		k := [2]uint64{uint64(l.Backend), uint64(l.LID)}
		if seen[k] || l.LID < 0 {
			return false
		}
		seen[k] = true
	}
	inOrder := make([]bool, n)
	for _, l := range c.Order {
		if l < 0 || l >= n || inOrder[l] {
			return false
		}
		inOrder[l] = true
	}
	nonMulti := 0
	for _, a := range c.Assets {
		if a < -1 || a >= n {
			return false
		}
		if a == -1 {
			nonMulti++
		}
	}
	return nonMulti <= 1
}

func (c Case) state(version uint64) *channel.State {
	p := theParams()
	s := &channel.State{ID: p.ID(), Version: version, App: channel.NoApp(), Data: channel.NoData()}
	for i, a := range c.Assets {
		if a < 0 {
			s.Assets = append(s.Assets, &simchannel.Asset{ID: 0xa55e7})
			s.Backends = append(s.Backends, 0)
		} else {
			s.Assets = append(s.Assets, &mlAsset{l: c.Ledgers[a], no: uint64(i)})
			s.Backends = append(s.Backends, wallet.BackendID(c.Ledgers[a].Backend))
		}
		s.Balances = append(s.Balances, []channel.Bal{big.NewInt(int64(10 + i)), big.NewInt(int64(20 + i))})
	}
	return s
}

func (w *world) buildRequests(c Case) {
	p := theParams()
	st := c.state(c.Version)
	w.adjReq = channel.AdjudicatorReq{
		Params:    p,
		Acc:       map[wallet.BackendID]wallet.Account{0: gen.Acc(c.Idx)},
		Tx:        channel.Transaction{State: st, Sigs: []wallet.Sig{{0x51, byte(c.Version)}, {0x52}}},
		Idx:       channel.Index(c.Idx),
		Secondary: c.Secondary,
	}
	if c.NSub > 0 {
		w.subMap = channel.MakeStateMap()
		for i := 0; i < c.NSub; i++ {
			sub := &channel.State{ID: channel.ID{0xc2, byte(i)}, Version: uint64(i), App: channel.NoApp(), Data: channel.NoData()}
			w.subs = append(w.subs, channel.SignedState{Params: p, State: sub, Sigs: []wallet.Sig{{byte(i)}}})
			w.subMap.Add(sub)
		}
	}
	w.progReq = *channel.NewProgressReq(w.adjReq, c.state(c.Version+1), wallet.Sig{0x53, byte(c.Idx)})
	w.fundReq = *channel.NewFundingReq(p, st, channel.Index(c.Idx), st.Balances.Clone())
}

// ---------------------------------------------------------------- one case

func runCase(c Case) *h.Outcome {
	o := &h.Outcome{}
	if !c.wellFormed() {
		o.Class("malformed-case")
		return o
	}
	o.Class("method:" + c.Method)
	nL := len(c.Ledgers)

	// ---- what the property says about this input (no call into package multi)
	var distinct []int // distinct ledgers of the asset list, first occurrence first
	inD := make([]bool, nL)
	nonMulti, multiAssets := false, 0
	for _, a := range c.Assets {
		if a < 0 {
			nonMulti = true
			continue
		}
		multiAssets++
		if !inD[a] {
			inD[a] = true
			distinct = append(distinct, a)
		}
	}
	unspecified := ""
	switch {
	case nonMulti:
		unspecified = "unspecified:non-multi-asset"
	case len(c.Assets) == 0:
		unspecified = "unspecified:zero-assets"
	}
	repeated := multiAssets > len(distinct)
	missing, failing, unrelatedReg := false, false, false
	for l, L := range c.Ledgers {
		switch {
		case inD[l] && !L.Reg:
			missing = true
		case inD[l] && L.Fail:
			failing = true
		case !inD[l] && L.Reg:
			unrelatedReg = true
		}
	}
	ego := -1 // ledger selected by the egoistic index
	if c.Method == "fund" && unspecified == "" && c.Ego >= 0 && c.Ego < len(distinct) {
		ego = distinct[c.Ego]
	}
	pos := make([]int, nL)
	for p, l := range c.Order {
		pos[l] = p
	}
	var plan []int // ledgers that must be called, in the order in which the harness lets them return
	othersOK := true
	if unspecified == "" {
		for _, l := range distinct {
			if l == ego {
				continue
			}
			if !c.Ledgers[l].Reg || c.Ledgers[l].Fail {
				othersOK = false
			}
			if c.Ledgers[l].Reg {
				plan = append(plan, l)
			}
		}
		sort.Slice(plan, func(i, j int) bool { return pos[plan[i]] < pos[plan[j]] })
	}
	phase1 := len(plan)
	egoCalled := ego >= 0 && c.Ledgers[ego].Reg && othersOK
	if egoCalled {
		plan = append(plan, ego)
	}

	// ---- classes
	if unspecified != "" {
		o.Class(unspecified)
	}
	o.Class(fmt.Sprintf("distinct:%d", len(distinct)))
	if repeated {
		o.Class("repeated-ledger")
	}
	if missing {
		o.Class("missing-ledger")
	}
	if failing {
		o.Class("failing-callee")
	}
	if unrelatedReg {
		o.Class("registered-unrelated-ledger")
	}
	if c.sameLidTwice(distinct) {
		o.Class("same-lid-two-backends")
	}
	if c.Method == "fund" {
		switch {
		case c.Ego < 0:
			o.Class("ego:unset")
		case ego < 0:
			o.Class("ego:selects-nothing")
		case egoCalled:
			o.Class("ego:funded-last")
		default:
			o.Class("ego:withheld")
		}
	}
	o.Nontrivial = unspecified == "" && len(distinct) >= 2 && (repeated || missing || failing || ego >= 0)

	// ---- set up the code under test
	w := &world{
		notify:     make(chan struct{}, 1),
		releaseAll: make(chan struct{}),
		done:       make(chan struct{}),
		callees:    make([]*callee, nL),
	}
	w.buildRequests(c)
	adj, fnd := multi.NewAdjudicator(), multi.NewFunder()
	for l, L := range c.Ledgers {
		if !L.Reg {
			continue
		}
		cal := &callee{w: w, ledger: l, gate: make(chan struct{}), started: make(chan struct{}), returned: make(chan struct{})}
		if L.Fail {
			cal.err = fmt.Errorf("c20: scripted failure on ledger %d", l)
		}
		w.callees[l] = cal
		adj.RegisterAdjudicator(newLBID(L), cal)
		fnd.RegisterFunder(newLBID(L), cal)
	}
	for _, l := range plan {
		w.callees[l].planned = true
	}
	if c.Method == "fund" && c.Ego >= 0 {
		fnd.SetEgoisticPart(c.Ego)
	}
	ctx := context.Background()
	var call func() error
	switch c.Method {
	case "register":
		call = func() error { return adj.Register(ctx, w.adjReq, w.subs) }
	case "progress":
		call = func() error { return adj.Progress(ctx, w.progReq) }
	case "withdraw":
		call = func() error { return adj.Withdraw(ctx, w.adjReq, w.subMap) }
	case "fund":
		call = func() error { return fnd.Fund(ctx, w.fundReq) }
	}

	// ---- run: the dispatcher in its own goroutine, the harness releases the callees
	go func() {
		var err error
		pan := h.Guard(func() *h.Failure { err = call(); return nil })
		w.mu.Lock()
		w.log = append(w.log, event{kind: evDone, err: err, pan: pan})
		w.mu.Unlock()
		close(w.done)
	}()

	var sched *h.Failure
	lateLedger := -1 // ledger whose call had not started when the dispatcher returned nil
schedule:
	for i, l := range plan {
		cal := w.callees[l]
		var egoCal *callee
		if egoCalled && i < phase1 {
			egoCal = w.callees[ego]
		}
		switch w.waitStarted(cal, egoCal) {
		case wStarted:
		case wHung:
			sched = h.Failf("call-missing", "ledger %d (%s) is registered and among the assets but its %s call did not start within %v", l, c.ledgerName(l), c.Method, hangLimit)
			break schedule
		case wReturnedNil:
			lateLedger = l
			sched = h.Failf("call-missing", "%s returned nil without a call on ledger %d (%s), which is registered and among the assets", c.Method, l, c.ledgerName(l))
			break schedule
		case wPanicked:
			break schedule // reported from the log
		case wEgoFirst:
			sched = h.Failf("ego-funded-early", "egoistic index %d selects ledger %d (%s); its Fund call started before the Fund call on ledger %d (%s) had started", c.Ego, ego, c.ledgerName(ego), l, c.ledgerName(l))
			break schedule
		}
		yield()
		close(cal.gate)
		if !wait(cal.returned) {
			sched = h.Failf("harness:callee-stuck", "released callee of ledger %d did not return", l)
			break
		}
	}
	if sched == nil && !wait(w.done) {
		sched = h.Failf("dispatcher-hang", "%s did not return within %v after every expected sub-call had returned", c.Method, hangLimit)
	}
	yield()
	close(w.releaseAll)
	doneOK := wait(w.done)
	idleOK := w.waitIdle()
	if doneOK && idleOK {
		yield()
	}
	w.mu.Lock()
	log := append([]event(nil), w.log...)
	w.mu.Unlock()

	// ---- read the log
	calls := make([]int, nL)
	startAt := make([]int, nL)
	retAt := make([]int, nL)
	for l := range startAt {
		startAt[l], retAt[l] = -1, -1
	}
	doneAt := -1
	var res event
	var wrongMethod, wrongReq *event
	for i := range log {
		e := &log[i]
		switch e.kind {
		case evStart:
			calls[e.ledger]++
			if e.n == 1 {
				startAt[e.ledger] = i
			}
			if e.method != c.Method && wrongMethod == nil {
				wrongMethod = e
			}
			if !e.reqOK && wrongReq == nil {
				wrongReq = e
			}
		case evReturn:
			if e.n == 1 {
				retAt[e.ledger] = i
			}
		case evDone:
			doneAt, res = i, *e
		}
	}

	// ---- clauses that hold under every reading of the text
	unrelated := func() *h.Failure {
		for l := range c.Ledgers {
			if !inD[l] && calls[l] > 0 {
				return h.Failf("call-unrelated-ledger", "ledger %d (%s) is not among the channel's assets but received %d %s call(s)", l, c.ledgerName(l), calls[l], c.Method)
			}
		}
		return nil
	}
	duplicate := func() *h.Failure {
		for l := range c.Ledgers {
			if calls[l] > 1 {
				return h.Failf("call-duplicate", "ledger %d (%s) received %d calls for one %s request", l, c.ledgerName(l), calls[l], c.Method)
			}
		}
		return nil
	}

	if unspecified != "" {
		switch {
		case res.pan != nil:
			o.Class(unspecified + ":panic")
		case doneAt < 0:
			o.Class(unspecified + ":hang")
		case res.err == nil:
			o.Class(unspecified + ":nil")
		default:
			o.Class(unspecified + ":error")
		}
		if f := unrelated(); f != nil {
			o.Fail = f
		} else if f := duplicate(); f != nil {
			o.Fail = f
		}
		return o
	}

	// ---- the specified domain
	if res.pan != nil {
		o.Fail = res.pan
		return o
	}
	if f := unrelated(); f != nil {
		o.Fail = f
		return o
	}
	if f := duplicate(); f != nil {
		o.Fail = f
		return o
	}
	if ego >= 0 && !egoCalled && c.Ledgers[ego].Reg && calls[ego] > 0 {
		o.Fail = h.Failf("ego-funded-despite-failure", "egoistic index %d selects ledger %d (%s); it was funded although another ledger of the channel is unregistered or failed", c.Ego, ego, c.ledgerName(ego))
		return o
	}
	if lateLedger >= 0 && calls[lateLedger] > 0 {
		// the call was made after all, but the dispatcher had not waited for it
		sched = h.Failf("nil-before-calls-returned", "%s returned nil before the forwarded call on ledger %d (%s) had started", c.Method, lateLedger, c.ledgerName(lateLedger))
	}
	if sched != nil {
		o.Fail = sched
		return o
	}
	if !doneOK || !idleOK || doneAt < 0 {
		o.Fail = h.Failf("harness:not-quiescent", "done=%v idle=%v", doneOK, idleOK)
		return o
	}
	for _, l := range plan {
		if calls[l] != 1 || retAt[l] < 0 {
			o.Fail = h.Failf("call-missing", "ledger %d (%s): %d calls", l, c.ledgerName(l), calls[l])
			return o
		}
	}
	if wrongMethod != nil {
		o.Fail = h.Failf("call-wrong-method", "a %s request reached ledger %d as %s", c.Method, wrongMethod.ledger, wrongMethod.method)
		return o
	}
	if wrongReq != nil {
		o.Fail = h.Failf("call-wrong-request", "the %s call on ledger %d did not carry the original request / sub-states", c.Method, wrongReq.ledger)
		return o
	}
	if egoCalled {
		for _, l := range plan[:phase1] {
			if retAt[l] > startAt[ego] {
				o.Fail = h.Failf("ego-funded-early", "egoistic index %d selects ledger %d (%s); its Fund call started before the Fund call on ledger %d (%s) had returned", c.Ego, ego, c.ledgerName(ego), l, c.ledgerName(l))
				return o
			}
		}
	}
	early := false
	for _, l := range plan {
		if retAt[l] > doneAt {
			early = true
		}
	}
	if res.err == nil {
		o.Class("result:nil")
		switch {
		case missing:
			o.Fail = h.Failf("nil-despite-missing-ledger", "%s returned nil although a ledger of the channel has no registered %s", c.Method, c.calleeKind())
		case failing:
			o.Fail = h.Failf("nil-despite-failed-call", "%s returned nil although a forwarded call returned an error", c.Method)
		case early:
			o.Fail = h.Failf("nil-before-calls-returned", "%s returned nil while a forwarded call had not returned yet", c.Method)
		}
		if len(distinct) >= 2 {
			o.Class("all-ok-multi")
		}
	} else {
		o.Class("result:error")
		if !missing && !failing {
			o.Fail = h.Failf("error-without-cause", "%s returned %q although every ledger of the channel is registered and every forwarded call returned nil", c.Method, res.err)
		}
		if early {
			o.Class("returned-before-all-calls-returned")
		}
		// the class on which a dispatcher that stops collecting too early shows:
		// the only failure is the call that the harness lets return last
		if !missing && len(plan) >= 2 && c.Ledgers[plan[len(plan)-1]].Fail {
			sole := true
			for _, l := range plan[:len(plan)-1] {
				sole = sole && !c.Ledgers[l].Fail
			}
			if sole {
				o.Class("sole-failure-returns-last")
			}
		}
	}
	return o
}

// sameLidTwice reports whether two of the given ledgers share the ledger id
// (and therefore differ in the backend id only).
func (c Case) sameLidTwice(ls []int) bool {
	for i, a := range ls {
		for _, b := range ls[:i] {
			if c.Ledgers[a].LID == c.Ledgers[b].LID {
				return true
			}
		}
	}
	return false
}

func (c Case) ledgerName(l int) string {
	return fmt.Sprintf("backend %d, id L%d", c.Ledgers[l].Backend, c.Ledgers[l].LID)
}

func (c Case) calleeKind() string {
	if c.Method == "fund" {
		return "funder"
	}
	return "adjudicator"
}
