// Package c20: a register / progress / withdraw / fund request for a
// multi-ledger channel reaches exactly the ledgers whose assets are in the
// channel (DESIGN.md §3 C20).
//
// The code under test is channel/multi.Adjudicator and channel/multi.Funder.
// Every registered ledger gets a scripted callee (run_test.go) that blocks
// until the harness releases it, so the harness owns the completion order of
// the concurrent sub-calls.  The oracle is written from the property text; it
// never asks the multi package which ledgers an asset list contains.
package c20

import (
	"os"
	"testing"

	"pgregory.net/rapid"

	"verif/gen"
	"verif/h"
)

func TestMain(m *testing.M) {
	gen.Setup()
	code := m.Run()
	h.FlushAll()
	os.Exit(code)
}

// Ledger is one ledger of the case's universe.  A ledger is identified by the
// pair (backend id, ledger id): multi.LedgerBackendKey has both members, so
// the same ledger id under two backend ids denotes two ledgers.
type Ledger struct {
	Backend uint32 `json:"backend"`
	LID     int    `json:"lid"`  // ledger id "L<lid>"
	Reg     bool   `json:"reg"`  // an adjudicator and a funder are registered for it
	Fail    bool   `json:"fail"` // scripted result of its adjudicator/funder: error instead of nil
}

// Case is one configuration: plain data, replayable.
type Case struct {
	Method  string   `json:"method"`  // register | progress | withdraw | fund
	Ledgers []Ledger `json:"ledgers"` // distinct (backend, lid) pairs
	Assets  []int    `json:"assets"`  // per asset of the channel: index into Ledgers; -1 = an asset that is not a multi-ledger asset
	Order   []int    `json:"order"`   // completion order of the sub-calls: permutation of the ledger indices
	Ego     int      `json:"ego"`     // -1 = egoistic funding not configured; else SetEgoisticPart(Ego) (method fund only)
	// request variation (the request must arrive unchanged)
	Idx       int    `json:"idx"`
	Secondary bool   `json:"secondary"`
	Version   uint64 `json:"version"`
	NSub      int    `json:"nsub"`
}

var methods = []string{"fund", "fund", "register", "progress", "withdraw"}

func drawCase(t *rapid.T) Case {
	var c Case
	c.Method = rapid.SampledFrom(methods).Draw(t, "method")

	// universe: 1..6 distinct ledgers over 1..5 ledger ids and backend ids {0,1}
	nLid := []int{3, 2, 4, 5, 1}[rapid.IntRange(0, 4).Draw(t, "nlid")]
	var pool []Ledger
	for l := 0; l < nLid; l++ {
		for b := uint32(0); b < 2; b++ {
			pool = append(pool, Ledger{Backend: b, LID: l})
		}
	}
	pool = rapid.Permutation(pool).Draw(t, "pool")
	// (rapid favours small draws: the tables put the common shapes first)
	nL := min([]int{2, 3, 2, 3, 4, 4, 1, 5, 5, 6, 6, 3}[rapid.IntRange(0, 11).Draw(t, "nledgers")], len(pool))
	c.Ledgers = pool[:nL]
	idx := make([]int, nL)
	for i := range c.Ledgers {
		c.Ledgers[i].Reg = rapid.IntRange(0, 9).Draw(t, "reg") < 8
		c.Ledgers[i].Fail = rapid.IntRange(0, 9).Draw(t, "fail") >= 8
		idx[i] = i
	}

	// 0..8 multi-ledger assets, ledgers repeated in any order
	nA := 0
	if k := rapid.IntRange(0, 16).Draw(t, "nassets"); k < 16 {
		nA = []int{3, 2, 4, 5, 1, 6, 7, 8}[k%8]
	}
	c.Assets = make([]int, 0, nA+1)
	for i := 0; i < nA; i++ {
		c.Assets = append(c.Assets, rapid.IntRange(0, nL-1).Draw(t, "asset"))
	}
	// optionally one asset that is not a multi-ledger asset, at any position
	if rapid.IntRange(0, 15).Draw(t, "nonmulti") == 9 {
		p := rapid.IntRange(0, nA).Draw(t, "nonmultipos")
		c.Assets = append(c.Assets, 0)
		copy(c.Assets[p+1:], c.Assets[p:])
		c.Assets[p] = -1
	}

	c.Order = rapid.Permutation(idx).Draw(t, "order")

	c.Ego = -1
	if c.Method == "fund" {
		switch k := rapid.IntRange(0, 9).Draw(t, "egokind"); {
		case k < 4: // unset
		case k < 9: // a position that usually exists
			c.Ego = rapid.IntRange(0, nL-1).Draw(t, "ego")
		default: // any position
			c.Ego = rapid.IntRange(0, 8).Draw(t, "ego")
		}
	}

	c.Idx = rapid.IntRange(0, 1).Draw(t, "idx")
	c.Secondary = rapid.Bool().Draw(t, "secondary")
	c.Version = uint64(rapid.IntRange(0, 5).Draw(t, "version"))
	c.NSub = rapid.IntRange(0, 2).Draw(t, "nsub")
	return c
}

const rule = "configurations: method in {register, progress, withdraw, fund}; a universe of 1-6 distinct ledgers = (backend id in {0,1}, ledger id out of 1-5) each registered (about 5 in 6) or not and scripted to return nil or an error (about 1 in 6); an asset list of 0-8 multi-ledger assets over that universe (repetitions in any order, same ledger id under both backend ids) plus, in about 1 of 20 cases, one asset that is not a multi-ledger asset at any position; a completion order (permutation) for the concurrent sub-calls - every scripted adjudicator/funder blocks until the harness releases it, one at a time in that order, the next one only after the previous has returned; fund only: egoistic index unset / a position of the ledger universe / any position 0-8; request variation (own index, secondary flag, version, 0-2 sub-states). " +
	"oracle (from the property text, over the call log of the scripted callees and the returned error, evaluated after every started callee has returned): every registered ledger among the distinct (backend id, ledger id) pairs of the asset list receives exactly one call, of the dispatched method, with a request and sub-state argument deeply equal to the original; registered ledgers not among the assets receive none; the result is nil only if every distinct ledger is registered, every forwarded call returned nil and had returned when the dispatcher returned; the result is an error if a distinct ledger is unregistered or a callee failed; it is nil if neither is the case (method documentation: 'if any of the calls fails, the method returns an error'; positive twin of the refusals). egoistic funder (index i selects the i-th distinct ledger in first-occurrence order, as funder.go and the anchor 'distinct ledger ids in first-occurrence order' define it): the call on the selected ledger starts only after the call on every other distinct ledger has returned nil, and is not made if another distinct ledger is unregistered or failed; an index outside the distinct list selects nothing. " +
	"not asserted (property text silent, counted as unspecified:*): result and forwarding for an empty asset list and for a list with a non-multi-ledger asset (only 'no call to a ledger outside the list' and 'at most one call per ledger' are kept; a panic is counted, not reported). " +
	"non-trivial = specified case with >= 2 distinct ledgers and at least one of {a ledger repeated in the asset list, a distinct ledger without registration, a distinct registered ledger whose callee fails, fund with an egoistic index that selects a ledger}; distinct by SHA-256 of the canonical case JSON"

func TestMultiLedger(t *testing.T) {
	rec := h.Begin("C20", "")
	rec.SetRule(rule,
		"the harness owns the completion order of the sub-calls (scripted callees block until released); the order in which the dispatcher's goroutines are started and in which their results enter its error channel is left to the Go scheduler and only sampled",
		"the scripted callees ignore the context, so the funding timeout derived from Params.ChallengeDuration (fixed at 3600 s) never influences a verdict; ChallengeDuration > MaxInt64 (refused by Fund before any forwarding) is outside the generated domain",
		"wall-clock limits (10 s) are used only to detect a definite hang: an expected call that never starts, a dispatcher that never returns",
		"calls that the oracle does not expect (duplicates, unrelated ledgers, a blocked egoistic ledger) are observed up to a short scheduling grace after the dispatcher returned; a later stray call would be missed, never reported wrongly",
		"Subscribe is not part of the property (it lists register, progress, withdraw, fund) and is not exercised")
	defer rec.Flush()
	rapid.Check(t, func(rt *rapid.T) {
		c := drawCase(rt)
		rec.MarkCurrent(c)
		rec.Report(rt, c, runCase(c))
	})
}

func TestReplay(t *testing.T) {
	p := h.ReplayPath()
	if p == "" {
		t.Skip("no replay requested")
	}
	var c Case
	if err := h.LoadReplay(p, &c); err != nil {
		t.Fatal(err)
	}
	rec := h.Begin("C20", "replay")
	rec.Report(t, c, runCase(c))
}
