// Package c19: clones are equal to, and share no mutable memory with, their
// originals (DESIGN.md §3 C19).  Two parts: "values" (every clone function of
// the value types on all shapes) and "machines" (StateMachine / ActionMachine
// clones and persistence snapshots in states reached by operation sequences).
package c19

import (
	"bytes"
	"encoding/hex"
	"fmt"
	"io"
	"math/big"
	"os"
	"testing"

	"pgregory.net/rapid"

	"perun.network/go-perun/channel"
	"perun.network/go-perun/channel/persistence"
	"perun.network/go-perun/wallet"

	"verif/gen"
	"verif/h"
)

func TestMain(m *testing.M) {
	gen.Setup()
	code := m.Run()
	h.FlushAll()
	os.Exit(code)
}

// ================================================================ the oracle

// subject is one clone function applied to one freshly built original.
type subject struct {
	name string
	// mk builds the original from the case (fresh memory on every call) and
	// returns a pointer to it: the root of its object graph.
	mk func() any
	// clone calls the library's clone function and returns a pointer to the
	// result.
	clone func(orig any) any
	// obs is the library-level observation of an original or a clone: native
	// encodings and accessors, as a string.
	obs func(x any) string
	// equal is the type's own equality (nil if the type has none).
	equal func(orig, cl any) error
	// sameType: original and clone have the same Go type, so their structural
	// dumps are comparable.
	sameType bool
}

// encStr is the hex native encoding, "ERR" when the value is not encodable
// (error texts print pointers and are therefore not comparable).
func encStr(e interface{ Encode(io.Writer) error }) (s string) {
	defer func() {
		if r := recover(); r != nil {
			s = "PANIC"
		}
	}()
	var b bytes.Buffer
	if err := e.Encode(&b); err != nil {
		return "ERR"
	}
	return hex.EncodeToString(b.Bytes())
}

func safeObs(s subject, x any) (out string) {
	defer func() {
		if r := recover(); r != nil {
			out = fmt.Sprintf("PANIC:%v", r)
		}
	}()
	return s.obs(x)
}

// skipClauseC disables the pointer-graph clause.  It exists only to measure the
// sensitivity of the mutation clause (b) on its own (SENSITIVITY.md); the
// driver never sets it.
var skipClauseC = os.Getenv("VERIF_C19_SKIP") == "c"

// checkSubject decides clauses (a), (b) and (c) for one subject.
func checkSubject(s subject, o *h.Outcome) *h.Failure {
	orig := s.mk()
	cl := s.clone(orig)

	// (a) the clone equals the original
	if s.equal != nil {
		if err := s.equal(orig, cl); err != nil {
			return h.Failf("clone-unequal:"+s.name, "the type's Equal reports a difference between original and clone: %v", err)
		}
	}
	oo, oc := safeObs(s, orig), safeObs(s, cl)
	if oo != oc {
		return h.Failf("clone-unequal-encoding:"+s.name, "encoding / accessors of original and clone differ:\n  original %.300s\n  clone    %.300s", oo, oc)
	}
	do, dc := dumpOf(orig), dumpOf(cl)
	if s.sameType && do != dc {
		p, a, b := firstDiff(do, dc)
		return h.Failf("clone-unequal-structure:"+s.name+":"+normPath(p), "original and clone differ structurally at %s: %.80s vs %.80s", p, a, b)
	}

	// (c) the two object graphs own disjoint memory
	if a, b, ok := overlap(regionsOf(orig), regionsOf(cl)); ok && !skipClauseC {
		return h.Failf("shared-memory:"+s.name+":"+normPath(b.path),
			"original%s (%s, %#x-%#x) and clone%s (%s, %#x-%#x) are the same memory", a.path, a.kind, a.lo, a.hi, b.path, b.kind, b.lo, b.hi)
	}

	// (b) mutate every leaf of the clone: the original must not change
	n := mutateAll(cl)
	if n > 0 && dumpOf(cl) == dc {
		return h.Failf("harness:mutation-had-no-effect:"+s.name, "%d mutations left the clone's dump unchanged", n)
	}
	if oo2, do2 := safeObs(s, orig), dumpOf(orig); oo2 != oo || do2 != do {
		p, a, b := firstDiff(do, do2)
		where := "encoding"
		if p != "" {
			where = normPath(p)
		}
		return h.Failf("mutation-visible:"+s.name+":clone->original:"+where,
			"mutating the clone changed the original at %q: %.80s -> %.80s; encoding/accessors changed: %v\n  before %.300s\n  after  %.300s", p, a, b, oo2 != oo, oo, oo2)
	}
	// ... and vice versa, on a second clone of the (still intact) original
	cl2 := s.clone(orig)
	oc2, dc2 := safeObs(s, cl2), dumpOf(cl2)
	if oc2 != oo || (s.sameType && dc2 != do) {
		return h.Failf("clone-unequal-second:"+s.name, "a second clone of the unchanged original differs from it")
	}
	m := mutateAll(orig)
	if m > 0 && dumpOf(orig) == do {
		return h.Failf("harness:mutation-had-no-effect:"+s.name, "%d mutations left the original's dump unchanged", m)
	}
	if oc3, dc3 := safeObs(s, cl2), dumpOf(cl2); oc3 != oc2 || dc3 != dc2 {
		p, a, b := firstDiff(dc2, dc3)
		where := "encoding"
		if p != "" {
			where = normPath(p)
		}
		return h.Failf("mutation-visible:"+s.name+":original->clone:"+where,
			"mutating the original changed the clone at %q: %.80s -> %.80s; encoding/accessors changed: %v\n  before %.300s\n  after  %.300s", p, a, b, oc3 != oc2, oc2, oc3)
	}
	switch {
	case n == 0:
		o.Class("leaves:0")
	case n < 20:
		o.Class("leaves:1-19")
	case n < 200:
		o.Class("leaves:20-199")
	default:
		o.Class("leaves:>=200")
	}
	o.Class("subject:" + s.name)
	return nil
}

// ================================================================ part "values"

// SigSpec is one entry of a signature list.
type SigSpec struct {
	Kind string  `json:"kind"` // nil | empty | valid | raw
	Key  int     `json:"key,omitempty"`
	Raw  gen.Hex `json:"raw,omitempty"`
}

// ValCase holds the specs all value subjects are built from.
type ValCase struct {
	State   gen.StateSpec `json:"state"`
	Shape   string        `json:"shape,omitempty"`
	Params  ParamsSpec    `json:"params"`
	Sigs    []SigSpec     `json:"sigs"` // null = nil signature slice
	NilTx   bool          `json:"niltx,omitempty"`
	Row     int           `json:"row"`
	Lock    int           `json:"lock"`
	AddrIdx int           `json:"addridx"`
}

var shapes = []string{"", "", "", "", "", "nil-locked", "empty-locked", "nil-backends", "nil-assets", "nil-balances",
	"empty-balances", "nil-rows", "empty-rows", "zero-alloc", "nil-locked-bals", "nil-imaps"}

func drawValCase(t *rapid.T) ValCase {
	var c ValCase
	c.State = gen.GenState(gen.AllocOpts{MaxLocked: 3}).Draw(t, "state")
	c.Shape = rapid.SampledFrom(shapes).Draw(t, "shape")
	c.Params = genParams(2, 5, true).Draw(t, "params")
	np := 0
	if len(c.State.Alloc.Bals) > 0 {
		np = len(c.State.Alloc.Bals[0])
	}
	switch rapid.IntRange(0, 7).Draw(t, "sigshape") {
	case 0:
		c.Sigs = nil
	case 1:
		c.Sigs = []SigSpec{}
	case 2:
		np = rapid.IntRange(1, 9).Draw(t, "nsigs") // any length
		fallthrough
	default:
		c.Sigs = make([]SigSpec, np)
		for i := range c.Sigs {
			switch rapid.IntRange(0, 7).Draw(t, "sigkind") {
			case 0, 1, 2:
				c.Sigs[i] = SigSpec{Kind: "nil"}
			case 3:
				c.Sigs[i] = SigSpec{Kind: "empty"}
			case 4:
				n := rapid.IntRange(1, 70).Draw(t, "siglen")
				c.Sigs[i] = SigSpec{Kind: "raw", Raw: gen.HexOf(rapid.SliceOfN(rapid.Byte(), n, n).Draw(t, "sig"))}
			default:
				c.Sigs[i] = SigSpec{Kind: "valid", Key: rapid.IntRange(0, 5).Draw(t, "signer")}
			}
		}
	}
	c.NilTx = rapid.IntRange(0, 19).Draw(t, "niltx") == 0
	c.Row = rapid.IntRange(0, 7).Draw(t, "row")
	c.Lock = rapid.IntRange(0, 7).Draw(t, "lock")
	c.AddrIdx = rapid.IntRange(0, 7).Draw(t, "addridx")
	return c
}

func (c ValCase) buildState() *channel.State {
	s := c.State.Build()
	switch c.Shape {
	case "nil-locked":
		s.Locked = nil
	case "empty-locked":
		s.Locked = []channel.SubAlloc{}
	case "nil-backends":
		s.Backends = nil
	case "nil-assets":
		s.Assets = nil
	case "nil-balances":
		s.Balances = nil
	case "empty-balances":
		s.Balances = channel.Balances{}
	case "nil-rows":
		for i := range s.Balances {
			s.Balances[i] = nil
		}
	case "empty-rows":
		for i := range s.Balances {
			s.Balances[i] = []channel.Bal{}
		}
	case "zero-alloc":
		s.Allocation = channel.Allocation{}
	case "nil-locked-bals":
		for i := range s.Locked {
			s.Locked[i].Bals = nil
		}
	case "nil-imaps":
		for i := range s.Locked {
			s.Locked[i].IndexMap = nil
		}
	}
	return s
}

func (c ValCase) buildSigs(s *channel.State) []wallet.Sig {
	if c.Sigs == nil {
		return nil
	}
	out := make([]wallet.Sig, len(c.Sigs))
	for i, sp := range c.Sigs {
		switch sp.Kind {
		case "nil":
		case "empty":
			out[i] = wallet.Sig{}
		case "raw":
			out[i] = sp.Raw.Bytes()
		case "valid":
			var sig wallet.Sig
			if e := ""; s != nil {
				e = encStr(s)
				if e != "ERR" && e != "PANIC" {
					sig, _ = channel.Sign(gen.Acc(sp.Key), s, 0)
				}
			}
			if sig == nil {
				sig = make([]byte, 64)
				sig[0] = 1
			}
			out[i] = sig
		default:
			panic("c19: unknown sig kind " + sp.Kind)
		}
	}
	return out
}

func (c ValCase) partialSigs() bool {
	nils, set := 0, 0
	for _, s := range c.Sigs {
		if s.Kind == "nil" {
			nils++
		} else {
			set++
		}
	}
	return nils > 0 && set > 0
}

func (c ValCase) lockedWithIndexMap() bool {
	switch c.Shape {
	case "nil-locked", "empty-locked", "zero-alloc", "nil-imaps":
		return false
	}
	for _, l := range c.State.Alloc.Locked {
		if len(l.IndexMap) > 0 {
			return true
		}
	}
	return false
}

func errOf(ok bool, what string) error {
	if ok {
		return nil
	}
	return fmt.Errorf("%s", what)
}

func addrObs(a wallet.Address) string {
	if a == nil {
		return "nil"
	}
	b, err := a.MarshalBinary()
	if err != nil {
		return "ERR"
	}
	return hex.EncodeToString(b) + "/" + a.String()
}

func partsObs(ps []map[wallet.BackendID]wallet.Address) string {
	s := fmt.Sprintf("n=%d", len(ps))
	for _, m := range ps {
		s += fmt.Sprintf("|%d:", len(m))
		if a, ok := m[0]; ok {
			s += addrObs(a)
		}
	}
	return s
}

func sigsObs(sigs []wallet.Sig) string {
	s := fmt.Sprintf("n=%d", len(sigs))
	for _, g := range sigs {
		if g == nil {
			s += "|nil"
		} else {
			s += "|" + hex.EncodeToString(g)
		}
	}
	var b bytes.Buffer
	if err := wallet.EncodeSparseSigs(&b, sigs); err == nil {
		s += "|sparse:" + hex.EncodeToString(b.Bytes())
	}
	return s
}

func balsObs(bs []channel.Bal) string {
	s := fmt.Sprintf("n=%d", len(bs))
	for _, b := range bs {
		s += "|" + b.String()
	}
	return s
}

func valueSubjects(c ValCase) []subject {
	var out []subject
	out = append(out, subject{
		name: "State.Clone", sameType: true,
		mk:    func() any { return c.buildState() },
		clone: func(o any) any { return o.(*channel.State).Clone() },
		obs: func(x any) string {
			s := x.(*channel.State)
			return encStr(s) + fmt.Sprintf("/np=%d/v=%d/f=%v/id=%x", s.NumParts(), s.Version, s.IsFinal, s.ID)
		},
		equal: func(o, cl any) error { return o.(*channel.State).Equal(cl.(*channel.State)) },
	})
	out = append(out, subject{
		name: "Allocation.Clone", sameType: true,
		mk:    func() any { a := c.buildState().Allocation; return &a },
		clone: func(o any) any { cl := o.(*channel.Allocation).Clone(); return &cl },
		obs: func(x any) string {
			a := x.(*channel.Allocation)
			s := encStr(a) + fmt.Sprintf("/np=%d/valid=%v", a.NumParts(), a.Valid() == nil)
			if a.Valid() == nil {
				s += "/sum=" + balsObs(a.Sum())
			}
			return s
		},
		equal: func(o, cl any) error { return o.(*channel.Allocation).Equal(cl.(*channel.Allocation)) },
	})
	out = append(out, subject{
		name: "Balances.Clone", sameType: true,
		mk:    func() any { b := c.buildState().Balances; return &b },
		clone: func(o any) any { cl := o.(*channel.Balances).Clone(); return &cl },
		obs: func(x any) string {
			b := *x.(*channel.Balances)
			s := encStr(b)
			for _, row := range b {
				s += "/" + balsObs(row)
			}
			return s
		},
		equal: func(o, cl any) error {
			return errOf((*o.(*channel.Balances)).Equal(*cl.(*channel.Balances)), "Balances.Equal is false")
		},
	})
	row := func() []channel.Bal {
		s := c.buildState()
		if len(s.Balances) == 0 {
			return nil
		}
		return s.Balances[c.Row%len(s.Balances)]
	}
	out = append(out, subject{
		name: "CloneBals(row)", sameType: true,
		mk:    func() any { r := row(); return &r },
		clone: func(o any) any { cl := channel.CloneBals(*o.(*[]channel.Bal)); return &cl },
		obs:   func(x any) string { return balsObs(*x.(*[]channel.Bal)) },
	})
	if nl := len(c.buildState().Locked); nl > 0 {
		k := c.Lock % nl
		out = append(out, subject{
			name: "CloneBals(locked)", sameType: true,
			mk:    func() any { r := c.buildState().Locked[k].Bals; return &r },
			clone: func(o any) any { cl := channel.CloneBals(*o.(*[]channel.Bal)); return &cl },
			obs:   func(x any) string { return balsObs(*x.(*[]channel.Bal)) },
		})
		out = append(out, subject{
			name: "CloneIndexMap", sameType: true,
			mk:    func() any { r := c.buildState().Locked[k].IndexMap; return &r },
			clone: func(o any) any { cl := channel.CloneIndexMap(*o.(*[]channel.Index)); return &cl },
			obs:   func(x any) string { return fmt.Sprint(len(*x.(*[]channel.Index)), *x.(*[]channel.Index)) },
		})
		out = append(out, subject{
			name: "SubAlloc(via Allocation.Clone)", sameType: true,
			mk: func() any { sa := c.buildState().Locked[k]; return &sa },
			clone: func(o any) any {
				a := channel.Allocation{Locked: []channel.SubAlloc{*o.(*channel.SubAlloc)}}
				cl := a.Clone().Locked[0]
				return &cl
			},
			obs:   func(x any) string { return encStr(*x.(*channel.SubAlloc)) },
			equal: func(o, cl any) error { return o.(*channel.SubAlloc).Equal(cl.(*channel.SubAlloc)) },
		})
	}
	out = append(out, subject{
		name: "Data.Clone", sameType: true,
		mk:    func() any { d := c.State.App.DataFor(c.State.Op); return &d },
		clone: func(o any) any { cl := (*o.(*channel.Data)).Clone(); return &cl },
		obs: func(x any) string {
			b, err := (*x.(*channel.Data)).MarshalBinary()
			return fmt.Sprintf("%x/%v", b, err)
		},
	})
	out = append(out, subject{
		name: "Params.Clone", sameType: true,
		mk:    func() any { return c.Params.Build(nil) },
		clone: func(o any) any { return o.(*channel.Params).Clone() },
		obs: func(x any) string {
			p := x.(*channel.Params)
			return encStr(p) + fmt.Sprintf("/id=%x/", p.ID()) + partsObs(p.Parts) + "/nonce=" + p.Nonce.String()
		},
	})
	out = append(out, subject{
		name: "channel.CloneAddresses", sameType: true,
		mk:    func() any { ps := c.Params.parts(); return &ps },
		clone: func(o any) any { cl := channel.CloneAddresses(*o.(*[]map[wallet.BackendID]wallet.Address)); return &cl },
		obs:   func(x any) string { return partsObs(*x.(*[]map[wallet.BackendID]wallet.Address)) },
	})
	ai := c.AddrIdx % len(c.Params.Parts)
	out = append(out, subject{
		name: "wallet.CloneAddressesMap", sameType: true,
		mk:    func() any { m := c.Params.parts()[ai]; return &m },
		clone: func(o any) any { cl := wallet.CloneAddressesMap(*o.(*map[wallet.BackendID]wallet.Address)); return &cl },
		obs: func(x any) string {
			return partsObs([]map[wallet.BackendID]wallet.Address{*x.(*map[wallet.BackendID]wallet.Address)})
		},
	})
	out = append(out, subject{
		name: "wallet.CloneAddress", sameType: true,
		mk:    func() any { a := c.Params.Parts[ai].Addr(); return &a },
		clone: func(o any) any { cl := wallet.CloneAddress(*o.(*wallet.Address)); return &cl },
		obs:   func(x any) string { return addrObs(*x.(*wallet.Address)) },
		equal: func(o, cl any) error {
			return errOf((*o.(*wallet.Address)).Equal(*cl.(*wallet.Address)), "Address.Equal is false")
		},
	})
	out = append(out, subject{
		name: "wallet.CloneAddresses", sameType: true,
		mk: func() any {
			as := make([]wallet.Address, len(c.Params.Parts))
			for i, p := range c.Params.Parts {
				as[i] = p.Addr()
			}
			return &as
		},
		clone: func(o any) any { cl := wallet.CloneAddresses(*o.(*[]wallet.Address)); return &cl },
		obs: func(x any) string {
			s := ""
			for _, a := range *x.(*[]wallet.Address) {
				s += addrObs(a) + "|"
			}
			return s
		},
	})
	out = append(out, subject{
		name: "Transaction.Clone", sameType: true,
		mk: func() any {
			if c.NilTx {
				return &channel.Transaction{Sigs: c.buildSigs(nil)}
			}
			s := c.buildState()
			return &channel.Transaction{State: s, Sigs: c.buildSigs(s)}
		},
		clone: func(o any) any { cl := o.(*channel.Transaction).Clone(); return &cl },
		obs: func(x any) string {
			tx := x.(*channel.Transaction)
			return encStr(tx) + "/" + sigsObs(tx.Sigs)
		},
		equal: func(o, cl any) error {
			a, b := o.(*channel.Transaction), cl.(*channel.Transaction)
			if (a.State == nil) != (b.State == nil) {
				return fmt.Errorf("state nil-ness differs")
			}
			if a.State == nil {
				return nil
			}
			return a.State.Equal(b.State)
		},
	})
	out = append(out, subject{
		name: "wallet.CloneSigs", sameType: true,
		mk:    func() any { s := c.buildSigs(c.buildState()); return &s },
		clone: func(o any) any { cl := wallet.CloneSigs(*o.(*[]wallet.Sig)); return &cl },
		obs:   func(x any) string { return sigsObs(*x.(*[]wallet.Sig)) },
	})
	return out
}

func runValCase(c ValCase) *h.Outcome {
	o := &h.Outcome{}
	if c.Shape != "" {
		o.Class("shape:" + c.Shape)
	}
	if c.Sigs == nil {
		o.Class("sigs:nil-slice")
	} else if len(c.Sigs) == 0 {
		o.Class("sigs:empty-slice")
	}
	if c.partialSigs() {
		o.Class("sigs:partial")
	}
	if c.lockedWithIndexMap() {
		o.Class("locked-with-index-map")
	}
	if c.NilTx {
		o.Class("tx:nil-state")
	}
	o.Nontrivial = c.partialSigs() || c.lockedWithIndexMap()
	o.Fail = h.Guard(func() *h.Failure {
		for _, s := range valueSubjects(c) {
			if f := checkSubject(s, o); f != nil {
				return f
			}
		}
		return nil
	})
	return o
}

const ruleValues = "one generated state (1-4 assets, 1-5 participants, balances up to 128 bytes, 0-3 locked entries with index maps nil/empty/valid/arbitrary, app none/payment/mock) with an optional shape modifier (nil or empty Locked, nil Backends/Assets/Balances, empty Balances, nil or empty rows, zero Allocation, nil locked balances, nil index maps), one parameter set (2-5 participants: pool keys, arbitrary and tiny 64-byte addresses; nonce 0..2^256-1; aux) and one signature list (nil slice, empty slice, or per entry nil / empty / 1-70 raw bytes / valid signature; any length). Subjects built from them, each from fresh memory: State.Clone, Allocation.Clone, Balances.Clone, CloneBals (a row, a locked entry), CloneIndexMap, a SubAlloc through Allocation.Clone, Data.Clone, Params.Clone, channel.CloneAddresses, wallet.CloneAddressesMap, wallet.CloneAddress, wallet.CloneAddresses, Transaction.Clone (also with nil state), wallet.CloneSigs. Oracle per subject: (a) the type's Equal, identical native encoding/accessors, identical structural dump (reflection over all fields incl. unexported; nil == empty); (b) every mutable leaf and pointer-like slot reachable from the clone is mutated in place (scalars, bytes of ids/aux/signatures, index-map entries, big-integer words incl. nonce and address coordinates, map entries, slice/pointer/interface slots) and the original's encoding, accessors and structural dump must be byte-identical to before; then the same with a second clone and the original mutated; (c) the memory regions owned by the two object graphs (pointees, slice backing arrays up to cap, big-integer words, map identities) must not overlap. Not traversed: channel.App/StateApp/ActionApp, channel.Asset, wallet.Account values, fields tagged cloneable:\"shallow\", elliptic.Curve, the logger embedding, zero-size pointees. non-trivial = a locked entry with a non-empty index map or a partial signature set (some nil, some set); distinct by SHA-256 of the canonical case JSON"

func TestCloneValues(t *testing.T) {
	rec := h.Begin("C19", "values")
	rec.SetRule(ruleValues,
		"states carry non-nil Data and non-nil big integers (State.Clone / CloneBals dereference them, as every caller guarantees)",
		"documented sharing is exempt: app definitions, asset identifiers, signing accounts (fields tagged cloneable:\"shallow\"); additionally treated as immutable: elliptic.Curve singletons and the logger held by log.Embedding",
		"slice memory beyond len is compared for disjointness (clause c) but not for content: it is not observable through the other value before an append",
		"participant keys come from a per-process pool; addresses are rebuilt from their bytes so that the harness never mutates the pool accounts")
	defer rec.Flush()
	rapid.Check(t, func(rt *rapid.T) {
		c := drawValCase(rt)
		rec.Report(rt, c, runValCase(c))
	})
}

// ================================================================ part "machines"

// Op is one machine operation.
type Op struct {
	K string `json:"k"`
	I int    `json:"i,omitempty"`
	V uint64 `json:"v,omitempty"`
}

// MachCase is a machine and an operation sequence.
type MachCase struct {
	Params ParamsSpec    `json:"params"` // all participants are pool keys
	Own    int           `json:"own"`
	Action bool          `json:"action,omitempty"` // ActionMachine over the harness' action app
	Alloc  gen.AllocSpec `json:"alloc"`
	Ops    []Op          `json:"ops"`
}

// actApp is an ActionApp whose InitState yields a valid allocation (the
// repository's MockApp returns an empty one, so its ActionMachine can never
// leave the initial phase).
type actApp struct {
	*channel.MockApp
	init gen.AllocSpec
}

func (a *actApp) ValidAction(*channel.Params, *channel.State, channel.Index, channel.Action) error {
	return nil
}

func (a *actApp) InitState(*channel.Params, []channel.Action) (channel.Allocation, channel.Data, error) {
	return a.init.Build(), channel.NewMockOp(channel.OpValid), nil
}

func (a *actApp) ApplyActions(_ *channel.Params, s *channel.State, _ []channel.Action) (*channel.State, error) {
	n := s.Clone()
	n.Version++
	return n, nil
}

var _ channel.ActionApp = (*actApp)(nil)

// mach is what StateMachine and ActionMachine have in common.
type mach interface {
	channel.Source
	N() channel.Index
	Sig() (wallet.Sig, error)
	AddSig(channel.Index, wallet.Sig) error
	EnableInit() error
	EnableUpdate() error
	EnableFinal() error
	SetFunded() error
	DiscardUpdate() error
	SetRegistering() error
	SetRegistered() error
	SetProgressing(*channel.State) error
	SetProgressed(*channel.ProgressedEvent) error
	SetWithdrawing() error
	SetWithdrawn() error
	State() *channel.State
	StagingState() *channel.State
}

var prefixes = [][]string{
	{},
	{"init"},
	{"init", "sig"},
	{"init", "addsig-other"},
	{"init", "sigs-all"},
	{"init", "sigs-all", "enable-init"},
	{"init", "sigs-all", "enable-init", "funded"},
	{"init", "sigs-all", "enable-init", "funded", "update"},
	{"init", "sigs-all", "enable-init", "funded", "update", "sig"},
	{"init", "sigs-all", "enable-init", "funded", "update", "addsig-other"},
	{"init", "sigs-all", "enable-init", "funded", "update", "sigs-all"},
	{"init", "sigs-all", "enable-init", "funded", "update", "sigs-all", "enable-update"},
	{"init", "sigs-all", "enable-init", "funded", "update", "sigs-all", "enable-update", "update"},
	{"init", "sigs-all", "enable-init", "funded", "update", "sigs-all", "enable-update", "update", "addsig-other"},
	{"init", "sigs-all", "enable-init", "funded", "update", "sigs-all", "enable-update", "update", "sigs-all", "enable-update", "update", "sig"},
	{"init", "sigs-all", "enable-init", "funded", "update-final", "sigs-all", "enable-final"},
	{"init", "sigs-all", "enable-init", "funded", "update", "sig", "registered", "progressing", "addsig-other"},
	{"init", "sigs-all", "enable-init", "funded", "registering", "registered", "progressing", "sigs-all", "progressed", "withdrawing"},
}

var opKinds = []string{"init", "sig", "addsig", "addsig-other", "sigs-all", "enable-init", "enable-update", "enable-final", "funded",
	"update", "update-final", "discard", "registering", "registered", "progressing", "progressed", "withdrawing", "withdrawn", "addaction"}

func drawMachCase(t *rapid.T) MachCase {
	var c MachCase
	c.Params = genParams(2, 4, false).Draw(t, "params")
	c.Action = rapid.IntRange(0, 3).Draw(t, "action") == 0
	if c.Action {
		d := make([]byte, 64)
		d[0] = 0x51
		c.Params.App = gen.AppSpec{Kind: "mock", Def: gen.HexOf(d)}
	}
	n := len(c.Params.Parts)
	c.Own = rapid.IntRange(0, n-1).Draw(t, "own")
	c.Alloc = gen.GenAlloc(gen.AllocOpts{Parts: n, MinAssets: 1, MaxAssets: 3, MaxLocked: 2}).Draw(t, "alloc")
	pre := rapid.SampledFrom(prefixes).Draw(t, "prefix")
	for _, k := range pre {
		c.Ops = append(c.Ops, Op{K: k, I: rapid.IntRange(0, 3).Draw(t, "i"), V: uint64(rapid.IntRange(0, 3).Draw(t, "v"))})
	}
	if c.Action && rapid.Bool().Draw(t, "preactions") {
		// actions staged before Init
		acts := []Op{}
		for i := 0; i < rapid.IntRange(1, n).Draw(t, "nacts"); i++ {
			acts = append(acts, Op{K: "addaction", I: rapid.IntRange(0, 3).Draw(t, "ai"), V: uint64(rapid.IntRange(0, 9).Draw(t, "av"))})
		}
		c.Ops = append(acts, c.Ops...)
	}
	ns := rapid.IntRange(0, 5).Draw(t, "nsuffix")
	for i := 0; i < ns; i++ {
		c.Ops = append(c.Ops, Op{K: rapid.SampledFrom(opKinds).Draw(t, "op"), I: rapid.IntRange(0, 3).Draw(t, "i"), V: uint64(rapid.IntRange(0, 9).Draw(t, "v"))})
	}
	return c
}

var bigOne = big.NewInt(1)

func signing(p channel.Phase) bool {
	return p == channel.InitSigning || p == channel.Signing || p == channel.Progressing
}

// next builds a valid successor of the current state: version+1, optionally one
// unit moved from the actor to the next participant, optionally final.
func next(cur *channel.State, actor int, move, final bool) *channel.State {
	n := cur.Clone()
	n.Version++
	n.IsFinal = final
	if move && len(n.Balances) > 0 && len(n.Balances[0]) > 1 {
		row := n.Balances[0]
		a := actor % len(row)
		b := (a + 1) % len(row)
		if row[a].Sign() > 0 {
			row[a].Sub(row[a], bigOne)
			row[b].Add(row[b], bigOne)
		}
	}
	return n
}

// buildMachine replays the operations on a fresh machine.  Operations are only
// issued with arguments the machine documents to accept; errors (wrong phase)
// are expected and ignored.
func buildMachine(c MachCase) (root any, m mach, nerr int) {
	var app channel.App
	if c.Action {
		app = &actApp{MockApp: channel.NewMockApp(c.Params.App.Build().Def()), init: c.Alloc}
	}
	params := c.Params.Build(app)
	acc := map[wallet.BackendID]wallet.Account{0: gen.Acc(c.Params.Parts[c.Own].Key)}
	var sm *channel.StateMachine
	var am *channel.ActionMachine
	var err error
	if c.Action {
		am, err = channel.NewActionMachine(acc, *params)
		root, m = am, am
	} else {
		sm, err = channel.NewStateMachine(acc, *params)
		root, m = sm, sm
	}
	if err != nil {
		panic("c19: cannot create machine: " + err.Error())
	}
	n := int(m.N())
	count := func(err error) {
		if err != nil {
			nerr++
		}
	}
	addSig := func(i int) {
		if !signing(m.Phase()) || m.StagingState() == nil {
			nerr++
			return
		}
		if i == int(m.Idx()) {
			_, err := m.Sig()
			count(err)
			return
		}
		sig, err := channel.Sign(gen.Acc(c.Params.Parts[i].Key), m.StagingState(), 0)
		if err != nil {
			panic("c19: cannot sign: " + err.Error())
		}
		count(m.AddSig(channel.Index(i), sig))
	}
	for _, op := range c.Ops {
		switch op.K {
		case "init":
			if c.Action {
				count(am.Init())
			} else {
				count(sm.Init(c.Alloc.Build(), c.Params.App.DataFor(0)))
			}
		case "sig":
			_, err := m.Sig()
			count(err)
		case "addsig":
			addSig(op.I % n)
		case "addsig-other":
			addSig((int(m.Idx()) + 1 + op.I%(n-1)) % n)
		case "sigs-all":
			for i := 0; i < n; i++ {
				addSig(i)
			}
		case "enable-init":
			count(m.EnableInit())
		case "enable-update":
			count(m.EnableUpdate())
		case "enable-final":
			count(m.EnableFinal())
		case "funded":
			count(m.SetFunded())
		case "update", "update-final":
			if m.State() == nil {
				nerr++
				continue
			}
			if c.Action {
				count(am.Update())
			} else {
				count(sm.Update(next(m.State(), op.I%n, op.V&1 == 1, op.K == "update-final"), channel.Index(op.I%n)))
			}
		case "discard":
			count(m.DiscardUpdate())
		case "registering":
			count(m.SetRegistering())
		case "registered":
			count(m.SetRegistered())
		case "progressing":
			if m.State() == nil {
				nerr++
				continue
			}
			count(m.SetProgressing(next(m.State(), op.I%n, op.V&1 == 1, false)))
		case "progressed":
			if m.State() == nil || m.Phase() < channel.Registered {
				nerr++
				continue
			}
			s := m.StagingState()
			if s == nil {
				s = next(m.State(), op.I%n, false, false)
			}
			count(m.SetProgressed(channel.NewProgressedEvent(m.ID(), &channel.ElapsedTimeout{}, s, m.Idx())))
		case "withdrawing":
			count(m.SetWithdrawing())
		case "withdrawn":
			count(m.SetWithdrawn())
		case "addaction":
			if !c.Action {
				nerr++
				continue
			}
			count(am.AddAction(channel.Index(op.I%n), channel.NewMockOp(channel.MockOp(op.V))))
		default:
			panic("c19: unknown op " + op.K)
		}
	}
	return root, m, nerr
}

func obsSource(s channel.Source) string {
	return fmt.Sprintf("phase=%d idx=%d id=%x params=%s/%x staging=%s/%s current=%s/%s",
		s.Phase(), s.Idx(), s.ID(), encStr(s.Params()), s.Params().ID(),
		encStr(s.StagingTX()), sigsObs(s.StagingTX().Sigs), encStr(s.CurrentTX()), sigsObs(s.CurrentTX().Sigs))
}

func obsMach(x any) string {
	m := x.(mach)
	s := obsSource(m) + fmt.Sprintf(" n=%d", m.N())
	if st := m.State(); st != nil {
		s += " state=" + encStr(st)
	}
	if st := m.StagingState(); st != nil {
		s += " staged=" + encStr(st)
	}
	return s
}

func machineSubjects(c MachCase) []subject {
	mk := func() any { r, _, _ := buildMachine(c); return r }
	var out []subject
	if c.Action {
		out = append(out, subject{
			name: "ActionMachine.Clone", sameType: true, mk: mk, obs: obsMach,
			clone: func(o any) any { return o.(*channel.ActionMachine).Clone() },
		})
	} else {
		out = append(out, subject{
			name: "StateMachine.Clone", sameType: true, mk: mk, obs: obsMach,
			clone: func(o any) any { return o.(*channel.StateMachine).Clone() },
		})
	}
	srcObs := func(x any) string { return obsSource(x.(channel.Source)) }
	out = append(out, subject{
		name: "persistence.CloneSource(machine)", mk: mk, obs: srcObs,
		clone: func(o any) any { return persistence.CloneSource(o.(channel.Source)) },
	})
	out = append(out, subject{
		name: "persistence.FromSource(machine)", mk: mk, obs: srcObs,
		clone: func(o any) any { return persistence.FromSource(o.(channel.Source), nil, nil) },
	})
	out = append(out, subject{
		name: "persistence.CloneSource(snapshot)", sameType: true, obs: srcObs,
		mk:    func() any { return persistence.CloneSource(mk().(channel.Source)) },
		clone: func(o any) any { return persistence.CloneSource(o.(channel.Source)) },
	})
	return out
}

func runMachCase(c MachCase) *h.Outcome {
	o := &h.Outcome{}
	o.Fail = h.Guard(func() *h.Failure {
		_, m, nerr := buildMachine(c)
		o.Class("phase:" + m.Phase().String())
		if c.Action {
			o.Class("machine:action")
		} else {
			o.Class("machine:state")
		}
		if nerr > 0 {
			o.Class("ops-refused")
		}
		staged, current := m.StagingTX().State != nil, m.CurrentTX().State != nil
		partial := false
		if staged {
			nils, set := 0, 0
			for _, s := range m.StagingTX().Sigs {
				if s == nil {
					nils++
				} else {
					set++
				}
			}
			partial = nils > 0 && set > 0
		}
		locked := false
		for _, tx := range []channel.Transaction{m.StagingTX(), m.CurrentTX()} {
			if tx.State != nil {
				for _, l := range tx.Locked {
					if len(l.IndexMap) > 0 {
						locked = true
					}
				}
			}
		}
		if staged {
			o.Class("tx:staged")
		}
		if current {
			o.Class("tx:current")
		}
		if staged && current {
			o.Class("tx:staged+current")
		}
		if partial {
			o.Class("sigs:partial")
		}
		if locked {
			o.Class("locked-with-index-map")
		}
		o.Nontrivial = (staged && current) || partial || locked
		for _, s := range machineSubjects(c) {
			if f := checkSubject(s, o); f != nil {
				return f
			}
		}
		return nil
	})
	return o
}

const ruleMachines = "a StateMachine (75%; app none/payment/mock) or an ActionMachine (25%; harness action app with a valid initial allocation) over generated parameters with 2-4 pool-key participants and a generated initial allocation (1-3 assets, 0-2 locked entries with index maps), driven by one of 18 operation prefixes that reach every interesting configuration (nothing / staged init with no, own, other, all signatures / funded / staged update beside a current state with partial signatures / two and three enabled updates so that previous, current and staged transactions are populated / final / registered and progressing / progressed and withdrawing) followed by 0-5 random operations from the 19-operation alphabet (wrong-phase operations are refused and ignored); staged actions for action machines. Subjects: StateMachine.Clone or ActionMachine.Clone, persistence.CloneSource(machine), persistence.FromSource(machine, nil, nil), persistence.CloneSource of a snapshot. Oracle per subject as in part values: (a) equal accessors (phase, index, id, parameters, staged and current transaction encodings and signature lists) and, for same-type clones, identical structural dump incl. previous transactions and staged actions; (b) in-place mutation of every leaf and slot of the clone leaves the original's accessors and dump byte-identical, and vice versa with a second clone; (c) the memory regions of the two graphs do not overlap. non-trivial = the machine has a staged AND a current transaction, or a partial signature set, or a locked entry with a non-empty index map; distinct by SHA-256 of the canonical case JSON"

func TestCloneMachines(t *testing.T) {
	rec := h.Begin("C19", "machines")
	rec.SetRule(ruleMachines,
		"operations respect the machine's documented preconditions (signature index below the participant count, non-nil states, data of the app's type); a staged state object is not touched by the harness after it was handed to the machine",
		"FromSource stores the peers and parent arguments as given; they are not part of the source and are passed as nil",
		"documented sharing is exempt: the account map (cloneable:\"shallow\"), app, assets; the logger embedding is treated as immutable infrastructure")
	defer rec.Flush()
	rapid.Check(t, func(rt *rapid.T) {
		c := drawMachCase(rt)
		rec.Report(rt, c, runMachCase(c))
	})
}

// ================================================================ replay

func TestReplay(t *testing.T) {
	p := h.ReplayPath()
	if p == "" {
		t.Skip("no replay requested")
	}
	switch part := h.ReplayPart(p); part {
	case "machines":
		var c MachCase
		if err := h.LoadReplay(p, &c); err != nil {
			t.Fatal(err)
		}
		h.Begin("C19", "replay").Report(t, c, runMachCase(c))
	default:
		var c ValCase
		if err := h.LoadReplay(p, &c); err != nil {
			t.Fatal(err)
		}
		h.Begin("C19", "replay").Report(t, c, runValCase(c))
	}
}
