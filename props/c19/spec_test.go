package c19

import (
	"math/big"

	"pgregory.net/rapid"

	simwallet "perun.network/go-perun/backend/sim/wallet"
	"perun.network/go-perun/channel"
	"perun.network/go-perun/wallet"

	"verif/gen"
)

// PartSpec is one participant: a key of the per-process pool (Raw == "") or an
// arbitrary 64 byte sim address.
type PartSpec struct {
	Key int     `json:"key"`
	Raw gen.Hex `json:"raw,omitempty"`
}

func (p PartSpec) bytes() []byte {
	if p.Raw != "" {
		b := p.Raw.Bytes()
		if len(b) != 64 {
			panic("c19: raw address must have 64 bytes")
		}
		return b
	}
	b, err := gen.Acc(p.Key).Address().MarshalBinary()
	if err != nil {
		panic(err)
	}
	return b
}

// Addr builds a FRESH address object (never the pool account's own public
// key, which gen.Addr would hand out: the harness mutates what it builds).
func (p PartSpec) Addr() wallet.Address {
	a := &simwallet.Address{}
	if err := a.UnmarshalBinary(p.bytes()); err != nil {
		panic(err)
	}
	return a
}

// ParamsSpec describes channel parameters as plain data.
type ParamsSpec struct {
	Dur     uint64      `json:"dur"`
	Parts   []PartSpec  `json:"parts"`
	App     gen.AppSpec `json:"app"`
	Nonce   gen.Big     `json:"nonce"`
	Ledger  bool        `json:"ledger"`
	Virtual bool        `json:"virtual"`
	Aux     gen.Hex     `json:"aux,omitempty"`
}

func (p ParamsSpec) aux() (a channel.Aux) {
	copy(a[:], p.Aux.Bytes())
	return
}

func (p ParamsSpec) parts() []map[wallet.BackendID]wallet.Address {
	out := make([]map[wallet.BackendID]wallet.Address, len(p.Parts))
	for i, ps := range p.Parts {
		out[i] = map[wallet.BackendID]wallet.Address{0: ps.Addr()}
	}
	return out
}

// Build constructs the parameters from fresh objects; app overrides the app of
// the spec when non-nil.
func (p ParamsSpec) Build(app channel.App) *channel.Params {
	if app == nil {
		app = p.App.Build()
	}
	ps, err := channel.NewParams(p.Dur, p.parts(), app, p.Nonce.Int(), p.Ledger, p.Virtual, p.aux())
	if err != nil {
		panic("c19: generated parameters refused: " + err.Error())
	}
	return ps
}

func genPart(rawToo bool) *rapid.Generator[PartSpec] {
	return rapid.Custom(func(t *rapid.T) PartSpec {
		if rawToo {
			switch rapid.IntRange(0, 5).Draw(t, "partkind") {
			case 0:
				return PartSpec{Raw: gen.HexOf(rapid.SliceOfN(rapid.Byte(), 64, 64).Draw(t, "raw"))}
			case 1:
				// tiny / zero coordinates: big integers with one or no word
				b := make([]byte, 64)
				b[31] = byte(rapid.IntRange(0, 2).Draw(t, "x"))
				b[63] = byte(rapid.IntRange(0, 2).Draw(t, "y"))
				return PartSpec{Raw: gen.HexOf(b)}
			}
		}
		return PartSpec{Key: rapid.IntRange(0, 5).Draw(t, "key")}
	})
}

func genNonce() *rapid.Generator[gen.Big] {
	return rapid.Custom(func(t *rapid.T) gen.Big {
		switch rapid.IntRange(0, 5).Draw(t, "noncekind") {
		case 0:
			return "0"
		case 1:
			return gen.BigU(uint64(rapid.IntRange(1, 1000).Draw(t, "small")))
		case 2:
			return gen.BigOf(new(big.Int).Sub(new(big.Int).Lsh(big.NewInt(1), 256), big.NewInt(1)))
		default:
			n := rapid.IntRange(1, 32).Draw(t, "len")
			return gen.BigOf(new(big.Int).SetBytes(rapid.SliceOfN(rapid.Byte(), n, n).Draw(t, "nb")))
		}
	})
}

func genParams(minParts, maxParts int, rawToo bool) *rapid.Generator[ParamsSpec] {
	return rapid.Custom(func(t *rapid.T) ParamsSpec {
		var p ParamsSpec
		p.Dur = rapid.Uint64Range(1, ^uint64(0)).Draw(t, "dur")
		n := rapid.IntRange(minParts, maxParts).Draw(t, "nparts")
		p.Parts = make([]PartSpec, n)
		for i := range p.Parts {
			p.Parts[i] = genPart(rawToo).Draw(t, "part")
		}
		p.App = gen.GenApp().Draw(t, "app")
		p.Nonce = genNonce().Draw(t, "nonce")
		p.Ledger = rapid.Bool().Draw(t, "ledger")
		p.Virtual = rapid.Bool().Draw(t, "virtual")
		if rapid.Bool().Draw(t, "hasaux") {
			p.Aux = gen.HexOf(rapid.SliceOfN(rapid.Byte(), 1, 40).Draw(t, "aux"))
		}
		return p
	})
}
