package c19

import (
	"crypto/elliptic"
	"encoding/hex"
	"fmt"
	"math/big"
	"reflect"
	"regexp"
	"sort"
	"strconv"
	"strings"
	"unsafe"

	"perun.network/go-perun/channel"
	"perun.network/go-perun/log"
	"perun.network/go-perun/wallet"
)

// The walker traverses the object graph reachable from a root by reflection
// (unexported fields through reflect.NewAt + unsafe).  One traversal can
//   - write a structural dump (every scalar reachable, nil == empty for
//     slices and maps, no addresses),
//   - collect the memory regions the graph owns (pointees, slice backing
//     arrays up to cap, big integer words, map identities),
//   - mutate every mutable leaf in place (scalars, bytes, big integer words,
//     map entries) and every pointer-like slot (pointer, slice, map, interface
//     stored in a struct field, slice element or array element).
//
// It does not descend into the kinds the documentation declares shared
// between clone and original: channel.App (and StateApp/ActionApp),
// channel.Asset, wallet.Account, struct fields tagged `cloneable:"shallow"`;
// nor into immutable infrastructure: elliptic.Curve singletons and the logger
// embedding.  Zero-size pointees are ignored (the runtime gives all of them
// the same address).

var (
	tApp       = reflect.TypeOf((*channel.App)(nil)).Elem()
	tStateApp  = reflect.TypeOf((*channel.StateApp)(nil)).Elem()
	tActionApp = reflect.TypeOf((*channel.ActionApp)(nil)).Elem()
	tAsset     = reflect.TypeOf((*channel.Asset)(nil)).Elem()
	tAccount   = reflect.TypeOf((*wallet.Account)(nil)).Elem()
	tCurve     = reflect.TypeOf((*elliptic.Curve)(nil)).Elem()
	tLogger    = reflect.TypeOf((*log.Logger)(nil)).Elem()
	tEmbedding = reflect.TypeOf(log.Embedding{})
	tBigInt    = reflect.TypeOf(big.Int{})
)

func sharedType(t reflect.Type) bool {
	switch t {
	case tApp, tStateApp, tActionApp, tAsset, tAccount, tCurve, tLogger:
		return true
	}
	return false
}

type region struct {
	lo, hi uintptr
	kind   string
	path   string
}

type seenKey struct {
	p uintptr
	n int
	t reflect.Type
}

type walker struct {
	mutate  bool
	dump    *strings.Builder
	collect bool
	regions []region
	seen    map[seenKey]struct{}
	nmut    int
}

func newWalker() *walker { return &walker{seen: map[seenKey]struct{}{}} }

func (w *walker) enter(p uintptr, n int, t reflect.Type) bool {
	k := seenKey{p, n, t}
	if _, ok := w.seen[k]; ok {
		return false
	}
	w.seen[k] = struct{}{}
	return true
}

func (w *walker) line(path, val string) {
	if w.dump != nil {
		w.dump.WriteString(path)
		w.dump.WriteByte('=')
		w.dump.WriteString(val)
		w.dump.WriteByte('\n')
	}
}

func (w *walker) region(p, size uintptr, kind, path string) {
	if w.collect && size > 0 {
		w.regions = append(w.regions, region{p, p + size, kind, path})
	}
}

// slot mutates a pointer-like storage location itself (not what it refers to).
func (w *walker) slot(v reflect.Value) {
	if !w.mutate || !v.CanSet() {
		return
	}
	switch v.Kind() {
	case reflect.Ptr:
		if v.IsNil() {
			v.Set(reflect.New(v.Type().Elem()))
		} else {
			v.Set(reflect.Zero(v.Type()))
		}
	case reflect.Slice:
		if v.IsNil() || v.Len() == 0 {
			v.Set(reflect.MakeSlice(v.Type(), 1, 1))
		} else {
			v.Set(reflect.Zero(v.Type()))
		}
	case reflect.Map:
		if v.IsNil() {
			v.Set(reflect.MakeMap(v.Type()))
		} else {
			v.Set(reflect.Zero(v.Type()))
		}
	case reflect.Interface:
		if v.IsNil() {
			return
		}
		v.Set(reflect.Zero(v.Type()))
	default:
		return
	}
	w.nmut++
}

func (w *walker) bigInt(x *big.Int, path string) {
	bits := x.Bits()
	if w.dump != nil {
		var sb strings.Builder
		if x.Sign() < 0 {
			sb.WriteByte('-')
		}
		for i := len(bits) - 1; i >= 0; i-- {
			sb.WriteString(strconv.FormatUint(uint64(bits[i]), 16))
			sb.WriteByte('.')
		}
		w.line(path, "big:"+sb.String())
	}
	if c := cap(bits); c > 0 {
		w.region(uintptr(unsafe.Pointer(unsafe.SliceData(bits))), uintptr(c)*unsafe.Sizeof(big.Word(0)), "big-integer words", path)
	}
	if w.mutate {
		if len(bits) > 0 {
			for i := range bits {
				bits[i] ^= 1
				if bits[i] == 0 {
					bits[i] = 2
				}
			}
		} else {
			x.SetUint64(1)
		}
		w.nmut++
	}
}

func (w *walker) bytes(b []byte, path string) {
	w.line(path, "x"+hex.EncodeToString(b))
	if w.mutate {
		for i := range b {
			b[i] ^= 1
		}
		w.nmut += len(b)
	}
}

func (w *walker) walk(v reflect.Value, path string) {
	t := v.Type()
	if sharedType(t) {
		if v.IsNil() {
			w.line(path, "nil")
		} else {
			w.line(path, "<shared:"+t.String()+">")
		}
		w.slot(v)
		return
	}
	if t == tEmbedding {
		return
	}
	if t == tBigInt {
		if !v.CanAddr() {
			tmp := reflect.New(t).Elem()
			tmp.Set(v)
			v = tmp
		}
		w.bigInt((*big.Int)(unsafe.Pointer(v.UnsafeAddr())), path)
		return
	}
	switch v.Kind() {
	case reflect.Ptr:
		if v.IsNil() {
			w.line(path, "nil")
			w.slot(v)
			return
		}
		et := t.Elem()
		if et.Size() == 0 {
			w.line(path, "&"+et.String()+"{}")
			return
		}
		p := v.Pointer()
		w.region(p, et.Size(), "pointee "+et.String(), path)
		if w.enter(p, 0, t) {
			w.walk(v.Elem(), path+"->")
		} else {
			w.line(path, "<visited>")
		}
		w.slot(v)
	case reflect.Interface:
		if v.IsNil() {
			w.line(path, "nil")
			return
		}
		e := v.Elem()
		p := path + "(" + e.Type().String() + ")"
		if e.Kind() == reflect.Ptr || e.CanAddr() {
			w.walk(e, p)
		} else {
			tmp := reflect.New(e.Type()).Elem()
			tmp.Set(e)
			w.walk(tmp, p)
		}
		w.slot(v)
	case reflect.Struct:
		if !v.CanAddr() {
			tmp := reflect.New(t).Elem()
			tmp.Set(v)
			v = tmp
		}
		for i := 0; i < t.NumField(); i++ {
			sf := t.Field(i)
			f := reflect.NewAt(sf.Type, unsafe.Pointer(v.Field(i).UnsafeAddr())).Elem()
			fp := path + "." + sf.Name
			if sf.Tag.Get("cloneable") == "shallow" {
				w.line(fp, "<shallow>")
				w.slot(f)
				continue
			}
			w.walk(f, fp)
		}
	case reflect.Slice:
		n := v.Len()
		// the backing array up to cap: memory beyond len is reachable through
		// append / reslicing.  cap 0 (nil, or the runtime's shared zero-size
		// base) owns nothing.
		if c := v.Cap(); c > 0 {
			w.region(v.Pointer(), uintptr(c)*t.Elem().Size(), "backing array of "+t.String(), path)
		}
		if n == 0 { // nil and empty are the same value for every clone function
			w.line(path, "len0")
			w.slot(v)
			return
		}
		p := v.Pointer()
		if !w.enter(p, n, t) {
			w.line(path, "<visited>")
			w.slot(v)
			return
		}
		if t.Elem().Kind() == reflect.Uint8 {
			w.bytes(unsafe.Slice((*byte)(v.UnsafePointer()), n), path)
		} else {
			w.line(path, "len"+strconv.Itoa(n))
			for i := 0; i < n; i++ {
				w.walk(v.Index(i), path+"["+strconv.Itoa(i)+"]")
			}
		}
		w.slot(v)
	case reflect.Array:
		if !v.CanAddr() {
			tmp := reflect.New(t).Elem()
			tmp.Set(v)
			v = tmp
		}
		if t.Elem().Kind() == reflect.Uint8 {
			w.bytes(unsafe.Slice((*byte)(unsafe.Pointer(v.UnsafeAddr())), v.Len()), path)
			return
		}
		for i := 0; i < v.Len(); i++ {
			w.walk(v.Index(i), path+"["+strconv.Itoa(i)+"]")
		}
	case reflect.Map:
		if v.IsNil() || v.Len() == 0 {
			w.line(path, "len0")
			if !v.IsNil() {
				w.region(v.Pointer(), 1, "map "+t.String(), path)
				if w.mutate && w.enter(v.Pointer(), 0, t) {
					v.SetMapIndex(reflect.Zero(t.Key()), reflect.Zero(t.Elem()))
					w.nmut++
				}
			}
			w.slot(v)
			return
		}
		w.region(v.Pointer(), 1, "map "+t.String(), path)
		if !w.enter(v.Pointer(), 0, t) {
			w.line(path, "<visited>")
			w.slot(v)
			return
		}
		keys := v.MapKeys()
		sort.Slice(keys, func(i, j int) bool { return fmt.Sprint(keys[i].Interface()) < fmt.Sprint(keys[j].Interface()) })
		w.line(path, "len"+strconv.Itoa(len(keys)))
		for _, k := range keys {
			tmp := reflect.New(t.Elem()).Elem()
			tmp.Set(v.MapIndex(k))
			w.walk(tmp, path+"{"+fmt.Sprint(k.Interface())+"}")
		}
		if w.mutate {
			for _, k := range keys {
				v.SetMapIndex(k, reflect.Value{})
			}
			w.nmut++
		}
		w.slot(v)
	case reflect.Bool:
		w.line(path, strconv.FormatBool(v.Bool()))
		if w.mutate && v.CanSet() {
			v.SetBool(!v.Bool())
			w.nmut++
		}
	case reflect.Int, reflect.Int8, reflect.Int16, reflect.Int32, reflect.Int64:
		w.line(path, strconv.FormatInt(v.Int(), 10))
		if w.mutate && v.CanSet() {
			v.SetInt(v.Int() ^ 1)
			w.nmut++
		}
	case reflect.Uint, reflect.Uint8, reflect.Uint16, reflect.Uint32, reflect.Uint64, reflect.Uintptr:
		w.line(path, strconv.FormatUint(v.Uint(), 10))
		if w.mutate && v.CanSet() {
			v.SetUint(v.Uint() ^ 1)
			w.nmut++
		}
	case reflect.Float32, reflect.Float64:
		w.line(path, strconv.FormatFloat(v.Float(), 'g', -1, 64))
		if w.mutate && v.CanSet() {
			v.SetFloat(v.Float() + 1)
			w.nmut++
		}
	case reflect.String:
		w.line(path, strconv.Quote(v.String()))
	default: // func, chan, unsafe pointer, complex: none occur in the cloneable types
		w.line(path, "<"+v.Kind().String()+">")
	}
}

// root must be a non-nil pointer; the traversal starts at the pointee (the
// root variable itself belongs to the harness).
func rootElem(root any) reflect.Value {
	v := reflect.ValueOf(root)
	if v.Kind() != reflect.Ptr || v.IsNil() {
		panic(fmt.Sprintf("c19: root must be a non-nil pointer, got %T", root))
	}
	return v.Elem()
}

// dumpOf returns the structural dump of the graph below root.
func dumpOf(root any) string {
	w := newWalker()
	w.dump = &strings.Builder{}
	w.walk(rootElem(root), "")
	return w.dump.String()
}

// regionsOf returns the memory regions owned by the graph below root,
// including the root object itself.
func regionsOf(root any) []region {
	w := newWalker()
	w.collect = true
	e := rootElem(root)
	w.region(e.UnsafeAddr(), e.Type().Size(), "root "+e.Type().String(), "")
	w.walk(e, "")
	return w.regions
}

// mutateAll mutates every mutable leaf and slot below root in place and
// returns the number of mutations.
func mutateAll(root any) int {
	w := newWalker()
	w.mutate = true
	w.walk(rootElem(root), "")
	return w.nmut
}

// overlap returns a pair of overlapping regions (a from as, b from bs).
func overlap(as, bs []region) (region, region, bool) {
	type ev struct {
		r    region
		side int
	}
	all := make([]ev, 0, len(as)+len(bs))
	for _, r := range as {
		all = append(all, ev{r, 0})
	}
	for _, r := range bs {
		all = append(all, ev{r, 1})
	}
	sort.Slice(all, func(i, j int) bool { return all[i].r.lo < all[j].r.lo })
	// sweep: keep the region with the largest hi seen so far per side
	var maxR [2]region
	var have [2]bool
	for _, e := range all {
		o := 1 - e.side
		if have[o] && maxR[o].hi > e.r.lo {
			if e.side == 0 {
				return e.r, maxR[o], true
			}
			return maxR[o], e.r, true
		}
		if !have[e.side] || e.r.hi > maxR[e.side].hi {
			maxR[e.side], have[e.side] = e.r, true
		}
	}
	return region{}, region{}, false
}

var (
	reIdx = regexp.MustCompile(`\[\d+\]`)
	reKey = regexp.MustCompile(`\{[^}]*\}`)
)

// normPath removes indices and keys so that a path can serve in a signature.
func normPath(p string) string {
	p = reIdx.ReplaceAllString(p, "[]")
	p = reKey.ReplaceAllString(p, "{}")
	if p == "" {
		p = "(root)"
	}
	return p
}

// firstDiff returns the path of the first line in which two dumps differ.
func firstDiff(a, b string) (path, va, vb string) {
	la, lb := strings.Split(a, "\n"), strings.Split(b, "\n")
	for i := 0; i < len(la) || i < len(lb); i++ {
		var x, y string
		if i < len(la) {
			x = la[i]
		}
		if i < len(lb) {
			y = lb[i]
		}
		if x != y {
			px, vx, _ := strings.Cut(x, "=")
			py, vy, _ := strings.Cut(y, "=")
			if px == "" {
				px = py
			}
			return px, vx, vy
		}
	}
	return "", "", ""
}
