package c07

// Third part of C07: the automatically accepted SETTLEMENT of a sub-channel
// while the parent locks funds for a second sub-channel.  "An update that the
// client accepts automatically because it ... settles a sub-channel ... removes
// exactly that channel's sub-allocation": the other locked entry must stay as it
// is.  The first part has at most one locked entry when it settles, so an edit
// of ANOTHER entry inside a settlement update was never offered (two agents
// that read the code for seeded changes pointed at this gap).

import (
	"context"
	"fmt"
	"math/big"
	"testing"
	"time"

	"pgregory.net/rapid"

	"perun.network/go-perun/channel"
	"perun.network/go-perun/client"
	"perun.network/go-perun/wallet"

	"verif/h"
	"verif/sim"
)

// S2Case: what the settlement update of sub-channel 1 does to the locked entry
// of sub-channel 2.
type S2Case struct {
	Kind   string    `json:"kind"`   // none | relabel-other | other-imap | other-imap-grow | drop-other | other-amount
	Final1 [2]uint64 `json:"final1"` // final balances of sub-channel 1 by role [adversary, honest] (sum 7)
	Pay    uint64    `json:"pay"`    // ordinary payment of the adversary to the honest party before
	// Probe: before sub-channel 1 is finalised the adversary sends a VIRTUAL
	// channel settlement proposal for sub-channel 1's funds (refused: it is no
	// virtual channel) and then an ordinary update that replaces the first
	// locked entry by a copy of the second one ("shift"), that drops the first
	// entry ("drop-first") or that only pays ("pay": harmless control)
	Probe string `json:"probe,omitempty"`
}

var s2Kinds = []string{"none", "relabel-other", "other-imap", "other-imap-grow", "drop-other", "other-amount"}

func drawS2Case(t *rapid.T) S2Case {
	var c S2Case
	c.Kind = rapid.SampledFrom(s2Kinds).Draw(t, "kind")
	fm := uint64(rapid.IntRange(0, 7).Draw(t, "finalM"))
	c.Final1 = [2]uint64{fm, 7 - fm}
	c.Pay = uint64(rapid.IntRange(0, 5).Draw(t, "pay"))
	c.Probe = rapid.SampledFrom([]string{"", "", "shift", "shift", "drop-first", "pay"}).Draw(t, "probe")
	return c
}

func runS2Case(c S2Case) *h.Outcome {
	o := &h.Outcome{}
	o.Class("settle2:" + c.Kind)
	fail := func(sig, format string, args ...any) *h.Outcome {
		o.Fail = h.Failf(sig, format, args...)
		return o
	}
	const M, H = 0, 1
	pr, err := sim.NewPair(nil, 0, 1, false)
	if err != nil {
		return fail("harness", "creating parties: %v", err)
	}
	defer func() { go pr.Env.Close() }()
	for i := 0; i < 2; i++ {
		pr.Env.Ledger.Credit(pr.P[i].Name, pr.P[i].Acc.Address(), asset0, big.NewInt(1000))
	}
	if err := pr.Open(M, []uint64{asset0}, [][2]*big.Int{{big.NewInt(50), big.NewInt(50)}}, nil, 10, nil, nil); err != nil {
		return fail("harness-open", "honest opening failed: %v", err)
	}
	hch, mch := pr.Ch[H], pr.Ch[M]
	adv, hon := pr.P[M], pr.P[H]
	mI, hI := int(mch.Idx()), int(hch.Idx())
	short := 1500 * time.Millisecond
	send := func(msg *client.ChannelUpdateMsg) {
		_ = adv.Inject(hon, msg)
		pr.Env.Quiesce(12*time.Millisecond, sim.HangLimit)
	}
	upd := func(s *channel.State) *client.ChannelUpdateMsg {
		return &client.ChannelUpdateMsg{ChannelUpdate: client.ChannelUpdate{State: s, ActorIdx: channel.Index(mI)}, Sig: adv.SignState(s)}
	}
	if c.Pay > 0 {
		s := hch.State().Clone()
		s.Version++
		s.Balances[0][mI] = new(big.Int).Sub(s.Balances[0][mI], bal(c.Pay))
		s.Balances[0][hI] = new(big.Int).Add(s.Balances[0][hI], bal(c.Pay))
		send(upd(s))
	}
	// ---- two hand-made sub-channels, both funded correctly
	hon.AcceptSubProposals(short)
	var subs [2]*sim.HandSub
	for k, sb := range [][2]uint64{{3, 4}, {1, 2}} {
		pb := [][2]*big.Int{{nil, nil}}
		pb[0][mI], pb[0][hI] = bal(sb[0]), bal(sb[1])
		init := sim.MakeAlloc([]uint64{asset0}, pb)
		hs, err := adv.HandOpenSub(hon, mch, init, 10, short)
		if err != nil {
			return fail("harness-handsub", "hand-made opening of sub-channel %d failed: %v", k+1, err)
		}
		subs[k] = hs
		cur := hch.State()
		s := cur.Clone()
		s.Version++
		s.Balances[0][mI] = new(big.Int).Sub(s.Balances[0][mI], bal(sb[0]))
		s.Balances[0][hI] = new(big.Int).Sub(s.Balances[0][hI], bal(sb[1]))
		s.Locked = append(s.Locked, *channel.NewSubAlloc(hs.Params.ID(), []channel.Bal{bal(sb[0] + sb[1])}, nil))
		send(upd(s))
		time.Sleep(5 * time.Millisecond)
		if _, ok := hch.State().SubAlloc(hs.Params.ID()); !ok {
			return fail("harness-funding", "the (correct) funding of sub-channel %d was not accepted", k+1)
		}
	}
	id1, id2 := subs[0].Params.ID(), subs[1].Params.ID()
	// ---- a refused virtual channel settlement proposal must leave no trace
	if c.Probe != "" {
		o.Class("settle2:probe:" + c.Probe)
		agreed := hch.State().Clone() // the harness's own record of the last agreed state
		ps := agreed.Clone()
		ps.Version++
		v0 := subs[0].V0.State
		ps.Balances[0][mI] = new(big.Int).Add(ps.Balances[0][mI], v0.Balances[0][mI])
		ps.Balances[0][hI] = new(big.Int).Add(ps.Balances[0][hI], v0.Balances[0][hI])
		var rest []channel.SubAlloc
		for _, l := range ps.Locked {
			if l.ID != id1 {
				rest = append(rest, l)
			}
		}
		ps.Locked = rest
		_ = adv.Inject(hon, &client.VirtualChannelSettlementProposalMsg{
			ChannelUpdateMsg: *upd(ps),
			Final:            channel.SignedState{Params: subs[0].Params, State: v0.Clone(), Sigs: subs[0].V0.Sigs},
		})
		pr.Env.Quiesce(12*time.Millisecond, sim.HangLimit)
		if got := hch.State(); got.Version != agreed.Version {
			return fail("countersigned-unsafe:settle2:vc-settlement-of-sub-channel", "the honest client accepted a virtual channel settlement proposal for the funds of a sub-channel (not final, not virtual): version %d -> %d", agreed.Version, got.Version)
		}
		// then an ordinary update
		ns := agreed.Clone()
		ns.Version++
		harmless := false
		switch c.Probe {
		case "shift": // [S1,S2] -> [S2,S2], balances untouched
			var second channel.SubAlloc
			for _, l := range agreed.Locked {
				if l.ID == id2 {
					second = l
				}
			}
			for i := range ns.Locked {
				if ns.Locked[i].ID == id1 {
					ns.Locked[i] = *channel.NewSubAlloc(second.ID, channel.CloneBals(second.Bals), append([]channel.Index(nil), second.IndexMap...))
				}
			}
		case "drop-first": // [S1,S2] -> [S2]
			ns.Locked = rest
		case "pay":
			harmless = true
			if ns.Balances[0][mI].Sign() > 0 {
				ns.Balances[0][mI] = new(big.Int).Sub(ns.Balances[0][mI], big.NewInt(1))
				ns.Balances[0][hI] = new(big.Int).Add(ns.Balances[0][hI], big.NewInt(1))
			}
		}
		probeEnc := enc(ns)
		send(upd(ns))
		for _, e := range hon.Rec.Events() {
			if e.Kind != "sigadded" || e.Chan != hch.ID() || int(e.SigIdx) != hI || e.Staged.State == nil || enc(e.Staged.State) != probeEnc {
				continue
			}
			if _, _, same := lockedDiff(agreed.Locked, ns.Locked); !harmless && (!same || len(agreed.Locked) != len(ns.Locked)) {
				return fail("countersigned-unsafe:settle2:probe-"+c.Probe, "after a refused virtual channel settlement proposal the honest client signed an ordinary update that edits the locked funds: agreed before %s, signed %s", lockedStr(agreed.Locked), lockedStr(ns.Locked))
			}
		}
		if harmless && hch.State().Version != ns.Version {
			return fail("harness-settle2", "the harmless payment after the refused proposal was not accepted (control)")
		}
		if got := hch.State(); !harmless {
			if err := got.Equal(agreed); err != nil {
				return fail("countersigned-unsafe:settle2:probe-"+c.Probe, "after a refused virtual channel settlement proposal and a refused ordinary update the honest client's ledger state differs from the last agreed state: %v (locked now %s, agreed %s)", err, lockedStr(got.Locked), lockedStr(agreed.Locked))
			}
		}
	}
	// ---- sub-channel 1 gets its final state
	sub1H := hon.Channel(id1)
	if sub1H == nil {
		return fail("harness", "the honest party has no handle of sub-channel 1")
	}
	fs := subs[0].V0.State.Clone()
	fs.Version, fs.IsFinal = 1, true
	fs.Balances[0][mI], fs.Balances[0][hI] = bal(c.Final1[0]), bal(c.Final1[1])
	_ = adv.Inject(hon, &client.ChannelUpdateMsg{ChannelUpdate: client.ChannelUpdate{State: fs, ActorIdx: channel.Index(mI)}, Sig: adv.SignState(fs)})
	pr.Env.Quiesce(12*time.Millisecond, sim.HangLimit)
	if st := sub1H.State(); !st.IsFinal {
		return fail("harness", "the final update of sub-channel 1 was not accepted")
	}
	// ---- H settles sub-channel 1 and waits for the parent update
	settled := make(chan error, 1)
	go func() {
		ctx, cancel := context.WithTimeout(context.Background(), short)
		defer cancel()
		settled <- sub1H.Settle(ctx, false)
	}()
	time.Sleep(5 * time.Millisecond)
	cur := hch.State()
	s := cur.Clone()
	s.Version++
	s.Balances[0][mI] = new(big.Int).Add(s.Balances[0][mI], bal(c.Final1[0]))
	s.Balances[0][hI] = new(big.Int).Add(s.Balances[0][hI], bal(c.Final1[1]))
	var locked []channel.SubAlloc
	for _, l := range s.Locked {
		if l.ID == id1 {
			continue
		}
		l := *channel.NewSubAlloc(l.ID, channel.CloneBals(l.Bals), append([]channel.Index(nil), l.IndexMap...))
		if l.ID == id2 {
			switch c.Kind {
			case "relabel-other":
				l.ID[5] ^= 0x20
			case "other-imap":
				l.IndexMap = []channel.Index{1, 0}
			case "other-imap-grow":
				l.IndexMap = []channel.Index{0, 1, 1}
			case "other-amount": // one unit out of the other sub-channel's funds, to the adversary
				l.Bals[0] = new(big.Int).Sub(l.Bals[0], big.NewInt(1))
				s.Balances[0][mI] = new(big.Int).Add(s.Balances[0][mI], big.NewInt(1))
			case "drop-other": // the other entry vanishes, its funds go to the adversary
				s.Balances[0][mI] = new(big.Int).Add(s.Balances[0][mI], l.Bals[0])
				continue
			}
		}
		locked = append(locked, l)
	}
	if locked == nil {
		locked = []channel.SubAlloc{}
	}
	s.Locked = locked
	crafted := enc(s)
	send(upd(s))
	select {
	case <-settled:
	case <-time.After(2 * short):
	}
	pr.Env.Quiesce(15*time.Millisecond, sim.HangLimit)
	// ---- oracle: every signature of H on the ledger channel after the funding
	for _, e := range hon.Rec.Events() {
		if e.Kind != "sigadded" || e.Chan != hch.ID() || int(e.SigIdx) != hI || e.Cur.State == nil || e.Staged.State == nil || enc(e.Staged.State) != crafted {
			continue
		}
		curS, next := e.Cur.State, e.Staged.State
		var peerSig wallet.Sig
		if mI < len(e.Staged.Sigs) {
			peerSig = e.Staged.Sigs[mI]
		}
		if ok, err := channel.Verify(adv.Acc.Address(), next, peerSig); err != nil || !ok {
			return fail("countersigned-unsafe:settle2:peer-signature", "the honest client signed a state that does not carry the peer's signature")
		}
		removed, added, same := lockedDiff(curS.Locked, next.Locked)
		switch {
		case !same:
			return fail("countersigned-unsafe:settle2:"+c.Kind, "the honest client signed the settlement of sub-channel 1 although the update also edits the locked entry of sub-channel 2 (%s): locked before %s, after %s", c.Kind, lockedStr(curS.Locked), lockedStr(next.Locked))
		case len(added) != 0 || len(removed) != 1 || removed[0].ID != id1:
			return fail("countersigned-unsafe:settle2:"+c.Kind, "the honest client signed a settlement update that does not remove exactly the sub-allocation of the settled channel (%s): locked before %s, after %s", c.Kind, lockedStr(curS.Locked), lockedStr(next.Locked))
		}
		for p, want := range map[int]uint64{mI: c.Final1[0], hI: c.Final1[1]} {
			if d := new(big.Int).Sub(next.Balances[0][p], curS.Balances[0][p]); d.Cmp(bal(want)) != 0 {
				return fail("countersigned-unsafe:settle2:"+c.Kind, "the settlement changes participant %d's balance by %v, its final balance in the settled channel is %d", p, d, want)
			}
		}
		o.Class("settle2:signed")
	}
	if c.Kind == "none" {
		if _, still := hch.State().SubAlloc(id1); still {
			return fail("harness-settle2", "the correct settlement update was not accepted (control)")
		}
	}
	o.Nontrivial = c.Kind != "none" || (c.Probe != "" && c.Probe != "pay")
	return o
}

func lockedStr(l []channel.SubAlloc) string {
	out := "["
	for i, x := range l {
		if i > 0 {
			out += " "
		}
		out += fmt.Sprintf("{%x.. %v %v}", x.ID[:3], x.Bals, x.IndexMap)
	}
	return out + "]"
}

const s2Rule = "the honest client H has a ledger channel with the adversary M that locks funds for two sub-channels (both opened by hand and funded correctly); sub-channel 1 gets a final state, H calls Settle on it, and M sends the settlement update on the parent: correct for sub-channel 1 (entry removed, final balances credited) but it also relabels the locked entry of sub-channel 2, gives it an index map, takes one unit out of it or drops it. Oracle: H signs the settlement only if it removes exactly the sub-allocation of sub-channel 1, leaves the other entry (identity, amounts, index map) as it is and credits exactly the final balances. In two thirds of the cases the adversary first sends a VIRTUAL channel settlement proposal for sub-channel 1's funds (to be refused) and then an ordinary update that replaces the first locked entry by a copy of the second, drops it, or just pays (control): judged against the harness's own copy of the last agreed state. non-trivial = the update touches the other entry, or a probe other than the control"

func TestSettleOtherLocked(t *testing.T) {
	rec := h.Begin("C07", "settle2")
	rec.SetRule(s2Rule, "one-directional: a missing acceptance is never an alarm, except for the unmodified control update")
	defer rec.Flush()
	rapid.Check(t, func(rt *rapid.T) {
		c := drawS2Case(rt)
		rec.MarkCurrent(c)
		rec.Report(rt, c, runS2Case(c))
	})
}
