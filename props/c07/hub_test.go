package c07

import (
	"context"
	"fmt"
	"math/big"
	"testing"
	"time"

	"pgregory.net/rapid"

	"perun.network/go-perun/channel"
	"perun.network/go-perun/client"
	"perun.network/go-perun/wallet"
	"perun.network/go-perun/wire"

	"verif/h"
	"verif/sim"
)

// HubCase: the honest client H is the hub of a virtual channel between two
// identities of the adversary (M1, M2), each with a ledger channel to H.  The
// adversary sends the two virtual channel funding proposals; one of them is
// mutated.  H accepts matching funding proposals automatically.
type HubCase struct {
	HProposes [2]bool   `json:"hproposes"` // who is participant 0 of ledger channel i
	VBals     [2]uint64 `json:"vbals"`     // balances of the virtual channel
	Honest    int       `json:"honest"`    // honest updates on channel 0 before
	Mut       string    `json:"mut"`       // mutation of the funding proposal on channel MutOn
	MutOn     int       `json:"muton"`
	V         uint64    `json:"v"`
	Settle    bool      `json:"settle"` // afterwards craft the two settlement proposals
	SettleMut string    `json:"settlemut"`
	FinalV    [2]uint64 `json:"finalv"` // final balances of the virtual channel (same sum)
	// Second: once the virtual channel is funded, a SECOND virtual channel is
	// funded through the same two ledger channels; its proposal on channel MutOn
	// is entirely correct for the new channel but ("relabel-other", "other-imap")
	// edits the locked entry of the first one
	Second string `json:"second,omitempty"`
}

var hubMuts = []string{"none", "none", "hub-pays-extra", "hub-pays-other-share", "peer-pays-less", "amount+1", "other-locked-added", "imap-swapped", "imap-swapped-consistent", "imap-swapped-consistent", "imap-both-hub"}
var hubSettleMuts = []string{"none", "none", "hub-gets-less", "peer-gets-all", "keep-suballoc", "other-final", "other-final", "relabel-other-locked", "other-locked-imap"}

func drawHubCase(t *rapid.T) HubCase {
	var c HubCase
	c.HProposes = [2]bool{rapid.Bool().Draw(t, "hp0"), rapid.Bool().Draw(t, "hp1")}
	c.VBals = [2]uint64{uint64(rapid.IntRange(0, 9).Draw(t, "v0")), uint64(rapid.IntRange(0, 9).Draw(t, "v1"))}
	c.Honest = rapid.IntRange(0, 2).Draw(t, "honest")
	c.Mut = rapid.SampledFrom(hubMuts).Draw(t, "mut")
	c.MutOn = rapid.IntRange(0, 1).Draw(t, "muton")
	c.V = uint64(rapid.IntRange(1, 3).Draw(t, "v"))
	c.Settle = rapid.Bool().Draw(t, "settle")
	c.SettleMut = rapid.SampledFrom(hubSettleMuts).Draw(t, "settlemut")
	tot := c.VBals[0] + c.VBals[1]
	f0 := uint64(rapid.IntRange(0, int(tot)).Draw(t, "f0"))
	c.FinalV = [2]uint64{f0, tot - f0}
	c.Second = rapid.SampledFrom([]string{"", "", "none", "relabel-other", "other-imap"}).Draw(t, "second")
	return c
}

// tryState reads a channel's state without waiting for a handler that keeps
// the machine mutex (an unmatched funding proposal does so for 10 s by design).
func tryState(ch *client.Channel) *channel.State {
	got := make(chan *channel.State, 1)
	go func() { got <- ch.State() }()
	select {
	case s := <-got:
		return s
	case <-time.After(60 * time.Millisecond):
		return nil
	}
}

// remap returns, per parent participant, the virtual balances mapped to it.
func remap(vb []channel.Bal, imap []channel.Index, nparts int) []*big.Int {
	out := make([]*big.Int, nparts)
	for i := range out {
		out[i] = new(big.Int)
	}
	for v, p := range imap {
		if int(p) < nparts && v < len(vb) {
			out[p].Add(out[p], vb[v])
		}
	}
	return out
}

func runHubCase(c HubCase) *h.Outcome {
	o := &h.Outcome{}
	fail := func(sig, format string, args ...any) *h.Outcome {
		o.Fail = h.Failf(sig, format, args...)
		return o
	}
	env := sim.NewEnv(nil)
	// closing waits for the hub's funding handler, which keeps an unmatched (valid)
	// proposal for the client's 10 s window: close in the background
	defer func() { go env.Close() }()
	H, err := env.NewParty("H", -1, false)
	if err != nil {
		return fail("harness", "%v", err)
	}
	M := [2]*sim.Party{}
	M[0], _ = env.NewParty("M1", -1, false) // fresh keys: the worlds of several cases overlap in time
	M[1], _ = env.NewParty("M2", -1, false)
	for _, p := range []*sim.Party{H, M[0], M[1]} {
		env.Ledger.Credit(p.Name, p.Acc.Address(), asset0, big.NewInt(1000))
	}
	open := func(prop, resp *sim.Party) ([2]*client.Channel, error) {
		got := make(chan *client.Channel, 1)
		resp.SetHandlers(func(cp client.ChannelProposal, r *client.ProposalResponder) {
			ctx, cancel := context.WithTimeout(context.Background(), sim.HangLimit)
			defer cancel()
			if lp, ok := cp.(*client.LedgerChannelProposalMsg); ok {
				ch, _ := r.Accept(ctx, lp.Accept(map[wallet.BackendID]wallet.Address{0: resp.Acc.Address()}, client.WithRandomNonce()))
				got <- ch
			}
		}, nil)
		p, e := client.NewLedgerChannelProposal(10, map[wallet.BackendID]wallet.Address{0: prop.Acc.Address()},
			sim.MakeAlloc([]uint64{asset0}, [][2]*big.Int{{big.NewInt(50), big.NewInt(50)}}),
			[]map[wallet.BackendID]wire.Address{prop.WireAddr, resp.WireAddr}, client.WithRandomNonce())
		if e != nil {
			return [2]*client.Channel{}, e
		}
		ctx, cancel := context.WithTimeout(context.Background(), sim.HangLimit)
		defer cancel()
		ch, e := prop.Client.ProposeChannel(ctx, p)
		if e != nil {
			return [2]*client.Channel{}, e
		}
		select {
		case rc := <-got:
			if rc == nil {
				return [2]*client.Channel{}, fmt.Errorf("responder failed")
			}
			return [2]*client.Channel{ch, rc}, nil
		case <-ctx.Done():
			return [2]*client.Channel{}, fmt.Errorf("responder hang")
		}
	}
	// hch[i] = H's handle of the channel with M[i]; mch[i] = M[i]'s handle
	var hch, mch [2]*client.Channel
	for i := 0; i < 2; i++ {
		if c.HProposes[i] {
			chs, e := open(H, M[i])
			if e != nil {
				return fail("harness-open", "%v", e)
			}
			hch[i], mch[i] = chs[0], chs[1]
		} else {
			chs, e := open(M[i], H)
			if e != nil {
				return fail("harness-open", "%v", e)
			}
			hch[i], mch[i] = chs[1], chs[0]
		}
	}
	// the hub's user update handler is never asked for funding proposals; ordinary updates are accepted
	H.SetHandlers(nil, func(_ *channel.State, _ client.ChannelUpdate, r *client.UpdateResponder) {
		ctx, cancel := context.WithTimeout(context.Background(), sim.HangLimit)
		defer cancel()
		_ = r.Accept(ctx)
	})
	for i := 0; i < c.Honest; i++ {
		ctx, cancel := context.WithTimeout(context.Background(), sim.HangLimit)
		err := mch[0].Update(ctx, sim.Transfer(0, int(mch[0].Idx()), big.NewInt(int64(1+i)), false))
		cancel()
		if err != nil {
			return fail("harness-update", "%v", err)
		}
	}
	env.Quiesce(10*time.Millisecond, sim.HangLimit)

	// ---- the virtual channel between M1 and M2 (both keys belong to the adversary)
	vparams := channel.NewParamsUnsafe(10, []map[wallet.BackendID]wallet.Address{{0: M[0].Acc.Address()}, {0: M[1].Acc.Address()}},
		channel.NoApp(), big.NewInt(777000+int64(c.V)), false, true, channel.ZeroAux)
	mkV := func(b [2]uint64, version uint64, final bool) channel.SignedState {
		st := &channel.State{ID: vparams.ID(), Version: version, App: channel.NoApp(), Data: channel.NoData(), IsFinal: final,
			Allocation: *sim.MakeAlloc([]uint64{asset0}, [][2]*big.Int{{bal(b[0]), bal(b[1])}})}
		return channel.SignedState{Params: vparams, State: st, Sigs: []wallet.Sig{M[0].SignState(st), M[1].SignState(st)}}
	}
	v0 := mkV(c.VBals, 0, false)
	vtotal := bal(c.VBals[0] + c.VBals[1])
	type expect struct {
		cur   *channel.State
		vbals []channel.Bal
		imap  []channel.Index
		kind  string
	}
	expected := map[string]expect{} // by encoding of the proposed parent state
	near := 0
	sendFunding := func(i int, mut string) {
		cur := hch[i].State()
		hI, mI := int(hch[i].Idx()), int(mch[i].Idx())
		// virtual participant i is M[i] itself, the other one is fronted by the hub
		imap := make([]channel.Index, 2)
		imap[i], imap[1-i] = channel.Index(mI), channel.Index(hI)
		s := cur.Clone()
		s.Version++
		own, other := bal(c.VBals[i]), bal(c.VBals[1-i])
		s.Balances[0][mI] = new(big.Int).Sub(s.Balances[0][mI], own)
		s.Balances[0][hI] = new(big.Int).Sub(s.Balances[0][hI], other)
		sa := channel.NewSubAlloc(vparams.ID(), []channel.Bal{new(big.Int).Set(vtotal)}, imap)
		one := big.NewInt(int64(c.V))
		ok := true
		switch mut {
		case "hub-pays-extra": // the hub additionally pays the adversary
			s.Balances[0][hI] = new(big.Int).Sub(s.Balances[0][hI], one)
			s.Balances[0][mI] = new(big.Int).Add(s.Balances[0][mI], one)
		case "hub-pays-other-share": // the hub is debited the adversary's own share as well
			if own.Sign() == 0 {
				ok = false
			}
			s.Balances[0][hI] = new(big.Int).Sub(s.Balances[0][hI], own)
			s.Balances[0][mI] = new(big.Int).Add(s.Balances[0][mI], own)
		case "peer-pays-less":
			if own.Sign() == 0 {
				ok = false
			}
			s.Balances[0][mI] = new(big.Int).Add(s.Balances[0][mI], big.NewInt(1))
			s.Balances[0][hI] = new(big.Int).Sub(s.Balances[0][hI], big.NewInt(1))
		case "amount+1":
			sa.Bals[0] = new(big.Int).Add(sa.Bals[0], big.NewInt(1))
			s.Balances[0][hI] = new(big.Int).Sub(s.Balances[0][hI], big.NewInt(1))
		case "other-locked-added":
			var id channel.ID
			id[0] = 0xEF
			s.Balances[0][hI] = new(big.Int).Sub(s.Balances[0][hI], big.NewInt(1))
			s.Locked = append(s.Locked, *channel.NewSubAlloc(id, []channel.Bal{big.NewInt(1)}, nil))
		case "imap-swapped":
			imap[0], imap[1] = imap[1], imap[0]
			sa.IndexMap = imap
		case "imap-both-hub":
			// an index map that is not injective: both participants of the virtual
			// channel are mapped to the hub, which is debited the whole amount
			imap[0], imap[1] = channel.Index(hI), channel.Index(hI)
			sa.IndexMap = imap
			s.Balances[0][mI] = new(big.Int).Set(cur.Balances[0][mI])
			s.Balances[0][hI] = new(big.Int).Sub(cur.Balances[0][hI], vtotal)
		case "imap-swapped-consistent":
			// a proposal that is consistent in itself - index map swapped AND the
			// debits made according to the swapped map: the hub would front the
			// endpoint's own share here, and the same participant again in the
			// other ledger channel
			if own.Cmp(other) == 0 {
				ok = false
			}
			imap[0], imap[1] = imap[1], imap[0]
			sa.IndexMap = imap
			s.Balances[0][mI] = new(big.Int).Sub(cur.Balances[0][mI], other)
			s.Balances[0][hI] = new(big.Int).Sub(cur.Balances[0][hI], own)
		}
		for _, b := range s.Balances[0] {
			if b.Sign() < 0 {
				ok = false
			}
		}
		if !ok {
			o.Class("hub:variant-inapplicable")
			mut = "none"
			return
		}
		s.AddSubAlloc(*sa)
		if mut != "none" {
			near++
		}
		expected[enc(s)] = expect{cur: cur, vbals: v0.State.Balances[0], imap: imap, kind: "vcfund:" + mut}
		msg := &client.VirtualChannelFundingProposalMsg{
			ChannelUpdateMsg: client.ChannelUpdateMsg{ChannelUpdate: client.ChannelUpdate{State: s, ActorIdx: channel.Index(mI)}, Sig: M[i].SignState(s)},
			Initial:          v0, IndexMap: imap}
		_ = M[i].Inject(H, msg)
	}
	o.Class("hub:fund:" + c.Mut)
	for i := 0; i < 2; i++ {
		m := "none"
		if i == c.MutOn {
			m = c.Mut
		}
		sendFunding(i, m)
	}
	env.Quiesce(40*time.Millisecond, sim.HangLimit)

	// ---- oracle: what did the hub sign on its two ledger channels?
	var secondID channel.ID         // id of the second virtual channel once its funding was proposed
	finals := [][2]uint64{c.FinalV} // final states of the virtual channel the adversary's two keys have signed
	judgeAll := func() *h.Failure {
		settledWith := [2]map[int]bool{}
		fundedWith := [2]map[int]bool{} // virtual participants the hub fronts in ledger channel i
		for i := 0; i < 2; i++ {
			id := hch[i].ID()
			hI, mI := hch[i].Idx(), mch[i].Idx()
			for _, e := range H.Rec.Events() {
				if e.Kind != "sigadded" || e.Chan != id || e.SigIdx != hI || e.Staged.State == nil || e.Cur.State == nil || e.Staged.State.Version == 0 {
					continue
				}
				cur, next := e.Cur.State, e.Staged.State
				var peerSig wallet.Sig
				if int(mI) < len(e.Staged.Sigs) {
					peerSig = e.Staged.Sigs[mI]
				}
				if ok, err := channel.Verify(M[i].Acc.Address(), next, peerSig); err != nil || !ok {
					return h.Failf("hub-countersigned-unsafe:peer-signature", "the hub signed a state that does not carry the peer's signature")
				}
				if why := validSuccessor(cur, next, 2); why != "" {
					return h.Failf("hub-countersigned-unsafe:successor", "the hub signed an invalid successor: %s", why)
				}
				removed, added, same := lockedDiff(cur.Locked, next.Locked)
				ex, crafted := expected[enc(next)]
				kind := "honest-history"
				if crafted {
					kind = ex.kind
				}
				switch {
				case !same:
					return h.Failf("hub-countersigned-unsafe:"+kind, "the hub signed an update that edits a locked sub-allocation")
				case len(added) == 0 && len(removed) == 0:
					continue
				case len(added) == 1 && len(removed) == 0:
					x := added[0]
					if x.ID == secondID && secondID != (channel.ID{}) {
						// the second virtual channel: balances (1,1)
						w2 := remap([]channel.Bal{bal(1), bal(1)}, x.IndexMap, 2)
						for p := 0; p < 2; p++ {
							if d := new(big.Int).Sub(cur.Balances[0][p], next.Balances[0][p]); d.Cmp(w2[p]) != 0 {
								return h.Failf("hub-countersigned-unsafe:"+kind, "funding of the second virtual channel on ledger channel %d changes participant %d's balance by %v instead of %v", i, p, d, w2[p])
							}
						}
						if x.Bals[0].Cmp(bal(2)) != 0 {
							return h.Failf("hub-countersigned-unsafe:"+kind, "the funding sub-allocation of the second virtual channel does not lock its total")
						}
						continue
					}
					if x.ID != vparams.ID() {
						return h.Failf("hub-countersigned-unsafe:"+kind, "the hub signed the funding of a channel it does not take part in")
					}
					want := remap(v0.State.Balances[0], x.IndexMap, 2)
					sum := new(big.Int)
					for p := 0; p < 2; p++ {
						sum.Add(sum, want[p])
						if d := new(big.Int).Sub(cur.Balances[0][p], next.Balances[0][p]); d.Cmp(want[p]) != 0 {
							return h.Failf("hub-countersigned-unsafe:"+kind, "virtual channel funding on ledger channel %d changes participant %d's balance by %v, its (remapped) balance in the funded channel is %v", i, p, d, want[p])
						}
					}
					if x.Bals[0].Cmp(sum) != 0 || sum.Cmp(vtotal) != 0 {
						return h.Failf("hub-countersigned-unsafe:"+kind, "the funding sub-allocation does not lock the virtual channel's total")
					}
					fronted := map[int]bool{}
					for v, p := range x.IndexMap {
						if p == hI {
							fronted[v] = true
						}
					}
					fundedWith[i] = fronted
				case len(removed) == 1 && len(added) == 0:
					// the settled channel has ONE final state: the update must credit the
					// remapped balances of a final state the channel's participants signed,
					// and both parents must be settled with the same one
					x := removed[0]
					match := map[int]bool{}
					var firstWant []*big.Int
					for fi, fv := range finals {
						want := remap([]channel.Bal{bal(fv[0]), bal(fv[1])}, x.IndexMap, 2)
						if fi == 0 {
							firstWant = want
						}
						all := true
						for p := 0; p < 2; p++ {
							if d := new(big.Int).Sub(next.Balances[0][p], cur.Balances[0][p]); d.Cmp(want[p]) != 0 {
								all = false
							}
						}
						if all {
							match[fi] = true
						}
					}
					if len(match) == 0 {
						for p := 0; p < 2; p++ {
							if d := new(big.Int).Sub(next.Balances[0][p], cur.Balances[0][p]); d.Cmp(firstWant[p]) != 0 {
								return h.Failf("hub-countersigned-unsafe:"+kind, "virtual channel settlement on ledger channel %d changes participant %d's balance by %v, its (remapped) final balance is %v", i, p, d, firstWant[p])
							}
						}
					}
					settledWith[i] = match
				default:
					return h.Failf("hub-countersigned-unsafe:"+kind, "the hub signed an update that adds/removes several sub-allocations")
				}
			}
		}
		if fundedWith[0] != nil && fundedWith[1] != nil {
			// in each of its two ledger channels the hub stands in for the participant
			// at the far end.  It pays participant v's share once per ledger channel
			// in which it stands in for v and gets v's final balance back as often: if
			// it stands in for v more often than for the other participant and v has
			// funds in the channel, a final state that moves them to the other
			// participant costs the hub that share.
			cnt := [2]int{}
			for v := 0; v < 2; v++ {
				for i := 0; i < 2; i++ {
					if fundedWith[i][v] {
						cnt[v]++
					}
				}
			}
			for v := 0; v < 2; v++ {
				if cnt[v] > cnt[1-v] && v0.State.Balances[0][v].Sign() > 0 {
					return h.Failf("hub-countersigned-unsafe:vcfund:hub-fronts-participant-twice-or-never", "the hub signed the funding of one virtual channel on its two ledger channels with index maps under which it stands in for participant %d (share %v) in %d of them and for the other participant in %d: a final state that moves participant %d's share to the other one costs the hub that share", v, v0.State.Balances[0][v], cnt[v], cnt[1-v], v)
				}
			}
		}
		if settledWith[0] != nil && settledWith[1] != nil {
			common := false
			for fi := range settledWith[0] {
				if settledWith[1][fi] {
					common = true
				}
			}
			if !common {
				return h.Failf("hub-countersigned-unsafe:vcsettle:different-finals", "the hub signed the settlement of one virtual channel on its two ledger channels with two different final states: it pays out %v and %v", finals[0], finals[len(finals)-1])
			}
		}
		return nil
	}
	if f := judgeAll(); f != nil {
		o.Fail = f
		return o
	}
	funded := 0
	for i := 0; i < 2; i++ {
		if st := tryState(hch[i]); st != nil {
			if _, ok := st.SubAlloc(vparams.ID()); ok {
				funded++
			}
		}
	}
	if funded == 2 {
		o.Class("hub:virtual-channel-funded")
	}
	// ---- a second virtual channel through the same ledger channels
	if c.Second != "" && funded == 2 {
		o.Class("hub:second-virtual-channel:" + c.Second)
		vparams2 := channel.NewParamsUnsafe(10, []map[wallet.BackendID]wallet.Address{{0: M[0].Acc.Address()}, {0: M[1].Acc.Address()}},
			channel.NoApp(), big.NewInt(999000+int64(c.V)), false, true, channel.ZeroAux)
		st2 := &channel.State{ID: vparams2.ID(), Version: 0, App: channel.NoApp(), Data: channel.NoData(),
			Allocation: *sim.MakeAlloc([]uint64{asset0}, [][2]*big.Int{{bal(1), bal(1)}})}
		v02 := channel.SignedState{Params: vparams2, State: st2, Sigs: []wallet.Sig{M[0].SignState(st2), M[1].SignState(st2)}}
		for i := 0; i < 2; i++ {
			cur := tryState(hch[i])
			if cur == nil {
				break
			}
			hI, mI := int(hch[i].Idx()), int(mch[i].Idx())
			imap := make([]channel.Index, 2)
			imap[i], imap[1-i] = channel.Index(mI), channel.Index(hI)
			s := cur.Clone()
			s.Version++
			s.Balances[0][mI] = new(big.Int).Sub(s.Balances[0][mI], bal(1))
			s.Balances[0][hI] = new(big.Int).Sub(s.Balances[0][hI], bal(1))
			if s.Balances[0][mI].Sign() < 0 || s.Balances[0][hI].Sign() < 0 {
				break
			}
			mut := "none"
			if i == c.MutOn {
				mut = c.Second
			}
			switch mut {
			case "relabel-other":
				for k := range s.Locked {
					if s.Locked[k].ID == vparams.ID() {
						s.Locked[k].ID[3] ^= 0x10
					}
				}
			case "other-imap":
				for k := range s.Locked {
					if s.Locked[k].ID == vparams.ID() && len(s.Locked[k].IndexMap) == 2 {
						im := append([]channel.Index(nil), s.Locked[k].IndexMap...)
						im[0], im[1] = im[1], im[0]
						s.Locked[k].IndexMap = im
					}
				}
			}
			s.Locked = append(s.Locked, *channel.NewSubAlloc(vparams2.ID(), []channel.Bal{bal(2)}, imap))
			if mut != "none" {
				near++
			}
			expected[enc(s)] = expect{cur: cur, kind: "vcfund2:" + mut}
			_ = M[i].Inject(H, &client.VirtualChannelFundingProposalMsg{
				ChannelUpdateMsg: client.ChannelUpdateMsg{ChannelUpdate: client.ChannelUpdate{State: s, ActorIdx: channel.Index(mI)}, Sig: M[i].SignState(s)},
				Initial:          v02, IndexMap: imap})
		}
		env.Quiesce(40*time.Millisecond, sim.HangLimit)
		secondID = vparams2.ID()
		if f := judgeAll(); f != nil {
			o.Fail = f
			return o
		}
	}
	// ---- settlement proposals
	if c.Settle && funded == 2 {
		o.Class("hub:settle:" + c.SettleMut)
		fin := mkV(c.FinalV, 1, true)
		for i := 0; i < 2; i++ {
			mut := "none"
			if i == c.MutOn {
				mut = c.SettleMut
			}
			cur := tryState(hch[i])
			if cur == nil {
				// a handler of the hub still keeps this channel (an unmatched proposal
				// is kept for 10 s): no settlement in this case
				o.Class("hub:settle-skipped-channel-busy")
				break
			}
			hI, mI := int(hch[i].Idx()), int(mch[i].Idx())
			sa, _ := cur.SubAlloc(vparams.ID())
			useFin := fin
			if mut == "other-final" {
				// the two endpoints collude: this parent is settled with another final
				// state (validly signed by both of them, consistent parent update)
				f2 := [2]uint64{c.FinalV[1], c.FinalV[0]}
				if f2 == c.FinalV {
					if f2[0] > 0 {
						f2 = [2]uint64{f2[0] - 1, f2[1] + 1}
					} else {
						mut = "none"
					}
				}
				if mut == "other-final" {
					finals = append(finals, f2)
					useFin = mkV(f2, 1, true)
				}
			}
			gain := remap(useFin.State.Balances[0], sa.IndexMap, 2)
			s := cur.Clone()
			s.Version++
			s.Balances[0][0] = new(big.Int).Add(s.Balances[0][0], gain[0])
			s.Balances[0][1] = new(big.Int).Add(s.Balances[0][1], gain[1])
			remove := true
			ok := true
			switch mut {
			case "hub-gets-less":
				if gain[hI].Sign() == 0 {
					ok = false
				}
				s.Balances[0][hI] = new(big.Int).Sub(s.Balances[0][hI], big.NewInt(1))
				s.Balances[0][mI] = new(big.Int).Add(s.Balances[0][mI], big.NewInt(1))
			case "peer-gets-all":
				if gain[hI].Sign() == 0 {
					ok = false
				}
				s.Balances[0][mI] = new(big.Int).Add(s.Balances[0][mI], gain[hI])
				s.Balances[0][hI] = new(big.Int).Sub(s.Balances[0][hI], gain[hI])
			case "keep-suballoc":
				remove = false
			case "relabel-other-locked", "other-locked-imap":
				// correct for the settled channel, but the locked entry of the SECOND
				// virtual channel is edited in the same update
				found := false
				for k := range s.Locked {
					if s.Locked[k].ID == secondID && secondID != (channel.ID{}) {
						found = true
						if mut == "relabel-other-locked" {
							s.Locked[k].ID[7] ^= 0x08
						} else if len(s.Locked[k].IndexMap) == 2 {
							im := append([]channel.Index(nil), s.Locked[k].IndexMap...)
							im[0], im[1] = im[1], im[0]
							s.Locked[k].IndexMap = im
						}
					}
				}
				if !found {
					ok = false
				}
			}
			if !ok {
				mut = "none"
				s = cur.Clone()
				s.Version++
				s.Balances[0][0] = new(big.Int).Add(s.Balances[0][0], gain[0])
				s.Balances[0][1] = new(big.Int).Add(s.Balances[0][1], gain[1])
			}
			if remove {
				_ = s.RemoveSubAlloc(sa)
			}
			if mut != "none" {
				near++
			}
			expected[enc(s)] = expect{cur: cur, kind: "vcsettle:" + mut}
			msg := &client.VirtualChannelSettlementProposalMsg{
				ChannelUpdateMsg: client.ChannelUpdateMsg{ChannelUpdate: client.ChannelUpdate{State: s, ActorIdx: channel.Index(mI)}, Sig: M[i].SignState(s)},
				Final:            useFin}
			_ = M[i].Inject(H, msg)
		}
		env.Quiesce(40*time.Millisecond, sim.HangLimit)
		if f := judgeAll(); f != nil {
			o.Fail = f
			return o
		}
		settled := 0
		for i := 0; i < 2; i++ {
			if st := tryState(hch[i]); st != nil {
				if _, ok := st.SubAlloc(vparams.ID()); !ok {
					settled++
				}
			}
		}
		if settled == 2 {
			o.Class("hub:virtual-channel-settled")
		}
	}
	o.Nontrivial = near > 0
	return o
}

const hubRule = "the honest client H is the hub of a virtual channel between two identities M1, M2 of the adversary, each with a ledger channel to H (either side proposer).  The adversary builds the virtual channel (parameters, version 0 and a final version 1 signed by both of its keys) and sends the two virtual channel funding proposals, one of them mutated (hub pays an extra amount to the peer / the peer's own share / one unit of it, sub-allocation one unit too large, a second foreign sub-allocation, index map swapped), and - if the channel got funded - the two settlement proposals, one of them mutated (hub gets one unit less, peer gets the hub's share, sub-allocation kept).  H answers matching proposals automatically.  Oracle: every signature of H on the two ledger channels (SigAdded(own index) at its persister) must be over a valid successor carrying the peer's signature that either leaves the locked funds alone, or adds exactly the sub-allocation of that virtual channel locking its total and debits every participant exactly its balance in the funded channel as remapped by the sub-allocation's index map, or removes exactly it and credits every participant its remapped final balance.  non-trivial = the case contains a mutated proposal"

func TestHubFunding(t *testing.T) {
	rec := h.Begin("C07", "hub")
	rec.SetRule(hubRule, "the adversary controls both endpoints of the virtual channel; an invalid or unmatched proposal keeps the hub's channel for the client's 10 s window, which the check does not wait for (one-directional oracle: a missing acceptance is never an alarm)")
	defer rec.Flush()
	rapid.Check(t, func(rt *rapid.T) {
		c := drawHubCase(rt)
		rec.MarkCurrent(c)
		rec.Report(rt, c, runHubCase(c))
	})
}
