// Package c07: a client never countersigns an update that is unsafe for it
// (DESIGN.md §3 C07).
package c07

import (
	"bytes"
	"context"
	"fmt"
	"math/big"
	"os"
	"testing"
	"time"

	"pgregory.net/rapid"

	simchannel "perun.network/go-perun/backend/sim/channel"
	"perun.network/go-perun/channel"
	"perun.network/go-perun/client"
	"perun.network/go-perun/wallet"
	"perun.network/go-perun/wire"

	"verif/gen"
	"verif/h"
	"verif/sim"
)

func TestMain(m *testing.M) {
	gen.Setup()
	code := m.Run()
	h.FlushAll()
	os.Exit(code)
}

// Craft is one crafted update message: an acceptable payment successor of the
// honest party's current state with one mutation.
type Craft struct {
	Kind   string `json:"kind"`
	Amount uint64 `json:"amount"`
	ToH    bool   `json:"toh"`
	I      int    `json:"i"`
	V      uint64 `json:"v"`
}

// Case: history, optional hand-made sub-channel with crafted funding and
// settlement updates, and a sequence of crafted ordinary updates.
type Case struct {
	Honest     int       `json:"honest"` // honest updates before the attack
	WithSub    bool      `json:"withsub"`
	SubBals    [2]uint64 `json:"subbals"` // by role: [adversary, honest]
	FundKind   string    `json:"fundkind"`
	PrePay     uint64    `json:"prepay"` // ordinary payment of the adversary to the honest party between the acceptance of the sub-channel proposal and the funding update
	Crafts     []Craft   `json:"crafts"`
	Settle     bool      `json:"settle"` // finalise the sub-channel and craft the settlement update
	SettleKind string    `json:"settlekind"`
	FinalBals  [2]uint64 `json:"finalbals"`        // sub-channel final balances by role (same sum as SubBals)
	MidPay     uint64    `json:"midpay,omitempty"` // ordinary payment of the adversary to the honest party between the finalisation of the sub-channel and its settlement
	App        string    `json:"app,omitempty"`    // "" = no app, "payment" = the payment app (money flows only from the actor to the others); no sub-channel then
}

var craftKinds = []string{"none", "none", "actor-honest", "actor-out-of-range", "sig-other-state", "sig-other-key", "sig-garbage", "sig-short",
	"version-same", "version+2", "wrong-id", "sum+1", "sum-1", "cols+1", "cols-1", "asset", "backend", "final", "negative",
	"locked-id", "locked-amount", "locked-imap", "locked-imap-grow", "locked-add", "locked-remove", "locked-swap-amount"}

var fundKinds = []string{"ok", "ok", "follows-agreement", "stale-base", "debit-wrong-party", "debit-split", "debit-honest-more", "extra-payment", "wrong-amount", "wrong-imap", "touch-other", "no-suballoc"}
var settleKinds = []string{"ok", "ok", "stale-base", "credit-wrong-party", "credit-split", "keep-suballoc", "remove-other", "extra-payment"}

func drawCase(t *rapid.T) Case {
	var c Case
	c.Honest = rapid.IntRange(0, 3).Draw(t, "honest")
	c.WithSub = rapid.IntRange(0, 2).Draw(t, "withsub") != 0
	c.SubBals = [2]uint64{uint64(rapid.IntRange(0, 12).Draw(t, "subM")), uint64(rapid.IntRange(0, 12).Draw(t, "subH"))}
	c.FundKind = rapid.SampledFrom(fundKinds).Draw(t, "fundkind")
	if rapid.Bool().Draw(t, "hasprepay") || c.FundKind == "stale-base" {
		c.PrePay = uint64(rapid.IntRange(1, 9).Draw(t, "prepay"))
	}
	n := rapid.IntRange(1, 6).Draw(t, "ncrafts")
	for i := 0; i < n; i++ {
		c.Crafts = append(c.Crafts, Craft{
			Kind:   rapid.SampledFrom(craftKinds).Draw(t, "kind"),
			Amount: uint64(rapid.IntRange(0, 9).Draw(t, "amount")),
			ToH:    rapid.Bool().Draw(t, "toh"),
			I:      rapid.IntRange(0, 3).Draw(t, "i"),
			V:      uint64(rapid.IntRange(1, 3).Draw(t, "v")),
		})
	}
	c.Settle = rapid.Bool().Draw(t, "settle")
	c.SettleKind = rapid.SampledFrom(settleKinds).Draw(t, "settlekind")
	tot := c.SubBals[0] + c.SubBals[1]
	fm := uint64(rapid.IntRange(0, int(tot)).Draw(t, "finalM"))
	c.FinalBals = [2]uint64{fm, tot - fm}
	if rapid.IntRange(0, 3).Draw(t, "payapp") == 0 {
		// the payment app forbids the funding of sub-channels (both balances drop)
		c.App, c.WithSub = "payment", false
	}
	if rapid.IntRange(0, 2).Draw(t, "hasmidpay") == 0 || c.SettleKind == "stale-base" {
		c.MidPay = uint64(rapid.IntRange(1, 9).Draw(t, "midpay"))
	}
	return c
}

func enc(s *channel.State) string {
	var b bytes.Buffer
	if err := s.Encode(&b); err != nil {
		// unencodable states (negative balances, ragged) are keyed by their dump
		return fmt.Sprintf("unencodable:%v:%d:%v", s.ID, s.Version, s.Allocation)
	}
	return b.String()
}

const asset0 = 100

// ---------------------------------------------------------------- acceptability predicate
// written from the property text; it does not call the library's validity functions.

func balsWellFormed(s *channel.State, nparts int) bool {
	if len(s.Balances) != len(s.Assets) || len(s.Assets) == 0 || len(s.Backends) != len(s.Assets) {
		return false
	}
	for _, row := range s.Balances {
		if len(row) != nparts {
			return false
		}
		for _, b := range row {
			if b == nil || b.Sign() < 0 {
				return false
			}
		}
	}
	for _, l := range s.Locked {
		if len(l.Bals) != len(s.Assets) {
			return false
		}
		for _, b := range l.Bals {
			if b == nil || b.Sign() < 0 {
				return false
			}
		}
	}
	return true
}

func total(s *channel.State, a int) *big.Int {
	t := new(big.Int)
	for _, b := range s.Balances[a] {
		t.Add(t, b)
	}
	for _, l := range s.Locked {
		t.Add(t, l.Bals[a])
	}
	return t
}

func sameAssets(a, b *channel.State) bool {
	if len(a.Assets) != len(b.Assets) {
		return false
	}
	for i := range a.Assets {
		x, ok1 := a.Assets[i].(*simchannel.Asset)
		y, ok2 := b.Assets[i].(*simchannel.Asset)
		if !ok1 || !ok2 || x.ID != y.ID {
			return false
		}
	}
	return true
}

// validSuccessor: the generic conditions of a regular update (no-app channel).
func validSuccessor(cur, next *channel.State, nparts int) string {
	switch {
	case next.ID != cur.ID:
		return "foreign id"
	case channel.IsNoApp(cur.App) != channel.IsNoApp(next.App) || (!channel.IsNoApp(cur.App) && !cur.App.Def().Equal(next.App.Def())):
		return "other app"
	case next.Version != cur.Version+1:
		return "not the next version"
	case cur.IsFinal:
		return "successor of a final state"
	case !balsWellFormed(next, nparts):
		return "balances not well-formed"
	case !sameAssets(cur, next):
		return "asset list changed"
	}
	for a := range cur.Assets {
		if total(cur, a).Cmp(total(next, a)) != 0 {
			return "per-asset total changed"
		}
	}
	return ""
}

func subAllocEqual(a, b channel.SubAlloc) bool {
	if a.ID != b.ID || len(a.Bals) != len(b.Bals) || len(a.IndexMap) != len(b.IndexMap) {
		return false
	}
	for i := range a.Bals {
		if a.Bals[i].Cmp(b.Bals[i]) != 0 {
			return false
		}
	}
	for i := range a.IndexMap {
		if a.IndexMap[i] != b.IndexMap[i] {
			return false
		}
	}
	return true
}

// lockedDiff returns the entries only in cur / only in next when the common
// entries are identical and in the same order; ok=false if an entry changed.
func lockedDiff(cur, next []channel.SubAlloc) (removed, added []channel.SubAlloc, ok bool) {
	inNext := map[channel.ID]channel.SubAlloc{}
	for _, l := range next {
		inNext[l.ID] = l
	}
	inCur := map[channel.ID]channel.SubAlloc{}
	for _, l := range cur {
		inCur[l.ID] = l
	}
	if len(inNext) != len(next) || len(inCur) != len(cur) {
		return nil, nil, false // duplicate ids
	}
	for _, l := range cur {
		n, found := inNext[l.ID]
		if !found {
			removed = append(removed, l)
		} else if !subAllocEqual(l, n) {
			return nil, nil, false
		}
	}
	for _, l := range next {
		if _, found := inCur[l.ID]; !found {
			added = append(added, l)
		}
	}
	return removed, added, true
}

// signedInfo is what the harness knows about a state it crafted.
type signedInfo struct {
	actor channel.Index
	kind  string
}

type world struct {
	hIdx, mIdx   channel.Index
	nparts       int
	mAddr        wallet.Address
	crafted      map[string]signedInfo // by state encoding
	ownProposals map[string]bool       // states the honest party proposed itself
	subParams    *channel.Params       // sub-channel H takes part in (hand-made), if any
	subInit      *channel.State        // its version 0
	subFinal     *channel.State        // its final state once H enabled one
	payment      bool                  // the channel runs the payment app
}

// judge decides whether a signature of the honest party over `next`, given its
// current state `cur` and the peer signature it holds, is acceptable.
func (w *world) judge(cur, next *channel.State, peerSig wallet.Sig) string {
	// signed by the channel peer over exactly the proposed state
	ok, err := channel.Verify(w.mAddr, next, peerSig)
	if err != nil || !ok {
		return "not signed by the peer over the proposed state"
	}
	if why := validSuccessor(cur, next, w.nparts); why != "" {
		return "not a valid successor: " + why
	}
	removed, added, same := lockedDiff(cur.Locked, next.Locked)
	if !same {
		return "a locked sub-allocation was edited"
	}
	switch {
	case len(removed) == 0 && len(added) == 0:
		info, known := w.crafted[enc(next)]
		if !known {
			return "" // an honest update of the adversary's own client
		}
		if info.actor != w.mIdx {
			return "ordinary update that does not name the sender as actor"
		}
		if w.payment {
			// the app's transition rule, from its documentation: money flows only
			// from the actor to the other participants
			for a := range cur.Balances {
				for p := range cur.Balances[a] {
					d := next.Balances[a][p].Cmp(cur.Balances[a][p])
					if (p == int(info.actor) && d > 0) || (p != int(info.actor) && d < 0) {
						return fmt.Sprintf("not a valid successor: the payment app forbids it (participant %d's balance of asset %d goes from %v to %v with actor %d)", p, a, cur.Balances[a][p], next.Balances[a][p], info.actor)
					}
				}
			}
		}
		return ""
	case len(added) == 1 && len(removed) == 0:
		// funding of a sub-channel the client takes part in
		x := added[0]
		if w.subParams == nil || x.ID != w.subParams.ID() {
			return "adds a sub-allocation of a channel the client does not take part in"
		}
		if len(x.IndexMap) != 0 {
			return "funding sub-allocation carries an index map"
		}
		for a := range cur.Assets {
			sum := new(big.Int)
			for p := 0; p < w.nparts; p++ {
				sum.Add(sum, w.subInit.Balances[a][p])
				want := new(big.Int).Sub(cur.Balances[a][p], w.subInit.Balances[a][p])
				if next.Balances[a][p].Cmp(want) != 0 {
					return fmt.Sprintf("funding update changes participant %d's balance by %v instead of its sub-channel balance %v", p, new(big.Int).Sub(cur.Balances[a][p], next.Balances[a][p]), w.subInit.Balances[a][p])
				}
			}
			if x.Bals[a].Cmp(sum) != 0 {
				return "funding sub-allocation amount is not the sub-channel's total"
			}
		}
		return ""
	case len(removed) == 1 && len(added) == 0:
		x := removed[0]
		if w.subParams == nil || x.ID != w.subParams.ID() || w.subFinal == nil {
			return "removes a sub-allocation of a channel the client has not settled"
		}
		for a := range cur.Assets {
			for p := 0; p < w.nparts; p++ {
				want := new(big.Int).Add(cur.Balances[a][p], w.subFinal.Balances[a][p])
				if next.Balances[a][p].Cmp(want) != 0 {
					return fmt.Sprintf("settlement update changes participant %d's balance by %v instead of its final sub-channel balance %v", p, new(big.Int).Sub(next.Balances[a][p], cur.Balances[a][p]), w.subFinal.Balances[a][p])
				}
			}
		}
		return ""
	}
	return "adds/removes more than one sub-allocation"
}

// ---------------------------------------------------------------- crafting

func bal(v uint64) *big.Int { return new(big.Int).SetUint64(v) }

// craft builds the crafted update from the honest party's current state.
func craft(cr Craft, cur *channel.State, w *world, adv *sim.Party) (*client.ChannelUpdateMsg, bool) {
	s := cur.Clone()
	s.Version++
	from, to := int(w.hIdx), int(w.mIdx)
	if cr.ToH {
		from, to = to, from
	}
	amt := bal(cr.Amount)
	if s.Balances[0][from].Cmp(amt) < 0 {
		amt = new(big.Int).Set(s.Balances[0][from])
	}
	s.Balances[0][from] = new(big.Int).Sub(s.Balances[0][from], amt)
	s.Balances[0][to] = new(big.Int).Add(s.Balances[0][to], amt)
	actor := w.mIdx
	m := int(w.mIdx)
	nl := len(s.Locked)
	var sig wallet.Sig
	switch cr.Kind {
	case "none":
	case "actor-honest":
		actor = w.hIdx
	case "actor-out-of-range":
		actor = channel.Index(2 + cr.I)
	case "sig-other-state":
		o := s.Clone()
		o.Balances[0][m] = new(big.Int).Add(o.Balances[0][m], big.NewInt(1))
		sig = adv.SignState(o)
	case "sig-other-key":
		sg, _ := channel.Sign(gen.Acc(7), s, 0)
		sig = sg
	case "sig-garbage":
		sig = bytes.Repeat([]byte{byte(0x10 + cr.I)}, 64)
	case "sig-short":
		sig = adv.SignState(s)[:63]
	case "version-same":
		s.Version = cur.Version
	case "version+2":
		s.Version = cur.Version + 2
	case "wrong-id":
		s.ID[cr.I] ^= 1
	case "sum+1":
		s.Balances[0][m] = new(big.Int).Add(s.Balances[0][m], big.NewInt(int64(cr.V)))
	case "sum-1":
		if s.Balances[0][int(w.hIdx)].Sign() == 0 {
			return nil, false
		}
		s.Balances[0][int(w.hIdx)] = new(big.Int).Sub(s.Balances[0][int(w.hIdx)], big.NewInt(1))
	case "cols+1":
		s.Balances[0] = append(s.Balances[0], big.NewInt(0))
	case "cols-1":
		s.Balances[0] = s.Balances[0][:1]
	case "asset":
		s.Assets[0] = &simchannel.Asset{ID: asset0 + cr.V}
	case "backend":
		s.Backends[0] = wallet.BackendID(cr.V)
	case "final":
		s.IsFinal = true
	case "negative":
		s.Balances[0][int(w.hIdx)] = new(big.Int).Sub(s.Balances[0][int(w.hIdx)], new(big.Int).Add(s.Balances[0][int(w.hIdx)], big.NewInt(1)))
		s.Balances[0][m] = new(big.Int).Add(s.Balances[0][m], new(big.Int).Add(cur.Balances[0][int(w.hIdx)], big.NewInt(1)))
	case "locked-id":
		if nl == 0 {
			return nil, false
		}
		s.Locked[cr.I%nl].ID[3] ^= 1
	case "locked-amount":
		if nl == 0 || s.Balances[0][int(w.hIdx)].Sign() == 0 {
			return nil, false
		}
		// move one unit from the honest party's balance into the locked amount: totals stay
		s.Locked[cr.I%nl].Bals[0] = new(big.Int).Add(s.Locked[cr.I%nl].Bals[0], big.NewInt(1))
		s.Balances[0][int(w.hIdx)] = new(big.Int).Sub(s.Balances[0][int(w.hIdx)], big.NewInt(1))
	case "locked-swap-amount":
		if nl == 0 || s.Locked[cr.I%nl].Bals[0].Sign() == 0 {
			return nil, false
		}
		// take one unit out of the locked amount for the adversary
		s.Locked[cr.I%nl].Bals[0] = new(big.Int).Sub(s.Locked[cr.I%nl].Bals[0], big.NewInt(1))
		s.Balances[0][m] = new(big.Int).Add(s.Balances[0][m], big.NewInt(1))
	case "locked-imap":
		if nl == 0 {
			return nil, false
		}
		l := &s.Locked[cr.I%nl]
		if len(l.IndexMap) == 0 {
			l.IndexMap = []channel.Index{channel.Index(w.mIdx), channel.Index(w.mIdx)}
		} else {
			l.IndexMap[0] ^= 1
		}
	case "locked-imap-grow":
		if nl == 0 {
			return nil, false
		}
		l := &s.Locked[cr.I%nl]
		l.IndexMap = append(append([]channel.Index{}, l.IndexMap...), channel.Index(cr.V))
	case "locked-add":
		if s.Balances[0][int(w.hIdx)].Sign() == 0 {
			return nil, false
		}
		var id channel.ID
		id[0], id[1] = 0xAD, byte(cr.I)
		s.Balances[0][int(w.hIdx)] = new(big.Int).Sub(s.Balances[0][int(w.hIdx)], big.NewInt(1))
		s.Locked = append(s.Locked, *channel.NewSubAlloc(id, []channel.Bal{big.NewInt(1)}, nil))
	case "locked-remove":
		if nl == 0 {
			return nil, false
		}
		k := cr.I % nl
		s.Balances[0][m] = new(big.Int).Add(s.Balances[0][m], s.Locked[k].Bals[0])
		s.Locked = append(s.Locked[:k:k], s.Locked[k+1:]...)
	default:
		panic("unknown craft kind " + cr.Kind)
	}
	if sig == nil {
		sig = signOrGarbage(adv, s)
	}
	w.crafted[enc(s)] = signedInfo{actor: actor, kind: cr.Kind}
	return &client.ChannelUpdateMsg{ChannelUpdate: client.ChannelUpdate{State: s, ActorIdx: actor}, Sig: sig}, true
}

// signOrGarbage signs s with the adversary's key; states that cannot be
// encoded (negative or ragged balances) cannot be signed and get a dummy.
func signOrGarbage(adv *sim.Party, s *channel.State) wallet.Sig {
	var b bytes.Buffer
	if err := s.Encode(&b); err != nil {
		return bytes.Repeat([]byte{7}, 64)
	}
	return adv.SignState(s)
}

// ---------------------------------------------------------------- the run

func runCase(c Case) *h.Outcome {
	o := &h.Outcome{}
	fail := func(sig, format string, args ...any) *h.Outcome {
		o.Fail = h.Failf(sig, format, args...)
		return o
	}
	// the adversary is party 0 and proposes the ledger channel (only participant 0
	// of the parent can propose sub-channels)
	const M, H = 0, 1
	pr, err := sim.NewPair(nil, 0, 1, false)
	if err != nil {
		return fail("harness", "creating parties: %v", err)
	}
	defer pr.Env.Close()
	L := pr.Env.Ledger
	for i := 0; i < 2; i++ {
		L.Credit(pr.P[i].Name, pr.P[i].Acc.Address(), asset0, big.NewInt(1000))
	}
	var app channel.App
	var appData channel.Data
	if c.App == "payment" {
		def := make([]byte, 64)
		def[0] = gen.PaymentDefByte
		app, appData = gen.AppSpec{Kind: "payment", Def: gen.HexOf(def)}.Build(), channel.NoData()
		o.Class("app:payment")
	}
	if err := pr.Open(M, []uint64{asset0}, [][2]*big.Int{{big.NewInt(50), big.NewInt(50)}}, nil, 10, app, appData); err != nil {
		return fail("harness-open", "honest opening failed: %v", err)
	}
	hch, mch := pr.Ch[H], pr.Ch[M]
	adv, hon := pr.P[M], pr.P[H]
	w := &world{hIdx: hch.Idx(), mIdx: mch.Idx(), nparts: 2, mAddr: adv.Acc.Address(), crafted: map[string]signedInfo{}, ownProposals: map[string]bool{}, payment: c.App == "payment"}
	for i := 0; i < c.Honest; i++ {
		by := i % 2
		tr := sim.Transfer(0, sim.Idx(pr.Ch[by]), big.NewInt(int64(1+i)), false)
		if err := pr.Update(by, pr.Ch[by], func(s *channel.State) {
			tr(s)
			if by == H {
				own := s.Clone()
				own.Version++
				w.ownProposals[enc(own)] = true
			}
		}, true); err != nil {
			return fail("harness-update", "honest update failed: %v", err)
		}
	}
	pr.Env.Quiesce(10*time.Millisecond, sim.HangLimit)
	ledgerID := hch.ID()
	short := 1500 * time.Millisecond
	// the honest party's user handler accepts everything it is asked
	hon.SetHandlers(nil, func(_ *channel.State, _ client.ChannelUpdate, r *client.UpdateResponder) {
		ctx, cancel := context.WithTimeout(context.Background(), sim.HangLimit)
		defer cancel()
		_ = r.Accept(ctx)
	})
	send := func(msg wire.Msg) {
		_ = adv.Inject(hon, msg)
		pr.Env.Quiesce(12*time.Millisecond, sim.HangLimit)
	}
	near := 0

	// ---- hand-made sub-channel with a crafted funding update
	var hs *sim.HandSub
	var subAccepted <-chan error
	if c.WithSub {
		o.Class("sub:fund:" + c.FundKind)
		subAccepted = hon.AcceptSubProposals(short)
		cur := hch.State()
		sb := [2]uint64{c.SubBals[0], c.SubBals[1]}
		if cur.Balances[0][w.mIdx].Cmp(bal(sb[0])) < 0 {
			sb[0] = 0
		}
		if cur.Balances[0][w.hIdx].Cmp(bal(sb[1])) < 0 {
			sb[1] = 0
		}
		pb := [][2]*big.Int{{nil, nil}}
		pb[0][w.mIdx], pb[0][w.hIdx] = bal(sb[0]), bal(sb[1])
		init := sim.MakeAlloc([]uint64{asset0}, pb)
		var agreement channel.Balances
		if c.FundKind == "follows-agreement" && sb[0] > 0 {
			// a hand-written proposal whose funding agreement (same sum) makes the
			// honest party pay the adversary's share too; the funding update then
			// follows the agreement instead of the balances of the sub-channel
			agreement = channel.Balances{{nil, nil}}
			agreement[0][w.mIdx], agreement[0][w.hIdx] = bal(0), bal(sb[0]+sb[1])
		}
		hs, err = adv.HandOpenSub(hon, mch, init, 10, short, func(p *client.SubChannelProposalMsg) {
			if agreement != nil {
				p.FundingAgreement = agreement.Clone()
			}
		})
		if err != nil && agreement != nil {
			// the honest party may refuse such a proposal outright: nothing to sign then
			o.Class("sub:proposal-with-other-funding-agreement-refused")
			agreement, err = nil, nil
			hs, err = adv.HandOpenSub(hon, mch, init, 10, short)
		}
		if err != nil {
			return fail("harness-handsub", "hand-made sub-channel opening failed: %v", err)
		}
		w.subParams, w.subInit = hs.Params, hs.V0.State
		// optionally the parent moves on between the acceptance of the proposal and
		// the funding: the adversary pays the honest party (an ordinary, acceptable update)
		stale := hch.State()
		if c.PrePay > 0 {
			if msg, ok := craft(Craft{Kind: "none", Amount: c.PrePay, ToH: true}, stale, w, adv); ok {
				send(msg)
				o.Class("sub:parent-update-before-funding")
			}
		}
		// the crafted funding update on the parent
		cur = hch.State()
		s := cur.Clone()
		s.Version++
		mI, hI := int(w.mIdx), int(w.hIdx)
		debit := func(p int, v *big.Int) { s.Balances[0][p] = new(big.Int).Sub(s.Balances[0][p], v) }
		total := new(big.Int).Add(bal(sb[0]), bal(sb[1]))
		sa := channel.NewSubAlloc(hs.Params.ID(), []channel.Bal{new(big.Int).Set(total)}, nil)
		ok := true
		switch c.FundKind {
		case "ok":
			debit(mI, bal(sb[0]))
			debit(hI, bal(sb[1]))
		case "follows-agreement": // debits as the proposal's funding agreement says, not as the sub-channel's balances
			if agreement == nil || s.Balances[0][hI].Cmp(total) < 0 {
				ok = false
			}
			debit(hI, total)
		case "stale-base": // funding computed from the parent state before the intermediate payment: rolls it back
			if stale.Version == cur.Version {
				ok = false
			}
			s.Balances = stale.Balances.Clone()
			debit(mI, bal(sb[0]))
			debit(hI, bal(sb[1]))
		case "debit-wrong-party": // the honest party pays everything
			if s.Balances[0][hI].Cmp(total) < 0 || sb[0] == 0 {
				ok = false
			}
			debit(hI, total)
		case "debit-split": // one unit of the adversary's share is taken from the honest party
			if sb[0] == 0 || s.Balances[0][hI].Cmp(bal(sb[1]+1)) < 0 {
				ok = false
			}
			debit(mI, bal(sb[0]-min64(sb[0], 1)))
			debit(hI, bal(sb[1]+min64(sb[0], 1)))
		case "debit-honest-more": // both pay their share, the honest party additionally pays the adversary
			if s.Balances[0][hI].Cmp(bal(sb[1]+1)) < 0 {
				ok = false
			}
			debit(mI, bal(sb[0]))
			debit(hI, bal(sb[1]+1))
			s.Balances[0][mI] = new(big.Int).Add(s.Balances[0][mI], big.NewInt(1))
		case "extra-payment": // like debit-honest-more but two units
			if s.Balances[0][hI].Cmp(bal(sb[1]+2)) < 0 {
				ok = false
			}
			debit(mI, bal(sb[0]))
			debit(hI, bal(sb[1]+2))
			s.Balances[0][mI] = new(big.Int).Add(s.Balances[0][mI], big.NewInt(2))
		case "wrong-amount": // sub-allocation one unit larger, taken from the honest party
			if s.Balances[0][hI].Cmp(bal(sb[1]+1)) < 0 {
				ok = false
			}
			debit(mI, bal(sb[0]))
			debit(hI, bal(sb[1]+1))
			sa.Bals[0] = new(big.Int).Add(sa.Bals[0], big.NewInt(1))
		case "wrong-imap":
			debit(mI, bal(sb[0]))
			debit(hI, bal(sb[1]))
			sa.IndexMap = []channel.Index{w.mIdx, w.mIdx}
		case "touch-other": // correct funding plus a second, foreign sub-allocation paid by the honest party
			if s.Balances[0][hI].Cmp(bal(sb[1]+1)) < 0 {
				ok = false
			}
			debit(mI, bal(sb[0]))
			debit(hI, bal(sb[1]+1))
			var id channel.ID
			id[0] = 0xEE
			s.Locked = append(s.Locked, *channel.NewSubAlloc(id, []channel.Bal{big.NewInt(1)}, nil))
		case "no-suballoc": // balances debited but nothing locked: totals change, must be refused
			debit(mI, bal(sb[0]))
			debit(hI, bal(sb[1]))
			sa = nil
		}
		if sa != nil {
			s.AddSubAlloc(*sa)
		}
		if ok {
			if c.FundKind != "ok" {
				near++
			}
			w.crafted[enc(s)] = signedInfo{actor: w.mIdx, kind: "fund:" + c.FundKind}
			send(&client.ChannelUpdateMsg{ChannelUpdate: client.ChannelUpdate{State: s, ActorIdx: w.mIdx}, Sig: signOrGarbage(adv, s)})
		} else {
			o.Class("sub:fund-variant-inapplicable")
		}
		// if the crafted funding was not taken, fund correctly so that the history goes on
		if _, locked := hch.State().SubAlloc(hs.Params.ID()); !locked {
			cur = hch.State()
			s2 := cur.Clone()
			s2.Version++
			s2.Balances[0][mI] = new(big.Int).Sub(s2.Balances[0][mI], bal(sb[0]))
			s2.Balances[0][hI] = new(big.Int).Sub(s2.Balances[0][hI], bal(sb[1]))
			s2.AddSubAlloc(*channel.NewSubAlloc(hs.Params.ID(), []channel.Bal{new(big.Int).Set(total)}, nil))
			w.crafted[enc(s2)] = signedInfo{actor: w.mIdx, kind: "fund:ok"}
			send(&client.ChannelUpdateMsg{ChannelUpdate: client.ChannelUpdate{State: s2, ActorIdx: w.mIdx}, Sig: adv.SignState(s2)})
		}
		select {
		case <-subAccepted:
		case <-time.After(2 * short):
		}
		if _, locked := hch.State().SubAlloc(hs.Params.ID()); locked {
			o.Class("sub:funded")
		}
	}

	// ---- crafted ordinary updates
	for _, cr := range c.Crafts {
		cur := hch.State()
		msg, ok := craft(cr, cur, w, adv)
		if !ok {
			o.Class("craft-inapplicable")
			continue
		}
		o.Class("craft:" + cr.Kind)
		if cr.Kind != "none" && cr.Kind != "final" {
			near++
		}
		send(msg)
		if hch.State().Version == msg.State.Version && cr.Kind == "none" {
			o.Class("acceptable-twin-signed")
		}
	}

	// ---- sub-channel settlement with a crafted parent update
	if c.WithSub && c.Settle && hs != nil {
		if _, locked := hch.State().SubAlloc(hs.Params.ID()); locked && !hch.State().IsFinal {
			subH := hon.Channel(hs.Params.ID())
			if subH != nil {
				o.Class("sub:settle:" + c.SettleKind)
				// final sub-channel state, proposed by the adversary (index 0 of the sub-channel)
				fs := hs.V0.State.Clone()
				fs.Version = 1
				fs.IsFinal = true
				tot := new(big.Int).Add(fs.Balances[0][0], fs.Balances[0][1])
				fm := bal(c.FinalBals[0])
				if fm.Cmp(tot) > 0 {
					fm = tot
				}
				fs.Balances[0][w.mIdx] = fm
				fs.Balances[0][w.hIdx] = new(big.Int).Sub(tot, fm)
				send(&client.ChannelUpdateMsg{ChannelUpdate: client.ChannelUpdate{State: fs, ActorIdx: w.mIdx}, Sig: adv.SignState(fs)})
				if st := subH.State(); st.IsFinal {
					w.subFinal = st.Clone()
					// optionally the parent moves on between finalisation and settlement
					staleP := hch.State()
					if c.MidPay > 0 {
						if msg, ok := craft(Craft{Kind: "none", Amount: c.MidPay, ToH: true}, staleP, w, adv); ok {
							send(msg)
							o.Class("sub:parent-update-before-settlement")
						}
					}
					// the honest party settles its sub-channel: it now waits for the parent update
					settled := make(chan error, 1)
					go func() {
						ctx, cancel := context.WithTimeout(context.Background(), short)
						defer cancel()
						settled <- subH.Settle(ctx, false)
					}()
					time.Sleep(5 * time.Millisecond)
					cur := hch.State()
					s := cur.Clone()
					s.Version++
					mI, hI := int(w.mIdx), int(w.hIdx)
					credit := func(p int, v *big.Int) { s.Balances[0][p] = new(big.Int).Add(s.Balances[0][p], v) }
					sa, _ := s.SubAlloc(hs.Params.ID())
					remove := true
					ok := true
					switch c.SettleKind {
					case "ok":
						credit(mI, st.Balances[0][mI])
						credit(hI, st.Balances[0][hI])
					case "stale-base": // settlement computed from the parent state at finalisation: rolls the payment back
						if staleP.Version == cur.Version {
							ok = false
						}
						s.Balances = staleP.Balances.Clone()
						credit(mI, st.Balances[0][mI])
						credit(hI, st.Balances[0][hI])
					case "credit-wrong-party":
						if st.Balances[0][hI].Sign() == 0 {
							ok = false
						}
						credit(mI, tot)
					case "credit-split":
						if st.Balances[0][hI].Sign() == 0 {
							ok = false
						}
						credit(mI, new(big.Int).Add(st.Balances[0][mI], big.NewInt(1)))
						credit(hI, new(big.Int).Sub(st.Balances[0][hI], big.NewInt(1)))
					case "keep-suballoc":
						remove = false
					case "remove-other":
						ok = false // needs a second locked entry; covered by the ordinary locked-remove craft
					case "extra-payment":
						if s.Balances[0][hI].Sign() == 0 {
							ok = false
						}
						credit(mI, new(big.Int).Add(st.Balances[0][mI], big.NewInt(1)))
						credit(hI, new(big.Int).Sub(st.Balances[0][hI], big.NewInt(1)))
					}
					if remove {
						_ = s.RemoveSubAlloc(sa)
					}
					if ok {
						if c.SettleKind != "ok" {
							near++
						}
						w.crafted[enc(s)] = signedInfo{actor: w.mIdx, kind: "settle:" + c.SettleKind}
						send(&client.ChannelUpdateMsg{ChannelUpdate: client.ChannelUpdate{State: s, ActorIdx: w.mIdx}, Sig: signOrGarbage(adv, s)})
					}
					select {
					case <-settled:
					case <-time.After(2 * short):
					}
				}
			}
		}
	}
	pr.Env.Quiesce(15*time.Millisecond, sim.HangLimit)

	// ---- oracle: every signature the honest party produced on the ledger channel
	signedAny := false
	for _, e := range hon.Rec.Events() {
		if e.Kind != "sigadded" || e.Chan != ledgerID || e.SigIdx != w.hIdx || e.Cur.State == nil || e.Staged.State == nil {
			continue
		}
		if e.Staged.State.Version == 0 || w.ownProposals[enc(e.Staged.State)] {
			continue // the initial state, or an update the honest party proposed itself (it signs first)
		}
		signedAny = true
		var peerSig wallet.Sig
		if int(w.mIdx) < len(e.Staged.Sigs) {
			peerSig = e.Staged.Sigs[w.mIdx]
		}
		if why := w.judge(e.Cur.State, e.Staged.State, peerSig); why != "" {
			kind := "honest-history"
			if info, ok := w.crafted[enc(e.Staged.State)]; ok {
				kind = info.kind
			}
			return fail("countersigned-unsafe:"+kind, "the honest client signed version %d of its channel although the update is unsafe: %s", e.Staged.State.Version, why)
		}
	}
	if signedAny {
		o.Class("honest-party-signed-something")
	}
	o.Nontrivial = near > 0
	return o
}

func min64(a, b uint64) uint64 {
	if a < b {
		return a
	}
	return b
}

const rule = "an honest client H (user handler accepts everything) with a ledger channel to an adversary M that holds a valid key: after 0-3 honest updates M optionally opens a sub-channel by hand (raw proposal, parameters recomputed by the harness, own version-0 signature) and sends a crafted parent funding update (optionally after a further ordinary parent update; correct / computed from the stale parent state / debits the wrong party / shifts one unit / extra payment / wrong amount / index map / second foreign sub-allocation / nothing locked), then 1-6 crafted ordinary updates, each an acceptable successor of H's current state with one mutation from a 25-kind alphabet (actor, four signature faults, version, id, sums, dimensions, asset, backend, final, negative, and seven edits of locked sub-allocations with compensated totals), then optionally finalises the sub-channel and (optionally after a further ordinary parent update) sends a crafted settlement update while H's Settle waits for it (correct / computed from the stale parent state / credits the wrong party / shifts one unit / keeps the sub-allocation / extra payment). Oracle (one-directional): every SigAdded(own index) event of H's persister on the ledger channel is judged by an independent acceptability predicate written from the property text (peer signature over exactly that state, valid successor of H's current state at that moment, sender as actor and locked entries untouched for ordinary updates; for the one sub-channel H takes part in: exactly its sub-allocation added/removed and every participant's balance changed by exactly its balance in the funded/settled sub-channel). non-trivial = the case contains at least one near-miss message"

func TestCountersign(t *testing.T) {
	rec := h.Begin("C07", "")
	rec.SetRule(rule,
		"virtual channel funding/settlement proposals are not crafted by this check (see DESIGN.md); messages are delivered without a serializer so that values no encoder produces (negative balances, ragged rows) reach the client's validation too",
		"a missing acceptance is never an alarm; silence after a crafted message is awaited by bus/persister quiescence")
	defer rec.Flush()
	rapid.Check(t, func(rt *rapid.T) {
		c := drawCase(rt)
		rec.MarkCurrent(c)
		rec.Report(rt, c, runCase(c))
	})
}

func TestReplay(t *testing.T) {
	p := h.ReplayPath()
	if p == "" {
		t.Skip("no replay requested")
	}
	var c Case
	if err := h.LoadReplay(p, &c); err != nil {
		t.Fatal(err)
	}
	rec := h.Begin("C07", "replay")
	if h.ReplayPart(p) == "settle2" {
		var sc S2Case
		if err := h.LoadReplay(p, &sc); err != nil {
			t.Fatal(err)
		}
		o := runS2Case(sc)
		fmt.Println("classes:", o.Classes)
		rec.Report(t, sc, o)
		return
	}
	if h.ReplayPart(p) == "hub" {
		var hc HubCase
		if err := h.LoadReplay(p, &hc); err != nil {
			t.Fatal(err)
		}
		o := runHubCase(hc)
		fmt.Println("classes:", o.Classes)
		rec.Report(t, hc, o)
		return
	}
	o := runCase(c)
	fmt.Println("classes:", o.Classes)
	rec.Report(t, c, o)
}
