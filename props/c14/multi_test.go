package c14

// Third part of C14: wallet address maps with entries for two backends.  The
// pinned tree registers one wallet backend (id 0), so the other parts only see
// 1-entry participant maps, for which the order of writing cannot matter.  This
// part registers - in its own test process - a second wallet backend under id 1
// (sim addresses under another backend id) and round-trips 2-entry maps and
// lists of them.  Regression check for F19 in wallet/address.go; added after
// seeded change C14-6.

import (
	"bytes"
	"crypto/sha256"
	"fmt"
	"io"
	"math/big"
	"os"
	"strings"
	"testing"

	"pgregory.net/rapid"

	simchannel "perun.network/go-perun/backend/sim/channel"
	simwallet "perun.network/go-perun/backend/sim/wallet"
	simwire "perun.network/go-perun/backend/sim/wire"
	"perun.network/go-perun/channel"
	"perun.network/go-perun/client"
	"perun.network/go-perun/wallet"
	"perun.network/go-perun/wire"
	"perun.network/go-perun/wire/perunio"
	perunser "perun.network/go-perun/wire/perunio/serializer"
	"perun.network/go-perun/wire/protobuf"

	"verif/h"
)

const backend2 wallet.BackendID = 1

type addr2 struct{ *simwallet.Address }

func (a *addr2) BackendID() wallet.BackendID { return backend2 }
func (a *addr2) Equal(b wallet.Address) bool {
	o, ok := b.(*addr2)
	return ok && a.Address.Equal(o.Address)
}

type walletBackend2 struct{ *simwallet.Backend }

func (walletBackend2) NewAddress() wallet.Address { return &addr2{&simwallet.Address{}} }

// channelBackend2 is a second channel backend (only NewAsset matters here:
// assets of backend 1 are sim assets too).
type channelBackend2 struct{}

func (channelBackend2) CalcID(*channel.Params) (channel.ID, error) { return channel.ID{}, io.EOF }
func (channelBackend2) Sign(wallet.Account, *channel.State) (wallet.Sig, error) {
	return nil, io.EOF
}
func (channelBackend2) Verify(wallet.Address, *channel.State, wallet.Sig) (bool, error) {
	return false, io.EOF
}
func (channelBackend2) NewAsset() channel.Asset          { return &simchannel.Asset{} }
func (channelBackend2) NewAppID() (channel.AppID, error) { return nil, io.EOF }

func registerSecondWalletBackend() {
	wallet.SetBackend(walletBackend2{new(simwallet.Backend)}, int(backend2))
	channel.SetBackend(channelBackend2{}, int(backend2))
}

func multiBackendProcess() bool {
	for _, a := range os.Args {
		if strings.Contains(a, "TestWalletMapsMulti") {
			return true
		}
	}
	if p := h.ReplayPath(); p != "" && h.ReplayPart(p) == "multi" {
		return true
	}
	return false
}

// MultiMapCase: a list of participant maps; A0/A1 are address seeds (0 = no entry).
type MultiMapCase struct {
	Parts [][2]uint64 `json:"parts"`
	// AssetBackends: backend id (0 or 1) of every asset of an allocation that is
	// round-tripped through both envelope serializers inside a channel update
	AssetBackends []int `json:"asset_backends,omitempty"`
}

func drawMultiMapCase(t *rapid.T) MultiMapCase {
	var c MultiMapCase
	n := rapid.IntRange(1, 5).Draw(t, "n")
	for i := 0; i < n; i++ {
		var p [2]uint64
		switch rapid.IntRange(0, 3).Draw(t, "entries") {
		case 0:
			p[0] = rapid.Uint64Range(1, 1<<40).Draw(t, "a0")
		case 1:
			p[1] = rapid.Uint64Range(1, 1<<40).Draw(t, "a1")
		default:
			p[0], p[1] = rapid.Uint64Range(1, 1<<40).Draw(t, "a0"), rapid.Uint64Range(1, 1<<40).Draw(t, "a1")
		}
		c.Parts = append(c.Parts, p)
	}
	c.AssetBackends = rapid.SliceOfN(rapid.IntRange(0, 1), 1, 4).Draw(t, "asset_backends")
	return c
}

func simAddr(seed uint64) *simwallet.Address {
	s1 := sha256.Sum256([]byte(fmt.Sprintf("verif c14 multi-backend address %d", seed)))
	s2 := sha256.Sum256(s1[:])
	a := &simwallet.Address{}
	if err := a.UnmarshalBinary(append(s1[:], s2[:]...)); err != nil {
		panic("harness: sim address: " + err.Error())
	}
	return a
}

func (c MultiMapCase) maps() []map[wallet.BackendID]wallet.Address {
	out := make([]map[wallet.BackendID]wallet.Address, len(c.Parts))
	for i, p := range c.Parts {
		m := map[wallet.BackendID]wallet.Address{}
		if p[0] != 0 {
			m[0] = simAddr(p[0])
		}
		if p[1] != 0 {
			m[backend2] = &addr2{simAddr(p[1])}
		}
		out[i] = m
	}
	return out
}

func sameMaps(a, b []map[wallet.BackendID]wallet.Address) bool {
	if len(a) != len(b) {
		return false
	}
	for i := range a {
		if len(a[i]) != len(b[i]) {
			return false
		}
		for k, x := range a[i] {
			y, ok := b[i][k]
			if !ok || !x.Equal(y) || y.BackendID() != k {
				return false
			}
		}
	}
	return true
}

func runMultiMapCase(c MultiMapCase) *h.Outcome {
	o := &h.Outcome{}
	two := 0
	for _, p := range c.Parts {
		if p[0] != 0 && p[1] != 0 {
			two++
		}
	}
	o.Nontrivial = two > 0
	mixed := false
	for _, b := range c.AssetBackends {
		if b != c.AssetBackends[0] {
			mixed = true
		}
	}
	o.Nontrivial = o.Nontrivial || mixed
	o.Fail = h.Guard(func() *h.Failure {
		if f := allocRoundTrip(c); f != nil {
			return f
		}
		var first []byte
		for k := 0; k < 24; k++ {
			ms := c.maps() // fresh maps: another iteration order
			var b bytes.Buffer
			if err := perunio.Encode(&b, wallet.AddressMapArray{Addr: ms}); err != nil {
				return h.Failf("multi:encode-error", "AddressMapArray.Encode: %v", err)
			}
			if k == 0 {
				first = append([]byte(nil), b.Bytes()...)
			} else if !bytes.Equal(first, b.Bytes()) {
				return h.Failf("multi:encoding-not-deterministic", "two encodings of the same list of participant maps differ (repetition %d, %d maps with two backends)", k, two)
			}
			tail := []byte{0xAB, 0xCD}
			r := bytes.NewReader(append(append([]byte(nil), b.Bytes()...), tail...))
			var dec wallet.AddressMapArray
			if err := perunio.Decode(r, &dec); err != nil {
				return h.Failf("multi:decode-error", "the list does not decode from its own encoding: %v", err)
			}
			if r.Len() != len(tail) {
				return h.Failf("multi:consumption", "decoding consumed %d bytes, the encoding has %d", b.Len()+len(tail)-r.Len(), b.Len())
			}
			if !sameMaps(ms, dec.Addr) {
				return h.Failf("multi:roundtrip-value", "the decoded list of participant maps differs from the encoded one")
			}
			var re bytes.Buffer
			if err := perunio.Encode(&re, dec); err != nil || !bytes.Equal(re.Bytes(), b.Bytes()) {
				return h.Failf("multi:encoding-stable", "re-encoding the decoded list does not reproduce the bytes it was decoded from (err=%v)", err)
			}
			// each map on its own
			for i, m := range ms {
				var mb bytes.Buffer
				if err := perunio.Encode(&mb, wallet.AddressDecMap(m)); err != nil {
					return h.Failf("multi:encode-error", "AddressDecMap.Encode: %v", err)
				}
				var dm wallet.AddressDecMap
				if err := perunio.Decode(bytes.NewReader(mb.Bytes()), &dm); err != nil {
					return h.Failf("multi:decode-error", "map %d does not decode from its own encoding: %v", i, err)
				}
				var rm bytes.Buffer
				if err := perunio.Encode(&rm, dm); err != nil || !bytes.Equal(rm.Bytes(), mb.Bytes()) {
					return h.Failf("multi:encoding-stable", "re-encoding decoded map %d does not reproduce its bytes (err=%v)", i, err)
				}
			}
		}
		return nil
	})
	return o
}

const multiMapRule = "lists of 1-5 participant address maps with an entry under backend 0, backend 1 or both (a second wallet backend is registered under id 1 in this test process). 24 times over, with freshly built maps: the native encoding is the same each time, decodes to an equal list consuming exactly its bytes, and re-encodes to the same bytes; likewise every map on its own. non-trivial = at least one map has entries for both backends"

func TestWalletMapsMulti(t *testing.T) {
	rec := h.Begin("C14", "multi")
	rec.SetRule(multiMapRule, "the second backend is the harness' own (sim addresses with backend id 1)")
	defer rec.Flush()
	rapid.Check(t, func(rt *rapid.T) {
		c := drawMultiMapCase(rt)
		rec.Report(rt, c, runMultiMapCase(c))
	})
}

// allocRoundTrip sends a state whose assets sit on the given backends through
// both envelope serializers.
func allocRoundTrip(c MultiMapCase) *h.Failure {
	if len(c.AssetBackends) == 0 {
		return nil
	}
	al := channel.Allocation{Locked: []channel.SubAlloc{}}
	for i, b := range c.AssetBackends {
		al.Assets = append(al.Assets, &simchannel.Asset{ID: uint64(100 + i)})
		al.Backends = append(al.Backends, wallet.BackendID(b))
		al.Balances = append(al.Balances, []channel.Bal{big.NewInt(int64(3 + i)), big.NewInt(int64(5 + 2*i))})
	}
	st := &channel.State{Version: 4, App: channel.NoApp(), Data: channel.NoData(), Allocation: al}
	st.ID[0] = 0xC4
	msg := &client.ChannelUpdateMsg{ChannelUpdate: client.ChannelUpdate{State: st, ActorIdx: 1}, Sig: bytes.Repeat([]byte{7}, 64)}
	env := &wire.Envelope{Sender: map[wallet.BackendID]wire.Address{0: simwire.NewAddress()}, Recipient: map[wallet.BackendID]wire.Address{0: simwire.NewAddress()}, Msg: msg}
	for _, ser := range []struct {
		name string
		s    wire.EnvelopeSerializer
	}{{"native", perunser.Serializer()}, {"protobuf", protobuf.Serializer()}} {
		var b bytes.Buffer
		if err := ser.s.Encode(&b, env); err != nil {
			return h.Failf("multi:alloc-encode-error:"+ser.name, "a state whose assets sit on backends %v is not encodable: %v", c.AssetBackends, err)
		}
		d, err := ser.s.Decode(&b)
		if err != nil {
			return h.Failf("multi:alloc-decode-error:"+ser.name, "a state whose assets sit on backends %v does not decode from its own encoding: %v", c.AssetBackends, err)
		}
		got, ok := d.Msg.(*client.ChannelUpdateMsg)
		if !ok || got.State == nil {
			return h.Failf("multi:alloc-roundtrip:"+ser.name, "decoded message is %T", d.Msg)
		}
		if err := st.Equal(got.State); err != nil {
			return h.Failf("multi:alloc-roundtrip:"+ser.name, "a state whose assets sit on backends %v comes back different (backends %v): %v", c.AssetBackends, got.State.Backends, err)
		}
	}
	return nil
}
