// Package c14: encoding then decoding returns an equal value and consumes
// exactly its bytes; native and protobuf serializers agree (DESIGN.md §3 C14).
package c14

import (
	"bytes"
	"fmt"
	"io"
	"math/big"
	"os"
	"testing"

	"pgregory.net/rapid"

	"perun.network/go-perun/channel"
	"perun.network/go-perun/wallet"
	"perun.network/go-perun/wire"
	"perun.network/go-perun/wire/perunio"
	perunser "perun.network/go-perun/wire/perunio/serializer"
	"perun.network/go-perun/wire/protobuf"

	"verif/gen"
	"verif/h"
)

func TestMain(m *testing.M) {
	gen.Setup()
	if multiBackendProcess() {
		registerSecondWalletBackend()
	}
	code := m.Run()
	h.FlushAll()
	os.Exit(code)
}

// ---------------------------------------------------------------- envelopes

// EnvCase is a sequence of well-formed envelopes plus a tail of foreign bytes.
type EnvCase struct {
	Envs []gen.EnvSpec `json:"envs"`
	Tail gen.Hex       `json:"tail"`
}

func drawEnvCase(t *rapid.T) EnvCase {
	var c EnvCase
	n := []int{1, 1, 1, 2, 3}[rapid.IntRange(0, 4).Draw(t, "nenvs")]
	for i := 0; i < n; i++ {
		c.Envs = append(c.Envs, gen.GenEnv("").Draw(t, "env"))
	}
	c.Tail = gen.HexOf(rapid.SliceOfN(rapid.Byte(), 0, 12).Draw(t, "tail"))
	return c
}

func nontrivialState(s *gen.StateSpec) bool {
	if s == nil {
		return false
	}
	a := s.Alloc
	if len(a.Locked) > 0 || len(a.Assets) > 1 || (len(a.Bals) > 0 && len(a.Bals[0]) > 2) || s.App.Kind == "mock" {
		return true
	}
	return false
}

func nontrivialMsg(m gen.MsgSpec) bool {
	if nontrivialState(m.State) || nontrivialState(m.VState) {
		return true
	}
	if m.Prop != nil {
		st := gen.StateSpec{Alloc: m.Prop.InitBals, App: m.Prop.App}
		if nontrivialState(&st) {
			return true
		}
	}
	partial := func(s []gen.SigSpec) bool {
		has, hasnot := false, false
		for _, x := range s {
			if x == "" {
				hasnot = true
			} else {
				has = true
			}
		}
		return has && hasnot
	}
	return partial(m.VSigs) || partial(m.TxSigs) || len(m.IndexMaps) > 0 || len(m.IndexMap) > 0
}

func runEnvCase(c EnvCase) *h.Outcome {
	o := &h.Outcome{}
	for _, e := range c.Envs {
		o.Class("type:" + e.Msg.Type)
		if nontrivialMsg(e.Msg) || len(e.Sender) > 1 || len(e.Recipient) > 1 {
			o.Nontrivial = true
		}
		if len(e.Sender) > 1 || len(e.Recipient) > 1 {
			o.Class("multi-entry-wire-map")
		}
	}
	if len(c.Envs) > 1 {
		o.Class("concatenated")
	}
	o.Fail = h.Guard(func() *h.Failure {
		nat, pb := perunser.Serializer(), protobuf.Serializer()
		tail := c.Tail.Bytes()
		// ---- native: encode all, concatenate, decode one after the other
		var stream bytes.Buffer
		encs := make([][]byte, len(c.Envs))
		for i, es := range c.Envs {
			var b bytes.Buffer
			if err := nat.Encode(&b, es.Build()); err != nil {
				return h.Failf("native-encode-error", "well-formed %s envelope is not encodable: %v", es.Msg.Type, err)
			}
			// encoding is a function of the value: a second encoding of an equal value is identical
			var b2 bytes.Buffer
			if err := nat.Encode(&b2, es.Build()); err != nil || !bytes.Equal(b.Bytes(), b2.Bytes()) {
				return h.Failf("native-encoding-not-deterministic", "two encodings of the same %s envelope differ (err=%v)", es.Msg.Type, err)
			}
			encs[i] = b.Bytes()
			stream.Write(b.Bytes())
		}
		stream.Write(tail)
		r := bytes.NewReader(stream.Bytes())
		for i, es := range c.Envs {
			before := r.Len()
			env, err := nat.Decode(r)
			if err != nil {
				return h.Failf("native-decode-error", "envelope %d (%s) does not decode from its own encoding: %v", i, es.Msg.Type, err)
			}
			if used := before - r.Len(); used != len(encs[i]) {
				return h.Failf("native-consumption", "envelope %d (%s): decoder consumed %d bytes, encoding has %d", i, es.Msg.Type, used, len(encs[i]))
			}
			want, got := h.Canon(es.Norm()), h.Canon(gen.UnEnv(env))
			if !bytes.Equal(want, got) {
				return h.Failf("native-roundtrip-value", "envelope %d (%s) changed in the native round trip:\n want %s\n got  %s", i, es.Msg.Type, want, got)
			}
			var re bytes.Buffer
			if err := nat.Encode(&re, env); err != nil {
				return h.Failf("native-reencode-error", "decoded %s envelope is not encodable: %v", es.Msg.Type, err)
			}
			if !bytes.Equal(re.Bytes(), encs[i]) {
				return h.Failf("native-encoding-stable", "re-encoding the decoded %s envelope does not reproduce the bytes it was decoded from", es.Msg.Type)
			}
		}
		rest, _ := io.ReadAll(r)
		if !bytes.Equal(rest, tail) {
			return h.Failf("native-tail", "bytes after the last envelope were touched: %x vs %x", rest, tail)
		}
		// ---- protobuf
		var pstream bytes.Buffer
		pencs := make([]int, len(c.Envs))
		for i, es := range c.Envs {
			if es.Msg.Type == "ChannelSync" && es.Msg.NilTx {
				// the protobuf schema has no representation of an empty transaction; unspecified
				o.Class("unspecified:pb-sync-without-state")
				return nil
			}
			var b bytes.Buffer
			if err := pb.Encode(&b, es.Build()); err != nil {
				// the protobuf frame length is a uint16: large envelopes are refused by
				// design.  Recognised by the error text or, independent of it, by size
				// (the protobuf form of an envelope is well below four times its native form)
				if b.Len() == 0 && (isTooLarge(err) || len(encs[i]) > 16<<10) {
					o.Class("pb-frame-too-large")
					return nil
				}
				return h.Failf("pb-encode-error", "well-formed %s envelope is not encodable with protobuf: %v", es.Msg.Type, err)
			}
			pencs[i] = b.Len()
			pstream.Write(b.Bytes())
		}
		pstream.Write(tail)
		pr := bytes.NewReader(pstream.Bytes())
		for i, es := range c.Envs {
			before := pr.Len()
			env, err := pb.Decode(pr)
			if err != nil {
				return h.Failf("pb-decode-error", "envelope %d (%s) does not decode from its own protobuf encoding: %v", i, es.Msg.Type, err)
			}
			if used := before - pr.Len(); used != pencs[i] {
				return h.Failf("pb-consumption", "envelope %d (%s): protobuf decoder consumed %d bytes, frame has %d", i, es.Msg.Type, used, pencs[i])
			}
			want, got := h.Canon(es.Norm()), h.Canon(gen.UnEnv(env))
			if !bytes.Equal(want, got) {
				return h.Failf("pb-roundtrip-value", "envelope %d (%s) changed in the protobuf round trip (so the serializers disagree):\n want %s\n got  %s", i, es.Msg.Type, want, got)
			}
		}
		prest, _ := io.ReadAll(pr)
		if !bytes.Equal(prest, tail) {
			return h.Failf("pb-tail", "bytes after the last protobuf frame were touched")
		}
		return nil
	})
	return o
}

func isTooLarge(err error) bool {
	return err != nil && bytes.Contains([]byte(err.Error()), []byte("out of bounds"))
}

// ---------------------------------------------------------------- values

// ValCase is one serialisable value of a named kind.
type ValCase struct {
	Kind   string          `json:"kind"`
	State  *gen.StateSpec  `json:"state,omitempty"`
	Params *gen.ParamsSpec `json:"params,omitempty"`
	Sigs   []gen.SigSpec   `json:"sigs,omitempty"`
	NilTx  bool            `json:"niltx,omitempty"`
	Wire   []gen.WireMap   `json:"wire,omitempty"`
	Wallet []gen.WalletMap `json:"wallet,omitempty"`
	Big    gen.Big         `json:"big,omitempty"`
	Str    string          `json:"str,omitempty"`
	Msg    *gen.MsgSpec    `json:"msg,omitempty"`
	Tail   gen.Hex         `json:"tail"`
	// kind "atlimit": an allocation with exactly (or one below) the documented
	// maximum of assets, participants or locked entries
	Lim string `json:"lim,omitempty"`
	N   int    `json:"n,omitempty"`
}

var valKinds = []string{"state", "allocation", "balances", "suballoc", "params", "transaction",
	"wiremap", "wiremaparray", "walletmap", "walletmaparray", "bigint", "string", "msg", "sparsesigs", "atlimit"}

func drawValCase(t *rapid.T) ValCase {
	c := ValCase{Kind: rapid.SampledFrom(valKinds).Draw(t, "kind")}
	c.Tail = gen.HexOf(rapid.SliceOfN(rapid.Byte(), 0, 12).Draw(t, "tail"))
	switch c.Kind {
	case "state", "allocation", "balances", "suballoc":
		s := gen.GenState(gen.AllocOpts{MaxLocked: 3, MaxAssets: 6, MinAssets: 1}).Draw(t, "state")
		c.State = &s
	case "transaction":
		if rapid.IntRange(0, 9).Draw(t, "niltx") == 0 {
			c.NilTx = true
		} else {
			s := gen.GenState(gen.AllocOpts{MaxLocked: 3}).Draw(t, "state")
			c.State = &s
			c.Sigs = gen.GenSigs(len(s.Alloc.Bals[0])).Draw(t, "sigs")
		}
	case "sparsesigs":
		c.Sigs = gen.GenSigs(rapid.IntRange(1, 20).Draw(t, "nsigs")).Draw(t, "sigs") // a channel has at least one participant
	case "params":
		p := gen.GenParams(0).Draw(t, "params")
		c.Params = &p
	case "wiremap":
		c.Wire = []gen.WireMap{gen.GenWireMap().Draw(t, "wm")}
	case "wiremaparray":
		n := rapid.IntRange(0, 4).Draw(t, "n")
		c.Wire = make([]gen.WireMap, n)
		for i := range c.Wire {
			c.Wire[i] = gen.GenWireMap().Draw(t, "wm")
		}
	case "walletmap":
		c.Wallet = []gen.WalletMap{gen.GenWalletMap().Draw(t, "wm")}
	case "walletmaparray":
		n := rapid.IntRange(0, 4).Draw(t, "n")
		c.Wallet = make([]gen.WalletMap, n)
		for i := range c.Wallet {
			c.Wallet[i] = gen.GenWalletMap().Draw(t, "wm")
		}
	case "atlimit":
		c.Lim = rapid.SampledFrom([]string{"assets", "parts", "locked"}).Draw(t, "lim")
		c.N = map[string]int{"assets": channel.MaxNumAssets, "parts": channel.MaxNumParts, "locked": channel.MaxNumSubAllocations}[c.Lim] - rapid.IntRange(0, 1).Draw(t, "below")
	case "bigint":
		c.Big = gen.GenBal().Draw(t, "big")
	case "string":
		c.Str = rapid.StringN(0, 300, 1200).Draw(t, "str")
	case "msg":
		m := gen.GenMsg("").Draw(t, "msg")
		c.Msg = &m
	}
	return c
}

// roundTrip encodes v, decodes into fresh (with tail appended) and returns
// (encoding, re-encoding of the decoded value, failure).
func roundTrip(kind string, encode func(io.Writer) error, decode func(io.Reader) error, reencode func(io.Writer) error, tail []byte) ([]byte, *h.Failure) {
	var b bytes.Buffer
	if err := encode(&b); err != nil {
		return nil, h.Failf("encode-error:"+kind, "well-formed value is not encodable: %v", err)
	}
	e := append([]byte{}, b.Bytes()...)
	var b2 bytes.Buffer
	if err := encode(&b2); err != nil || !bytes.Equal(e, b2.Bytes()) {
		return nil, h.Failf("encoding-not-deterministic:"+kind, "two encodings of the same value differ (err=%v)", err)
	}
	r := bytes.NewReader(append(append([]byte{}, e...), tail...))
	if err := decode(r); err != nil {
		return nil, h.Failf("decode-error:"+kind, "value does not decode from its own encoding: %v", err)
	}
	if r.Len() != len(tail) {
		return nil, h.Failf("consumption:"+kind, "decoder consumed %d bytes, encoding has %d", len(e)+len(tail)-r.Len(), len(e))
	}
	var re bytes.Buffer
	if err := reencode(&re); err != nil {
		return nil, h.Failf("reencode-error:"+kind, "decoded value is not encodable: %v", err)
	}
	if !bytes.Equal(re.Bytes(), e) {
		return nil, h.Failf("encoding-stable:"+kind, "re-encoding the decoded value does not reproduce the bytes it was decoded from:\n enc %x\n re  %x", e, re.Bytes())
	}
	return e, nil
}

func same(kind string, want, got any) *h.Failure {
	w, g := h.Canon(want), h.Canon(got)
	if !bytes.Equal(w, g) {
		return h.Failf("roundtrip-value:"+kind, "value changed in the round trip:\n want %s\n got  %s", w, g)
	}
	return nil
}

func runValCase(c ValCase) *h.Outcome {
	o := &h.Outcome{}
	o.Class("kind:" + c.Kind)
	tail := c.Tail.Bytes()
	o.Fail = h.Guard(func() *h.Failure {
		switch c.Kind {
		case "state":
			o.Nontrivial = nontrivialState(c.State)
			v := c.State.Build()
			var d channel.State
			if _, f := roundTrip(c.Kind, v.Encode, d.Decode, func(w io.Writer) error { return d.Encode(w) }, tail); f != nil {
				return f
			}
			if err := v.Equal(&d); err != nil {
				return h.Failf("equal-after-roundtrip:state", "decoded state is not Equal to the original: %v", err)
			}
			return same(c.Kind, c.State.Norm(), gen.UnState(&d).Norm())
		case "atlimit":
			o.Nontrivial = true
			o.Class(fmt.Sprintf("atlimit:%s:%d", c.Lim, c.N))
			nAssets, nParts, nLocked := 1, 2, 0
			switch c.Lim {
			case "assets":
				nAssets = c.N
			case "parts":
				nParts = c.N
			case "locked":
				nLocked = c.N
			}
			a := gen.AllocSpec{Locked: []gen.SubAllocSpec{}}
			for i := 0; i < nAssets; i++ {
				a.Assets = append(a.Assets, uint64(i+1))
				a.Backends = append(a.Backends, 0)
				row := make([]gen.Big, nParts)
				for p := range row {
					row[p] = gen.BigU(uint64(i + p + 1))
				}
				a.Bals = append(a.Bals, row)
			}
			v := a.Build()
			for i := 0; i < nLocked; i++ {
				var id channel.ID
				id[0], id[1], id[2] = 0xA7, byte(i>>8), byte(i)
				bals := make([]channel.Bal, nAssets)
				for k := range bals {
					bals[k] = big.NewInt(int64(i%7 + 1))
				}
				v.Locked = append(v.Locked, *channel.NewSubAlloc(id, bals, nil))
			}
			if err := v.Valid(); err != nil {
				return h.Failf("atlimit-invalid", "an allocation with %d %s (the documented maximum is %d) is not valid: %v", c.N, c.Lim, c.N+(1024-c.N), err)
			}
			var d channel.Allocation
			if _, f := roundTrip("allocation-at-limit:"+c.Lim, v.Encode, d.Decode, func(w io.Writer) error { return d.Encode(w) }, tail); f != nil {
				return f
			}
			if err := v.Equal(&d); err != nil {
				return h.Failf("equal-after-roundtrip:allocation-at-limit", "decoded allocation (%d %s) is not Equal to the original: %v", c.N, c.Lim, err)
			}
			var db channel.Balances
			if _, f := roundTrip("balances-at-limit:"+c.Lim, v.Balances.Encode, db.Decode, func(w io.Writer) error { return db.Encode(w) }, tail); f != nil {
				return f
			}
			if !v.Balances.Equal(db) {
				return h.Failf("equal-after-roundtrip:balances-at-limit", "decoded balances (%d %s) are not Equal to the original", c.N, c.Lim)
			}
			return nil
		case "allocation":
			o.Nontrivial = nontrivialState(c.State)
			v := c.State.Alloc.Build()
			var d channel.Allocation
			if _, f := roundTrip(c.Kind, v.Encode, d.Decode, func(w io.Writer) error { return d.Encode(w) }, tail); f != nil {
				return f
			}
			if err := v.Equal(&d); err != nil {
				return h.Failf("equal-after-roundtrip:allocation", "decoded allocation is not Equal to the original: %v", err)
			}
			return same(c.Kind, c.State.Alloc.Norm(), gen.UnAlloc(&d).Norm())
		case "balances":
			o.Nontrivial = len(c.State.Alloc.Bals) > 1 || len(c.State.Alloc.Bals[0]) > 2
			v := c.State.Alloc.Build().Balances
			var d channel.Balances
			if _, f := roundTrip(c.Kind, v.Encode, d.Decode, func(w io.Writer) error { return d.Encode(w) }, tail); f != nil {
				return f
			}
			if !v.Equal(d) {
				return h.Failf("equal-after-roundtrip:balances", "decoded balances are not Equal to the original")
			}
			return same(c.Kind, gen.UnBalances(v), gen.UnBalances(d))
		case "suballoc":
			if len(c.State.Alloc.Locked) == 0 {
				o.Class("no-suballoc")
				return nil
			}
			for _, l := range c.State.Alloc.Locked {
				o.Nontrivial = o.Nontrivial || len(l.IndexMap) > 0
				v := l.Build()
				var d channel.SubAlloc
				if _, f := roundTrip(c.Kind, v.Encode, d.Decode, func(w io.Writer) error { return d.Encode(w) }, tail); f != nil {
					return f
				}
				if err := v.Equal(&d); err != nil {
					return h.Failf("equal-after-roundtrip:suballoc", "decoded sub-allocation is not Equal to the original: %v", err)
				}
				if f := same(c.Kind, gen.UnSubAlloc(v), gen.UnSubAlloc(d)); f != nil {
					return f
				}
			}
			return nil
		case "params":
			o.Nontrivial = len(c.Params.Parts) > 2 || c.Params.App.Kind != "none" || c.Params.Aux != ""
			v := c.Params.Build()
			var d channel.Params
			if _, f := roundTrip(c.Kind, v.Encode, d.Decode, func(w io.Writer) error { return d.Encode(w) }, tail); f != nil {
				return f
			}
			if v.ID() != d.ID() {
				return h.Failf("id-after-roundtrip:params", "decoded parameters have another channel id")
			}
			return same(c.Kind, *c.Params, gen.UnParams(&d))
		case "transaction":
			var v channel.Transaction
			if !c.NilTx {
				v = channel.Transaction{State: c.State.Build(), Sigs: gen.BuildSigs(c.Sigs)}
				o.Nontrivial = nontrivialState(c.State) || partial(c.Sigs)
			} else {
				o.Class("empty-transaction")
			}
			var d channel.Transaction
			if _, f := roundTrip(c.Kind, v.Encode, d.Decode, func(w io.Writer) error { return d.Encode(w) }, tail); f != nil {
				return f
			}
			if c.NilTx {
				if d.State != nil {
					return h.Failf("roundtrip-value:transaction", "empty transaction decoded with a state")
				}
				return nil
			}
			if f := same(c.Kind, c.State.Norm(), gen.UnState(d.State).Norm()); f != nil {
				return f
			}
			return same(c.Kind+"-sigs", c.Sigs, gen.UnSigs(d.Sigs))
		case "sparsesigs":
			o.Nontrivial = partial(c.Sigs)
			v := gen.BuildSigs(c.Sigs)
			d := make([]wallet.Sig, len(v))
			if _, f := roundTrip(c.Kind,
				func(w io.Writer) error { return wallet.EncodeSparseSigs(w, v) },
				func(r io.Reader) error { return wallet.DecodeSparseSigs(r, &d) },
				func(w io.Writer) error { return wallet.EncodeSparseSigs(w, d) }, tail); f != nil {
				return f
			}
			return same(c.Kind, c.Sigs, gen.UnSigs(d))
		case "wiremap":
			o.Nontrivial = len(c.Wire[0]) > 1
			v := wire.AddressDecMap(c.Wire[0].Build())
			var d wire.AddressDecMap
			if _, f := roundTrip(c.Kind, v.Encode, d.Decode, func(w io.Writer) error { return d.Encode(w) }, tail); f != nil {
				return f
			}
			return same(c.Kind, c.Wire[0], gen.UnWireMap(d))
		case "wiremaparray":
			v := make(wire.AddressMapArray, len(c.Wire))
			for i, m := range c.Wire {
				v[i] = m.Build()
				o.Nontrivial = o.Nontrivial || len(m) > 1
			}
			var d wire.AddressMapArray
			if _, f := roundTrip(c.Kind, v.Encode, d.Decode, func(w io.Writer) error { return d.Encode(w) }, tail); f != nil {
				return f
			}
			got := make([]gen.WireMap, len(d))
			for i := range d {
				got[i] = gen.UnWireMap(d[i])
			}
			return same(c.Kind, c.Wire, got)
		case "walletmap":
			v := wallet.AddressDecMap(c.Wallet[0].Build())
			var d wallet.AddressDecMap
			if _, f := roundTrip(c.Kind, v.Encode, d.Decode, func(w io.Writer) error { return d.Encode(w) }, tail); f != nil {
				return f
			}
			o.Nontrivial = len(c.Wallet[0]) > 0
			return same(c.Kind, c.Wallet[0], gen.UnWalletMap(d))
		case "walletmaparray":
			v := wallet.AddressMapArray{Addr: make([]map[wallet.BackendID]wallet.Address, len(c.Wallet))}
			for i, m := range c.Wallet {
				v.Addr[i] = m.Build()
			}
			o.Nontrivial = len(c.Wallet) > 1
			var d wallet.AddressMapArray
			if _, f := roundTrip(c.Kind, v.Encode, d.Decode, func(w io.Writer) error { return d.Encode(w) }, tail); f != nil {
				return f
			}
			got := make([]gen.WalletMap, len(d.Addr))
			for i := range d.Addr {
				got[i] = gen.UnWalletMap(d.Addr[i])
			}
			return same(c.Kind, c.Wallet, got)
		case "bigint":
			v := c.Big.Int()
			o.Nontrivial = v.BitLen() > 64
			d := perunio.BigInt{}
			if _, f := roundTrip(c.Kind, perunio.BigInt{Int: v}.Encode, d.Decode, func(w io.Writer) error { return d.Encode(w) }, tail); f != nil {
				return f
			}
			if d.Cmp(v) != 0 {
				return h.Failf("roundtrip-value:bigint", "%v became %v", v, d.Int)
			}
			return nil
		case "string":
			o.Nontrivial = len(c.Str) > 255
			var d string
			if _, f := roundTrip(c.Kind,
				func(w io.Writer) error { return perunio.Encode(w, c.Str) },
				func(r io.Reader) error { return perunio.Decode(r, &d) },
				func(w io.Writer) error { return perunio.Encode(w, d) }, tail); f != nil {
				return f
			}
			if d != c.Str {
				return h.Failf("roundtrip-value:string", "string changed")
			}
			return nil
		case "msg":
			o.Class("msgtype:" + c.Msg.Type)
			o.Nontrivial = nontrivialMsg(*c.Msg)
			v := c.Msg.Build()
			var d wire.Msg
			if _, f := roundTrip("msg:"+c.Msg.Type,
				func(w io.Writer) error { return wire.EncodeMsg(v, w) },
				func(r io.Reader) (err error) { d, err = wire.DecodeMsg(r); return err },
				func(w io.Writer) error { return wire.EncodeMsg(d, w) }, tail); f != nil {
				return f
			}
			if d.Type() != v.Type() {
				return h.Failf("roundtrip-value:msgtype", "message type changed from %v to %v", v.Type(), d.Type())
			}
			return same("msg:"+c.Msg.Type, c.Msg.Norm(), gen.UnMsg(d))
		}
		return h.Failf("harness", "unknown kind %s", c.Kind)
	})
	return o
}

func partial(s []gen.SigSpec) bool {
	has, hasnot := false, false
	for _, x := range s {
		if x == "" {
			hasnot = true
		} else {
			has = true
		}
	}
	return has && hasnot
}

const envRule = "1-3 well-formed envelopes of all 17 message types (generated by gen.GenEnv: states with 1-4 assets, 1-5 participants, up to 3 locked entries with nil/empty/valid/arbitrary index maps, any app, partial signature sets, wire address maps with 0-3 entries) encoded back to back plus a tail of foreign bytes; oracle: each decodes from the stream, consumes exactly its own bytes, converts back to the generating spec (independent value comparison, nil==empty), re-encodes to identical bytes (native), and the protobuf round trip yields the same spec (serializer agreement); non-trivial = a message with a locked entry, index map, >2 participants, >1 asset, app data, partial signatures or a multi-entry address map"
const valRule = "one well-formed value of {state, allocation, balances, sub-allocation, params, transaction, sparse signatures, wire/wallet address map and map array, big integer, string, each message type} plus a tail; oracle: decode(encode(v) || tail) leaves exactly the tail, equals v (type Equal where it exists, and by conversion back to the generating spec), and re-encodes to the same bytes; Kind atlimit: allocations with exactly, and one below, the documented maximum (1024) of assets, participants or locked entries. non-trivial as for envelopes"

var assumptions = []string{
	"well-formed values only: wallet address maps use the one registered backend (id 0); signatures are 64 byte strings as the sim backend produces them",
	"a ChannelSync message without a state has no protobuf representation (schema) and is checked with the native serializer only",
	"nil and empty slices / signatures are identified when comparing decoded values",
}

func TestEnvelopes(t *testing.T) {
	rec := h.Begin("C14", "envelopes")
	rec.SetRule(envRule, assumptions...)
	defer rec.Flush()
	rapid.Check(t, func(rt *rapid.T) {
		c := drawEnvCase(rt)
		rec.Report(rt, c, runEnvCase(c))
	})
}

func TestValues(t *testing.T) {
	rec := h.Begin("C14", "values")
	rec.SetRule(valRule, assumptions...)
	defer rec.Flush()
	rapid.Check(t, func(rt *rapid.T) {
		c := drawValCase(rt)
		rec.Report(rt, c, runValCase(c))
	})
}

func TestReplay(t *testing.T) {
	p := h.ReplayPath()
	if p == "" {
		t.Skip("no replay requested")
	}
	rec := h.Begin("C14", "replay")
	switch part := h.ReplayPart(p); part {
	case "multi":
		var c MultiMapCase
		if err := h.LoadReplay(p, &c); err != nil {
			t.Fatal(err)
		}
		rec.Report(t, c, runMultiMapCase(c))
	case "values":
		var c ValCase
		if err := h.LoadReplay(p, &c); err != nil {
			t.Fatal(err)
		}
		rec.Report(t, c, runValCase(c))
	case "envelopes", "":
		var c EnvCase
		if err := h.LoadReplay(p, &c); err != nil {
			t.Fatal(err)
		}
		rec.Report(t, c, runEnvCase(c))
	default:
		t.Fatal(fmt.Sprintf("unknown part %q", part))
	}
}
