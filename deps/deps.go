// Package deps pins, through blank imports, every third-party package the
// property packages use, so that go.mod/go.sum are complete and never
// rewritten by a concurrent build.
package deps

import (
	_ "github.com/pkg/errors"
	_ "github.com/stretchr/testify/require"
	_ "github.com/syndtr/goleveldb/leveldb"
	_ "golang.org/x/crypto/sha3"
	_ "golang.org/x/sync/errgroup"
	_ "google.golang.org/protobuf/proto"
	_ "perun.network/go-perun/backend/sim"
	_ "perun.network/go-perun/channel/persistence/keyvalue"
	_ "perun.network/go-perun/client"
	_ "perun.network/go-perun/client/test"
	_ "perun.network/go-perun/watcher/local"
	_ "perun.network/go-perun/wire/net/simple"
	_ "perun.network/go-perun/wire/protobuf"
	_ "pgregory.net/rapid"
	_ "polycry.pt/poly-go/sortedkv/leveldb"
	_ "polycry.pt/poly-go/sortedkv/memorydb"
	_ "polycry.pt/poly-go/sync"
	_ "polycry.pt/poly-go/test"
)
