// Package faultkv is the crash-point enumerating store of the harness
// (DESIGN.md §2.8).  DB wraps a sortedkv.Database (memorydb or LevelDB).  Every
// durable mutation that reaches the wrapped store - a successful direct
// Put/PutBytes/Delete, or a Batch.Apply (one atomic step) - is a *write
// boundary*.  After every boundary the wrapper records the operations of the
// boundary and a snapshot of the complete key space of the wrapped store, read
// back through the wrapped store's own iterator, so a single execution of a
// history yields every point at which the process could have stopped.
//
// Reads and iterators pass through unchanged.  sortedkv.NewTable(db, prefix)
// and its batches/iterators (which is all the keyvalue persister puts on top
// of the database it is given) call back into the Database they wrap with the
// full key, so wrapping the bottom-most database captures every write.
package faultkv

import (
	"fmt"
	"os"
	"sort"
	"sync"

	"polycry.pt/poly-go/sortedkv"
	"polycry.pt/poly-go/sortedkv/leveldb"
	"polycry.pt/poly-go/sortedkv/memorydb"
)

// WriteOp is one logged mutation.
type WriteOp struct {
	Delete bool
	Key    string
	Value  string
}

// Boundary is one durable step of the wrapped store.
type Boundary struct {
	Batch bool      // applied through Batch.Apply (atomic), else a direct write
	Ops   []WriteOp // in program order
	Err   error     // error returned by the wrapped store (the step still changed the store)
	snap  map[string]string
}

// DB is the recording wrapper.  It implements sortedkv.Database.
type DB struct {
	under sortedkv.Database

	mu      sync.Mutex
	initial map[string]string
	bounds  []Boundary
	cleanup func()
}

var _ sortedkv.Database = (*DB)(nil)

// Wrap starts recording on top of under.  The content under has at this moment
// is crash point 0.
func Wrap(under sortedkv.Database) *DB {
	d := &DB{under: under}
	d.initial = d.readAll()
	return d
}

// NewMemory returns a recording wrapper around a fresh memorydb.
func NewMemory() *DB { return Wrap(memorydb.NewDatabase()) }

// NewLevelDB returns a recording wrapper around a fresh LevelDB in a new
// temporary directory below parent ("" = the system temp dir).  Close removes
// the directory.
func NewLevelDB(parent string) (*DB, error) {
	if parent != "" {
		if err := os.MkdirAll(parent, 0o755); err != nil {
			return nil, err
		}
	}
	dir, err := os.MkdirTemp(parent, "faultkv-ldb-")
	if err != nil {
		return nil, err
	}
	ldb, err := leveldb.LoadDatabase(dir)
	if err != nil {
		_ = os.RemoveAll(dir)
		return nil, err
	}
	d := Wrap(ldb)
	d.cleanup = func() { _ = os.RemoveAll(dir) }
	return d, nil
}

// readAll reads the complete key space of the wrapped store through its own
// iterator.
func (d *DB) readAll() map[string]string {
	m := make(map[string]string)
	it := d.under.NewIterator()
	for it.Next() {
		m[it.Key()] = it.Value()
	}
	if err := it.Close(); err != nil {
		panic("faultkv: iterating the wrapped store: " + err.Error())
	}
	return m
}

func sameMap(a, b map[string]string) bool {
	if len(a) != len(b) {
		return false
	}
	for k, v := range a {
		if w, ok := b[k]; !ok || w != v {
			return false
		}
	}
	return true
}

// last returns the newest snapshot; d.mu must be held.
func (d *DB) last() map[string]string {
	if n := len(d.bounds); n > 0 {
		return d.bounds[n-1].snap
	}
	return d.initial
}

// record appends a boundary; d.mu must be held.  A step that failed is only a
// boundary if it changed the store (memorydb applies a batch entry by entry and
// can fail half way).
func (d *DB) record(batch bool, ops []WriteOp, err error) {
	snap := d.readAll()
	if err != nil && sameMap(snap, d.last()) {
		return
	}
	d.bounds = append(d.bounds, Boundary{Batch: batch, Ops: append([]WriteOp(nil), ops...), Err: err, snap: snap})
}

// ---------------------------------------------------------------- reader

// Has passes through.
func (d *DB) Has(key string) (bool, error) { return d.under.Has(key) }

// Get passes through.
func (d *DB) Get(key string) (string, error) { return d.under.Get(key) }

// GetBytes passes through.
func (d *DB) GetBytes(key string) ([]byte, error) { return d.under.GetBytes(key) }

// ---------------------------------------------------------------- writer

// Put is a direct write: one boundary.
func (d *DB) Put(key, value string) error {
	d.mu.Lock()
	defer d.mu.Unlock()
	err := d.under.Put(key, value)
	d.record(false, []WriteOp{{Key: key, Value: value}}, err)
	return err
}

// PutBytes is a direct write: one boundary.
func (d *DB) PutBytes(key string, value []byte) error {
	d.mu.Lock()
	defer d.mu.Unlock()
	err := d.under.PutBytes(key, value)
	d.record(false, []WriteOp{{Key: key, Value: string(value)}}, err)
	return err
}

// Delete is a direct write: one boundary (none if the wrapped store refuses).
func (d *DB) Delete(key string) error {
	d.mu.Lock()
	defer d.mu.Unlock()
	err := d.under.Delete(key)
	d.record(false, []WriteOp{{Delete: true, Key: key}}, err)
	return err
}

// ---------------------------------------------------------------- batches

type batch struct {
	db  *DB
	ops []WriteOp
}

// NewBatch returns a batch that collects its operations and hands them to a
// batch of the wrapped store in one Apply: one boundary.
func (d *DB) NewBatch() sortedkv.Batch { return &batch{db: d} }

func (b *batch) Put(key, value string) error {
	b.ops = append(b.ops, WriteOp{Key: key, Value: value})
	return nil
}

func (b *batch) PutBytes(key string, value []byte) error {
	return b.Put(key, string(value))
}

func (b *batch) Delete(key string) error {
	b.ops = append(b.ops, WriteOp{Delete: true, Key: key})
	return nil
}

func (b *batch) Reset() { b.ops = nil }

func (b *batch) Apply() error {
	d := b.db
	d.mu.Lock()
	defer d.mu.Unlock()
	if len(b.ops) == 0 {
		return nil
	}
	ub := d.under.NewBatch()
	for _, op := range b.ops {
		var err error
		if op.Delete {
			err = ub.Delete(op.Key)
		} else {
			err = ub.Put(op.Key, op.Value)
		}
		if err != nil {
			return err // nothing reached the store
		}
	}
	err := ub.Apply()
	d.record(true, b.ops, err)
	return err
}

// ---------------------------------------------------------------- iterators

// NewIterator passes through.
func (d *DB) NewIterator() sortedkv.Iterator { return d.under.NewIterator() }

// NewIteratorWithRange passes through.
func (d *DB) NewIteratorWithRange(start, end string) sortedkv.Iterator {
	return d.under.NewIteratorWithRange(start, end)
}

// NewIteratorWithPrefix passes through.
func (d *DB) NewIteratorWithPrefix(prefix string) sortedkv.Iterator {
	return d.under.NewIteratorWithPrefix(prefix)
}

// Close closes the wrapped store and removes its temporary directory, if any.
// The recorded boundaries stay readable.
func (d *DB) Close() error {
	err := d.under.Close()
	if d.cleanup != nil {
		d.cleanup()
		d.cleanup = nil
	}
	return err
}

// ---------------------------------------------------------------- crash points

// NumBoundaries returns the number of write boundaries recorded so far.  Crash
// points are numbered 0 (before the first write) to NumBoundaries().
func (d *DB) NumBoundaries() int {
	d.mu.Lock()
	defer d.mu.Unlock()
	return len(d.bounds)
}

// Boundary returns boundary i (1-based: the step that leads from crash point
// i-1 to crash point i).
func (d *DB) Boundary(i int) Boundary {
	d.mu.Lock()
	defer d.mu.Unlock()
	return d.bounds[i-1]
}

func (d *DB) snapshot(i int) map[string]string {
	d.mu.Lock()
	defer d.mu.Unlock()
	if i == 0 {
		return d.initial
	}
	return d.bounds[i-1].snap
}

func copyMap(m map[string]string) map[string]string {
	c := make(map[string]string, len(m))
	for k, v := range m {
		c[k] = v
	}
	return c
}

// Snapshot returns a copy of the key space at crash point i.
func (d *DB) Snapshot(i int) map[string]string { return copyMap(d.snapshot(i)) }

// Materialize returns a fresh, independent memorydb holding exactly the key
// space of crash point i.
func (d *DB) Materialize(i int) sortedkv.Database {
	return memorydb.FromData(copyMap(d.snapshot(i)))
}

// Keys returns the sorted raw key set at crash point i.
func (d *DB) Keys(i int) []string {
	m := d.snapshot(i)
	keys := make([]string, 0, len(m))
	for k := range m {
		keys = append(keys, k)
	}
	sort.Strings(keys)
	return keys
}

// LiveKeys returns the sorted raw key set the wrapped store holds now.
func (d *DB) LiveKeys() []string {
	d.mu.Lock()
	m := d.readAll()
	d.mu.Unlock()
	keys := make([]string, 0, len(m))
	for k := range m {
		keys = append(keys, k)
	}
	sort.Strings(keys)
	return keys
}

// Replay rebuilds crash point i from crash point 0 and the boundary log alone
// (operations applied in program order).  It is the harness's self-check: for a
// store with atomic batches it must equal Snapshot(i).
func (d *DB) Replay(i int) map[string]string {
	d.mu.Lock()
	defer d.mu.Unlock()
	m := copyMap(d.initial)
	for _, b := range d.bounds[:i] {
		for _, op := range b.Ops {
			if op.Delete {
				delete(m, op.Key)
			} else {
				m[op.Key] = op.Value
			}
		}
	}
	return m
}

// SelfCheck compares every snapshot with the replay of the boundary log and
// returns a description of the first difference ("" if none).  Boundaries whose
// step failed in the wrapped store are skipped (not atomic).
func (d *DB) SelfCheck() string {
	n := d.NumBoundaries()
	for i := 1; i <= n; i++ {
		if d.Boundary(i).Err != nil {
			return ""
		}
		if !sameMap(d.Replay(i), d.snapshot(i)) {
			return fmt.Sprintf("crash point %d: key space read back from the store differs from the replayed write log", i)
		}
	}
	return ""
}
