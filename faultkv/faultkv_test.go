package faultkv

import (
	"reflect"
	"testing"

	"polycry.pt/poly-go/sortedkv"
	kvtest "polycry.pt/poly-go/sortedkv/test"
)

func stores(t *testing.T) map[string]*DB {
	t.Helper()
	l, err := NewLevelDB(t.TempDir())
	if err != nil {
		t.Fatal(err)
	}
	return map[string]*DB{"memorydb": NewMemory(), "leveldb": l}
}

// The wrapper is a conforming sortedkv.Database (the library's own generic
// database / batch / iterator / table tests).
func TestGeneric(t *testing.T) {
	for name, d := range stores(t) {
		t.Run(name, func(t *testing.T) {
			kvtest.GenericDatabaseTest(t, d)
			if msg := d.SelfCheck(); msg != "" {
				t.Fatal(msg)
			}
			_ = d.Close()
		})
	}
}

func TestBoundaries(t *testing.T) {
	for name, d := range stores(t) {
		t.Run(name, func(t *testing.T) {
			tab := sortedkv.NewTable(sortedkv.NewTable(d, "A:"), "B:")
			if err := tab.Put("k1", "v1"); err != nil { // boundary 1
				t.Fatal(err)
			}
			b := tab.NewBatch()
			_ = b.Put("k2", "v2")
			_ = b.PutBytes("k3", []byte("v3"))
			_ = b.Delete("k1")
			if d.NumBoundaries() != 1 {
				t.Fatal("an unapplied batch must not be a boundary")
			}
			if err := b.Apply(); err != nil { // boundary 2
				t.Fatal(err)
			}
			if err := tab.Delete("nope"); err == nil { // refused: no boundary
				t.Fatal("delete of a missing key must fail")
			}
			if err := tab.PutBytes("k2", []byte("w2")); err != nil { // boundary 3
				t.Fatal(err)
			}
			if err := tab.Delete("k3"); err != nil { // boundary 4
				t.Fatal(err)
			}
			if n := d.NumBoundaries(); n != 4 {
				t.Fatalf("boundaries = %d, want 4", n)
			}
			want := []map[string]string{
				{},
				{"A:B:k1": "v1"},
				{"A:B:k2": "v2", "A:B:k3": "v3"},
				{"A:B:k2": "w2", "A:B:k3": "v3"},
				{"A:B:k2": "w2"},
			}
			for i, w := range want {
				if got := d.Snapshot(i); !reflect.DeepEqual(got, w) {
					t.Fatalf("crash point %d: %v, want %v", i, got, w)
				}
			}
			if !d.Boundary(2).Batch || len(d.Boundary(2).Ops) != 3 || d.Boundary(1).Batch {
				t.Fatal("boundary log wrong")
			}
			if msg := d.SelfCheck(); msg != "" {
				t.Fatal(msg)
			}
			// a materialised crash point is independent of the live store
			m := d.Materialize(2)
			_ = m.Put("x", "y")
			if _, err := d.Get("x"); err == nil {
				t.Fatal("materialised store shares memory with the live store")
			}
			it := sortedkv.NewTable(m, "A:B:").NewIterator()
			var keys []string
			for it.Next() {
				keys = append(keys, it.Key())
			}
			_ = it.Close()
			if !reflect.DeepEqual(keys, []string{"k2", "k3"}) {
				t.Fatalf("materialised keys %v", keys)
			}
			if !reflect.DeepEqual(d.Keys(2), []string{"A:B:k2", "A:B:k3"}) || !reflect.DeepEqual(d.LiveKeys(), []string{"A:B:k2"}) {
				t.Fatalf("key listing wrong: %v %v", d.Keys(2), d.LiveKeys())
			}
			_ = d.Close()
		})
	}
}
