// Package chanops drives persisted channel machines for the store properties
// C10 and C11: a JSON-serialisable description of a channel (ChanSpec) and of
// the operations of the persisting state machine (Op), a live channel built
// from them (Live), and canonical snapshots (Snap) of live machines and of
// restored channels that are compared field by field through the native
// encodings.  Nothing here judges the persistence code by calling it: the
// reference is always the in-memory channel.StateMachine plus the peers/parent
// the harness itself handed to ChannelCreated.
package chanops

import (
	"bytes"
	"context"
	"crypto/sha256"
	"encoding/binary"
	"fmt"
	"math/big"
	"sort"
	"strings"
	"sync"

	simwire "perun.network/go-perun/backend/sim/wire"
	"perun.network/go-perun/channel"
	"perun.network/go-perun/channel/persistence"
	"perun.network/go-perun/wallet"
	"perun.network/go-perun/wire"
	"perun.network/go-perun/wire/perunio"

	"verif/gen"
)

// ---------------------------------------------------------------- identities

// WireAddr returns the i-th wire address of the harness (deterministic; wire
// addresses are plain 32 byte strings in the sim backend).
func WireAddr(i int) *simwire.Address {
	a := simwire.Address(sha256.Sum256([]byte(fmt.Sprintf("verif wire identity %d", i))))
	return &a
}

// IdentMap returns the wire address map of peer identity i: one entry under
// backend id 0, or two entries under ids 0 and 1.
func IdentMap(i int, multi bool) map[wallet.BackendID]wire.Address {
	m := map[wallet.BackendID]wire.Address{0: WireAddr(2 * i)}
	if multi {
		m[1] = WireAddr(2*i + 1)
	}
	return m
}

// ---------------------------------------------------------------- specs

// ChanSpec describes one channel.  Participants use the wallet keys
// gen.Acc(0..N-1); Peers[j] is the peer identity of participant j.
type ChanSpec struct {
	N      int    `json:"n"`
	Own    int    `json:"own"`
	Peers  []int  `json:"peers"`
	Nonce  uint64 `json:"nonce"`
	App    string `json:"app"`    // "none" | "mock"
	Flags  int    `json:"flags"`  // bit 0: ledger channel, bit 1: virtual channel
	Parent int    `json:"parent"` // -1: none; meaning of other values is up to the property
}

// StSpec describes a state relative to the machine's current state.
type StSpec struct {
	Kind     string         `json:"kind"` // "next": current + 1 with a transfer; "arb": own allocation
	Final    bool           `json:"final,omitempty"`
	Asset    int            `json:"asset,omitempty"`
	From     int            `json:"from,omitempty"`
	To       int            `json:"to,omitempty"`
	Amt      uint64         `json:"amt,omitempty"`
	Bad      string         `json:"bad,omitempty"`      // next: "" | "version" | "sum"
	VerDelta uint64         `json:"verdelta,omitempty"` // arb: version = current version + VerDelta
	Alloc    *gen.AllocSpec `json:"alloc,omitempty"`    // arb
}

// Op is one operation of the persisting state machine.
type Op struct {
	Kind  string         `json:"op"`
	Slot  int            `json:"slot,omitempty"`  // AddSig: signature slot
	Sig   string         `json:"sig,omitempty"`   // AddSig: "valid" | "other" | "stale" | "random" | "short"
	Actor int            `json:"actor,omitempty"` // Update/Force/SetProgressed
	St    *StSpec        `json:"st,omitempty"`
	Alloc *gen.AllocSpec `json:"alloc,omitempty"` // Init
}

// Kinds lists the operation alphabet.
var Kinds = []string{
	"Init", "Sig", "AddSig", "EnableInit", "EnableUpdate", "EnableFinal",
	"Update", "Discard", "Force", "SetFunded", "SetRegistering", "SetRegistered",
	"SetProgressing", "SetProgressed", "SetWithdrawing", "SetWithdrawn", "Remove",
}

// ---------------------------------------------------------------- live channel

// Live is a channel machine of the harness together with what the harness told
// the persister about it.
type Live struct {
	Spec   ChanSpec
	Params *channel.Params
	CSM    *channel.StateMachine    // the in-memory machine: the reference
	PSM    persistence.StateMachine // the persisting wrapper around CSM
	PR     persistence.Persister
	Peers  []map[wallet.BackendID]wire.Address
	Parent *channel.ID
}

var mockDef = func() gen.Hex {
	d := bytes.Repeat([]byte{0x51}, 64)
	return gen.HexOf(d)
}()

func (s ChanSpec) app() channel.App {
	if s.App == "mock" {
		return gen.AppSpec{Kind: "mock", Def: mockDef}.Build()
	}
	return channel.NoApp()
}

// NewLive builds the machine.  peers are the wire address maps of the
// participants (same order as Spec.Peers), parent the parent id or nil.
func NewLive(spec ChanSpec, pr persistence.Persister, peers []map[wallet.BackendID]wire.Address, parent *channel.ID) (*Live, error) {
	parts := make([]map[wallet.BackendID]wallet.Address, spec.N)
	for j := range parts {
		parts[j] = gen.Addr(j)
	}
	nonce := new(big.Int).SetUint64(spec.Nonce)
	nonce.Add(nonce, big.NewInt(1))
	params, err := channel.NewParams(60, parts, spec.app(), nonce, spec.Flags&1 != 0, spec.Flags&2 != 0, channel.Aux{})
	if err != nil {
		return nil, err
	}
	csm, err := channel.NewStateMachine(map[wallet.BackendID]wallet.Account{0: gen.Acc(spec.Own)}, *params)
	if err != nil {
		return nil, err
	}
	return &Live{
		Spec: spec, Params: params, CSM: csm, PSM: persistence.FromStateMachine(csm, pr), PR: pr,
		Peers: peers, Parent: parent,
	}, nil
}

// ID returns the channel id.
func (l *Live) ID() channel.ID { return l.Params.ID() }

// Create tells the persister about the channel.
func (l *Live) Create(ctx context.Context) error {
	return l.PR.ChannelCreated(ctx, l.CSM, l.Peers, l.Parent)
}

func (l *Live) data() channel.Data {
	if l.Spec.App == "mock" {
		return channel.NewMockOp(channel.OpValid)
	}
	return channel.NoData()
}

// buildState turns a state description into a state of this channel; nil if it
// needs a current state and there is none.
func (l *Live) buildState(sp *StSpec) *channel.State {
	cur := l.CSM.CurrentTX().State
	if sp == nil || cur == nil {
		return nil
	}
	n := l.Spec.N
	if sp.Kind == "arb" && sp.Alloc != nil {
		return &channel.State{
			ID: l.ID(), Version: cur.Version + sp.VerDelta, App: l.Params.App, Data: l.data(),
			IsFinal: sp.Final, Allocation: sp.Alloc.Build(),
		}
	}
	s := cur.Clone()
	s.Version++
	s.IsFinal = sp.Final
	row := s.Balances[mod(sp.Asset, len(s.Balances))]
	from, to := mod(sp.From, n), mod(sp.To, n)
	if from < len(row) && to < len(row) {
		amt := new(big.Int).SetUint64(sp.Amt)
		if amt.Cmp(row[from]) > 0 {
			amt.Set(row[from])
		}
		row[from] = new(big.Int).Sub(row[from], amt)
		row[to] = new(big.Int).Add(row[to], amt)
	}
	switch sp.Bad {
	case "version":
		s.Version++
	case "sum":
		row[0] = new(big.Int).Add(row[0], big.NewInt(1))
	}
	return s
}

func mod(i, n int) int {
	if n <= 0 {
		return 0
	}
	i %= n
	if i < 0 {
		i += n
	}
	return i
}

func (l *Live) makeSig(slot int, kind string) wallet.Sig {
	st := l.CSM.StagingTX().State
	random := bytes.Repeat([]byte{0xa7}, 64)
	if st == nil {
		return random
	}
	var (
		sig wallet.Sig
		err error
	)
	switch kind {
	case "other":
		sig, err = channel.Sign(gen.Acc(mod(slot+1, l.Spec.N)), st, 0)
	case "stale":
		other := st.Clone()
		other.Version += 7
		sig, err = channel.Sign(gen.Acc(slot), other, 0)
	case "random":
		return random
	case "short": // a valid signature cut to 63 bytes: the backend cannot parse it (Verify returns an error)
		sig, err = channel.Sign(gen.Acc(slot), st, 0)
		if err == nil {
			sig = append(wallet.Sig(nil), sig[:len(sig)-1]...)
		}
	default:
		sig, err = channel.Sign(gen.Acc(slot), st, 0)
	}
	if err != nil {
		panic("chanops: signing: " + err.Error())
	}
	return sig
}

// Result is what applying one operation did.
type Result struct {
	Skipped string // not empty: the operation is outside the generated domain here (why); nothing was called
	Err     error  // error returned by the call
	Persist bool   // Err was returned by the persister after the machine had accepted the operation
	Removed bool   // the operation removed the channel from the store
}

// OK reports whether the operation was carried out completely.
func (r Result) OK() bool { return r.Skipped == "" && r.Err == nil }

// Apply applies op through the persisting wrapper.
func (l *Live) Apply(ctx context.Context, op Op) (res Result) {
	m := &l.PSM
	n := l.Spec.N
	var err error
	switch op.Kind {
	case "Init":
		if op.Alloc == nil {
			return Result{Skipped: "no-allocation"}
		}
		err = m.Init(ctx, op.Alloc.Build(), l.data())
	case "Sig":
		_, err = m.Sig(ctx)
	case "AddSig":
		slot := mod(op.Slot, n)
		err = m.AddSig(ctx, channel.Index(slot), l.makeSig(slot, op.Sig))
	case "EnableInit":
		err = m.EnableInit(ctx)
	case "EnableUpdate":
		err = m.EnableUpdate(ctx)
	case "EnableFinal":
		err = m.EnableFinal(ctx)
	case "Update":
		st := l.buildState(op.St)
		if st == nil {
			return Result{Skipped: "no-current-state"}
		}
		err = m.Update(ctx, st, channel.Index(mod(op.Actor, n)))
	case "Discard":
		err = m.DiscardUpdate(ctx)
	case "Force":
		// the property fixes: forced updates only with a current state
		st := l.buildState(op.St)
		if st == nil {
			return Result{Skipped: "no-current-state"}
		}
		err = m.ForceUpdate(ctx, st, channel.Index(mod(op.Actor, n)))
	case "SetFunded":
		err = m.SetFunded(ctx)
	case "SetRegistering":
		err = m.SetRegistering(ctx)
	case "SetRegistered":
		err = m.SetRegistered(ctx)
	case "SetProgressing":
		st := l.buildState(op.St)
		if st == nil {
			return Result{Skipped: "no-current-state"}
		}
		err = m.SetProgressing(ctx, st)
	case "SetProgressed":
		// SetProgressed has no phase guard of its own; its documented
		// transitions (validPhaseTransitions) and its only caller (a
		// ProgressedEvent of a registered channel) start in these phases.
		switch l.CSM.Phase() {
		case channel.Registered, channel.Progressing, channel.Progressed:
		default:
			return Result{Skipped: "progressed-outside-dispute"}
		}
		st := l.buildState(op.St)
		if st == nil {
			return Result{Skipped: "no-current-state"}
		}
		e := channel.NewProgressedEvent(l.ID(), &channel.ElapsedTimeout{}, st, channel.Index(mod(op.Actor, n)))
		err = m.SetProgressed(ctx, e)
	case "SetWithdrawing":
		err = m.SetWithdrawing(ctx)
	case "SetWithdrawn":
		err = m.SetWithdrawn(ctx)
		res.Removed = err == nil
	case "Remove":
		err = l.PR.ChannelRemoved(ctx, l.ID())
		res.Removed = err == nil
		res.Persist = err != nil
	default:
		return Result{Skipped: "unknown-op"}
	}
	res.Err = err
	if err != nil && strings.HasPrefix(err.Error(), "Persister.") {
		res.Persist = true
	}
	return res
}

// ---------------------------------------------------------------- snapshots

// Snap is the canonical form of everything the properties compare.
type Snap struct {
	Idx      uint16
	Params   []byte
	Phase    uint8
	CurState []byte // nil: no state
	CurSigs  [][]byte
	StgState []byte // nil: no state
	StgSigs  [][]byte
	Peers    [][]byte
	Parent   []byte // nil: none
}

func encode(v perunio.Encoder) ([]byte, error) {
	var b bytes.Buffer
	err := v.Encode(&b)
	return b.Bytes(), err
}

func encState(s *channel.State) ([]byte, error) {
	if s == nil {
		return nil, nil
	}
	b, err := encode(s)
	if err == nil && len(b) == 0 {
		b = []byte{}
	}
	return b, err
}

// PeerCanon is an encoding of a wire address map that does not depend on map
// iteration order.
func PeerCanon(m map[wallet.BackendID]wire.Address) []byte {
	ids := make([]int, 0, len(m))
	for id := range m {
		ids = append(ids, int(id))
	}
	sort.Ints(ids)
	var b bytes.Buffer
	for _, id := range ids {
		_ = binary.Write(&b, binary.BigEndian, int32(id))
		raw, err := m[wallet.BackendID(id)].MarshalBinary()
		if err != nil {
			panic("chanops: marshalling a wire address: " + err.Error())
		}
		_ = binary.Write(&b, binary.BigEndian, uint16(len(raw)))
		b.Write(raw)
	}
	return b.Bytes()
}

// SnapOf snapshots a source together with peers and parent.
func SnapOf(s channel.Source, peers []map[wallet.BackendID]wire.Address, parent *channel.ID) (*Snap, error) {
	var (
		sn  = &Snap{Idx: uint16(s.Idx()), Phase: uint8(s.Phase())}
		err error
	)
	if sn.Params, err = encode(s.Params()); err != nil {
		return nil, fmt.Errorf("encoding params: %w", err)
	}
	cur, stg := s.CurrentTX(), s.StagingTX()
	if sn.CurState, err = encState(cur.State); err != nil {
		return nil, fmt.Errorf("encoding current state: %w", err)
	}
	if sn.StgState, err = encState(stg.State); err != nil {
		return nil, fmt.Errorf("encoding staged state: %w", err)
	}
	sn.CurSigs = cloneSigs(cur.Sigs)
	sn.StgSigs = cloneSigs(stg.Sigs)
	for _, p := range peers {
		sn.Peers = append(sn.Peers, PeerCanon(p))
	}
	if parent != nil {
		sn.Parent = append([]byte{}, parent[:]...)
	}
	return sn, nil
}

func cloneSigs(s []wallet.Sig) [][]byte {
	out := make([][]byte, len(s))
	for i := range s {
		out[i] = append([]byte(nil), s[i]...)
	}
	return out
}

// Snap snapshots the live machine.
func (l *Live) Snap() *Snap {
	sn, err := SnapOf(l.CSM, l.Peers, l.Parent)
	if err != nil {
		panic("chanops: live machine holds a value that cannot be encoded: " + err.Error())
	}
	return sn
}

// SnapRestored snapshots a restored channel.
func SnapRestored(c *persistence.Channel) (*Snap, error) {
	return SnapOf(c, c.PeersV, c.Parent)
}

func sigsDiff(a, b [][]byte) int {
	n := len(a)
	if len(b) > n {
		n = len(b)
	}
	for i := 0; i < n; i++ {
		var x, y []byte
		if i < len(a) {
			x = a[i]
		}
		if i < len(b) {
			y = b[i]
		}
		if !bytes.Equal(x, y) { // nil and empty are the same
			return i
		}
	}
	return -1
}

func short(b []byte) string {
	if b == nil {
		return "none"
	}
	if len(b) > 6 {
		return fmt.Sprintf("%x..(%d bytes)", b[:6], len(b))
	}
	return fmt.Sprintf("%x", b)
}

// Diff names the first component in which got differs from want ("" if none);
// the second result is a human readable detail.
func (want *Snap) Diff(got *Snap) (string, string) {
	switch {
	case want.Idx != got.Idx:
		return "index", fmt.Sprintf("index %d, want %d", got.Idx, want.Idx)
	case !bytes.Equal(want.Params, got.Params):
		return "params", "parameter encodings differ"
	case want.Phase != got.Phase:
		return "phase", fmt.Sprintf("phase %v, want %v", channel.Phase(got.Phase), channel.Phase(want.Phase))
	case (want.CurState == nil) != (got.CurState == nil) || !bytes.Equal(want.CurState, got.CurState):
		return "current-state", fmt.Sprintf("current state %s, want %s", short(got.CurState), short(want.CurState))
	case sigsDiff(want.CurSigs, got.CurSigs) >= 0:
		return "current-sigs", fmt.Sprintf("signature slot %d of the current transaction differs", sigsDiff(want.CurSigs, got.CurSigs))
	case (want.StgState == nil) != (got.StgState == nil) || !bytes.Equal(want.StgState, got.StgState):
		return "staged-state", fmt.Sprintf("staged state %s, want %s", short(got.StgState), short(want.StgState))
	case sigsDiff(want.StgSigs, got.StgSigs) >= 0:
		i := sigsDiff(want.StgSigs, got.StgSigs)
		var x, y []byte
		if i < len(got.StgSigs) {
			x = got.StgSigs[i]
		}
		if i < len(want.StgSigs) {
			y = want.StgSigs[i]
		}
		return "staged-sigs", fmt.Sprintf("staged signature slot %d is %s, want %s", i, shortSig(x), shortSig(y))
	case (want.Parent == nil) != (got.Parent == nil) || !bytes.Equal(want.Parent, got.Parent):
		return "parent", fmt.Sprintf("parent %s, want %s", short(got.Parent), short(want.Parent))
	}
	if len(want.Peers) != len(got.Peers) {
		return "peers", fmt.Sprintf("%d peers, want %d", len(got.Peers), len(want.Peers))
	}
	for i := range want.Peers {
		if !bytes.Equal(want.Peers[i], got.Peers[i]) {
			return "peers", fmt.Sprintf("peer %d differs", i)
		}
	}
	return "", ""
}

func shortSig(b []byte) string {
	if len(b) == 0 {
		return "empty"
	}
	return short(b)
}

// Equal reports whether both snapshots agree in every component.
func (want *Snap) Equal(got *Snap) bool {
	f, _ := want.Diff(got)
	return f == ""
}

// StagedSigsProblem checks, independently of any snapshot, that every non-empty
// staging signature of a restored channel is a signature of that slot's
// participant over the restored staged state.  It returns a clause name and
// detail, or "".
func StagedSigsProblem(c *persistence.Channel) (string, string) {
	tx := c.StagingTX()
	for i, sig := range tx.Sigs {
		if len(sig) == 0 {
			continue
		}
		if tx.State == nil {
			return "restored-sig-without-staged-state", fmt.Sprintf("signature in slot %d restored although no staged state is restored", i)
		}
		if i >= len(c.Params().Parts) {
			return "restored-sig-slot-out-of-range", fmt.Sprintf("signature in slot %d of a %d party channel", i, len(c.Params().Parts))
		}
		for _, addr := range c.Params().Parts[i] {
			ok, err := verifyMemo(addr, tx.State, sig)
			if err != nil || !ok {
				return "restored-sig-not-for-restored-staged-state", fmt.Sprintf(
					"restored signature in slot %d does not verify for the restored staged state (version %d): ok=%v err=%v", i, tx.State.Version, ok, err)
			}
		}
	}
	return "", ""
}

// ---------------------------------------------------------------- minimising

// MinimizeList is a plain delta-debugging pass over a list that is part of a
// failing case: it removes chunks (halves, quarters, ..., single elements) as
// long as stillFails reports that the case with the shortened list fails in the
// same way.  rapid's own shrinking works on the random bit stream and does
// badly on phase-aware histories (removing one operation re-interprets every
// later draw), so the property packages minimise a failing case themselves
// before they report it; rapid keeps shrinking afterwards and the smallest
// failing case wins.
func MinimizeList[T any](list []T, stillFails func([]T) bool) []T {
	cur := append([]T(nil), list...)
	for chunk := (len(cur) + 1) / 2; chunk >= 1; {
		removed := false
		for start := 0; start+chunk <= len(cur); {
			cand := append(append([]T(nil), cur[:start]...), cur[start+chunk:]...)
			if stillFails(cand) {
				cur = cand
				removed = true
			} else {
				start += chunk
			}
		}
		if chunk == 1 && !removed {
			break
		}
		if chunk > 1 {
			chunk /= 2
		}
	}
	return cur
}

// verifyMemo is channel.Verify with a memo of positive results: the same
// (address, state, signature) triple is restored through several views after
// every step, and ECDSA verification would dominate the run time.
var (
	verifyMu   sync.Mutex
	verifySeen = map[[32]byte]struct{}{}
)

func verifyMemo(addr wallet.Address, st *channel.State, sig wallet.Sig) (bool, error) {
	enc, err := encState(st)
	if err != nil {
		return false, err
	}
	ab, err := addr.MarshalBinary()
	if err != nil {
		return false, err
	}
	hsh := sha256.New()
	_ = binary.Write(hsh, binary.BigEndian, uint32(len(ab)))
	hsh.Write(ab)
	_ = binary.Write(hsh, binary.BigEndian, uint32(len(enc)))
	hsh.Write(enc)
	hsh.Write(sig)
	var key [32]byte
	copy(key[:], hsh.Sum(nil))
	verifyMu.Lock()
	_, hit := verifySeen[key]
	verifyMu.Unlock()
	if hit {
		return true, nil
	}
	ok, err := channel.Verify(addr, st, sig)
	if ok && err == nil {
		verifyMu.Lock()
		if len(verifySeen) > 1<<14 {
			verifySeen = map[[32]byte]struct{}{}
		}
		verifySeen[key] = struct{}{}
		verifyMu.Unlock()
	}
	return ok, err
}
