package chanops

import (
	"pgregory.net/rapid"

	"perun.network/go-perun/channel"

	"verif/gen"
)

// Tracker is a coarse prediction of a machine's phase used ONLY to steer the
// generator towards operations that are likely to be accepted, so that
// histories reach the deep phases.  It never takes part in a verdict; if it
// mispredicts, only the distribution changes.
type Tracker struct {
	N, Own      int
	Phase       channel.Phase
	Sigs        []bool
	StagedFinal bool
	HasCur      bool
	Gone        bool
}

// NewTracker tracks a fresh machine.
func NewTracker(n, own int) *Tracker {
	return &Tracker{N: n, Own: own, Phase: channel.InitActing, Sigs: make([]bool, n)}
}

func (tr *Tracker) signing() bool {
	return tr.Phase == channel.InitSigning || tr.Phase == channel.Signing || tr.Phase == channel.Progressing
}

func (tr *Tracker) allSigs() bool {
	for _, s := range tr.Sigs {
		if !s {
			return false
		}
	}
	return true
}

func (tr *Tracker) missing() []int {
	var m []int
	for i, s := range tr.Sigs {
		if !s {
			m = append(m, i)
		}
	}
	return m
}

func (tr *Tracker) stage(p channel.Phase, final bool) {
	tr.Phase = p
	tr.StagedFinal = final
	tr.Sigs = make([]bool, tr.N)
}

// Predict advances the tracker as the machine documentation says the
// operation behaves.
func (tr *Tracker) Predict(op Op) {
	final := op.St != nil && op.St.Final
	switch op.Kind {
	case "Init":
		if tr.Phase == channel.InitActing && op.Alloc != nil {
			tr.stage(channel.InitSigning, false)
		}
	case "Sig":
		if tr.signing() {
			tr.Sigs[tr.Own] = true
		}
	case "AddSig":
		if tr.signing() && (op.Sig == "valid" || op.Sig == "") {
			tr.Sigs[mod(op.Slot, tr.N)] = true
		}
	case "EnableInit":
		if tr.Phase == channel.InitSigning && tr.allSigs() {
			tr.stage(channel.Funding, false)
			tr.HasCur = true
		}
	case "EnableUpdate":
		if tr.Phase == channel.Signing && tr.allSigs() && !tr.StagedFinal {
			tr.stage(channel.Acting, false)
		}
	case "EnableFinal":
		if tr.Phase == channel.Signing && tr.allSigs() && tr.StagedFinal {
			tr.stage(channel.Final, false)
		}
	case "Update":
		if tr.Phase == channel.Acting && op.St != nil && op.St.Kind == "next" && op.St.Bad == "" {
			tr.stage(channel.Signing, final)
		}
	case "Discard":
		if tr.Phase == channel.Signing {
			tr.stage(channel.Acting, false)
		}
	case "Force":
		if tr.HasCur {
			tr.stage(channel.Signing, final)
		}
	case "SetFunded":
		if tr.Phase == channel.Funding {
			tr.Phase = channel.Acting
		}
	case "SetRegistering":
		if tr.Phase >= channel.Funding {
			tr.Phase = channel.Registering
		}
	case "SetRegistered":
		if tr.Phase >= channel.Funding {
			tr.Phase = channel.Registered
		}
	case "SetProgressing":
		if tr.Phase == channel.Registered || tr.Phase == channel.Progressing || tr.Phase == channel.Progressed {
			tr.stage(channel.Progressing, final)
		}
	case "SetProgressed":
		if tr.Phase == channel.Registered || tr.Phase == channel.Progressing || tr.Phase == channel.Progressed {
			tr.stage(channel.Progressed, false)
		}
	case "SetWithdrawing":
		switch tr.Phase {
		case channel.Final, channel.Registered, channel.Progressed, channel.Withdrawing:
			tr.Phase = channel.Withdrawing
		}
	case "SetWithdrawn":
		if tr.Phase == channel.Withdrawing {
			tr.Phase = channel.Withdrawn
			tr.Gone = true
		}
	case "Remove":
		tr.Gone = true
	}
}

func smallAlloc(n int) *rapid.Generator[gen.AllocSpec] {
	return gen.GenAlloc(gen.AllocOpts{MinAssets: 1, MaxAssets: 2, Parts: n, MaxLocked: 1, Bal: gen.GenSmallBal()})
}

func (tr *Tracker) drawNext(t *rapid.T, final bool) *StSpec {
	return &StSpec{
		Kind: "next", Final: final,
		Asset: rapid.IntRange(0, 1).Draw(t, "asset"),
		From:  rapid.IntRange(0, tr.N-1).Draw(t, "from"),
		To:    rapid.IntRange(0, tr.N-1).Draw(t, "to"),
		Amt:   uint64(rapid.IntRange(0, 20).Draw(t, "amt")),
	}
}

func (tr *Tracker) drawArb(t *rapid.T) *StSpec {
	a := smallAlloc(tr.N).Draw(t, "arballoc")
	return &StSpec{
		Kind: "arb", Alloc: &a,
		Final:    rapid.IntRange(0, 3).Draw(t, "arbfinal") == 0,
		VerDelta: []uint64{0, 1, 1, 1, 2, 5}[rapid.IntRange(0, 5).Draw(t, "verdelta")],
	}
}

func (tr *Tracker) drawState(t *rapid.T) *StSpec {
	if rapid.IntRange(0, 2).Draw(t, "stkind") == 0 {
		return tr.drawArb(t)
	}
	return tr.drawNext(t, rapid.IntRange(0, 4).Draw(t, "final") == 0)
}

// build fills in the arguments of an operation kind.
func (tr *Tracker) build(t *rapid.T, kind string) Op {
	op := Op{Kind: kind}
	switch kind {
	case "Init":
		a := smallAlloc(tr.N).Draw(t, "initalloc")
		op.Alloc = &a
	case "AddSig":
		op.Sig = "valid"
		if miss := tr.missing(); len(miss) > 0 && rapid.IntRange(0, 9).Draw(t, "slotkind") != 0 {
			op.Slot = miss[rapid.IntRange(0, len(miss)-1).Draw(t, "missing")]
		} else {
			op.Slot = rapid.IntRange(0, tr.N-1).Draw(t, "slot")
		}
		if rapid.IntRange(0, 7).Draw(t, "sigkind") == 0 {
			op.Sig = rapid.SampledFrom([]string{"other", "stale", "random", "short"}).Draw(t, "badsig")
		}
	case "Update":
		op.Actor = rapid.IntRange(0, tr.N-1).Draw(t, "actor")
		op.St = tr.drawNext(t, rapid.IntRange(0, 4).Draw(t, "final") == 0)
		if rapid.IntRange(0, 9).Draw(t, "badupd") == 0 {
			op.St.Bad = rapid.SampledFrom([]string{"version", "sum"}).Draw(t, "bad")
		}
	case "Force", "SetProgressing", "SetProgressed":
		op.Actor = rapid.IntRange(0, tr.N-1).Draw(t, "actor")
		op.St = tr.drawState(t)
	}
	return op
}

type wk struct {
	w    int
	kind string
}

func pick(t *rapid.T, opts []wk) string {
	total := 0
	for _, o := range opts {
		total += o.w
	}
	x := rapid.IntRange(0, total-1).Draw(t, "pick")
	for _, o := range opts {
		if x < o.w {
			return o.kind
		}
		x -= o.w
	}
	return opts[len(opts)-1].kind
}

// Draw draws the next operation: mostly one the tracked phase accepts (with
// the deliberate detours sign -> discard -> update, sign -> forced update,
// SetProgressing after signatures), one time in ten any operation of the
// alphabet.  remove enables the direct ChannelRemoved operation.
func (tr *Tracker) Draw(t *rapid.T, remove bool) Op {
	var kind string
	if remove && rapid.IntRange(0, 39).Draw(t, "remove") == 23 { // rapid favours small values: compare with a mid-range one
		kind = "Remove"
	} else if rapid.IntRange(0, 9).Draw(t, "wild") == 6 {
		ks := Kinds
		if !remove {
			ks = Kinds[:len(Kinds)-1]
		}
		kind = rapid.SampledFrom(ks).Draw(t, "anyop")
	} else {
		var opts []wk
		enable := func(k string) {
			if tr.allSigs() {
				opts = append(opts, wk{40, k})
			} else {
				opts = append(opts, wk{1, k})
			}
		}
		sign := func() {
			if !tr.Sigs[tr.Own] {
				opts = append(opts, wk{20, "Sig"})
			} else {
				opts = append(opts, wk{2, "Sig"})
			}
			if len(tr.missing()) > 0 {
				opts = append(opts, wk{25, "AddSig"})
			} else {
				opts = append(opts, wk{2, "AddSig"})
			}
		}
		switch tr.Phase {
		case channel.InitActing:
			opts = []wk{{20, "Init"}, {1, "Sig"}}
		case channel.InitSigning:
			sign()
			enable("EnableInit")
		case channel.Funding:
			opts = []wk{{14, "SetFunded"}, {2, "SetRegistering"}, {3, "SetRegistered"}, {2, "Force"}}
		case channel.Acting:
			opts = []wk{{14, "Update"}, {3, "Force"}, {1, "SetRegistering"}, {2, "SetRegistered"}, {1, "Discard"}}
		case channel.Signing:
			sign()
			if tr.StagedFinal {
				enable("EnableFinal")
			} else {
				enable("EnableUpdate")
			}
			opts = append(opts, wk{8, "Discard"}, wk{6, "Force"}, wk{1, "Update"}, wk{1, "SetRegistering"}, wk{2, "SetRegistered"})
		case channel.Final:
			opts = []wk{{3, "SetRegistering"}, {3, "SetRegistered"}, {6, "SetWithdrawing"}}
		case channel.Registering:
			opts = []wk{{8, "SetRegistered"}, {1, "SetRegistering"}}
		case channel.Registered:
			opts = []wk{{8, "SetProgressing"}, {5, "SetWithdrawing"}, {3, "SetProgressed"}, {1, "SetRegistered"}}
		case channel.Progressing:
			sign()
			opts = append(opts, wk{10, "SetProgressing"}, wk{12, "SetProgressed"})
		case channel.Progressed:
			opts = []wk{{6, "SetProgressing"}, {8, "SetWithdrawing"}, {2, "SetProgressed"}}
		case channel.Withdrawing:
			opts = []wk{{10, "SetWithdrawn"}, {2, "SetWithdrawing"}}
		default:
			opts = []wk{{1, "SetWithdrawn"}}
		}
		kind = pick(t, opts)
	}
	op := tr.build(t, kind)
	tr.Predict(op)
	return op
}
