module verif

go 1.23.0

require (
	perun.network/go-perun v0.0.0
	pgregory.net/rapid v1.3.0
)

require (
	github.com/davecgh/go-spew v1.1.1 // indirect
	github.com/google/uuid v1.6.0 // indirect
	github.com/pkg/errors v0.9.1 // indirect
	github.com/pmezard/go-difflib v1.0.0 // indirect
	github.com/stretchr/testify v1.10.0 // indirect
	gopkg.in/yaml.v3 v3.0.1 // indirect
	polycry.pt/poly-go v0.0.0-20220301085937-fb9d71b45a37 // indirect
)

replace perun.network/go-perun => /repo
