// Package sim is the scenario infrastructure for the client-level properties
// (C03, C04, C06, C07, C08, C12): a strict reference ledger with a logical
// clock, a scripted bus, a recording persister and party helpers.
package sim

import (
	"context"
	"fmt"
	"sync"

	"github.com/pkg/errors"
)

// Clock is a logical clock.  It only moves when the scenario driver calls
// Advance, so "before the challenge period ends" is a logical statement and no
// wall-clock sleep decides a verdict.
type Clock struct {
	mu      sync.Mutex
	now     uint64
	waiters map[*clockWaiter]struct{}
}

type clockWaiter struct {
	at uint64
	ch chan struct{}
}

// NewClock returns a clock at time 1.
func NewClock() *Clock { return &Clock{now: 1, waiters: map[*clockWaiter]struct{}{}} }

// Now returns the logical time.
func (c *Clock) Now() uint64 {
	c.mu.Lock()
	defer c.mu.Unlock()
	return c.now
}

// Advance moves the clock forward to t (no-op if t is not in the future).
func (c *Clock) Advance(t uint64) {
	c.mu.Lock()
	defer c.mu.Unlock()
	if t <= c.now {
		return
	}
	c.now = t
	for w := range c.waiters {
		if w.at <= c.now {
			close(w.ch)
			delete(c.waiters, w)
		}
	}
}

// Waiters returns the number of goroutines blocked on the clock and the
// earliest time one of them waits for.
func (c *Clock) Waiters() (n int, min uint64) {
	c.mu.Lock()
	defer c.mu.Unlock()
	for w := range c.waiters {
		if n == 0 || w.at < min {
			min = w.at
		}
		n++
	}
	return
}

// WaitUntil blocks until the clock has reached t or ctx is done.
func (c *Clock) WaitUntil(ctx context.Context, t uint64) error {
	c.mu.Lock()
	if c.now >= t {
		c.mu.Unlock()
		return nil
	}
	w := &clockWaiter{at: t, ch: make(chan struct{})}
	c.waiters[w] = struct{}{}
	c.mu.Unlock()
	select {
	case <-w.ch:
		return nil
	case <-ctx.Done():
		c.mu.Lock()
		delete(c.waiters, w)
		c.mu.Unlock()
		return errors.Wrap(ctx.Err(), "waiting for logical time")
	}
}

// Timeout is a channel.Timeout on the logical clock.
type Timeout struct {
	C  *Clock
	At uint64
}

// IsElapsed reports whether the logical time has reached the timeout.
func (t *Timeout) IsElapsed(context.Context) bool { return t.C.Now() >= t.At }

// Wait blocks until the logical time has reached the timeout.
func (t *Timeout) Wait(ctx context.Context) error { return t.C.WaitUntil(ctx, t.At) }

func (t *Timeout) String() string { return fmt.Sprintf("<logical timeout %d>", t.At) }
