package sim

import (
	"context"
	"sync"
	"time"

	"github.com/pkg/errors"
	"golang.org/x/crypto/sha3"

	"perun.network/go-perun/channel"
	"perun.network/go-perun/client"
	"perun.network/go-perun/wallet"
	"perun.network/go-perun/wire"
)

// Inject publishes a crafted message from p to the party `to`.
func (p *Party) Inject(to *Party, msg wire.Msg) error {
	return p.InjectAs(p.WireAddr, to, msg)
}

// InjectAs publishes a crafted message with an arbitrary sender address.
func (p *Party) InjectAs(sender map[wallet.BackendID]wire.Address, to *Party, msg wire.Msg) error {
	ctx, cancel := context.WithTimeout(context.Background(), HangLimit)
	defer cancel()
	return p.Env.Bus.Publish(ctx, &wire.Envelope{Sender: sender, Recipient: to.WireAddr, Msg: msg})
}

// SignState signs a state with the party's key.
func (p *Party) SignState(s *channel.State) wallet.Sig {
	sig, err := channel.Sign(p.Acc, s, 0)
	if err != nil {
		panic("sim: signing crafted state: " + err.Error())
	}
	return sig
}

// CalcNonce is the channel nonce derived from the two nonce shares
// (SHA3-256 of proposer share || responder share), computed by the harness.
func CalcNonce(proposer, responder client.NonceShare) channel.Nonce {
	hs := sha3.New256()
	hs.Write(proposer[:])
	hs.Write(responder[:])
	return channel.NonceFromBytes(hs.Sum(nil))
}

// Collector gathers envelopes matching a predicate from the bus.
type Collector struct {
	mu   sync.Mutex
	envs []*wire.Envelope
	ch   chan struct{}
	pred func(*wire.Envelope) bool
}

// Collect starts collecting envelopes that satisfy pred.
func (b *Bus) Collect(pred func(*wire.Envelope) bool) *Collector {
	c := &Collector{ch: make(chan struct{}, 1), pred: pred}
	b.Tap(func(e *wire.Envelope) {
		if c.pred(e) {
			c.mu.Lock()
			c.envs = append(c.envs, e)
			c.mu.Unlock()
			select {
			case c.ch <- struct{}{}:
			default:
			}
		}
	})
	return c
}

// All returns what was collected so far.
func (c *Collector) All() []*wire.Envelope {
	c.mu.Lock()
	defer c.mu.Unlock()
	return append([]*wire.Envelope{}, c.envs...)
}

// Wait waits until n envelopes were collected or the limit has passed.
func (c *Collector) Wait(n int, limit time.Duration) []*wire.Envelope {
	deadline := time.After(limit)
	for {
		if got := c.All(); len(got) >= n {
			return got
		}
		select {
		case <-c.ch:
		case <-time.After(2 * time.Millisecond):
		case <-deadline:
			return c.All()
		}
	}
}

// HandSub is a sub-channel the adversary opened by hand against an honest
// responder: it knows the parameters and holds the fully signed version 0.
type HandSub struct {
	Params *channel.Params
	V0     channel.Transaction
	Init   *channel.Allocation
}

// FromParty tells whether an envelope was sent by p.
func FromParty(p *Party) func(*wire.Envelope) bool {
	key := wire.Keys(p.WireAddr)
	return func(e *wire.Envelope) bool { return wire.Keys(e.Sender) == key }
}

// HandOpenSub runs the sub-channel opening protocol by hand for the adversary
// p (participant 0 of the parent) against the honest responder hp: raw
// proposal, parameters recomputed by the harness, own version-0 signature sent
// as ChannelUpdateAcc.  The parent funding update is NOT sent: afterwards hp
// is waiting for it.  hp's proposal handler must accept sub-channel proposals
// from a goroutine after the handler returned (AcceptSubProposals).
func (p *Party) HandOpenSub(hp *Party, parent *client.Channel, init *channel.Allocation, challenge uint64, limit time.Duration, edit ...func(*client.SubChannelProposalMsg)) (*HandSub, error) {
	var share client.NonceShare
	copy(share[:], []byte("adversary nonce share 0123456789"))
	prop, err := client.NewSubChannelProposal(parent.ID(), challenge, init, client.WithNonce(share))
	if err != nil {
		return nil, errors.WithMessage(err, "creating sub-channel proposal")
	}
	for _, f := range edit {
		f(prop) // a hand-written proposal: fields the constructor would not produce
	}
	fromH := FromParty(hp)
	accs := p.Env.Bus.Collect(func(e *wire.Envelope) bool {
		m, ok := e.Msg.(*client.SubChannelProposalAccMsg)
		return ok && fromH(e) && m.ProposalID == prop.ProposalID
	})
	rejs := p.Env.Bus.Collect(func(e *wire.Envelope) bool {
		m, ok := e.Msg.(*client.ChannelProposalRejMsg)
		return ok && fromH(e) && m.ProposalID == prop.ProposalID
	})
	if err := p.Inject(hp, prop); err != nil {
		return nil, err
	}
	got := accs.Wait(1, limit)
	if len(got) == 0 {
		if len(rejs.All()) > 0 {
			return nil, errors.New("sub-channel proposal rejected")
		}
		return nil, errors.New("no answer to the sub-channel proposal (dropped)")
	}
	acc := got[0].Msg.(*client.SubChannelProposalAccMsg)
	params := channel.NewParamsUnsafe(challenge, parent.Params().Parts, channel.NoApp(),
		CalcNonce(prop.NonceShare, acc.NonceShare), false, false, channel.ZeroAux)
	sm, err := channel.NewStateMachine(map[wallet.BackendID]wallet.Account{0: p.Acc}, *params)
	if err != nil {
		return nil, err
	}
	if err := sm.Init(init.Clone(), channel.NoData()); err != nil {
		return nil, errors.WithMessage(err, "init of the hand-made sub-channel")
	}
	sig, err := sm.Sig()
	if err != nil {
		return nil, err
	}
	hsigs := p.Env.Bus.Collect(func(e *wire.Envelope) bool {
		m, ok := e.Msg.(*client.ChannelUpdateAccMsg)
		return ok && fromH(e) && m.ChannelID == params.ID() && m.Version == 0
	})
	// the honest side may already have sent its signature: look into the past traffic too
	var hsig wallet.Sig
	for _, e := range p.Env.Bus.Sent() {
		if m, ok := e.Msg.(*client.ChannelUpdateAccMsg); ok && fromH(e) && m.ChannelID == params.ID() && m.Version == 0 {
			hsig = m.Sig
		}
	}
	if err := p.Inject(hp, &client.ChannelUpdateAccMsg{ChannelID: params.ID(), Version: 0, Sig: sig}); err != nil {
		return nil, err
	}
	if hsig == nil {
		g := hsigs.Wait(1, limit)
		if len(g) == 0 {
			return nil, errors.New("honest party did not send its version-0 signature")
		}
		hsig = g[0].Msg.(*client.ChannelUpdateAccMsg).Sig
	}
	st := sm.StagingState().Clone()
	sigs := make([]wallet.Sig, 2)
	sigs[parent.Idx()] = sig
	sigs[parent.Idx()^1] = hsig
	return &HandSub{Params: params, V0: channel.Transaction{State: st, Sigs: sigs}, Init: init}, nil
}

// AcceptSubProposals installs a proposal handler at p that accepts every
// sub-channel proposal from a goroutine after the handler has returned and
// reports the resulting channel (or error) on the returned channel.
func (p *Party) AcceptSubProposals(limit time.Duration) <-chan error {
	out := make(chan error, 8)
	p.SetHandlers(func(cp client.ChannelProposal, r *client.ProposalResponder) {
		sp, ok := cp.(*client.SubChannelProposalMsg)
		if !ok {
			ctx, cancel := context.WithTimeout(context.Background(), limit)
			defer cancel()
			_ = r.Reject(ctx, "only sub-channel proposals expected")
			return
		}
		go func() {
			ctx, cancel := context.WithTimeout(context.Background(), limit)
			defer cancel()
			_, err := r.Accept(ctx, sp.Accept(client.WithRandomNonce()))
			out <- err
		}()
	}, nil)
	return out
}
