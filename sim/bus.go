package sim

import (
	"bytes"
	"context"
	"sync"
	"sync/atomic"
	"time"

	"github.com/pkg/errors"

	"perun.network/go-perun/wallet"
	"perun.network/go-perun/wire"
)

// Bus is a scripted wire.Bus.  Publish enqueues and returns (an asynchronous
// network, like wire/net); every (sender, recipient) link is FIFO, as a TCP
// connection is.  The scenario can pause a link at a named message (Hold),
// pass every envelope through a serializer, observe all traffic and inject
// crafted envelopes with any sender.
type Bus struct {
	mu    sync.Mutex
	recvs map[wire.AddrKey]wire.Consumer
	links map[string]*link
	ser   wire.EnvelopeSerializer
	holds []*Hold
	sent  []*wire.Envelope
	taps  []func(*wire.Envelope)
	after []func(*wire.Envelope)
	// holding counts senders that are inside the after-taps
	holding atomic.Int64
	// blockUnknown: Publish to an address nobody is subscribed under waits for
	// the recipient (or the caller's context, or the shutdown of the bus), as a
	// network bus that keeps dialling does; default is an immediate error
	blockUnknown bool
	down         chan struct{}

	activity atomic.Uint64
	pending  atomic.Int64
}

type link struct {
	queue   []*wire.Envelope
	running bool
	blocked *Hold
}

// Hold pauses a link at the first envelope that matches its predicate.
type Hold struct {
	bus      *Bus
	pred     func(*wire.Envelope) bool
	active   bool
	caught   chan struct{}
	caughtOK bool
}

// NewBus creates a bus; ser may be nil (envelopes are passed by reference).
func NewBus(ser wire.EnvelopeSerializer) *Bus {
	return &Bus{recvs: map[wire.AddrKey]wire.Consumer{}, links: map[string]*link{}, ser: ser, down: make(chan struct{})}
}

var _ wire.Bus = (*Bus)(nil)

// Activity changes whenever an envelope is published or delivered.
func (b *Bus) Activity() uint64 { return b.activity.Load() }

// Busy reports whether envelopes are queued on links that are not paused.
func (b *Bus) Busy() bool { return b.pending.Load() != 0 || b.holding.Load() != 0 }

// Tap registers an observer that sees every published envelope (after the
// serializer round trip) before it is delivered.
func (b *Bus) Tap(f func(*wire.Envelope)) {
	b.mu.Lock()
	defer b.mu.Unlock()
	b.taps = append(b.taps, f)
}

// TapAfter registers an observer that runs after an envelope has been handed
// to the link (delivery goes on asynchronously) and before Publish returns to
// the sender: a scenario can hold the sender there, as a slow network stack
// would, while the recipient already acts on the message.
func (b *Bus) TapAfter(f func(*wire.Envelope)) {
	b.mu.Lock()
	defer b.mu.Unlock()
	b.after = append(b.after, f)
}

// BlockOnUnknownRecipient makes Publish wait for a recipient that is not
// subscribed instead of failing at once.
func (b *Bus) BlockOnUnknownRecipient() {
	b.mu.Lock()
	defer b.mu.Unlock()
	b.blockUnknown = true
}

// Shutdown releases every publisher that waits for an unreachable recipient.
func (b *Bus) Shutdown() {
	b.mu.Lock()
	defer b.mu.Unlock()
	select {
	case <-b.down:
	default:
		close(b.down)
	}
}

// Sent returns all envelopes published so far.
func (b *Bus) Sent() []*wire.Envelope {
	b.mu.Lock()
	defer b.mu.Unlock()
	return append([]*wire.Envelope{}, b.sent...)
}

// SubscribeClient routes envelopes for addr to c.
func (b *Bus) SubscribeClient(c wire.Consumer, addr map[wallet.BackendID]wire.Address) error {
	b.mu.Lock()
	defer b.mu.Unlock()
	key := wire.Keys(addr)
	if _, ok := b.recvs[key]; ok {
		return errors.New("sim.Bus: address already subscribed")
	}
	b.recvs[key] = c
	c.OnCloseAlways(func() {
		b.mu.Lock()
		defer b.mu.Unlock()
		delete(b.recvs, key)
	})
	return nil
}

// Publish sends an envelope.  It fails for an unknown recipient, as a network
// bus that cannot reach the peer does.
func (b *Bus) Publish(ctx context.Context, e *wire.Envelope) error {
	if b.ser != nil {
		var buf bytes.Buffer
		if err := b.ser.Encode(&buf, e); err != nil {
			return errors.WithMessage(err, "sim.Bus: encoding envelope")
		}
		d, err := b.ser.Decode(&buf)
		if err != nil {
			return errors.WithMessage(err, "sim.Bus: decoding envelope")
		}
		e = d
	}
	rk := wire.Keys(e.Recipient)
	for {
		b.mu.Lock()
		if _, ok := b.recvs[rk]; ok {
			break
		}
		block := b.blockUnknown
		b.mu.Unlock()
		if !block {
			return errors.New("sim.Bus: unknown recipient")
		}
		select {
		case <-ctx.Done():
			return errors.Wrap(ctx.Err(), "sim.Bus: recipient unreachable")
		case <-b.down:
			return errors.New("sim.Bus: shut down")
		case <-time.After(2 * time.Millisecond):
		}
	}
	b.sent = append(b.sent, e)
	taps := append([]func(*wire.Envelope){}, b.taps...)
	b.mu.Unlock()
	for _, t := range taps {
		t(e)
	}
	b.mu.Lock()
	lk := string(wire.Keys(e.Sender)) + "->" + string(rk)
	l := b.links[lk]
	if l == nil {
		l = &link{}
		b.links[lk] = l
	}
	l.queue = append(l.queue, e)
	if l.blocked == nil {
		b.pending.Add(1)
	}
	b.activity.Add(1)
	start := !l.running && l.blocked == nil
	if start {
		l.running = true
	}
	after := append([]func(*wire.Envelope){}, b.after...)
	b.mu.Unlock()
	if start {
		go b.run(l)
	}
	if len(after) > 0 {
		// a sender held back by a scenario is not quiet: it goes on when released
		b.holding.Add(1)
		for _, t := range after {
			t(e)
		}
		b.activity.Add(1)
		b.holding.Add(-1)
	}
	return nil
}

func (b *Bus) run(l *link) {
	for {
		b.mu.Lock()
		if len(l.queue) == 0 || l.blocked != nil {
			l.running = false
			b.mu.Unlock()
			return
		}
		e := l.queue[0]
		for _, h := range b.holds {
			if h.active && h.pred(e) {
				l.blocked = h
				l.running = false
				b.pending.Add(-int64(len(l.queue)))
				if !h.caughtOK {
					h.caughtOK = true
					close(h.caught)
				}
				b.activity.Add(1)
				b.mu.Unlock()
				return
			}
		}
		l.queue = l.queue[1:]
		recv := b.recvs[wire.Keys(e.Recipient)]
		b.mu.Unlock()
		if recv != nil {
			recv.Put(e)
		}
		b.pending.Add(-1)
		b.activity.Add(1)
	}
}

// Hold installs a pause rule.
func (b *Bus) Hold(pred func(*wire.Envelope) bool) *Hold {
	b.mu.Lock()
	defer b.mu.Unlock()
	h := &Hold{bus: b, pred: pred, active: true, caught: make(chan struct{})}
	b.holds = append(b.holds, h)
	return h
}

// Caught is closed when the hold has paused a link.
func (h *Hold) Caught() <-chan struct{} { return h.caught }

// Release removes the rule and resumes the links it paused.
func (h *Hold) Release() {
	b := h.bus
	b.mu.Lock()
	if !h.active {
		b.mu.Unlock()
		return
	}
	h.active = false
	var resume []*link
	for _, l := range b.links {
		if l.blocked == h {
			l.blocked = nil
			b.pending.Add(int64(len(l.queue)))
			if !l.running && len(l.queue) > 0 {
				l.running = true
				resume = append(resume, l)
			}
		}
	}
	b.activity.Add(1)
	b.mu.Unlock()
	for _, l := range resume {
		go b.run(l)
	}
}

// ReleaseAll releases every hold (end of scenario).
func (b *Bus) ReleaseAll() {
	b.mu.Lock()
	hs := append([]*Hold{}, b.holds...)
	b.mu.Unlock()
	for _, h := range hs {
		h.Release()
	}
}
