package sim

import (
	"context"
	"fmt"
	"math/big"
	"strings"
	"sync"
	"sync/atomic"

	"github.com/pkg/errors"

	simchannel "perun.network/go-perun/backend/sim/channel"
	"perun.network/go-perun/channel"
	"perun.network/go-perun/wallet"
)

// Call is one entry of the ledger's call log.
type Call struct {
	Seq     int
	Time    uint64 // logical time at which the call took effect
	Kind    string // fund | register | withdraw | progress
	Who     string // party name of the caller
	Chan    channel.ID
	Version uint64
	Subs    map[channel.ID]uint64 // versions of the sub-channel states passed along
	Err     string                // non-empty if the ledger refused the call
	Changed bool                  // register: the registered state of some channel changed
	Paid    []*big.Int            // withdraw: amount paid per asset
}

// Problem is a violation of the ledger's rules by a caller (an honest run must
// not produce any) or of the ledger's own invariants.
type Problem struct {
	Who  string
	Kind string
	Msg  string
}

// Registration is the registered (disputed) state of a channel.
type Registration struct {
	State    *channel.State
	Sigs     []wallet.Sig
	Deadline uint64
	At       uint64
	By       string
}

// Chan is the ledger's view of one channel.
type Chan struct {
	Params    *channel.Params
	Assets    []uint64
	Funded    [][]*big.Int // [asset][participant] deposited amounts
	fundCalls []bool
	fundedCh  chan struct{}
	Holdings  []*big.Int // per asset
	Reg       *Registration
	Concluded bool
	Outcome   channel.Balances
	Withdrawn []bool
}

// Ledger is a strict reference ledger: it implements what a real adjudicator
// and asset holder enforce (and client/test.MockBackend does not): it verifies
// the channel id and every participant signature of every registered or
// concluded state, refuses lower versions and registrations after the
// challenge deadline, requires sub-channel states to belong to locked entries
// of the parent, concludes once with the *registered* state, pays each
// participant once, debits funding from accounts and checks conservation per
// asset after every call.  Time is a logical clock.
type Ledger struct {
	Clock *Clock

	mu             sync.Mutex
	onFunded       func(who string, req channel.FundingReq)
	failWithdraw   map[string]int                 // who -> number of Withdraw calls that still fail (transient fault injection)
	accounts       map[string]map[uint64]*big.Int // wallet address key -> asset -> balance
	names          map[string]string              // wallet address key -> party name
	chans          map[channel.ID]*Chan
	subs           map[channel.ID]map[*Sub]struct{}
	latest         map[channel.ID]channel.AdjudicatorEvent
	calls          []Call
	problems       []Problem
	totals         map[uint64]*big.Int
	heldOwners     []string
	holdOnRegister string

	activity atomic.Uint64
	active   atomic.Int64
}

// NewLedger creates an empty ledger.
func NewLedger() *Ledger {
	return &Ledger{
		Clock:    NewClock(),
		accounts: map[string]map[uint64]*big.Int{},
		names:    map[string]string{},
		chans:    map[channel.ID]*Chan{},
		subs:     map[channel.ID]map[*Sub]struct{}{},
		latest:   map[channel.ID]channel.AdjudicatorEvent{},
		totals:   map[uint64]*big.Int{},
	}
}

func addrKey(a wallet.Address) string { return string(wallet.Key(a)) }

func assetID(a channel.Asset) (uint64, bool) {
	sa, ok := a.(*simchannel.Asset)
	if !ok {
		return 0, false
	}
	return sa.ID, true
}

// Activity is a counter that changes whenever anything happens on the ledger.
func (l *Ledger) Activity() uint64 { return l.activity.Load() }

// Busy reports whether a ledger call is executing (not merely parked in a wait)
// or an event has not been taken by its subscriber yet.
func (l *Ledger) Busy() bool {
	if l.active.Load() != 0 {
		return true
	}
	l.mu.Lock()
	defer l.mu.Unlock()
	for _, set := range l.subs {
		for s := range set {
			if s.pending() {
				return true
			}
		}
	}
	return false
}

// Credit gives an account an initial balance.
func (l *Ledger) Credit(name string, addr wallet.Address, asset uint64, amount *big.Int) {
	l.mu.Lock()
	defer l.mu.Unlock()
	k := addrKey(addr)
	l.names[k] = name
	if l.accounts[k] == nil {
		l.accounts[k] = map[uint64]*big.Int{}
	}
	if l.accounts[k][asset] == nil {
		l.accounts[k][asset] = new(big.Int)
	}
	l.accounts[k][asset].Add(l.accounts[k][asset], amount)
	if l.totals[asset] == nil {
		l.totals[asset] = new(big.Int)
	}
	l.totals[asset].Add(l.totals[asset], amount)
}

// Balance returns the account balance.
func (l *Ledger) Balance(addr wallet.Address, asset uint64) *big.Int {
	l.mu.Lock()
	defer l.mu.Unlock()
	if b := l.accounts[addrKey(addr)][asset]; b != nil {
		return new(big.Int).Set(b)
	}
	return new(big.Int)
}

// Reg2Tx returns the registered state of the channel as a transaction.
func (c *Chan) Reg2Tx() *channel.Transaction {
	return &channel.Transaction{State: c.Reg.State, Sigs: c.Reg.Sigs}
}

// Calls returns a copy of the call log.
func (l *Ledger) Calls() []Call {
	l.mu.Lock()
	defer l.mu.Unlock()
	return append([]Call{}, l.calls...)
}

// Problems returns the rule violations seen so far.
func (l *Ledger) Problems() []Problem {
	l.mu.Lock()
	defer l.mu.Unlock()
	return append([]Problem{}, l.problems...)
}

// Channel returns a snapshot of the ledger's view of a channel (nil if unknown).
func (l *Ledger) Channel(id channel.ID) *Chan {
	l.mu.Lock()
	defer l.mu.Unlock()
	c := l.chans[id]
	if c == nil {
		return nil
	}
	cp := *c
	if c.Reg != nil {
		r := *c.Reg
		cp.Reg = &r
	}
	cp.Holdings = nil
	for _, h := range c.Holdings {
		cp.Holdings = append(cp.Holdings, new(big.Int).Set(h))
	}
	cp.Withdrawn = append([]bool{}, c.Withdrawn...)
	return &cp
}

func (l *Ledger) problem(who, kind, format string, args ...any) {
	l.problems = append(l.problems, Problem{Who: who, Kind: kind, Msg: fmt.Sprintf(format, args...)})
}

func (l *Ledger) log(c Call) {
	c.Seq = len(l.calls)
	c.Time = l.Clock.Now()
	l.calls = append(l.calls, c)
	l.activity.Add(1)
}

// conservation checks accounts + holdings == initial totals, per asset.
func (l *Ledger) conservation(where string) {
	sum := map[uint64]*big.Int{}
	add := func(a uint64, v *big.Int) {
		if sum[a] == nil {
			sum[a] = new(big.Int)
		}
		sum[a].Add(sum[a], v)
	}
	for _, acc := range l.accounts {
		for a, v := range acc {
			add(a, v)
			if v.Sign() < 0 {
				l.problem("ledger", "negative-account", "negative account balance after %s", where)
			}
		}
	}
	for _, c := range l.chans {
		for i, h := range c.Holdings {
			add(c.Assets[i], h)
			if h.Sign() < 0 {
				l.problem("ledger", "negative-holdings", "negative channel holdings after %s", where)
			}
		}
	}
	for a, t := range l.totals {
		got := sum[a]
		if got == nil {
			got = new(big.Int)
		}
		if got.Cmp(t) != 0 {
			l.problem("ledger", "conservation", "asset %d: accounts+holdings = %v, initial total %v (after %s)", a, got, t, where)
		}
	}
}

// View binds the ledger to one caller (party name + wallet address).  It
// implements channel.Funder, channel.Adjudicator and channel.RegisterSubscriber.
type View struct {
	L    *Ledger
	Who  string
	Addr wallet.Address
}

// For returns the caller's view.
func (l *Ledger) For(who string, addr wallet.Address) *View {
	l.mu.Lock()
	l.names[addrKey(addr)] = who
	l.mu.Unlock()
	return &View{L: l, Who: who, Addr: addr}
}

var (
	_ channel.Funder             = (*View)(nil)
	_ channel.Adjudicator        = (*View)(nil)
	_ channel.RegisterSubscriber = (*View)(nil)
)

func verifyState(params *channel.Params, s *channel.State, sigs []wallet.Sig) error {
	if s == nil || params == nil {
		return errors.New("nil state or params")
	}
	if s.ID != params.ID() {
		return errors.New("state id is not the id of the parameters")
	}
	if len(sigs) != len(params.Parts) {
		return errors.Errorf("%d signatures for %d participants", len(sigs), len(params.Parts))
	}
	for i, sig := range sigs {
		if sig == nil {
			return errors.Errorf("signature %d missing", i)
		}
		for _, addr := range params.Parts[i] {
			ok, err := channel.Verify(addr, s, sig)
			if err != nil || !ok {
				return errors.Errorf("signature %d invalid (err=%v)", i, err)
			}
		}
	}
	return nil
}

// Fund deposits exactly Agreement[asset][Idx] from the caller's account and
// waits until every participant has funded.
// FailWithdraws makes the next n Withdraw calls of party who fail without any
// effect on the ledger (a transient fault; the party may repeat the call).
func (l *Ledger) FailWithdraws(who string, n int) {
	l.mu.Lock()
	defer l.mu.Unlock()
	if l.failWithdraw == nil {
		l.failWithdraw = map[string]int{}
	}
	l.failWithdraw[who] = n
}

// SetOnFunded installs a hook that runs in every Fund call after the channel
// is completely funded and before the call returns (nil removes it).
func (l *Ledger) SetOnFunded(f func(who string, req channel.FundingReq)) {
	l.mu.Lock()
	defer l.mu.Unlock()
	l.onFunded = f
}

func (v *View) Fund(ctx context.Context, req channel.FundingReq) error {
	l := v.L
	l.active.Add(1)
	l.mu.Lock()
	id := req.Params.ID()
	c := l.chans[id]
	call := Call{Kind: "fund", Who: v.Who, Chan: id}
	fail := func(kind, format string, args ...any) error {
		msg := fmt.Sprintf(format, args...)
		l.problem(v.Who, kind, "%s", msg)
		call.Err = msg
		l.log(call)
		l.mu.Unlock()
		l.active.Add(-1)
		return errors.New("ledger: " + msg)
	}
	n := len(req.Params.Parts)
	if c == nil {
		c = &Chan{Params: req.Params.Clone(), fundCalls: make([]bool, n), fundedCh: make(chan struct{}), Withdrawn: make([]bool, n)}
		for _, a := range req.State.Assets {
			aid, ok := assetID(a)
			if !ok {
				return fail("fund-asset", "unsupported asset type %T", a)
			}
			c.Assets = append(c.Assets, aid)
			c.Holdings = append(c.Holdings, new(big.Int))
			row := make([]*big.Int, n)
			for j := range row {
				row[j] = new(big.Int)
			}
			c.Funded = append(c.Funded, row)
		}
		l.chans[id] = c
	}
	idx := int(req.Idx)
	if idx >= n || !req.Params.Parts[idx][0].Equal(v.Addr) {
		return fail("fund-index", "caller is not participant %d of the channel", idx)
	}
	if c.fundCalls[idx] {
		return fail("fund-twice", "participant %d funds channel %x twice", idx, id[:4])
	}
	if len(req.Agreement) != len(c.Assets) {
		return fail("fund-agreement", "funding agreement has %d assets, channel %d", len(req.Agreement), len(c.Assets))
	}
	// the agreement must sum to the initial balances per asset
	for a := range req.Agreement {
		if len(req.Agreement[a]) != n {
			return fail("fund-agreement", "funding agreement row %d has %d entries for %d participants", a, len(req.Agreement[a]), n)
		}
		sa, sb := new(big.Int), new(big.Int)
		for p := 0; p < n; p++ {
			sa.Add(sa, req.Agreement[a][p])
			sb.Add(sb, req.State.Balances[a][p])
		}
		if sa.Cmp(sb) != 0 {
			return fail("fund-agreement", "funding agreement sum %v != initial balance sum %v for asset %d", sa, sb, a)
		}
	}
	acc := l.accounts[addrKey(v.Addr)]
	for a, aid := range c.Assets {
		amt := req.Agreement[a][idx]
		have := new(big.Int)
		if acc != nil && acc[aid] != nil {
			have = acc[aid]
		}
		if have.Cmp(amt) < 0 {
			return fail("fund-insufficient", "account of %s has %v of asset %d, needs %v", v.Who, have, aid, amt)
		}
	}
	for a, aid := range c.Assets {
		amt := req.Agreement[a][idx]
		if amt.Sign() != 0 {
			acc[aid].Sub(acc[aid], amt)
		}
		c.Holdings[a].Add(c.Holdings[a], amt)
		c.Funded[a][idx].Set(amt)
	}
	c.fundCalls[idx] = true
	all := true
	for _, f := range c.fundCalls {
		all = all && f
	}
	if all {
		close(c.fundedCh)
	}
	l.conservation("fund")
	l.log(call)
	ch := c.fundedCh
	hook := l.onFunded
	l.mu.Unlock()
	l.active.Add(-1)
	select {
	case <-ch:
		if hook != nil {
			// the scenario may delay the return of a funder (a slow chain node)
			hook(v.Who, req)
		}
		return nil
	case <-ctx.Done():
		return errors.WithStack(channel.FundingTimeoutError{})
	}
}

// checkSubTree verifies that every given sub-channel state belongs to a locked
// entry of the parent state or (recursively) of another given sub-state.
func checkSubTree(parent *channel.State, subs []channel.SignedState) error {
	known := map[channel.ID]bool{}
	var walk func(s *channel.State)
	byID := map[channel.ID]*channel.State{}
	for _, s := range subs {
		if s.State != nil {
			byID[s.State.ID] = s.State
		}
	}
	walk = func(s *channel.State) {
		for _, l := range s.Locked {
			if !known[l.ID] {
				known[l.ID] = true
				if sub := byID[l.ID]; sub != nil {
					walk(sub)
				}
			}
		}
	}
	walk(parent)
	for _, s := range subs {
		if s.State == nil {
			return errors.New("nil sub-channel state")
		}
		if !known[s.State.ID] {
			return errors.Errorf("sub-channel %x is not locked in the registered tree", s.State.ID[:4])
		}
	}
	for id := range known {
		if byID[id] == nil {
			return errors.Errorf("locked sub-channel %x was not supplied", id[:4])
		}
	}
	return nil
}

// Register registers the channel tree (refutation with higher versions).
func (v *View) Register(ctx context.Context, req channel.AdjudicatorReq, subs []channel.SignedState) error {
	l := v.L
	l.active.Add(1)
	defer l.active.Add(-1)
	l.mu.Lock()
	defer l.mu.Unlock()
	call := Call{Kind: "register", Who: v.Who, Subs: map[channel.ID]uint64{}}
	fail := func(kind, format string, args ...any) error {
		msg := fmt.Sprintf(format, args...)
		l.problem(v.Who, kind, "%s", msg)
		call.Err = msg
		l.log(call)
		return errors.New("ledger: " + msg)
	}
	if req.Params == nil || req.Tx.State == nil {
		return fail("register-nil", "nil params or state")
	}
	id := req.Params.ID()
	call.Chan, call.Version = id, req.Tx.Version
	for _, s := range subs {
		if s.State != nil {
			call.Subs[s.State.ID] = s.State.Version
		}
	}
	if err := verifyState(req.Params, req.Tx.State, req.Tx.Sigs); err != nil {
		return fail("register-invalid", "ledger channel state: %v", err)
	}
	for _, s := range subs {
		if err := verifyState(s.Params, s.State, s.Sigs); err != nil {
			return fail("register-invalid", "sub-channel state: %v", err)
		}
	}
	if err := checkSubTree(req.Tx.State, subs); err != nil {
		return fail("register-subtree", "%v", err)
	}
	c := l.chans[id]
	if c == nil {
		return fail("register-unfunded", "channel %x was never funded", id[:4])
	}
	if c.Concluded {
		// a concluded channel cannot be registered again; an adjudicator contract
		// refuses the call (an honest late-comer may well try: not a rule violation)
		call.Err = "channel is concluded"
		l.log(call)
		return errors.New("ledger: channel is already concluded")
	}
	now := l.Clock.Now()
	type item struct {
		params *channel.Params
		state  *channel.State
		sigs   []wallet.Sig
	}
	items := []item{{req.Params, req.Tx.State, req.Tx.Sigs}}
	for _, s := range subs {
		items = append(items, item{s.Params, s.State, s.Sigs})
	}
	// validate against what is registered
	for _, it := range items {
		cc := l.chans[it.state.ID]
		if cc == nil || cc.Reg == nil {
			continue
		}
		if it.state.Version < cc.Reg.State.Version {
			return fail("register-lower-version", "channel %x: version %d is lower than the registered version %d", it.state.ID[:4], it.state.Version, cc.Reg.State.Version)
		}
		if it.state.Version > cc.Reg.State.Version && now >= cc.Reg.Deadline {
			return fail("register-late", "channel %x: refutation with version %d at time %d, after the deadline %d", it.state.ID[:4], it.state.Version, now, cc.Reg.Deadline)
		}
	}
	if l.holdOnRegister != "" && strings.HasPrefix(v.Who, l.holdOnRegister) {
		// the scenario wants the events of this registration to be reported late
		// to the caller's own subscriptions (slow chain node)
		owner := strings.SplitN(v.Who, "/", 2)[0]
		l.heldOwners = append(l.heldOwners, owner)
		for _, set := range l.subs {
			for s := range set {
				if strings.HasPrefix(s.owner, owner) {
					s.mu.Lock()
					s.held = true
					s.mu.Unlock()
				}
			}
		}
		l.holdOnRegister = ""
	}
	deadline := now + req.Params.ChallengeDuration
	for _, it := range items {
		cc := l.chans[it.state.ID]
		if cc == nil {
			n := len(it.params.Parts)
			cc = &Chan{Params: it.params.Clone(), Withdrawn: make([]bool, n)}
			l.chans[it.state.ID] = cc
		}
		if cc.Reg != nil && it.state.Version == cc.Reg.State.Version {
			continue // nothing new for this channel
		}
		cc.Reg = &Registration{State: it.state.Clone(), Sigs: wallet.CloneSigs(it.sigs), Deadline: deadline, At: now, By: v.Who}
		call.Changed = true
		l.emit(it.state.ID, channel.NewRegisteredEvent(it.state.ID, &Timeout{C: l.Clock, At: deadline}, it.state.Version, it.state.Clone(), wallet.CloneSigs(it.sigs)))
	}
	l.log(call)
	return nil
}

// Progress is not used by the properties under test (no force-execution).
func (v *View) Progress(context.Context, channel.ProgressReq) error {
	l := v.L
	l.mu.Lock()
	defer l.mu.Unlock()
	l.problem(v.Who, "progress-unsupported", "Progress called")
	return errors.New("ledger: progress is not supported by the reference ledger")
}

// outcome computes the outcome of a registered tree.
func (l *Ledger) outcome(s *channel.State, depth int) (channel.Balances, error) {
	if depth > 8 {
		return nil, errors.New("sub-channel nesting too deep")
	}
	out := s.Balances.Clone()
	for _, lk := range s.Locked {
		sc := l.chans[lk.ID]
		if sc == nil || sc.Reg == nil {
			return nil, errors.Errorf("locked sub-channel %x has no registered state", lk.ID[:4])
		}
		so, err := l.outcome(sc.Reg.State, depth+1)
		if err != nil {
			return nil, err
		}
		if len(so) != len(out) {
			return nil, errors.Errorf("sub-channel %x has %d assets, parent %d", lk.ID[:4], len(so), len(out))
		}
		for a := range so {
			sum := new(big.Int)
			for p, b := range so[a] {
				sum.Add(sum, b)
				pp := p
				if len(lk.IndexMap) > 0 {
					if p >= len(lk.IndexMap) {
						return nil, errors.Errorf("index map of %x too short", lk.ID[:4])
					}
					pp = int(lk.IndexMap[p])
				}
				if pp >= len(out[a]) {
					return nil, errors.Errorf("index map of %x points outside the parent", lk.ID[:4])
				}
				out[a][pp].Add(out[a][pp], b)
			}
			if a >= len(lk.Bals) || sum.Cmp(lk.Bals[a]) != 0 {
				return nil, errors.Errorf("outcome of sub-channel %x (%v) differs from the locked amount", lk.ID[:4], sum)
			}
		}
	}
	return out, nil
}

// Withdraw concludes the channel (once) with the registered state - or with a
// final, fully signed state if nothing is registered - and pays the caller.
func (v *View) Withdraw(ctx context.Context, req channel.AdjudicatorReq, subStates channel.StateMap) error {
	l := v.L
	l.active.Add(1)
	defer l.active.Add(-1)
	l.mu.Lock()
	if l.failWithdraw[v.Who] > 0 {
		// an injected transient failure (the chain was not reachable): nothing
		// happened on the ledger, the call may be repeated
		l.failWithdraw[v.Who]--
		l.mu.Unlock()
		return errors.New("ledger: transient failure injected by the scenario (chain not reachable)")
	}
	call := Call{Kind: "withdraw", Who: v.Who}
	fail := func(kind, format string, args ...any) error {
		msg := fmt.Sprintf(format, args...)
		l.problem(v.Who, kind, "%s", msg)
		call.Err = msg
		l.log(call)
		l.mu.Unlock()
		return errors.New("ledger: " + msg)
	}
	if req.Params == nil || req.Tx.State == nil {
		return fail("withdraw-nil", "nil params or state")
	}
	id := req.Params.ID()
	call.Chan, call.Version = id, req.Tx.Version
	c := l.chans[id]
	if c == nil || c.Funded == nil {
		return fail("withdraw-unfunded", "channel %x was never funded", id[:4])
	}
	idx := -1
	for i, p := range c.Params.Parts {
		if p[0].Equal(v.Addr) {
			idx = i
		}
	}
	if idx < 0 {
		return fail("withdraw-stranger", "caller is not a participant")
	}
	for !c.Concluded {
		if c.Reg == nil {
			// collaborative conclusion with a final state
			if !req.Tx.State.IsFinal {
				return fail("withdraw-unregistered", "withdraw of a non-final state (version %d) that is not registered", req.Tx.Version)
			}
			if err := verifyState(req.Params, req.Tx.State, req.Tx.Sigs); err != nil {
				return fail("withdraw-invalid", "final state: %v", err)
			}
			if len(req.Tx.State.Locked) != 0 {
				return fail("withdraw-final-locked", "final state with locked funds cannot be concluded without registration")
			}
			c.Outcome = req.Tx.State.Balances.Clone()
			c.Concluded = true
			l.emit(id, channel.NewConcludedEvent(id, &channel.ElapsedTimeout{}, req.Tx.Version))
			break
		}
		// registered: the challenge period of the whole tree must be over unless final
		wait := uint64(0)
		var need func(s *channel.State, r *Registration)
		need = func(s *channel.State, r *Registration) {
			if !s.IsFinal && r.Deadline > wait {
				wait = r.Deadline
			}
			for _, lk := range s.Locked {
				if sc := l.chans[lk.ID]; sc != nil && sc.Reg != nil {
					need(sc.Reg.State, sc.Reg)
				}
			}
		}
		need(c.Reg.State, c.Reg)
		if now := l.Clock.Now(); now < wait {
			// as a real backend does: wait for the end of the challenge period
			l.mu.Unlock()
			l.active.Add(-1)
			err := l.Clock.WaitUntil(ctx, wait)
			l.active.Add(1)
			l.mu.Lock()
			if err != nil {
				return fail("withdraw-timeout", "context ended while waiting for the challenge period: %v", err)
			}
			continue // re-evaluate: a refutation may have arrived meanwhile
		}
		out, err := l.outcome(c.Reg.State, 0)
		if err != nil {
			return fail("withdraw-outcome", "%v", err)
		}
		c.Outcome = out
		c.Concluded = true
		if req.Tx.Version != c.Reg.State.Version {
			call.Err = fmt.Sprintf("note: caller presented version %d, concluded with the registered version %d", req.Tx.Version, c.Reg.State.Version)
		}
		l.emit(id, channel.NewConcludedEvent(id, &channel.ElapsedTimeout{}, c.Reg.State.Version))
	}
	if c.Withdrawn[idx] {
		call.Err = "note: already withdrawn"
		l.log(call)
		l.mu.Unlock()
		return nil
	}
	c.Withdrawn[idx] = true
	acc := l.accounts[addrKey(v.Addr)]
	if acc == nil {
		acc = map[uint64]*big.Int{}
		l.accounts[addrKey(v.Addr)] = acc
	}
	for a, aid := range c.Assets {
		amt := new(big.Int)
		if a < len(c.Outcome) && idx < len(c.Outcome[a]) {
			amt.Set(c.Outcome[a][idx])
		}
		if c.Holdings[a].Cmp(amt) < 0 {
			l.problem("ledger", "overdraw", "channel %x holds %v of asset %d but the outcome pays %v to participant %d", id[:4], c.Holdings[a], aid, amt, idx)
			amt.Set(c.Holdings[a])
		}
		c.Holdings[a].Sub(c.Holdings[a], amt)
		if acc[aid] == nil {
			acc[aid] = new(big.Int)
		}
		acc[aid].Add(acc[aid], amt)
		call.Paid = append(call.Paid, amt)
	}
	l.conservation("withdraw")
	l.log(call)
	l.mu.Unlock()
	return nil
}

// ---------------------------------------------------------------- subscriptions

// Sub is an adjudicator event subscription with an unbounded queue.
type Sub struct {
	l         *Ledger
	id        channel.ID
	mu        sync.Mutex
	queue     []channel.AdjudicatorEvent
	notify    chan struct{}
	closed    bool
	waiting   bool // a Next call is in progress
	owner     string
	held      bool // events are kept back (slow chain node) until released
	heldQueue []channel.AdjudicatorEvent
}

// HoldEvents keeps all events for subscriptions of callers whose name starts
// with prefix back (a chain node that is slow to report) until ReleaseEvents.
func (l *Ledger) HoldEvents(prefix string) {
	l.mu.Lock()
	defer l.mu.Unlock()
	l.heldOwners = append(l.heldOwners, prefix)
	for _, set := range l.subs {
		for s := range set {
			if strings.HasPrefix(s.owner, prefix) {
				s.mu.Lock()
				s.held = true
				s.mu.Unlock()
			}
		}
	}
}

// HoldEventsOnRegisterBy arranges that the events caused by the next Register
// call of a caller whose name starts with prefix are kept back from that
// party's own subscriptions until ReleaseEvents.
func (l *Ledger) HoldEventsOnRegisterBy(prefix string) {
	l.mu.Lock()
	defer l.mu.Unlock()
	l.holdOnRegister = prefix
}

// RegisterCallsBy counts the successful Register calls of callers whose name
// starts with prefix.
func (l *Ledger) RegisterCallsBy(prefix string) int {
	l.mu.Lock()
	defer l.mu.Unlock()
	n := 0
	for _, c := range l.calls {
		if c.Kind == "register" && c.Err == "" && strings.HasPrefix(c.Who, prefix) {
			n++
		}
	}
	return n
}

// ReleaseEvents delivers everything kept back by HoldEvents.
func (l *Ledger) ReleaseEvents() {
	l.mu.Lock()
	defer l.mu.Unlock()
	l.heldOwners = nil
	for _, set := range l.subs {
		for s := range set {
			s.mu.Lock()
			if s.held {
				s.held = false
				if !s.closed && len(s.heldQueue) > 0 {
					s.queue = append(s.queue, s.heldQueue...)
					select {
					case s.notify <- struct{}{}:
					default:
					}
				}
				s.heldQueue = nil
			}
			s.mu.Unlock()
		}
	}
	l.activity.Add(1)
}

// pending reports whether an event is about to be taken: the queue is not
// empty and the consumer sits in Next.  A consumer that has stopped reading
// (it handles an earlier event or is parked on the clock) does not make the
// ledger busy, however many events pile up behind it.
func (s *Sub) pending() bool {
	s.mu.Lock()
	defer s.mu.Unlock()
	return len(s.queue) > 0 && !s.closed && s.waiting
}

func (s *Sub) push(e channel.AdjudicatorEvent) {
	s.mu.Lock()
	defer s.mu.Unlock()
	if s.closed {
		return
	}
	if s.held {
		s.heldQueue = append(s.heldQueue, e)
		return
	}
	s.queue = append(s.queue, e)
	select {
	case s.notify <- struct{}{}:
	default:
	}
}

// Next returns the next event, or nil when the subscription is closed.
func (s *Sub) Next() channel.AdjudicatorEvent {
	for {
		s.mu.Lock()
		s.waiting = true
		if s.closed {
			s.waiting = false
			s.mu.Unlock()
			return nil
		}
		if len(s.queue) > 0 {
			e := s.queue[0]
			s.queue = s.queue[1:]
			s.waiting = false
			s.mu.Unlock()
			s.l.activity.Add(1)
			return e
		}
		s.mu.Unlock()
		<-s.notify
	}
}

// Err returns nil: the reference ledger's subscriptions do not fail.
func (s *Sub) Err() error { return nil }

// Close ends the subscription.
func (s *Sub) Close() error {
	s.mu.Lock()
	already := s.closed
	if !already {
		s.closed = true
		close(s.notify)
	}
	s.mu.Unlock()
	if !already {
		s.l.mu.Lock()
		delete(s.l.subs[s.id], s)
		s.l.mu.Unlock()
	}
	return nil
}

// emit publishes an event to all subscribers of the channel (caller holds mu).
func (l *Ledger) emit(id channel.ID, e channel.AdjudicatorEvent) {
	l.latest[id] = e
	for s := range l.subs[id] {
		s.push(e)
	}
	l.activity.Add(1)
}

// Subscribe returns a subscription that first delivers the most recent past
// event of the channel, if any.
func (v *View) Subscribe(_ context.Context, id channel.ID) (channel.AdjudicatorSubscription, error) {
	l := v.L
	l.mu.Lock()
	defer l.mu.Unlock()
	s := &Sub{l: l, id: id, notify: make(chan struct{}, 1), owner: v.Who}
	for _, p := range l.heldOwners {
		if strings.HasPrefix(v.Who, p) {
			s.held = true
		}
	}
	if l.subs[id] == nil {
		l.subs[id] = map[*Sub]struct{}{}
	}
	l.subs[id][s] = struct{}{}
	if e, ok := l.latest[id]; ok {
		if s.held {
			s.heldQueue = append(s.heldQueue, e)
		} else {
			s.queue = append(s.queue, e)
			s.notify <- struct{}{}
		}
	}
	l.activity.Add(1)
	return s, nil
}
