package sim

import (
	"context"
	crand "crypto/rand"
	"fmt"
	"strings"
	"sync"
	"sync/atomic"
	"time"

	simwallet "perun.network/go-perun/backend/sim/wallet"
	simwire "perun.network/go-perun/backend/sim/wire"
	"perun.network/go-perun/channel"
	"perun.network/go-perun/channel/persistence"
	"perun.network/go-perun/client"
	"perun.network/go-perun/wallet"
	"perun.network/go-perun/watcher"
	"perun.network/go-perun/watcher/local"
	"perun.network/go-perun/wire"

	"verif/gen"
)

// ---------------------------------------------------------------- recorder

// Event is one persister callback, with clones of the transactions.
type Event struct {
	Seq    uint64 // global order over all recorders of the scenario
	Who    string
	Kind   string // created | removed | staged | sigadded | enabled | phase
	Chan   channel.ID
	Idx    channel.Index
	SigIdx channel.Index
	Phase  channel.Phase
	Cur    channel.Transaction
	Staged channel.Transaction
}

// Recorder is a persistence.PersistRestorer that records every callback.
type Recorder struct {
	persistence.PersistRestorer
	Who string
	seq *atomic.Uint64
	mu  sync.Mutex
	evs []Event
}

// NewRecorder creates a recorder that shares seq with the other recorders of
// the scenario.
func NewRecorder(who string, seq *atomic.Uint64) *Recorder {
	return &Recorder{PersistRestorer: persistence.NonPersistRestorer, Who: who, seq: seq}
}

func (r *Recorder) add(kind string, s channel.Source, sigIdx channel.Index) {
	e := Event{Who: r.Who, Kind: kind, Chan: s.ID(), Idx: s.Idx(), SigIdx: sigIdx, Phase: s.Phase(),
		Cur: s.CurrentTX().Clone(), Staged: s.StagingTX().Clone()}
	r.mu.Lock()
	e.Seq = r.seq.Add(1)
	r.evs = append(r.evs, e)
	r.mu.Unlock()
}

// Events returns a copy of the recorded events.
func (r *Recorder) Events() []Event {
	r.mu.Lock()
	defer r.mu.Unlock()
	return append([]Event{}, r.evs...)
}

func (r *Recorder) ChannelCreated(_ context.Context, s channel.Source, _ []map[wallet.BackendID]wire.Address, _ *channel.ID) error {
	r.add("created", s, 0)
	return nil
}

func (r *Recorder) ChannelRemoved(_ context.Context, id channel.ID) error {
	r.mu.Lock()
	r.evs = append(r.evs, Event{Seq: r.seq.Add(1), Who: r.Who, Kind: "removed", Chan: id})
	r.mu.Unlock()
	return nil
}

func (r *Recorder) Staged(_ context.Context, s channel.Source) error {
	r.add("staged", s, 0)
	return nil
}

func (r *Recorder) SigAdded(_ context.Context, s channel.Source, i channel.Index) error {
	r.add("sigadded", s, i)
	return nil
}

func (r *Recorder) Enabled(_ context.Context, s channel.Source) error {
	r.add("enabled", s, 0)
	return nil
}

func (r *Recorder) PhaseChanged(_ context.Context, s channel.Source) error {
	r.add("phase", s, 0)
	return nil
}

func (r *Recorder) Close() error { return nil }

// LastEnabled returns the newest transaction the party enabled on channel id
// (ok false if none).
func (r *Recorder) LastEnabled(id channel.ID) (channel.Transaction, bool) {
	r.mu.Lock()
	defer r.mu.Unlock()
	for i := len(r.evs) - 1; i >= 0; i-- {
		if r.evs[i].Kind == "enabled" && r.evs[i].Chan == id {
			return r.evs[i].Cur, true
		}
	}
	return channel.Transaction{}, false
}

// ---------------------------------------------------------------- environment and parties

// Env is one scenario world: ledger, bus and the shared event order.
type Env struct {
	Ledger *Ledger
	Bus    *Bus
	Seq    atomic.Uint64
	// WatchStartHook, if set, is called when a party's Channel.Watch registers
	// the channel with the watcher (the client holds the machine mutex then).
	WatchStartHook func(p *Party, id channel.ID)

	mu      sync.Mutex
	parties []*Party
}

// NewEnv creates a world.  ser may be nil.
func NewEnv(ser wire.EnvelopeSerializer) *Env {
	return &Env{Ledger: NewLedger(), Bus: NewBus(ser)}
}

// Party is a client with everything around it.
type Party struct {
	Name     string
	Env      *Env
	Acc      *simwallet.Account
	Wallet   *simwallet.Wallet
	WireAddr map[wallet.BackendID]wire.Address
	Client   *client.Client
	Rec      *Recorder
	Watcher  *local.Watcher
	View     *View
	// CloseHung is set when Client.Close did not return within the bound
	CloseHung atomic.Bool

	mu         sync.Mutex
	subWatched map[channel.ID]bool
	chans      map[channel.ID]*client.Channel
	newChan    chan *client.Channel
	adjEvents  []channel.AdjudicatorEvent
	watchErrs  []string
	noWatch    bool

	// OnProposal / OnUpdate are the user handlers; they may be replaced by the
	// scenario before the corresponding message arrives.
	OnProposal func(client.ChannelProposal, *client.ProposalResponder)
	OnUpdate   func(*channel.State, client.ChannelUpdate, *client.UpdateResponder)
	handleDone chan struct{}
}

// WireAddrOf returns a deterministic wire address for a name.
func WireAddrOf(name string) map[wallet.BackendID]wire.Address {
	a := simwire.NewAddress()
	copy(a[:], []byte("party:"+name))
	return map[wallet.BackendID]wire.Address{0: a}
}

// NewParty creates a party named name using pool key keyIdx, subscribes it to
// the bus and starts its request loop.  watch=false disables Channel.Watch.
func (e *Env) NewParty(name string, keyIdx int, watch bool) (*Party, error) {
	acc := (*simwallet.Account)(nil)
	if keyIdx < 0 {
		// a fresh key: needed when several worlds run concurrently, because closing a
		// client locks the account objects of its wallet
		acc = simwallet.NewRandomAccount(crand.Reader)
	} else {
		acc = gen.Acc(keyIdx)
	}
	p := &Party{Name: name, Env: e, Acc: acc, chans: map[channel.ID]*client.Channel{}, subWatched: map[channel.ID]bool{},
		newChan: make(chan *client.Channel, 64), noWatch: !watch, handleDone: make(chan struct{})}
	// not NewRestoredWallet: that locks the account until a channel is created, but the
	// harness also signs with keys of parties that never open a channel
	p.Wallet = simwallet.NewWallet()
	if err := p.Wallet.AddAccount(p.Acc); err != nil {
		return nil, err
	}
	p.WireAddr = WireAddrOf(name)
	p.View = e.Ledger.For(name, p.Acc.Address())
	w, err := local.NewWatcher(e.Ledger.For(name+"/watcher", p.Acc.Address()))
	if err != nil {
		return nil, err
	}
	p.Watcher = w
	c, err := client.New(p.WireAddr, e.Bus, p.View, p.View, map[wallet.BackendID]wallet.Wallet{0: p.Wallet}, hookWatcher{Watcher: w, p: p})
	if err != nil {
		return nil, err
	}
	p.Client = c
	p.Rec = NewRecorder(name, &e.Seq)
	c.EnablePersistence(p.Rec)
	c.OnNewChannel(func(ch *client.Channel) {
		p.mu.Lock()
		p.chans[ch.ID()] = ch
		p.mu.Unlock()
		if !p.noWatch {
			go p.watch(ch)
		}
		select {
		case p.newChan <- ch:
		default:
		}
	})
	p.OnProposal = func(_ client.ChannelProposal, r *client.ProposalResponder) {
		ctx, cancel := context.WithTimeout(context.Background(), 5*time.Second)
		defer cancel()
		_ = r.Reject(ctx, "no handler")
	}
	p.OnUpdate = func(_ *channel.State, _ client.ChannelUpdate, r *client.UpdateResponder) {
		ctx, cancel := context.WithTimeout(context.Background(), 5*time.Second)
		defer cancel()
		_ = r.Accept(ctx)
	}
	go func() {
		defer close(p.handleDone)
		c.Handle(
			client.ProposalHandlerFunc(func(cp client.ChannelProposal, r *client.ProposalResponder) {
				p.mu.Lock()
				h := p.OnProposal
				p.mu.Unlock()
				h(cp, r)
			}),
			client.UpdateHandlerFunc(func(s *channel.State, u client.ChannelUpdate, r *client.UpdateResponder) {
				p.mu.Lock()
				h := p.OnUpdate
				p.mu.Unlock()
				h(s, u, r)
			}))
	}()
	e.mu.Lock()
	e.parties = append(e.parties, p)
	e.mu.Unlock()
	return p, nil
}

// SetHandlers replaces the user handlers (nil keeps the current one).
func (p *Party) SetHandlers(ph func(client.ChannelProposal, *client.ProposalResponder), uh func(*channel.State, client.ChannelUpdate, *client.UpdateResponder)) {
	p.mu.Lock()
	defer p.mu.Unlock()
	if ph != nil {
		p.OnProposal = ph
	}
	if uh != nil {
		p.OnUpdate = uh
	}
}

// hookWatcher lets the scenario act at the moment a channel's Watch registers
// with the watcher (Env.WatchStartHook), which happens while the client holds
// the channel's machine mutex.
type hookWatcher struct {
	watcher.Watcher
	p *Party
}

func (w hookWatcher) StartWatchingLedgerChannel(ctx context.Context, s channel.SignedState) (watcher.StatesPub, watcher.AdjudicatorSub, error) {
	if hk := w.p.Env.WatchStartHook; hk != nil {
		hk(w.p, s.Params.ID())
	}
	return w.Watcher.StartWatchingLedgerChannel(ctx, s)
}

func (w hookWatcher) StartWatchingSubChannel(ctx context.Context, parent channel.ID, s channel.SignedState) (watcher.StatesPub, watcher.AdjudicatorSub, error) {
	if hk := w.p.Env.WatchStartHook; hk != nil {
		hk(w.p, s.Params.ID())
	}
	pub, sub, err := w.Watcher.StartWatchingSubChannel(ctx, parent, s)
	if err == nil {
		w.p.mu.Lock()
		w.p.subWatched[s.Params.ID()] = true
		w.p.mu.Unlock()
	}
	return pub, sub, err
}

// WatchAgain calls Channel.Watch on a sub-channel that the party watches
// already (it waits until the first call has registered the channel with the
// watcher).  The call is expected to fail; its error is returned.  nil means
// that the second call did not return within the limit.
func (p *Party) WatchAgain(ch *client.Channel, limit time.Duration) (error, bool) {
	deadline := time.Now().Add(limit)
	for {
		p.mu.Lock()
		ok := p.subWatched[ch.ID()]
		p.mu.Unlock()
		if ok {
			break
		}
		if time.Now().After(deadline) {
			return nil, false
		}
		time.Sleep(time.Millisecond)
	}
	res := make(chan error, 1)
	go func() { res <- ch.Watch(adjHandler{p}) }()
	select {
	case err := <-res:
		return err, true
	case <-time.After(limit):
		return nil, true
	}
}

type adjHandler struct{ p *Party }

func (h adjHandler) HandleAdjudicatorEvent(e channel.AdjudicatorEvent) {
	h.p.mu.Lock()
	h.p.adjEvents = append(h.p.adjEvents, e)
	h.p.mu.Unlock()
}

// watch runs Channel.Watch; a sub-channel's watch is started only after the
// parent's registration with the watcher succeeded (retry, as the repository's
// own roles do).
func (p *Party) watch(ch *client.Channel) {
	// Channel.Watch on a channel that is closed concurrently (end of scenario)
	// dereferences a nil subscription inside go-perun; that is outside the
	// properties checked here, so it must not take the test process down.
	defer func() {
		if r := recover(); r != nil {
			p.mu.Lock()
			p.watchErrs = append(p.watchErrs, fmt.Sprint("panic in Watch: ", r))
			p.mu.Unlock()
		}
	}()
	for i := 0; i < 2000; i++ {
		if ch.IsClosed() {
			return
		}
		err := ch.Watch(adjHandler{p})
		if err == nil {
			return
		}
		// a sub-channel can only be watched once its parent is; the parent's Watch
		// call may still be on its way (recognised by the error text or, independent
		// of it, by the channel having a parent: retried for two seconds)
		if (strings.Contains(err.Error(), "parent") && strings.Contains(err.Error(), "not registered")) || (ch.Parent() != nil && i < 1999) {
			time.Sleep(time.Millisecond)
			continue
		}
		p.mu.Lock()
		p.watchErrs = append(p.watchErrs, err.Error())
		p.mu.Unlock()
		return
	}
}

// Channel returns the party's channel with the given id.
func (p *Party) Channel(id channel.ID) *client.Channel {
	p.mu.Lock()
	defer p.mu.Unlock()
	return p.chans[id]
}

// Channels returns all channels of the party.
func (p *Party) Channels() []*client.Channel {
	p.mu.Lock()
	defer p.mu.Unlock()
	var out []*client.Channel
	for _, c := range p.chans {
		out = append(out, c)
	}
	return out
}

// AdjEvents returns the adjudicator events relayed to the party's handler.
func (p *Party) AdjEvents() []channel.AdjudicatorEvent {
	p.mu.Lock()
	defer p.mu.Unlock()
	return append([]channel.AdjudicatorEvent{}, p.adjEvents...)
}

// WaitChannel waits until the party's registry announced channel id.
func (p *Party) WaitChannel(id channel.ID, limit time.Duration) *client.Channel {
	deadline := time.Now().Add(limit)
	for {
		if ch := p.Channel(id); ch != nil {
			return ch
		}
		if time.Now().After(deadline) {
			return nil
		}
		select {
		case <-p.newChan:
		case <-time.After(2 * time.Millisecond):
		}
	}
}

// Close shuts the party down.
func (p *Party) Close() {
	// Client.Close waits for locks of the party's channels and watcher; on a
	// tree in which one of them leaked, the verdict of the case (already
	// decided by then) must still be reported, so the wait is bounded.
	closed := make(chan struct{})
	go func() { defer close(closed); _ = p.Client.Close() }()
	select {
	case <-closed:
	case <-time.After(5 * time.Second):
		p.CloseHung.Store(true)
		return
	}
	select {
	case <-p.handleDone:
	case <-time.After(5 * time.Second):
	}
}

// Close shuts the whole world down.
func (e *Env) Close() {
	e.Bus.ReleaseAll()
	// a sender that a scenario still holds inside Publish (an acceptance under
	// way) finishes first: closing a client in the middle of an acceptance makes
	// the library publish to a closed watcher subscription (panic), which is
	// outside the properties checked here and must not take the process down
	if e.Bus.Busy() {
		e.Quiesce(3*time.Millisecond, 2*time.Second)
	}
	e.Bus.Shutdown()
	e.mu.Lock()
	ps := append([]*Party{}, e.parties...)
	e.mu.Unlock()
	for _, p := range ps {
		p.Close()
	}
}

// Quiesce waits until neither the bus nor the ledger showed any activity for
// the given period of real time (and nothing is queued).  It is used only to
// decide when the scenario may take its next scripted step; it returns false
// if the world did not settle within limit (hang detector).
func (e *Env) Quiesce(stable, limit time.Duration) bool {
	deadline := time.Now().Add(limit)
	last := e.Bus.Activity() + e.Ledger.Activity() + e.Seq.Load()
	since := time.Now()
	for {
		time.Sleep(2 * time.Millisecond)
		cur := e.Bus.Activity() + e.Ledger.Activity() + e.Seq.Load()
		busy := e.Bus.Busy() || e.Ledger.Busy()
		if cur != last || busy {
			last = cur
			since = time.Now()
		} else if time.Since(since) >= stable {
			return true
		}
		if time.Now().After(deadline) {
			return false
		}
	}
}
