package sim

import (
	"context"
	"fmt"
	"math/big"
	"sync"
	"sync/atomic"
	"time"

	"github.com/pkg/errors"

	simchannel "perun.network/go-perun/backend/sim/channel"
	"perun.network/go-perun/channel"
	"perun.network/go-perun/client"
	"perun.network/go-perun/wallet"
	"perun.network/go-perun/wire"
)

// HangLimit is the generous wall-clock limit after which an operation that
// normally takes milliseconds is considered hung.  It is a hang detector, not
// a correctness signal.  A check may lower it while its library minimises a
// failing case (every candidate that still hangs would otherwise cost the full
// limit).
var HangLimit = 30 * time.Second

// Pair is a two-party world: parties 0 and 1 with one ledger channel and at
// most one open sub-channel, driven step by step by a scenario.
type Pair struct {
	Env    *Env
	P      [2]*Party
	Assets []uint64
	Ch     [2]*client.Channel
	Sub    [2]*client.Channel
	SubBy  int // party that proposed the open sub-channel (index 0 inside it)

	accept [2]atomic.Bool // decision of party i for the next incoming update

	// CtxEndsAfterAccept[i]: the context party i's handler passes to Accept is
	// cancelled the moment its acceptance is on the wire (an application that
	// releases the update's context early, or a deadline that expires right
	// after the last message of the update).  No request times out by this.
	CtxEndsAfterAccept [2]atomic.Bool
	// HandlerDelay[i] (nanoseconds): party i's update handler waits that long
	// before it answers (real time; it only shapes the schedule)
	HandlerDelay [2]atomic.Int64
	// SettleCtxDelay[i]: delays (microseconds) of the first Done() calls on the
	// context party i's Settle runs with (see SlowCtx)
	SettleCtxDelay [2][]int
	// HandlerEntered[i] receives a token (non-blocking) whenever party i's update
	// handler is entered (the client holds the channel's machine mutex then)
	HandlerEntered [2]chan struct{}
	accMu          sync.Mutex
	accCancel      [2]context.CancelFunc
}

// NewPair creates two honest parties (pool keys key0, key1).
func NewPair(ser wire.EnvelopeSerializer, key0, key1 int, watch bool) (*Pair, error) {
	return NewPairOpt(ser, key0, key1, [2]bool{watch, watch})
}

// NewPairOpt is NewPair with a per-party watch flag.
func NewPairOpt(ser wire.EnvelopeSerializer, key0, key1 int, watch [2]bool) (*Pair, error) {
	env := NewEnv(ser)
	pr := &Pair{Env: env}
	for i, k := range []int{key0, key1} {
		p, err := env.NewParty([]string{"A", "B"}[i], k, watch[i])
		if err != nil {
			return nil, err
		}
		pr.P[i] = p
		pr.HandlerEntered[i] = make(chan struct{}, 64)
		pr.accept[i].Store(true)
		i := i
		p.SetHandlers(nil, func(_ *channel.State, _ client.ChannelUpdate, r *client.UpdateResponder) {
			ctx, cancel := context.WithTimeout(context.Background(), HangLimit)
			defer cancel()
			select {
			case pr.HandlerEntered[i] <- struct{}{}:
			default:
			}
			if d := pr.HandlerDelay[i].Load(); d > 0 {
				time.Sleep(time.Duration(d))
			}
			if pr.CtxEndsAfterAccept[i].Load() {
				pr.accMu.Lock()
				pr.accCancel[i] = cancel
				pr.accMu.Unlock()
			}
			if pr.accept[i].Load() {
				_ = r.Accept(ctx)
			} else {
				_ = r.Reject(ctx, "scenario says no")
			}
		})
	}
	env.Bus.Tap(func(e *wire.Envelope) {
		if _, ok := e.Msg.(*client.ChannelUpdateAccMsg); !ok {
			return
		}
		for i := 0; i < 2; i++ {
			if wire.Keys(e.Sender) == wire.Keys(pr.P[i].WireAddr) {
				pr.accMu.Lock()
				cancel := pr.accCancel[i]
				pr.accCancel[i] = nil
				pr.accMu.Unlock()
				if cancel != nil {
					cancel()
				}
			}
		}
	})
	return pr, nil
}

// MakeAlloc builds an allocation over the sim assets with the given two-party
// balances.
func MakeAlloc(assets []uint64, bals [][2]*big.Int) *channel.Allocation {
	as := make([]channel.Asset, len(assets))
	bk := make([]wallet.BackendID, len(assets))
	for i, a := range assets {
		as[i] = &simchannel.Asset{ID: a}
	}
	al := channel.NewAllocation(2, bk, as...)
	for i := range assets {
		al.Balances[i][0] = new(big.Int).Set(bals[i][0])
		al.Balances[i][1] = new(big.Int).Set(bals[i][1])
	}
	return al
}

func toBalances(b [][2]*big.Int) channel.Balances {
	out := make(channel.Balances, len(b))
	for i := range b {
		out[i] = []channel.Bal{new(big.Int).Set(b[i][0]), new(big.Int).Set(b[i][1])}
	}
	return out
}

// Open opens the ledger channel: party `by` proposes, the other accepts inside
// its proposal handler.
func (pr *Pair) Open(by int, assets []uint64, init, fund [][2]*big.Int, challenge uint64, app channel.App, data channel.Data) error {
	chs, err := pr.OpenLedger(by, assets, init, fund, challenge, app, data)
	if err != nil {
		return err
	}
	pr.Ch = chs
	return nil
}

// OpenLedger opens a further ledger channel between the two parties and
// returns the handles (indexed by party).
func (pr *Pair) OpenLedger(by int, assets []uint64, init, fund [][2]*big.Int, challenge uint64, app channel.App, data channel.Data) (chs [2]*client.Channel, _ error) {
	pr.Assets = assets
	ctx, cancel := context.WithTimeout(context.Background(), HangLimit)
	defer cancel()
	other := by ^ 1
	type res struct {
		ch  *client.Channel
		err error
	}
	got := make(chan res, 1)
	pr.P[other].SetHandlers(func(cp client.ChannelProposal, r *client.ProposalResponder) {
		lp, ok := cp.(*client.LedgerChannelProposalMsg)
		if !ok {
			_ = r.Reject(ctx, "unexpected proposal type")
			got <- res{nil, errors.Errorf("unexpected proposal %T", cp)}
			return
		}
		acc := lp.Accept(map[wallet.BackendID]wallet.Address{0: pr.P[other].Acc.Address()}, client.WithRandomNonce())
		ch, err := r.Accept(ctx, acc)
		got <- res{ch, err}
	}, nil)
	opts := []client.ProposalOpts{client.WithRandomNonce()}
	if fund != nil {
		f := toBalances(fund)
		if by == 1 {
			for i := range f {
				f[i][0], f[i][1] = f[i][1], f[i][0]
			}
		}
		opts = append(opts, client.WithFundingAgreement(f))
	}
	if app != nil {
		opts = append(opts, client.WithApp(app, data))
	}
	ib := init
	if by == 1 {
		// participant 0 of the channel is the proposer
		ib = make([][2]*big.Int, len(init))
		for i := range init {
			ib[i] = [2]*big.Int{init[i][1], init[i][0]}
		}
	}
	prop, err := client.NewLedgerChannelProposal(challenge,
		map[wallet.BackendID]wallet.Address{0: pr.P[by].Acc.Address()},
		MakeAlloc(assets, ib),
		[]map[wallet.BackendID]wire.Address{pr.P[by].WireAddr, pr.P[other].WireAddr}, opts...)
	if err != nil {
		return chs, errors.WithMessage(err, "creating proposal")
	}
	ch, err := pr.P[by].Client.ProposeChannel(ctx, prop)
	if err != nil {
		return chs, errors.WithMessage(err, "proposer")
	}
	select {
	case r := <-got:
		if r.err != nil {
			return chs, errors.WithMessage(r.err, "responder")
		}
		chs[by], chs[other] = ch, r.ch
	case <-ctx.Done():
		return chs, errors.New("responder did not finish opening (hang limit)")
	}
	return chs, nil
}

// Idx returns the channel index of party p in channel ch.
func Idx(ch *client.Channel) int { return int(ch.Idx()) }

// Transfer is the update function for a payment of amount from channel index
// `from` to the other participant.
func Transfer(asset int, from int, amount *big.Int, final bool) func(*channel.State) {
	return func(s *channel.State) {
		if amount != nil && amount.Sign() != 0 {
			s.Balances[asset][from] = new(big.Int).Sub(s.Balances[asset][from], amount)
			s.Balances[asset][from^1] = new(big.Int).Add(s.Balances[asset][from^1], amount)
		}
		if final {
			s.IsFinal = true
		}
	}
}

// Update lets party `by` propose an update on its handle ch; the peer answers
// according to accept.
func (pr *Pair) Update(by int, ch *client.Channel, f func(*channel.State), accept bool) error {
	return pr.UpdateLimit(by, ch, f, accept, HangLimit)
}

// UpdateLimit is Update with an explicit context timeout.
func (pr *Pair) UpdateLimit(by int, ch *client.Channel, f func(*channel.State), accept bool, limit time.Duration) error {
	pr.accept[by^1].Store(accept)
	ctx, cancel := context.WithTimeout(context.Background(), limit)
	defer cancel()
	return ch.Update(ctx, f)
}

// OpenSub lets party `by` propose a sub-channel of the ledger channel with the
// given balances (indexed by party, not by channel index).  The peer accepts
// from a goroutine after its proposal handler has returned.
func (pr *Pair) OpenSub(by int, bals [][2]*big.Int, challenge uint64) error {
	chs, err := pr.OpenSubExtra(by, bals, challenge)
	if err != nil {
		return err
	}
	pr.Sub = chs
	pr.SubBy = by
	return nil
}

// OpenSubExtra opens a (further) sub-channel of the ledger channel and returns
// its two handles (indexed by party) without making it "the" sub-channel of
// the pair.
func (pr *Pair) OpenSubExtra(by int, bals [][2]*big.Int, challenge uint64) (chs [2]*client.Channel, _ error) {
	ctx, cancel := context.WithTimeout(context.Background(), HangLimit)
	defer cancel()
	other := by ^ 1
	type res struct {
		ch  *client.Channel
		err error
	}
	got := make(chan res, 1)
	pr.accept[other].Store(true)
	pr.P[other].SetHandlers(func(cp client.ChannelProposal, r *client.ProposalResponder) {
		sp, ok := cp.(*client.SubChannelProposalMsg)
		if !ok {
			got <- res{nil, errors.Errorf("unexpected proposal %T", cp)}
			return
		}
		go func() {
			ch, err := r.Accept(ctx, sp.Accept(client.WithRandomNonce()))
			got <- res{ch, err}
		}()
	}, nil)
	parent := pr.Ch[by]
	// balances in the order of the parent's participants
	pb := make([][2]*big.Int, len(bals))
	for i := range bals {
		pb[i][Idx(pr.Ch[0])] = bals[i][0]
		pb[i][Idx(pr.Ch[1])] = bals[i][1]
	}
	prop, err := client.NewSubChannelProposal(parent.ID(), challenge, MakeAlloc(pr.Assets, pb), client.WithRandomNonce())
	if err != nil {
		return chs, errors.WithMessage(err, "creating sub-channel proposal")
	}
	ch, err := pr.P[by].Client.ProposeChannel(ctx, prop)
	if err != nil {
		// the responder may still be waiting for the funding update: let it time out in the background
		return chs, errors.WithMessage(err, "sub-channel proposer")
	}
	select {
	case r := <-got:
		if r.err != nil {
			return chs, errors.WithMessage(r.err, "sub-channel responder")
		}
		chs[by], chs[other] = ch, r.ch
	case <-ctx.Done():
		return chs, errors.New("sub-channel responder did not finish (hang limit)")
	}
	return chs, nil
}

// CloseSub finalises the open sub-channel (final update by its index 0) and
// settles it into the parent from both sides.
func (pr *Pair) CloseSub() error {
	if err := pr.FinalizeSub(); err != nil {
		return err
	}
	return pr.SettleSub()
}

// FinalizeSub makes the final update of the open sub-channel (proposed by its
// index 0).
func (pr *Pair) FinalizeSub() error { return pr.FinalizeSubWith(nil) }

// FinalizeSubWith makes the final update of the open sub-channel; f (may be
// nil) can move funds in the same update.
func (pr *Pair) FinalizeSubWith(f func(*channel.State)) error {
	by := pr.SubBy
	if err := pr.Update(by, pr.Sub[by], func(s *channel.State) {
		if f != nil {
			f(s)
		}
		s.IsFinal = true
	}, true); err != nil {
		return errors.WithMessage(err, "final sub-channel update")
	}
	return nil
}

// SettleSub settles the finalised sub-channel into the parent from both sides.
func (pr *Pair) SettleSub() error {
	ctx, cancel := context.WithTimeout(context.Background(), HangLimit)
	defer cancel()
	pr.accept[0].Store(true)
	pr.accept[1].Store(true)
	var wg sync.WaitGroup
	errs := make([]error, 2)
	for i := 0; i < 2; i++ {
		wg.Add(1)
		go func(i int) {
			defer wg.Done()
			errs[i] = pr.Sub[i].Settle(ctx, false)
		}(i)
	}
	wg.Wait()
	for i, e := range errs {
		if e != nil {
			return errors.WithMessagef(e, "settling sub-channel at party %d", i)
		}
	}
	pr.Sub = [2]*client.Channel{}
	return nil
}

// SettleResult is the outcome of one Settle call.
// SlowCtx is a context whose k-th Done() call takes DelaysUs[k] microseconds.
// The library asks a context for its Done channel right before it waits for a
// lock, so a scenario can hold one go routine of a call back for a moment
// while the others go on: schedule control without touching the library.
type SlowCtx struct {
	context.Context
	DelaysUs []int
	n        atomic.Int32
}

// Done implements context.Context.
func (s *SlowCtx) Done() <-chan struct{} {
	k := int(s.n.Add(1)) - 1
	if k < len(s.DelaysUs) && s.DelaysUs[k] > 0 {
		time.Sleep(time.Duration(s.DelaysUs[k]) * time.Microsecond)
	}
	return s.Context.Done()
}

type SettleResult struct {
	Err  error
	Hung bool
}

// Settle runs Channel.Settle on the ledger channel for the parties in `order`
// (a party listed alone settles before the next starts; "both" = concurrently)
// and advances the logical clock whenever all running calls are parked on it.
func (pr *Pair) Settle(order []int, concurrent bool, secondary [2]bool) [2]SettleResult {
	var res [2]SettleResult
	ctx, cancel := context.WithTimeout(context.Background(), HangLimit)
	defer cancel()
	run := func(parties []int) {
		done := make(chan int, len(parties))
		for _, i := range parties {
			go func(i int) {
				var sctx context.Context = ctx
				if len(pr.SettleCtxDelay[i]) > 0 {
					sctx = &SlowCtx{Context: ctx, DelaysUs: pr.SettleCtxDelay[i]}
				}
				res[i].Err = pr.Ch[i].Settle(sctx, secondary[i])
				done <- i
			}(i)
		}
		pending := len(parties)
		for pending > 0 {
			select {
			case <-done:
				pending--
			case <-time.After(3 * time.Millisecond):
				pr.Env.AdvanceIfParked()
			case <-ctx.Done():
				for _, i := range parties {
					res[i].Hung = true
				}
				return
			}
		}
	}
	if concurrent {
		run(order)
	} else {
		for _, i := range order {
			run([]int{i})
		}
	}
	return res
}

// AdvanceIfParked moves the logical clock to the earliest awaited time if some
// goroutine waits on the clock and the world is otherwise idle.
func (e *Env) AdvanceIfParked() bool {
	n, min := e.Ledger.Clock.Waiters()
	if n == 0 {
		return false
	}
	if !e.Quiesce(15*time.Millisecond, 2*time.Second) {
		return false
	}
	n2, min2 := e.Ledger.Clock.Waiters()
	if n2 == 0 {
		return false
	}
	if min2 < min {
		min = min2
	}
	e.Ledger.Clock.Advance(min)
	return true
}

// Describe formats a channel id for messages.
func Describe(id channel.ID) string { return fmt.Sprintf("%x", id[:4]) }
