package gen

import (
	"math/big"

	"pgregory.net/rapid"
)

// Mut is a single-field mutation of a StateSpec.  Kind selects the field,
// I/J/K address it (taken modulo the available size), V is a small value
// parameter.
type Mut struct {
	Kind string `json:"kind"`
	I    int    `json:"i"`
	J    int    `json:"j"`
	V    uint64 `json:"v"`
}

// MutKinds lists all single-field mutation kinds.
var MutKinds = []string{
	"none", "id", "version", "final", "appkind", "appdef", "op",
	"bal", "balset", "asset", "backend",
	"lockid", "lockbal", "imapentry", "imapgrow", "imapshrink", "imapnil",
	"addpart", "delpart", "addasset", "delasset", "addlock", "dellock",
	"swapbal", "swapasset", "swaplock", "swaprow",
}

// GenMut draws a mutation.
func GenMut() *rapid.Generator[Mut] {
	return rapid.Custom(func(t *rapid.T) Mut {
		return Mut{
			Kind: rapid.SampledFrom(MutKinds).Draw(t, "mutkind"),
			I:    rapid.IntRange(0, 7).Draw(t, "i"),
			J:    rapid.IntRange(0, 7).Draw(t, "j"),
			V:    uint64(rapid.IntRange(1, 3).Draw(t, "v")),
		}
	})
}

func addBig(b Big, d int64) Big {
	v := b.Int()
	v.Add(v, big.NewInt(d))
	if v.Sign() < 0 {
		v.SetInt64(0)
	}
	return BigOf(v)
}

// Apply returns a mutated deep copy of s and whether the mutation was
// applicable (otherwise the copy is unchanged).
func (m Mut) Apply(s StateSpec) (StateSpec, bool) {
	c := s.Clone()
	a := &c.Alloc
	na := len(a.Assets)
	np := 0
	if len(a.Bals) > 0 {
		np = len(a.Bals[0])
	}
	nl := len(a.Locked)
	switch m.Kind {
	case "none":
		return c, true
	case "id":
		b := c.ID.Bytes()
		b[m.I%len(b)] ^= byte(m.V)
		c.ID = HexOf(b)
	case "version":
		c.Version += m.V
	case "final":
		c.Final = !c.Final
	case "appkind":
		switch c.App.Kind {
		case "none", "":
			d := make([]byte, 64)
			d[0] = 0x51
			c.App = AppSpec{Kind: "mock", Def: HexOf(d)}
			c.Op = 0
		default:
			c.App = AppSpec{Kind: "none"}
			c.Op = 0
		}
	case "appdef":
		if c.App.Kind == "none" || c.App.Kind == "" {
			return c, false
		}
		b := c.App.Def.Bytes()
		b[1+m.I%(len(b)-1)] ^= byte(m.V)
		c.App.Def = HexOf(b)
	case "op":
		if c.App.Kind != "mock" {
			return c, false
		}
		c.Op += m.V
	case "bal":
		if na == 0 || np == 0 {
			return c, false
		}
		a.Bals[m.I%na][m.J%np] = addBig(a.Bals[m.I%na][m.J%np], int64(m.V))
	case "balset":
		if na == 0 || np == 0 {
			return c, false
		}
		a.Bals[m.I%na][m.J%np] = BigU(m.V << 60)
	case "asset":
		if na == 0 {
			return c, false
		}
		a.Assets[m.I%na] += m.V
	case "backend":
		if na == 0 {
			return c, false
		}
		a.Backends[m.I%na] += int(m.V)
	case "lockid":
		if nl == 0 {
			return c, false
		}
		b := a.Locked[m.I%nl].ID.Bytes()
		b[m.J%len(b)] ^= byte(m.V)
		a.Locked[m.I%nl].ID = HexOf(b)
	case "lockbal":
		if nl == 0 || len(a.Locked[m.I%nl].Bals) == 0 {
			return c, false
		}
		l := &a.Locked[m.I%nl]
		l.Bals[m.J%len(l.Bals)] = addBig(l.Bals[m.J%len(l.Bals)], int64(m.V))
	case "imapentry":
		if nl == 0 || len(a.Locked[m.I%nl].IndexMap) == 0 {
			return c, false
		}
		l := &a.Locked[m.I%nl]
		l.IndexMap[m.J%len(l.IndexMap)] += uint16(m.V)
	case "imapgrow":
		if nl == 0 {
			return c, false
		}
		l := &a.Locked[m.I%nl]
		l.NilMap = false
		l.IndexMap = append(l.IndexMap, uint16(m.V))
	case "imapshrink":
		if nl == 0 || len(a.Locked[m.I%nl].IndexMap) == 0 {
			return c, false
		}
		l := &a.Locked[m.I%nl]
		l.IndexMap = l.IndexMap[:len(l.IndexMap)-1]
	case "imapnil":
		// nil <-> empty: must stay equal and encode identically
		if nl == 0 || len(a.Locked[m.I%nl].IndexMap) != 0 {
			return c, false
		}
		l := &a.Locked[m.I%nl]
		l.NilMap = !l.NilMap
		if !l.NilMap {
			l.IndexMap = []uint16{}
		} else {
			l.IndexMap = nil
		}
	case "addpart":
		if na == 0 {
			return c, false
		}
		for i := range a.Bals {
			a.Bals[i] = append(a.Bals[i], BigU(m.V-1))
		}
	case "delpart":
		if na == 0 || np < 2 {
			return c, false
		}
		for i := range a.Bals {
			a.Bals[i] = a.Bals[i][:np-1]
		}
	case "addasset":
		a.Assets = append(a.Assets, m.V)
		a.Backends = append(a.Backends, 0)
		row := make([]Big, np)
		for j := range row {
			row[j] = BigU(m.V - 1)
		}
		a.Bals = append(a.Bals, row)
		for i := range a.Locked {
			a.Locked[i].Bals = append(a.Locked[i].Bals, BigU(m.V-1))
		}
	case "delasset":
		if na < 2 {
			return c, false
		}
		a.Assets = a.Assets[:na-1]
		a.Backends = a.Backends[:na-1]
		a.Bals = a.Bals[:na-1]
		for i := range a.Locked {
			if len(a.Locked[i].Bals) == na {
				a.Locked[i].Bals = a.Locked[i].Bals[:na-1]
			}
		}
	case "addlock":
		l := SubAllocSpec{ID: HexOf(append(make([]byte, 31), byte(m.V))), Bals: make([]Big, na), IndexMap: []uint16{}}
		for j := range l.Bals {
			l.Bals[j] = BigU(m.V - 1)
		}
		a.Locked = append(a.Locked, l)
	case "dellock":
		if nl == 0 {
			return c, false
		}
		k := m.I % nl
		a.Locked = append(a.Locked[:k], a.Locked[k+1:]...)
	case "swapbal":
		if na == 0 || np < 2 {
			return c, false
		}
		r := a.Bals[m.I%na]
		x, y := m.J%np, (m.J+1)%np
		r[x], r[y] = r[y], r[x]
	case "swapasset":
		if na < 2 {
			return c, false
		}
		x, y := m.I%na, (m.I+1)%na
		a.Assets[x], a.Assets[y] = a.Assets[y], a.Assets[x]
	case "swaprow":
		if na < 2 {
			return c, false
		}
		x, y := m.I%na, (m.I+1)%na
		a.Bals[x], a.Bals[y] = a.Bals[y], a.Bals[x]
	case "swaplock":
		if nl < 2 {
			return c, false
		}
		x, y := m.I%nl, (m.I+1)%nl
		a.Locked[x], a.Locked[y] = a.Locked[y], a.Locked[x]
	default:
		panic("gen: unknown mutation " + m.Kind)
	}
	return c, true
}
