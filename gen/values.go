// Package gen holds the value generators of the harness.  Every generated
// value is first a plain, JSON-serialisable *spec* (so that a failing case can
// be written to a replay file and rebuilt on fresh keys) and is turned into
// the go-perun value by Build.
package gen

import (
	crand "crypto/rand"
	"encoding/hex"
	"fmt"
	"math/big"
	"sync"

	"pgregory.net/rapid"

	_ "perun.network/go-perun/backend/sim" // registers the sim backends (id 0)
	simchannel "perun.network/go-perun/backend/sim/channel"
	simwallet "perun.network/go-perun/backend/sim/wallet"

	"perun.network/go-perun/apps/payment"
	"perun.network/go-perun/channel"
	"perun.network/go-perun/log"
	"perun.network/go-perun/wallet"
)

// ---------------------------------------------------------------- setup

var setupOnce sync.Once

// PaymentDefByte marks app definitions that resolve to the payment app.
const PaymentDefByte = 0x50

// Setup registers the app resolvers used by the harness (idempotent) and
// silences the framework logger.
func Setup() {
	setupOnce.Do(func() {
		log.Set(nil)
		channel.RegisterAppResolver(func(id channel.AppID) bool {
			b, err := id.MarshalBinary()
			return err == nil && len(b) > 0 && b[0] == PaymentDefByte
		}, &payment.Resolver{})
		channel.RegisterDefaultApp(&channel.MockAppResolver{})
	})
}

// ---------------------------------------------------------------- keys

var (
	keyMu sync.Mutex
	keys  []*simwallet.Account
)

// Acc returns account i of the per-process key pool.  Keys are NOT part of a
// case: the sim backend's key generation is not reproducible, so cases refer
// to participants by pool index.
func Acc(i int) *simwallet.Account {
	keyMu.Lock()
	defer keyMu.Unlock()
	for len(keys) <= i {
		keys = append(keys, simwallet.NewRandomAccount(crand.Reader))
	}
	return keys[i]
}

// Addr returns the address map of pool account i.
func Addr(i int) map[wallet.BackendID]wallet.Address {
	return map[wallet.BackendID]wallet.Address{0: Acc(i).Address()}
}

// ---------------------------------------------------------------- big ints

// Big is a big integer in a case: hex digits with an optional leading '-'.
type Big string

// Int converts to *big.Int.
func (b Big) Int() *big.Int {
	s := string(b)
	neg := false
	if len(s) > 0 && s[0] == '-' {
		neg = true
		s = s[1:]
	}
	if s == "" {
		s = "0"
	}
	v, ok := new(big.Int).SetString(s, 16)
	if !ok {
		panic("gen.Big: bad literal " + string(b))
	}
	if neg {
		v.Neg(v)
	}
	return v
}

// BigOf converts from *big.Int.
func BigOf(v *big.Int) Big {
	if v.Sign() < 0 {
		return Big("-" + new(big.Int).Neg(v).Text(16))
	}
	return Big(v.Text(16))
}

// BigU is BigOf(uint64).
func BigU(v uint64) Big { return BigOf(new(big.Int).SetUint64(v)) }

// GenBal draws a non-negative balance from a size-biased mix.
func GenBal() *rapid.Generator[Big] {
	return rapid.Custom(func(t *rapid.T) Big {
		switch rapid.IntRange(0, 9).Draw(t, "balkind") {
		case 0:
			return "0"
		case 1:
			return "1"
		case 2, 3, 4, 5:
			return BigU(rapid.Uint64Range(0, 1000).Draw(t, "small"))
		case 6:
			return BigU(rapid.Uint64().Draw(t, "u64"))
		case 7:
			// around 2^64
			d := rapid.IntRange(-2, 2).Draw(t, "d")
			v := new(big.Int).Lsh(big.NewInt(1), 64)
			return BigOf(v.Add(v, big.NewInt(int64(d))))
		case 8:
			n := rapid.IntRange(9, 32).Draw(t, "len")
			return bigBytes(t, n)
		default:
			n := rapid.IntRange(33, 128).Draw(t, "len")
			return bigBytes(t, n)
		}
	})
}

func bigBytes(t *rapid.T, n int) Big {
	b := rapid.SliceOfN(rapid.Byte(), n, n).Draw(t, "bytes")
	if b[0] == 0 {
		b[0] = 1
	}
	return BigOf(new(big.Int).SetBytes(b))
}

// GenSmallBal draws a small balance (for protocol scenarios).
func GenSmallBal() *rapid.Generator[Big] {
	return rapid.Custom(func(t *rapid.T) Big {
		return BigU(rapid.Uint64Range(0, 200).Draw(t, "bal"))
	})
}

// ---------------------------------------------------------------- specs

// Hex is a byte string in a case.
type Hex string

// Bytes decodes.
func (h Hex) Bytes() []byte {
	b, err := hex.DecodeString(string(h))
	if err != nil {
		panic("gen.Hex: " + err.Error())
	}
	return b
}

// HexOf encodes.
func HexOf(b []byte) Hex { return Hex(hex.EncodeToString(b)) }

// ID32 converts to a channel ID (short input is right-padded with zeros).
func (h Hex) ID32() (id channel.ID) {
	copy(id[:], h.Bytes())
	return
}

// SubAllocSpec describes a channel.SubAlloc.
type SubAllocSpec struct {
	ID       Hex      `json:"id"`
	Bals     []Big    `json:"bals"`
	IndexMap []uint16 `json:"imap"` // nil and empty are kept distinct
	NilMap   bool     `json:"nilmap,omitempty"`
}

// Build converts to the go-perun value.
func (s SubAllocSpec) Build() channel.SubAlloc {
	sa := channel.SubAlloc{ID: s.ID.ID32(), Bals: buildBals(s.Bals)}
	if !s.NilMap {
		sa.IndexMap = make([]channel.Index, len(s.IndexMap))
		for i, x := range s.IndexMap {
			sa.IndexMap[i] = channel.Index(x)
		}
	}
	return sa
}

func buildBals(b []Big) []channel.Bal {
	if b == nil {
		return nil
	}
	out := make([]channel.Bal, len(b))
	for i, x := range b {
		out[i] = x.Int()
	}
	return out
}

// AllocSpec describes a channel.Allocation.
type AllocSpec struct {
	Assets   []uint64       `json:"assets"`
	Backends []int          `json:"backends"`
	Bals     [][]Big        `json:"bals"`
	Locked   []SubAllocSpec `json:"locked"`
}

// Build converts to the go-perun value.
func (a AllocSpec) Build() channel.Allocation {
	var al channel.Allocation
	if a.Assets != nil {
		al.Assets = make([]channel.Asset, len(a.Assets))
		for i, id := range a.Assets {
			al.Assets[i] = &simchannel.Asset{ID: id}
		}
	}
	if a.Backends != nil {
		al.Backends = make([]wallet.BackendID, len(a.Backends))
		for i, b := range a.Backends {
			al.Backends[i] = wallet.BackendID(b)
		}
	}
	if a.Bals != nil {
		al.Balances = make(channel.Balances, len(a.Bals))
		for i, row := range a.Bals {
			al.Balances[i] = buildBals(row)
		}
	}
	if a.Locked != nil {
		al.Locked = make([]channel.SubAlloc, len(a.Locked))
		for i, l := range a.Locked {
			al.Locked[i] = l.Build()
		}
	}
	return al
}

// Clone deep-copies the spec.
func (a AllocSpec) Clone() AllocSpec {
	c := AllocSpec{}
	c.Assets = append([]uint64(nil), a.Assets...)
	c.Backends = append([]int(nil), a.Backends...)
	if a.Bals != nil {
		c.Bals = make([][]Big, len(a.Bals))
		for i := range a.Bals {
			c.Bals[i] = append([]Big{}, a.Bals[i]...)
		}
	}
	if a.Locked != nil {
		c.Locked = make([]SubAllocSpec, len(a.Locked))
		for i, l := range a.Locked {
			c.Locked[i] = SubAllocSpec{ID: l.ID, Bals: append([]Big{}, l.Bals...), NilMap: l.NilMap}
			if l.IndexMap != nil {
				c.Locked[i].IndexMap = append([]uint16{}, l.IndexMap...)
			}
		}
	}
	return c
}

// AppSpec describes an app: Kind "none", "payment" or "mock" with a 64 byte
// definition (sim address).
type AppSpec struct {
	Kind string `json:"kind"`
	Def  Hex    `json:"def,omitempty"`
}

// Build converts to the go-perun value.
func (a AppSpec) Build() channel.App {
	switch a.Kind {
	case "", "none":
		return channel.NoApp()
	case "payment":
		return &payment.App{ID: appID(a.Def)}
	case "mock":
		return channel.NewMockApp(appID(a.Def))
	}
	panic("gen: unknown app kind " + a.Kind)
}

func appID(def Hex) channel.AppID {
	addr := &simwallet.Address{}
	b := def.Bytes()
	if len(b) != 64 {
		panic(fmt.Sprintf("gen: app def must have 64 bytes, has %d", len(b)))
	}
	if err := addr.UnmarshalBinary(b); err != nil {
		panic(err)
	}
	return simchannel.AppID{Address: addr}
}

// DataFor builds the data value: mock apps carry an 8 byte MockOp.
func (a AppSpec) DataFor(op uint64) channel.Data {
	if a.Kind == "mock" {
		return channel.NewMockOp(channel.MockOp(op))
	}
	return channel.NoData()
}

// StateSpec describes a channel.State.
type StateSpec struct {
	ID      Hex       `json:"id"`
	Version uint64    `json:"version"`
	App     AppSpec   `json:"app"`
	Op      uint64    `json:"op"` // MockOp data for mock apps
	Final   bool      `json:"final"`
	Alloc   AllocSpec `json:"alloc"`
}

// Build converts to the go-perun value.
func (s StateSpec) Build() *channel.State {
	return &channel.State{
		ID: s.ID.ID32(), Version: s.Version, App: s.App.Build(), Data: s.App.DataFor(s.Op),
		IsFinal: s.Final, Allocation: s.Alloc.Build(),
	}
}

// Clone deep-copies the spec.
func (s StateSpec) Clone() StateSpec {
	c := s
	c.Alloc = s.Alloc.Clone()
	return c
}

// ---------------------------------------------------------------- generators

// GenID draws a 32 byte id.
func GenID() *rapid.Generator[Hex] {
	return rapid.Custom(func(t *rapid.T) Hex {
		if rapid.IntRange(0, 9).Draw(t, "idkind") == 0 {
			return HexOf(make([]byte, 32))
		}
		return HexOf(rapid.SliceOfN(rapid.Byte(), 32, 32).Draw(t, "id"))
	})
}

// GenApp draws an app spec.
func GenApp() *rapid.Generator[AppSpec] {
	return rapid.Custom(func(t *rapid.T) AppSpec {
		switch rapid.IntRange(0, 3).Draw(t, "appkind") {
		case 0, 1:
			return AppSpec{Kind: "none"}
		case 2:
			d := rapid.SliceOfN(rapid.Byte(), 64, 64).Draw(t, "def")
			d[0] = PaymentDefByte
			return AppSpec{Kind: "payment", Def: HexOf(d)}
		default:
			d := rapid.SliceOfN(rapid.Byte(), 64, 64).Draw(t, "def")
			if d[0] == PaymentDefByte {
				d[0] = 0x51
			}
			return AppSpec{Kind: "mock", Def: HexOf(d)}
		}
	})
}

// AllocOpts steers GenAlloc.
type AllocOpts struct {
	MinAssets, MaxAssets int
	Parts                int // 0 = draw 1..5
	MaxLocked            int
	Bal                  *rapid.Generator[Big]
	SubParts             int // participants of sub-channels for index maps (0 = draw)
}

// GenIndexMap draws an index map for a sub-allocation in a parent with
// `parts` participants: nil, empty, a valid map or arbitrary entries.
func GenIndexMap(parts int) *rapid.Generator[SubAllocSpec] {
	return rapid.Custom(func(t *rapid.T) SubAllocSpec {
		var s SubAllocSpec
		switch rapid.IntRange(0, 4).Draw(t, "imapkind") {
		case 0:
			s.NilMap = true
		case 1:
			s.IndexMap = []uint16{}
		case 2, 3:
			n := rapid.IntRange(1, 3).Draw(t, "n")
			s.IndexMap = make([]uint16, n)
			for i := range s.IndexMap {
				s.IndexMap[i] = uint16(rapid.IntRange(0, max(parts-1, 0)).Draw(t, "e"))
			}
		default:
			s.IndexMap = rapid.SliceOfN(rapid.Uint16(), 1, 4).Draw(t, "arb")
		}
		return s
	})
}

// GenAlloc draws a valid allocation spec.
func GenAlloc(o AllocOpts) *rapid.Generator[AllocSpec] {
	return rapid.Custom(func(t *rapid.T) AllocSpec {
		if o.MaxAssets == 0 {
			o.MinAssets, o.MaxAssets = 1, 4
		}
		if o.Bal == nil {
			o.Bal = GenBal()
		}
		na := rapid.IntRange(o.MinAssets, o.MaxAssets).Draw(t, "nassets")
		np := o.Parts
		if np == 0 {
			np = []int{2, 2, 2, 1, 3, 4, 5}[rapid.IntRange(0, 6).Draw(t, "nparts")]
		}
		var a AllocSpec
		a.Assets = make([]uint64, na)
		a.Backends = make([]int, na)
		a.Bals = make([][]Big, na)
		for i := 0; i < na; i++ {
			if rapid.Bool().Draw(t, "smallasset") {
				a.Assets[i] = uint64(rapid.IntRange(0, 5).Draw(t, "asset"))
			} else {
				a.Assets[i] = rapid.Uint64().Draw(t, "asset")
			}
			a.Bals[i] = make([]Big, np)
			for j := range a.Bals[i] {
				a.Bals[i][j] = o.Bal.Draw(t, "bal")
			}
		}
		nl := 0
		if o.MaxLocked > 0 && rapid.Bool().Draw(t, "haslocked") {
			nl = rapid.IntRange(1, o.MaxLocked).Draw(t, "nlocked")
		}
		a.Locked = make([]SubAllocSpec, nl)
		for i := range a.Locked {
			s := GenIndexMap(np).Draw(t, "imap")
			s.ID = GenID().Draw(t, "lockid")
			s.Bals = make([]Big, na)
			for j := range s.Bals {
				s.Bals[j] = o.Bal.Draw(t, "lbal")
			}
			a.Locked[i] = s
		}
		return a
	})
}

// GenState draws a valid (encodable) state spec.
func GenState(o AllocOpts) *rapid.Generator[StateSpec] {
	return rapid.Custom(func(t *rapid.T) StateSpec {
		var s StateSpec
		s.ID = GenID().Draw(t, "id")
		switch rapid.IntRange(0, 5).Draw(t, "verkind") {
		case 0:
			s.Version = 0
		case 1:
			s.Version = ^uint64(0)
		case 2:
			s.Version = rapid.Uint64().Draw(t, "ver")
		default:
			s.Version = uint64(rapid.IntRange(0, 100).Draw(t, "ver"))
		}
		s.App = GenApp().Draw(t, "app")
		if s.App.Kind == "mock" {
			if rapid.Bool().Draw(t, "opsmall") {
				s.Op = uint64(rapid.IntRange(0, 4).Draw(t, "op"))
			} else {
				s.Op = rapid.Uint64().Draw(t, "op")
			}
		}
		s.Final = rapid.Bool().Draw(t, "final")
		s.Alloc = GenAlloc(o).Draw(t, "alloc")
		return s
	})
}
